#!/bin/sh
# Build the framework offline from files on disk: regenerate tables from /repo, build the Lean
# model, every property's theorems and the compiled model driver.
cd "$(dirname "$0")" || exit 2
set -e
export PYTHONDONTWRITEBYTECODE=1
mkdir -p work evidence
/venv/bin/python harness/gen_tables.py >/dev/null
cd lean
lake build
