def hello := "world"
