/-!
# Line protocol helpers (driver side)

One request per line, tokens separated by one space.  Strings travel as the hex of their UTF-8
bytes (`-` is the empty string), lists of strings as comma separated hex tokens (`.` is the
empty list), numbers in decimal.
-/
namespace StepupModel.Proto

def hexVal (c : Char) : Option Nat :=
  if '0' ≤ c ∧ c ≤ '9' then some (c.toNat - '0'.toNat)
  else if 'a' ≤ c ∧ c ≤ 'f' then some (c.toNat - 'a'.toNat + 10)
  else none

def hexBytes : List Char → Option (List UInt8)
  | [] => some []
  | [_] => none
  | a :: b :: rest => do
    let x ← hexVal a
    let y ← hexVal b
    let r ← hexBytes rest
    pure (UInt8.ofNat (16 * x + y) :: r)

def unhexBytes (tok : String) : Option (List UInt8) :=
  if tok = "-" then some [] else hexBytes tok.toList

def unhex (tok : String) : Option String := do
  let bs ← unhexBytes tok
  String.fromUTF8? (ByteArray.mk bs.toArray)

def unhexList (tok : String) : Option (List String) :=
  if tok = "." then some [] else (tok.splitOn ",").mapM unhex

def hexDigit (n : Nat) : Char :=
  if n < 10 then Char.ofNat (n + 48) else Char.ofNat (n - 10 + 97)

def hexOfBytes (bs : List UInt8) : String :=
  if bs.isEmpty then "-"
  else String.ofList (bs.flatMap fun b => [hexDigit (b.toNat / 16), hexDigit (b.toNat % 16)])

def hex (s : String) : String := hexOfBytes s.toUTF8.toList

def hexList (l : List String) : String :=
  if l.isEmpty then "." else ",".intercalate (l.map hex)

def cps (s : String) : List Nat := s.toList.map Char.toNat
def ofCps (l : List Nat) : String := String.ofList (l.map Char.ofNat)

def boolStr (b : Bool) : String := if b then "1" else "0"

end StepupModel.Proto
