import StepupModel.Lemmas.DisciplineReset
import StepupModel.Lemmas.DisciplineReveal
import StepupModel.Lemmas.Reach
/-!
# The flag discipline: `Trellis.create`, `Node.reattach`, `INSERT INTO dependency`

The operations that make rows visible, with the lemma of `Lemmas/DisciplineReveal.lean`.
-/
namespace StepupModel.K.Discipline
open StepupModel.K.MetaAfter StepupModel.Lemmas StepupModel.K.Sk
set_option linter.unusedSimpArgs false
set_option linter.unusedVariables false

/-! ## From row-by-row relations to `Reveal` -/

/-- Rows of the keys in `X` may change in any way (keeping the key), the others softly. -/
def UR (X : Key → Prop) (n n' : Node) : Prop := n'.key = n.key ∧ (¬ X n.key → SoftRow n n')

theorem UR.refl (X : Key → Prop) (n : Node) : UR X n n := ⟨rfl, fun _ => SoftRow.refl n⟩

theorem UR.trans (X : Key → Prop) (a b c : Node) (h1 : UR X a b) (h2 : UR X b c) : UR X a c :=
  ⟨h2.1.trans h1.1, fun hx => SoftRow.trans a b c (h1.2 hx) (h2.2 (by rw [h1.1]; exact hx))⟩

theorem ur_of_soft {X : Key → Prop} {s s' : KState} (h : SoftRel s s') : All₂ (UR X) s.nodes s'.nodes :=
  all₂_imp (fun a b hr => ⟨hr.1, fun _ => hr⟩) h.rows

theorem ur_modify (X : Key → Prop) (s : KState) (k : Key) (f : Node → Node) (hk : ∀ n, (f n).key = n.key) (hX : X k) :
    All₂ (UR X) s.nodes (s.modify k f).nodes := by
  unfold KState.modify
  refine forall₂_map _ _ fun n _ => ?_
  by_cases h : n.key = k
  · rw [if_pos h]; exact ⟨hk n, fun hx => absurd (h ▸ hX) hx⟩
  · rw [if_neg h]; exact UR.refl X n

theorem ur_trans {X : Key → Prop} {a b c : List Node} (h1 : All₂ (UR X) a b) (h2 : All₂ (UR X) b c) : All₂ (UR X) a c :=
  forall₂_trans (UR.trans X) h1 h2

/-- A row-by-row relation, a filtered dependency table and hidden rows give a revelation. -/
theorem reveal_of_rows {X : Key → Prop} {rem : Dep → Bool} {s s' : KState} (hrows : All₂ (UR X) s.nodes s'.nodes)
    (hdeps : s'.deps = s.deps.filter fun d => !rem d) (hrem : ∀ d ∈ s.deps, rem d = true → X d.snk)
    (hidden : ∀ c, X c → ∀ n, s.find? c = some n → n.detached = true) : Reveal X rem s s' := by
  refine ⟨hdeps, hrem, ?_, ?_, hidden⟩
  · intro c hc
    have := find?_all₂ (R := UR X) (fun _ _ hr => hr.1) c hrows
    unfold KState.find?
    revert this
    cases hf : s.nodes.find? (·.key = c) <;> cases hf' : s'.nodes.find? (·.key = c) <;> intro this
    · trivial
    · exact this.elim
    · exact this.elim
    · rename_i n n'
      have hk : n.key = c := by have := List.find?_some hf; simpa using this
      exact this.2 (by rw [hk]; exact hc)
  · intro n' hn' hx
    obtain ⟨n, hn, hr⟩ := forall₂_mem_right hrows n' hn'
    exact ⟨n, hn, hr.2 (by rw [← hr.1]; exact hx)⟩

/-! ## `INSERT INTO dependency` -/

theorem insertDep_eq {s s' : KState} {a b : Key} (h : s.insertDep a b = .ok s') :
    s' = ({ (s.flagDepEndpoints a b) with deps := (s.flagDepEndpoints a b).deps ++ [({ src := a, snk := b } : Dep)] } : KState) ∧
      s.hasDep a b = false ∧ depKindOk a.kind b.kind = true := by
  unfold KState.insertDep at h
  simp only [bind, Except.bind] at h
  split at h
  · cases h
  · rename_i h1
    split at h
    · cases h
    · rename_i h2
      simp only [pure, Except.pure, Except.ok.injEq] at h
      subst h
      exact ⟨rfl, by simpa using h1, by simpa using h2⟩

/-- **`INSERT INTO dependency` preserves the flag discipline** (and any debt): the trigger flags the two
endpoints; the producers of the source file, two hops upstream of the sink, are not flagged and need
not be, because the sink is. -/
theorem insertDep_wd {F : Key → Prop} {s s' : KState} {cfg : KConfig} {a b : Key} (h : s.insertDep a b = .ok s')
    (hc : WD F s cfg) : WD F s' cfg := by
  obtain ⟨rfl, _, _⟩ := insertDep_eq h
  have hfl : SoftRel s (s.flagDepEndpoints a b) := by
    unfold KState.flagDepEndpoints
    exact softRel_modifyWhere _ _ (softFn_flag (fun _ => rfl) (fun _ => rfl) (fun _ => rfl) (fun _ => rfl) (fun _ => rfl))
  refine wd_addDep a b ?_ (wd_soft hfl hc)
  intro n hn hs hk
  unfold KState.flagDepEndpoints at hn
  obtain ⟨n0, _, hk0, _, _, hsel⟩ := flagPass_rows hn (fun _ => rfl) (fun _ => rfl) (fun _ => rfl)
  apply hsel
  rw [← hk0]
  simp only [hs, decide_true, Bool.true_and, decide_eq_true_eq, Bool.or_eq_true]
  simpa using hk

theorem insertDep_disc {s s' : KState} {cfg : KConfig} {a b : Key} (h : s.insertDep a b = .ok s')
    (hc : CacheInvAfterW s cfg) : CacheInvAfterW s' cfg :=
  disc_of_wd (insertDep_wd h (wd_of_disc _ hc))

/-! ## Small facts about single-row updates -/

theorem keysUnique_modify {s : KState} (k : Key) (f : Node → Node) (hf : ∀ n, n.key = k → (f n).key = k)
    (hk : KeysUnique s) : KeysUnique (s.modify k f) := by
  unfold KeysUnique KState.modify at *
  have : (s.nodes.map fun n => if n.key = k then f n else n).map (·.key) = s.nodes.map (·.key) := by
    rw [List.map_map]
    apply List.map_congr_left
    intro n _
    simp only [Function.comp]
    by_cases h : n.key = k
    · rw [if_pos h, hf n h, h]
    · rw [if_neg h]
  simp only
  rw [this]; exact hk

theorem rowChange_modify' (s : KState) (x : Key) (f : Node → Node) (hf : ∀ n, n.key = x → (f n).key = x) :
    RowChange x s (s.modify x f) := by
  have e : s.modify x f = s.modify x (fun n => if n.key = x then f n else n) := by
    unfold KState.modify
    congr 1
    apply List.map_congr_left
    intro n _
    by_cases h : n.key = x
    · simp only [h, if_true]
    · simp only [h, if_false]
  rw [e]
  apply rowChange_modify
  intro n
  by_cases h : n.key = x
  · rw [if_pos h, hf n h, h]
  · rw [if_neg h]

/-- A `detached` write that changes nothing. -/
theorem setDetachedRow_noop {s : KState} {x : Key} {n : Node} {d : Bool} (hk : KeysUnique s) (hf : s.find? x = some n)
    (hd : n.detached = d) : SoftRel s (s.setDetachedRow x d) := by
  unfold KState.setDetachedRow
  simp only [hf]
  have hne : ¬ (n.detached ≠ d) := fun h => h hd
  rw [if_neg hne]
  unfold KState.modify
  refine softRel_mapNodes s _ fun m hm => ?_
  by_cases hmx : m.key = x
  · rw [if_pos hmx]
    have := find?_of_mem hk hm
    rw [hmx, hf] at this
    cases this
    exact ⟨rfl, hd.symm, ⟨rfl, rfl⟩, id, .inr ⟨rfl, rfl, rfl⟩⟩
  · rw [if_neg hmx]; exact SoftRow.refl m

theorem find?_modify_self {s : KState} {k : Key} {n : Node} (f : Node → Node) (hf : ∀ m, m.key = k → (f m).key = k)
    (h : s.find? k = some n) : (s.modify k f).find? k = some (f n) := by
  have e : s.modify k f = { s with nodes := s.nodes.map fun m => if m.key = k then f m else m } := rfl
  rw [e, find?_mapNodes s _ (fun m => by
    by_cases hm : m.key = k
    · rw [if_pos hm, hf m hm, hm]
    · rw [if_neg hm]) k, h]
  simp only [Option.map_some, find_key h, if_true]

/-! ## `Node.detach` of a node that is detached already -/

/-- Detaching a detached node cuts its creator link and raises flags: nothing the discipline reads. -/
theorem detach_detached_wd {F : Key → Prop} {s s' : KState} {cfg : KConfig} {p : Key} {n : Node} (hk : KeysUnique s)
    (hf : s.find? p = some n) (hd : n.detached = true) (h : s.detach p = .ok s') (hc : WD F s cfg) :
    WD F s' cfg ∧ s'.deps = s.deps := by
  unfold KState.detach at h
  simp only [hf, bind, Except.bind] at h
  cases h1 : s.detachCore p n with
  | error e => simp [h1] at h
  | ok s1 =>
    simp only [h1] at h
    have hw1 : WD F s1 cfg ∧ s1.deps = s.deps := by
      unfold KState.detachCore at h1
      split at h1
      · simp only [bind, Except.bind] at h1
        cases hsc : s.setCreator p none true with
        | error e => simp [hsc] at h1
        | ok sc =>
          simp only [hsc, pure, Except.pure, Except.ok.injEq, hd, Bool.not_true, Bool.false_eq_true, if_false] at h1
          subst h1
          unfold KState.setCreator at hsc
          split at hsc
          · simp only [pure, Except.pure, Except.ok.injEq] at hsc
            subst hsc
            have ha : WD F (s.modify p fun n => { n with creator := none }) cfg :=
              wd_modify_neutral p _ (fun _ => ⟨rfl, rfl, rfl, rfl⟩) hc
            have hka := keysUnique_modify p (fun n => { n with creator := none }) (fun _ h => h) hk
            have hfa := find?_modify_self (fun n => { n with creator := none }) (fun _ h => h) hf
            have := setDetachedRow_noop (d := true) hka hfa hd
            exact ⟨wd_soft this ha, this.deps⟩
          · cases hsc
      · simp only [pure, Except.pure, Except.ok.injEq] at h1; subst h1; exact ⟨hc, rfl⟩
    unfold KState.detachFlags at h
    split at h
    · simp only [bind, Except.bind] at h
      cases h2 : s1.flagChecksWithProducts p with
      | error e => simp [h2] at h
      | ok s2 =>
        simp only [h2] at h
        have r2 := flagChecksWithProducts_rel h2
        have r3 := flagCheckAfterSources_rel h
        exact ⟨wd_soft r3 (wd_soft r2 hw1.1), by rw [r3.deps, r2.deps, hw1.2]⟩
    · simp only [pure, Except.pure, Except.ok.injEq] at h; subst h; exact hw1

/-- The same, as a relation on rows: keys and `detached` stay. -/
def DRow (n n' : Node) : Prop := n'.key = n.key ∧ n'.detached = n.detached

theorem drow_of_struct_soft {s s' : KState} (h : SoftRel s s') : All₂ DRow s.nodes s'.nodes :=
  all₂_imp (fun _ _ hr => ⟨hr.1, hr.2.1⟩) h.rows

theorem detach_detached_rows {s s' : KState} {p : Key} {n : Node} (hk : KeysUnique s)
    (hf : s.find? p = some n) (hd : n.detached = true) (h : s.detach p = .ok s') : All₂ DRow s.nodes s'.nodes := by
  unfold KState.detach at h
  simp only [hf, bind, Except.bind] at h
  cases h1 : s.detachCore p n with
  | error e => simp [h1] at h
  | ok s1 =>
    simp only [h1] at h
    have hw1 : All₂ DRow s.nodes s1.nodes := by
      unfold KState.detachCore at h1
      split at h1
      · simp only [bind, Except.bind] at h1
        cases hsc : s.setCreator p none true with
        | error e => simp [hsc] at h1
        | ok sc =>
          simp only [hsc, pure, Except.pure, Except.ok.injEq, hd, Bool.not_true, Bool.false_eq_true, if_false] at h1
          subst h1
          unfold KState.setCreator at hsc
          split at hsc
          · simp only [pure, Except.pure, Except.ok.injEq] at hsc
            subst hsc
            have ha : All₂ DRow s.nodes (s.modify p fun n => { n with creator := none }).nodes := by
              unfold KState.modify
              refine forall₂_map _ _ fun m _ => ?_
              split <;> exact ⟨rfl, rfl⟩
            have hka := keysUnique_modify p (fun n => { n with creator := none }) (fun _ h => h) hk
            have hfa := find?_modify_self (fun n => { n with creator := none }) (fun _ h => h) hf
            have := setDetachedRow_noop (d := true) hka hfa hd
            exact forall₂_trans (fun a b c h1 h2 => ⟨h2.1.trans h1.1, h2.2.trans h1.2⟩) ha (drow_of_struct_soft this)
          · cases hsc
      · simp only [pure, Except.pure, Except.ok.injEq] at h1; subst h1
        exact forall₂_refl (fun _ => ⟨rfl, rfl⟩) _
    have htr : ∀ {a b c : List Node}, All₂ DRow a b → All₂ DRow b c → All₂ DRow a c :=
      fun h1 h2 => forall₂_trans (fun a b c h1 h2 => ⟨h2.1.trans h1.1, h2.2.trans h1.2⟩) h1 h2
    unfold KState.detachFlags at h
    split at h
    · simp only [bind, Except.bind] at h
      cases h2 : s1.flagChecksWithProducts p with
      | error e => simp [h2] at h
      | ok s2 =>
        simp only [h2] at h
        exact htr hw1 (htr (drow_of_struct_soft (flagChecksWithProducts_rel h2))
          (drow_of_struct_soft (flagCheckAfterSources_rel h)))
    · simp only [pure, Except.pure, Except.ok.injEq] at h; subst h; exact hw1

/-! ## `Trellis.create` -/

theorem lostProduct_rel {s s' : KState} {old : Option Key} (h : s.lostProduct old = .ok s') : SoftRel s s' := by
  unfold KState.lostProduct at h
  cases old with
  | none => simp only [pure, Except.pure, Except.ok.injEq] at h; subst h; exact SoftRel.refl s
  | some oc =>
    simp only at h
    split at h
    · cases h
    · unfold KState.afterLostProduct at h
      split at h
      · simp only [pure, Except.pure, Except.ok.injEq] at h; subst h
        unfold KState.deleteHash
        refine softRel_modify _ _ fun n => ?_
        split
        · exact ⟨rfl, rfl, ⟨rfl, rfl⟩, id, .inr ⟨rfl, rfl, rfl⟩⟩
        · exact SoftRow.refl n
      · simp only [pure, Except.pure, Except.ok.injEq] at h; subst h; exact SoftRel.refl s
      · cases h
      · cases h

theorem ur_setDetachedRow (X : Key → Prop) (s : KState) (x : Key) (d : Bool) (hX : X x) :
    All₂ (UR X) s.nodes (s.setDetachedRow x d).nodes := by
  unfold KState.setDetachedRow
  cases s.find? x with
  | none => exact forall₂_refl (UR.refl X) _
  | some n =>
    simp only
    have h1 := ur_modify X s x (fun n => { n with detached := d }) (fun _ => rfl) hX
    split
    · refine ur_trans h1 (ur_of_soft ?_)
      unfold KState.flagReadySinks
      exact softRel_modifyWhere _ _ (softFn_rfl (fun _ => rfl) (fun _ => rfl) (fun _ => rfl) (fun _ => rfl)
        (fun _ => rfl) (fun _ => rfl) (fun _ => rfl) (fun _ => rfl))
    · exact h1

theorem ur_setCreator {X : Key → Prop} {s s' : KState} {k : Key} {c : Option Key} {d : Bool} (hX : X k)
    (h : s.setCreator k c d = .ok s') : All₂ (UR X) s.nodes s'.nodes ∧ s'.deps = s.deps := by
  unfold KState.setCreator at h
  split at h
  · simp only [pure, Except.pure, Except.ok.injEq] at h
    subst h
    exact ⟨ur_trans (ur_modify X s k (fun n => { n with creator := c }) (fun _ => rfl) hX)
      (ur_setDetachedRow X _ k d hX), deps_setDetachedRow _ _ _⟩
  · cases h

/-- The first half of the recycling branch: the row gets its new creator, the old creator loses a
product, the incoming dependency rows are deleted (and their sources flagged). -/
theorem recyclePrefix_wd {F : Key → Prop} {s s1 s2 : KState} {cfg : KConfig} {k : Key} {n : Node} {creator : Option Key}
    {d : Bool} (hk : KeysUnique s) (hf : s.find? k = some n) (hdet : n.detached = true)
    (h1 : s.setCreator k creator d = .ok s1) (h2 : s1.lostProduct n.creator = .ok s2) (hc : WD F s cfg) :
    WD (fun x => F x ∨ x = k) (s2.deleteDeps fun dp => dp.snk = k) cfg ∧
      (s2.deleteDeps fun dp => dp.snk = k).deps = s.deps.filter (fun dp => !decide (dp.snk = k)) ∧
      All₂ (UR fun x => x = k) s.nodes (s2.deleteDeps fun dp => dp.snk = k).nodes := by
  obtain ⟨r1, d1⟩ := ur_setCreator (X := fun x => x = k) rfl h1
  have r2 := lostProduct_rel h2
  have hd2 : s2.deps = s.deps := by rw [r2.deps, d1]
  obtain ⟨r3, hfl⟩ := flagFold_spec (s2.deps.filter fun dp => decide (dp.snk = k))
    ({ s2 with deps := s2.deps.filter fun dp => !decide (dp.snk = k) } : KState)
  have hdeps : (s2.deleteDeps fun dp => dp.snk = k).deps = s.deps.filter (fun dp => !decide (dp.snk = k)) := by
    rw [deps_deleteDeps, hd2]
  have hrows : All₂ (UR fun x => x = k) s.nodes (s2.deleteDeps fun dp => dp.snk = k).nodes := by
    unfold KState.deleteDeps
    have r3' := ur_of_soft (X := fun x => x = k) r3
    exact ur_trans (ur_trans r1 (ur_of_soft r2)) r3'
  have hrev : Reveal (fun x => x = k) (fun dp => decide (dp.snk = k)) s (s2.deleteDeps fun dp => dp.snk = k) :=
    reveal_of_rows hrows hdeps (fun dp _ hr => by simpa using hr)
      (fun c hc m hm => by subst hc; rw [hf] at hm; cases hm; exact hdet)
  have hw := wd_reveal (cfg := cfg) hrev hc
  refine ⟨?_, hdeps, hrows⟩
  -- the sources of `k` are flagged by the trigger of the deletion
  have hw' : WD (fun x => (F x ∨ x = k) ∨ Edge s.deps x k) (s2.deleteDeps fun dp => dp.snk = k) cfg := by
    refine wd_mono ?_ hw
    rintro x (hx | hx | ⟨y, rfl, hx⟩)
    · exact .inl (.inl hx)
    · exact .inl (.inr hx)
    · exact .inr hx
  refine wd_drop ?_ hw'
  intro n' hn' hs _ ⟨dp, hdm, hsrc, hsnk⟩
  unfold KState.deleteDeps at hn'
  refine hfl n' hn' hs ⟨dp, List.mem_filter.2 ⟨hd2 ▸ hdm, by simp [hsnk]⟩, .inl hsrc.symm⟩

/-- What the kind of the key must be for each initialisation: only a step row is initialised as a step. -/
def InitKind (k : Key) : Init → Prop
  | .step _ => True
  | _ => k.kind ≠ .step

/-- `initialize_row`: the row of `k` is rewritten; when it is a step it ends up flagged. -/
theorem initRow_wd {F : Key → Prop} {s s' : KState} {cfg : KConfig} {k : Key} {init : Init} {existed : Bool}
    (hk : KeysUnique s) (hnoin : ∀ x, ¬ Edge s.deps x k) (hkind : InitKind k init)
    (h : s.initRow k init existed = .ok s') (hc : WD (fun x => F x ∨ x = k) s cfg) : WD F s' cfg ∧ s'.deps = s.deps := by
  have hdropk : ∀ {t : KState}, k.kind ≠ .step → WD (fun x => F x ∨ x = k) t cfg → WD F t cfg := by
    intro t hks hw
    refine wd_drop ?_ hw
    intro n' _ hs _ he
    rw [he] at hs; exact absurd hs hks
  have htouch : ∀ x, Touched s.deps k x → x = k := by
    rintro x (hx | ⟨_, hx⟩ | ⟨_, f, _, hx⟩)
    · exact hx
    · exact absurd hx (hnoin x)
    · exact absurd hx (hnoin f)
  unfold KState.initRow at h
  cases init with
  | root => simp only [pure, Except.pure, Except.ok.injEq] at h; subst h; exact ⟨hdropk hkind hc, rfl⟩
  | tree => simp only [pure, Except.pure, Except.ok.injEq] at h; subst h; exact ⟨hdropk hkind hc, rfl⟩
  | step i =>
    simp only [pure, Except.pure, Except.ok.injEq] at h
    subst h
    have hrel : SoftRel s (s.initStepRow k i) := by
      unfold KState.initStepRow
      exact softRel_modify _ _ (softFn_flag (fun _ => rfl) (fun _ => rfl) (fun _ => rfl) (fun _ => rfl) (fun _ => rfl))
    refine ⟨wd_drop ?_ (wd_soft hrel hc), rfl⟩
    intro n' hn' _ _ he
    unfold KState.initStepRow KState.modify at hn'
    obtain ⟨m, _, rfl⟩ := List.mem_map.1 hn'
    by_cases hm : m.key = k
    · rw [if_pos hm]
    · rw [if_neg hm] at he; exact absurd he hm
  | file st =>
    simp only at h
    unfold KState.initFileRow at h
    simp only [bind, Except.bind] at h
    cases h1 : s.writeInitialFile k (s.keptState k st existed) existed with
    | error e => simp [h1] at h
    | ok s1 =>
      simp only [h1] at h
      -- the write of the file row
      have hw1 : WD (fun x => F x ∨ x = k) s1 cfg ∧ s1.deps = s.deps ∧ KeysUnique s1 := by
        have hflag : ∀ t : KState, SoftRel t (t.flagReadySinks k) := by
          intro t
          unfold KState.flagReadySinks
          exact softRel_modifyWhere _ _ (softFn_rfl (fun _ => rfl) (fun _ => rfl) (fun _ => rfl) (fun _ => rfl)
            (fun _ => rfl) (fun _ => rfl) (fun _ => rfl) (fun _ => rfl))
        have hrow : ∀ (f : Node → Node), (∀ m, m.key = k → (f m).key = k) →
            WD (fun x => F x ∨ x = k) (s.modify k f) cfg := by
          intro f hfk
          refine wd_mono ?_ (wd_rowChange (cfg := cfg) (rowChange_modify' s k f hfk) hc)
          rintro x ((hx | hx) | hx)
          · exact .inl hx
          · exact .inr hx
          · exact .inr (htouch x hx)
        unfold KState.writeInitialFile at h1
        split at h1
        · -- an existing row: `UPDATE file SET state`
          unfold KState.setFileState KState.writeFile at h1
          cases hfk : s.find? k with
          | none =>
            simp only [hfk, pure, Except.pure, Except.ok.injEq] at h1; subst h1; exact ⟨hc, rfl, hk⟩
          | some m =>
            simp only [hfk, bind, Except.bind] at h1
            cases hwr : fileRowWrite m (s.keptState k st existed) none with
            | error e => simp [hwr] at h1
            | ok m' =>
              simp only [hwr, pure, Except.pure, Except.ok.injEq] at h1
              have hm'k : m'.key = k := by
                rw [fileRowWrite_key m m' _ _ hwr]; exact find_key hfk
              have hku := keysUnique_modify k (fun _ => m') (fun _ _ => hm'k) hk
              subst h1
              split
              · exact ⟨wd_soft (hflag _) (hrow _ (fun _ _ => hm'k)), (hflag _).deps, (hflag _).keysUnique hku⟩
              · exact ⟨hrow _ (fun _ _ => hm'k), rfl, hku⟩
        · split at h1
          · cases h1
          · simp only [pure, Except.pure, Except.ok.injEq] at h1
            subst h1
            have hku := keysUnique_modify k (fun n => { n with fstate := s.keptState k st existed, fhash := none })
              (fun _ hm => hm) hk
            exact ⟨wd_soft (hflag _) (hrow _ (fun _ hm => hm)), (hflag _).deps, (hflag _).keysUnique hku⟩
      have hks : k.kind ≠ .step := hkind
      split at h
      · have := markFileOutdated_soft (s0 := s1) k s1 s' (SP.refl hw1.2.2) h
        exact ⟨hdropk hks (wd_soft this.2 hw1.1), by rw [this.2.deps, hw1.2.1]⟩
      · simp only [pure, Except.pure, Except.ok.injEq] at h; subst h
        exact ⟨hdropk hks hw1.1, hw1.2.1⟩

theorem kn_of_ku {s : KState} (h : KeysUnique s) : KeysNodup s := (keysNodup_iff s).2 h
theorem ku_of_kn {s : KState} (h : KeysNodup s) : KeysUnique s := (keysNodup_iff s).1 h

theorem keys_of_ur {X : Key → Prop} : ∀ {l l' : List Node}, All₂ (UR X) l l' → l'.map (·.key) = l.map (·.key)
  | _, _, .nil => rfl
  | _, _, .cons h t => by simp only [List.map_cons, h.1, keys_of_ur t]

/-- **`Trellis.create` keeps the debt**: a fresh row, or the partial recycling of a detached one. -/
theorem create_wd {F : Key → Prop} {s s' : KState} {cfg : KConfig} {k : Key} {creator : Option Key} {init : Init}
    (hS : Struct s) (hFo : Forest s) (hkind : InitKind k init) (h : s.create k creator init = .ok s')
    (hc : WD F s cfg) : WD F s' cfg := by
  have hk := hS.keys
  unfold KState.create at h
  cases hf : s.find? k with
  | some n =>
    simp only [hf] at h
    split at h
    · cases h
    · rename_i hdet
      have hdet' : n.detached = true := by simpa using hdet
      split at h
      · cases h
      · unfold KState.recycleCore at h
        simp only [bind, Except.bind] at h
        cases h1 : s.setCreator k creator (s.creatorDetached creator) with
        | error e => simp [h1] at h
        | ok s1 =>
          simp only [h1] at h
          cases h2 : s1.lostProduct n.creator with
          | error e => simp [h2] at h
          | ok s2 =>
            simp only [h2] at h
            obtain ⟨hw3a, hd3a, hrows⟩ := recyclePrefix_wd (cfg := cfg) hk hf hdet' h1 h2 hc
            have hk3a : KeysUnique (s2.deleteDeps fun dp => dp.snk = k) := by
              unfold KeysUnique at hk ⊢
              rw [keys_of_ur hrows]; exact hk
            cases h3 : (s2.deleteDeps fun dp => dp.snk = k).detachProducts k with
            | error e => simp [h3] at h
            | ok s3 =>
              simp only [h3] at h
              -- the products of the recycled node are detached: detaching them is soft
              have hfold : KeysUnique s3 ∧ WD (fun x => F x ∨ x = k) s3 cfg ∧
                  s3.deps = (s2.deleteDeps fun dp => dp.snk = k).deps ∧
                  All₂ DRow (s2.deleteDeps fun dp => dp.snk = k).nodes s3.nodes := by
                unfold KState.detachProducts at h3
                refine foldlM_mem (fun st => KeysUnique st ∧ WD (fun x => F x ∨ x = k) st cfg ∧
                    st.deps = (s2.deleteDeps fun dp => dp.snk = k).deps ∧
                    All₂ DRow (s2.deleteDeps fun dp => dp.snk = k).nodes st.nodes)
                  (fun st (p : Node) => st.detach p.key) _ ?_ _ s3
                  ⟨hk3a, hw3a, rfl, forall₂_refl (fun _ => ⟨rfl, rfl⟩) _⟩ h3
                intro st p st' hp ⟨hkst, hwst, hdst, hrst⟩ hdp
                -- `p` is a product of `k` in the state after the prefix, hence detached there and now
                unfold KState.products at hp
                obtain ⟨hpm, hpc⟩ := List.mem_filter.1 hp
                simp only [decide_eq_true_eq, Bool.decide_and, Bool.and_eq_true] at hpc
                obtain ⟨p0, hp0, hur⟩ := forall₂_mem_right hrows p hpm
                have hp0k : ¬ p0.key = k := by rw [← hur.1]; exact hpc.2
                have hsr := hur.2 hp0k
                have hp0c : p0.creator = some k := by rw [← hsr.2.2.1.1]; exact hpc.1
                have hp0d : p0.detached = true := by
                  cases hx : p0.detached with
                  | true => rfl
                  | false =>
                    exfalso
                    obtain ⟨⟨r, hrf, _, hrc⟩, hii, _⟩ := hFo.2.2
                    by_cases hroot : p0.key = rootKey
                    · have := find?_of_mem hk hp0
                      rw [hroot, hrf] at this
                      cases this
                      rw [hrc] at hp0c
                      cases hp0c
                      exact hp0k hroot
                    · obtain ⟨c, cn, hcc, hcf, hcd⟩ := hii p0 hp0 hroot hx
                      rw [hp0c] at hcc
                      cases hcc
                      rw [hf] at hcf
                      cases hcf
                      rw [hdet'] at hcd; cases hcd
                have hpd : p.detached = true := by rw [hsr.2.1]; exact hp0d
                have hfind := find?_all₂ (R := DRow) (fun _ _ hr => hr.1) p.key hrst
                have hfp : (s2.deleteDeps fun dp => dp.snk = k).find? p.key = some p := find?_of_mem hk3a hpm
                unfold KState.find? at hfp
                rw [hfp] at hfind
                cases hfst : st.nodes.find? (·.key = p.key) with
                | none => rw [hfst] at hfind; exact hfind.elim
                | some m =>
                  rw [hfst] at hfind
                  have hmd : m.detached = true := by rw [hfind.2]; exact hpd
                  obtain ⟨hw', hd'⟩ := detach_detached_wd hkst hfst hmd hdp hwst
                  have hr' := detach_detached_rows hkst hfst hmd hdp
                  refine ⟨ku_of_kn (StableG.detach_preserves stable_keysNodup p.key st st' (kn_of_ku hkst) hdp), hw',
                    hd'.trans hdst, forall₂_trans (fun a b c h1 h2 => ⟨h2.1.trans h1.1, h2.2.trans h1.2⟩) hrst hr'⟩
              obtain ⟨hk3, hw3, hd3, _⟩ := hfold
              refine (initRow_wd hk3 ?_ hkind h hw3).1
              intro x ⟨dp, hdm, _, hsnk⟩
              rw [hd3, hd3a] at hdm
              have := (List.mem_filter.1 hdm).2
              simp [hsnk] at this
  | none =>
    simp only [hf] at h
    split at h
    · rename_i hins
      have hnoedge : ∀ x, ¬ Edge s.deps x k := by
        intro x ⟨dp, hdm, _, hsnk⟩
        have := (hS.closed dp hdm).2
        rw [hsnk, hf] at this
        cases this
      have hwA : WD (fun x => F x ∨ x = k) (s.appendNode k creator) cfg := by
        refine wd_mono ?_ (wd_rowChange (cfg := cfg) (rowChange_append s k creator) hc)
        rintro x (hx | hx | ⟨_, hx⟩ | ⟨_, f, _, hx⟩)
        · exact .inl hx
        · exact .inr hx
        · exact absurd hx (hnoedge x)
        · exact absurd hx (hnoedge f)
      have hkA : KeysUnique (s.appendNode k creator) :=
        ku_of_kn (stable_keysNodup.appendNode s k creator hf hins (kn_of_ku hk))
      exact (initRow_wd hkA hnoedge hkind h hwA).1
    · cases h

theorem create_disc {s s' : KState} {cfg : KConfig} {k : Key} {creator : Option Key} {init : Init}
    (hS : Struct s) (hFo : Forest s) (hkind : InitKind k init) (h : s.create k creator init = .ok s')
    (hc : CacheInvAfterW s cfg) : CacheInvAfterW s' cfg :=
  disc_of_wd (create_wd hS hFo hkind h (wd_of_disc _ hc))

end StepupModel.K.Discipline
