import StepupModel.Lemmas.SafeDisciplineStruct
/-!
# The flag discipline of `_update_meta_safe`: the requests of `workflow.py`

The composite operations (`reset_for_rerun`, `mark_completed`, the declarations, `define_step`, `amend_step`)
preserve `P F`: the proofs are those of `Lemmas/Stable.lean` with the leaves of
`Lemmas/SafeDisciplineSoft.lean` and `Lemmas/SafeDisciplineStruct.lean`.  Only `define_step` has a side
condition (`DefineOK`): a step that is defined *safe* (`_safe = True`, which only `initialize_boot` passes, with
the root as creator) is not defined by a step; and it needs the creator forest of the state it starts from.
-/
namespace StepupModel.K.SafeDisc
open StepupModel.K.MetaSafe StepupModel.Lemmas StepupModel.Generated StepupModel.K.Sk
set_option linter.unusedSimpArgs false
set_option linter.unusedVariables false

section
variable {F : Key → Prop}

/-- `Trellis.create` of a file, a tree (or the root): no local equation reads the row. -/
theorem create_safe_nonstep {s s' : KState} {k : Key} {creator : Option Key} {init : Init} (hk : k.kind ≠ .step)
    (h : s.create k creator init = .ok s') (hp : P F s) : P F s' :=
  (create_debt h hp).1.dropNonStep hk

/-! ## `reset_for_rerun`, `mark_completed` -/

theorem dropDynamicInputs_safe (s : KState) (k : Key) (hp : P F s) : P F (s.dropDynamicInputs k) := by
  unfold KState.dropDynamicInputs
  exact (deleteDeps_safe _ _ (flagDynamicSuppliers_safe s k hp)).modify _ _
    fun n _ _ => srow_same rfl rfl rfl rfl rfl rfl rfl

theorem outdateBuilt_safe (k : Key) : Preserves (P F) (fun s => s.outdateBuilt k) := by
  intro s s' hp h
  replace h : s.outdateBuilt k = .ok s' := h
  unfold KState.outdateBuilt at h
  exact foldlM_preserves (P F) _ _ (fun (n : Node) => markFileOutdated_safe n.key) s s' hp h

/-- **`Step.reset_for_rerun` preserves the discipline.** -/
theorem resetForRerun_safe (k : Key) : Preserves (P F) (fun s => s.resetForRerun k) := by
  intro s s' hp h
  replace h : s.resetForRerun k = .ok s' := h
  unfold KState.resetForRerun at h
  dsimp only at h
  refine bind_ok h (fun s2 h2 => ?_) ?_
  · exact foldlM_preserves (P F) _ _ (fun t => dropDynamicSink_safe k t) _ s2
      (dropDynamicInputs_safe s k hp) h2
  · intro s2 s2' hp2 hh2
    refine bind_ok hh2 (fun s3 h3 => detachCreatedSteps_safe k s2 s3 hp2 h3) ?_
    intro s3 s3' hp3 hh3
    refine bind_ok hh3 (fun s4 h4 => detachProductsWhere_safe k _ s3 s4 hp3 h4) ?_
    intro s4 s4' hp4 hh4
    refine bind_ok hh4 (fun s5 h5 => detachProductsWhere_safe k _ s4 s5 hp4 h5) ?_
    exact outdateBuilt_safe k

theorem completeFailure_safe (cfg : KConfig) (k : Key) (wd : Bool) :
    Preserves (P F) (fun s => s.completeFailure cfg k wd) := by
  intro s s' hp h
  replace h : s.completeFailure cfg k wd = .ok s' := h
  unfold KState.completeFailure at h
  refine bind_ok h (fun s1 h1 => outdateBuiltProducts_safe k s s1 hp h1) ?_
  intro s1 s1' hp1 hh1
  refine bind_ok hh1 (fun s2 h2 => ?_) ?_
  · have hb : P F (s1.bumpDeferCount k wd) := by
      unfold KState.bumpDeferCount
      split
      · exact hp1.modify _ _ fun n _ _ => srow_same rfl rfl rfl rfl rfl rfl rfl
      · exact hp1
    unfold KState.writeFailureState at h2
    split at h2
    · exact setStepState_safe k .pending _ _ s2 hb h2
    · exact setStepState_safe k .failed false _ s2 hb h2
  · intro s2 s2' hp2 hh2
    refine bind_ok hh2 (fun s3 h3 => ?_) ?_
    · unfold KState.detachCreatedIfFailed at h3
      split at h3
      · exact detachCreatedSteps_safe k s2 s3 hp2 h3
      · simp only [pure, Except.pure, Except.ok.injEq] at h3; subst h3; exact hp2
    · exact preserves_pure _ (fun s hs => deleteHash_safe s k hs)

/-- **`Step.mark_completed` preserves the discipline** (both outcomes, with or without a deferral). -/
theorem markCompleted_safe (cfg : KConfig) (k : Key) (nh : Option Nat) (wd : Bool) (s s' : KState) (b : Bool)
    (hp : P F s) (h : s.markCompleted cfg k nh wd = .ok (s', b)) : P F s' := by
  unfold KState.markCompleted at h
  cases nh with
  | none =>
    simp only [bind, Except.bind] at h
    cases h1 : s.completeFailure cfg k wd with
    | error e => simp [h1] at h
    | ok s1 =>
      simp only [h1, pure, Except.pure, Except.ok.injEq, Prod.mk.injEq] at h
      obtain ⟨rfl, _⟩ := h
      exact completeFailure_safe cfg k wd s s1 hp h1
  | some hh =>
    simp only [bind, Except.bind] at h
    cases h1 : s.completeSuccess cfg k hh with
    | error e => simp [h1] at h
    | ok s1 =>
      simp only [h1, pure, Except.pure, Except.ok.injEq, Prod.mk.injEq] at h
      obtain ⟨rfl, _⟩ := h
      exact completeSuccess_safe cfg k hh s s1 hp h1

/-! ## Declarations -/

theorem volatileSinkCheck_safe (p : String) (st : FileState) :
    Preserves (P F) (fun s => s.volatileSinkCheck p st) := by
  intro s s' hp h
  replace h : s.volatileSinkCheck p st = .ok s' := h
  unfold KState.volatileSinkCheck at h
  split at h
  · simp [graphErr] at h
  · simp only [pure, Except.pure, Except.ok.injEq] at h; subst h; exact hp

theorem fileKey_not_step (p : String) : (fileKey p).kind ≠ .step := by
  unfold fileKey; intro h; cases h

theorem treeKey_not_step (p : String) : (treeKey p).kind ≠ .step := by
  unfold treeKey; intro h; cases h

theorem declareFile_safe (cfg : KConfig) (creator : Key) (p : String) (st : FileState) :
    Preserves (P F) (fun s => s.declareFile cfg creator p st) := by
  intro s s' hp h
  replace h : s.declareFile cfg creator p st = .ok s' := h
  unfold KState.declareFile at h
  refine bind_ok_gen h (fun _ => True) (fun _ _ => trivial) (P F) ?_
  intro _ s2 _ hh
  refine bind_ok hh (fun s1 h1 => ?_) (volatileSinkCheck_safe p st)
  exact create_safe_nonstep (fileKey_not_step p) h1 hp

theorem declareAll_safe (cfg : KConfig) (todo : List (Key × String)) (st : FileState) :
    Preserves (P F) (fun s => s.declareAll cfg todo st) := by
  intro s s' hp h
  replace h : s.declareAll cfg todo st = .ok s' := h
  unfold KState.declareAll at h
  exact foldlM_preserves (P F) (fun (acc : KState) (dp : Key × String) => acc.declareFile cfg dp.1 dp.2 st) todo
    (fun dp => declareFile_safe cfg dp.1 dp.2 st) s s' hp h

theorem declareStaticFiles_safe (cfg : KConfig) (creator : Key) (paths : List String) (s : KState)
    (r : KState × List String) (hp : P F s) (h : s.declareStaticFiles cfg creator paths = .ok r) : P F r.1 := by
  unfold KState.declareStaticFiles at h
  refine bind_ok_gen h (fun _ => True) (fun _ _ => trivial) (fun r => P F r.1) ?_
  intro todo r1 _ hh
  refine bind_ok_gen hh (P F) (fun a ha => declareAll_safe cfg todo _ s a hp ha) (fun r => P F r.1) ?_
  intro a b ha hb
  simp only [pure, Except.pure, Except.ok.injEq] at hb
  subst hb; exact ha

/-- The plain `UPDATE node SET creator = ?` of `register_static_tree`, on file rows. -/
theorem handOver_safe (tk : Key) (hs : List Key) (hfile : ∀ k ∈ hs, k.kind ≠ .step) :
    ∀ (s : KState), P F s → P F (s.handOver tk hs) := by
  unfold KState.handOver
  induction hs with
  | nil => intro s hp; exact hp
  | cons k ks ih =>
    intro s hp
    simp only [List.foldl_cons]
    refine ih (fun x hx => hfile x (List.mem_cons_of_mem _ hx)) _ ?_
    exact hp.modify _ _ fun n _ hk => srow_nonstep rfl (by rw [hk]; exact hfile k List.mem_cons_self)

theorem registerTreeBody_safe (cfg : KConfig) (creator : Key) (path : String) (g : Option (List Key)) (s : KState)
    (hg : ∀ hs, g = some hs → ∀ k ∈ hs, k.kind ≠ .step)
    (r : KState × List String) (hp : P F s) (h : s.registerTreeBody cfg creator path g = .ok r) : P F r.1 := by
  cases g with
  | none =>
    simp only [KState.registerTreeBody, pure, Except.pure, Except.ok.injEq] at h
    subst h; exact hp
  | some hs =>
    simp only [KState.registerTreeBody] at h
    refine bind_ok_gen h (P F) (fun s1 h1 => create_safe_nonstep (treeKey_not_step path) h1 hp) (fun r => P F r.1) ?_
    intro s1 r1 hp1 hh
    exact declareStaticFiles_safe cfg _ _ _ r1 (handOver_safe _ hs (hg hs rfl) s1 hp1) hh

theorem registerStaticTree_safe (cfg : KConfig) (creator : Key) (path : String) (s : KState)
    (r : KState × List String) (hp : P F s) (h : s.registerStaticTree cfg creator path = .ok r) : P F r.1 := by
  unfold KState.registerStaticTree at h
  refine bind_ok_gen h (fun _ => True) (fun _ _ => trivial) (fun r => P F r.1) ?_
  intro _ r1 _ hh
  refine bind_ok_gen hh (fun g => ∀ hs, g = some hs → ∀ k ∈ hs, k.kind ≠ .step) ?_ (fun r => P F r.1) ?_
  · intro g hg hs hgs k hk
    subst hgs
    obtain ⟨n, _, hnk, hfile, _⟩ := SkStable.treeGuard_spec hg k hk
    rw [← hnk, hfile]; intro hx; cases hx
  · intro g r2 hg hh2
    exact registerTreeBody_safe cfg creator _ g s hg r2 hp hh2

theorem adoptByTree_safe (cfg : KConfig) (path : String) (t : Key) (s : KState) (r : KState × FileState × Bool)
    (hp : P F s) (h : s.adoptByTree cfg path t = .ok r) : P F r.1 := by
  unfold KState.adoptByTree at h
  refine bind_ok_gen h (fun _ => True) (fun _ _ => trivial) (fun r => P F r.1) ?_
  intro _ r1 _ hh
  refine bind_ok_gen hh (P F)
    (fun s1 h1 => create_safe_nonstep (fileKey_not_step path) h1 hp) (fun r => P F r.1) ?_
  intro s1 r2 hp1 hh2
  simp only [pure, Except.pure, Except.ok.injEq] at hh2
  subst hh2; exact hp1

theorem placeholder_safe (path : String) (s : KState) (r : KState × FileState × Bool)
    (hp : P F s) (h : s.placeholder path = .ok r) : P F r.1 := by
  unfold KState.placeholder at h
  refine bind_ok_gen h (P F)
    (fun s1 h1 => create_safe_nonstep (fileKey_not_step path) h1 hp) (fun r => P F r.1) ?_
  intro s1 r2 hp1 hh2
  simp only [pure, Except.pure, Except.ok.injEq] at hh2
  subst hh2; exact hp1

theorem resolveWith_safe (cfg : KConfig) (path : String) (tree : Option Key) (node : Option Node) (s : KState)
    (r : KState × FileState × Bool) (hp : P F s) (h : s.resolveWith cfg path tree node = .ok r) : P F r.1 := by
  cases tree with
  | some t =>
    simp only [KState.resolveWith] at h
    exact adoptByTree_safe cfg path t s r hp h
  | none =>
    cases node with
    | none =>
      simp only [KState.resolveWith] at h
      split at h
      · simp [bind, Except.bind, throw, throwThe, MonadExceptOf.throw] at h
      · exact placeholder_safe path s r hp h
    | some n =>
      simp only [KState.resolveWith] at h
      split at h
      · exact placeholder_safe path s r hp h
      · refine bind_ok_gen h (fun _ => True) (fun _ _ => trivial) (fun r => P F r.1) ?_
        intro _ r1 _ hh
        simp only [pure, Except.pure, Except.ok.injEq] at hh
        subst hh; exact hp

theorem resolveNode_safe (cfg : KConfig) (path : String) (s : KState) (r : KState × FileState × Bool)
    (hp : P F s) (h : s.resolveNode cfg path = .ok r) : P F r.1 := by
  unfold KState.resolveNode at h
  refine bind_ok_gen h (fun _ => True) (fun _ _ => trivial) (fun r => P F r.1) ?_
  intro tree r1 _ hh
  exact resolveWith_safe cfg path tree _ s r1 hp hh

theorem resolveSupply_safe (cfg : KConfig) (step : Key) (path : String) (rn : Bool) (s : KState)
    (r : KState × Supply) (hp : P F s) (h : s.resolveSupply cfg step path rn = .ok r) : P F r.1 := by
  unfold KState.resolveSupply at h
  refine bind_ok_gen h (fun a => P F a.1) (fun a ha => resolveNode_safe cfg path s a hp ha)
    (fun r => P F r.1) ?_
  intro a r1 ha hh
  obtain ⟨s1, state, detached⟩ := a
  simp only at hh
  split at hh
  · simp [graphErr, bind, Except.bind] at hh
  · simp only [pure, Except.pure, bind, Except.bind, Except.ok.injEq] at hh
    subst hh; exact ha

theorem resolveAll_safe (cfg : KConfig) (step : Key) (paths : List String) (rn : Bool) (s : KState)
    (r : KState × List Supply) (hp : P F s) (h : s.resolveAll cfg step paths rn = .ok r) : P F r.1 := by
  unfold KState.resolveAll at h
  refine foldlM_inv (fun (a : KState × List Supply) => P F a.1) _ paths ?_ (s, []) r hp h
  intro a x b ha hb
  refine bind_ok_gen hb (fun c => P F c.1) (fun c hc => resolveSupply_safe cfg step x rn a.1 c ha hc)
    (fun r => P F r.1) ?_
  intro c d hc hd
  obtain ⟨s', i⟩ := c
  simp only [pure, Except.pure, Except.ok.injEq] at hd
  subst hd; exact hc

theorem insertNewEdges_safe (step : Key) (infos : List Supply) :
    Preserves (P F) (fun s => s.insertNewEdges step infos) := by
  intro s s' hp h
  replace h : s.insertNewEdges step infos = .ok s' := h
  unfold KState.insertNewEdges at h
  exact foldlM_preserves (P F) (fun (st : KState) (i : Supply) => st.insertDep i.file step) _
    (fun i => insertDep_safe i.file step) s s' hp h

theorem supplyFiles_safe (cfg : KConfig) (step : Key) (paths : List String) (rn : Bool) (s : KState)
    (r : KState × List Supply) (hp : P F s) (h : s.supplyFiles cfg step paths rn = .ok r) : P F r.1 := by
  unfold KState.supplyFiles at h
  refine bind_ok_gen h (fun a => P F a.1) (fun a ha => resolveAll_safe cfg step paths rn s a hp ha)
    (fun r => P F r.1) ?_
  intro a r1 ha hh
  obtain ⟨s1, infos⟩ := a
  simp only at hh
  split at hh
  · simp [bind, Except.bind, throw, throwThe, MonadExceptOf.throw] at hh
  · simp only [pure, Except.pure, bind, Except.bind] at hh
    refine bind_ok_gen hh (P F) (fun s2 h2 => insertNewEdges_safe step infos s1 s2 ha h2) (fun r => P F r.1) ?_
    intro s2 r2 hp2 hh2
    simp only [pure, Except.pure, Except.ok.injEq] at hh2
    subst hh2; exact hp2

theorem addSourceChecked_safe (a b : Key) : Preserves (P F) (fun s => s.addSourceChecked a b) := by
  intro s s' hp h
  replace h : s.addSourceChecked a b = .ok s' := h
  unfold KState.addSourceChecked at h
  split at h
  · simp [bind, Except.bind, throw, throwThe, MonadExceptOf.throw] at h
  · simp only [pure, Except.pure, bind, Except.bind] at h
    exact insertDep_safe b a s s' hp h

theorem declareProduct_safe (cfg : KConfig) (step : Key) (p : String) (st : FileState) :
    Preserves (P F) (fun s => s.declareProduct cfg step p st) := by
  intro s s' hp h
  replace h : s.declareProduct cfg step p st = .ok s' := h
  unfold KState.declareProduct at h
  exact bind_ok h (fun s1 h1 => declareFile_safe cfg step p st s s1 hp h1) (addSourceChecked_safe _ _)

theorem declareProducts_safe (cfg : KConfig) (step : Key) (ps : List String) (st : FileState) :
    Preserves (P F) (fun s => s.declareProducts cfg step ps st) := by
  intro s s' hp h
  replace h : s.declareProducts cfg step ps st = .ok s' := h
  unfold KState.declareProducts at h
  exact foldlM_preserves (P F) (fun (acc : KState) (p : String) => acc.declareProduct cfg step p st) ps
    (fun p => declareProduct_safe cfg step p st) s s' hp h

/-! ## `define_step` -/

/-- The side condition of `define_step`: a step defined *safe* is not defined by a step. -/
def DefineOK (creator : Key) (d : StepDecl) : Prop := d.safe = true → creator.kind ≠ .step

theorem addEnvDeps_srow (cfg : KConfig) (names : List String) : ∀ (n : Node), SRow n (addEnvDeps cfg n names) := by
  unfold addEnvDeps
  induction names with
  | nil => intro n; exact SRowD.refl _ n
  | cons x xs ih =>
    intro n
    simp only [List.foldl_cons]
    have h1 := ih { n with envs := (n.envs.filter (·.1 ≠ x)) ++ [(x, envValue cfg x, false)] }
    refine ⟨h1.1, fun hs => ?_⟩
    exact h1.2 hs

/-- The creation branch of `define_step`. -/
theorem createStep_safe (cfg : KConfig) (sk creator : Key) (d : StepDecl) (s : KState) (hok : DefineOK creator d)
    (hfo : Forest s) (r : KState × List String) (hp : P F s) (h : s.createStep cfg sk creator d = .ok r) : P F r.1 := by
  unfold KState.createStep at h
  refine bind_ok_gen h (P F) (fun s1 h1 => ?_) (fun r => P F r.1) ?_
  · refine create_safe (init := .step { need := d.need, shell := d.shell, safe := d.safe }) ?_ trivial hfo h1 hp
    intro hsafe c hc
    cases hc
    exact hok hsafe
  intro s1 r1 hp1 hh
  have hp2 : P F (s1.setStepExtras sk d) := setStepExtras_safe _ _ _ hp1
  refine bind_ok_gen hh (fun a => P F a.1) (fun a ha => supplyFiles_safe cfg sk d.inp true _ a hp2 ha)
    (fun r => P F r.1) ?_
  intro a r2 ha hh2
  obtain ⟨s3, infos⟩ := a
  simp only at hh2
  have hp4 : P F (s3.modify sk fun n => addEnvDeps cfg n d.env) :=
    P.modify (s := s3) sk _ (fun n _ _ => addEnvDeps_srow cfg d.env n) ha
  refine bind_ok_gen hh2 (P F) (fun s5 h5 => declareProducts_safe cfg sk d.out .planned _ s5 hp4 h5)
    (fun r => P F r.1) ?_
  intro s5 r3 hp5 hh3
  refine bind_ok_gen hh3 (P F) (fun s6 h6 => declareProducts_safe cfg sk d.vol .volatile _ s6 hp5 h6)
    (fun r => P F r.1) ?_
  intro s6 r4 hp6 hh4
  simp only [pure, Except.pure, Except.ok.injEq] at hh4
  subst hh4; exact hp6

/-- **`Workflow.define_step` preserves the discipline** (recycling or creating). -/
theorem defineStep_safe (cfg : KConfig) (creator : Key) (d : StepDecl) (s : KState) (hok : DefineOK creator d)
    (hfo : Forest s) (r : KState × List String) (hp : P F s) (h : s.defineStep cfg creator d = .ok r) : P F r.1 := by
  unfold KState.defineStep at h
  refine bind_ok_gen h (fun _ => True) (fun _ _ => trivial) (fun r => P F r.1) ?_
  intro sk r1 _ hh
  split at hh
  · split at hh
    · refine bind_ok_gen hh (P F) (fun s1 h1 => recycleStep_safe sk creator _ _ s s1 hp h1) (fun r => P F r.1) ?_
      intro s1 r2 hp1 hh2
      simp only [pure, Except.pure, Except.ok.injEq] at hh2
      subst hh2; exact hp1
    · refine bind_ok_gen hh (fun _ => True) (fun _ _ => trivial) (fun r => P F r.1) ?_
      intro _ r2 _ hh2
      refine createStep_safe cfg sk creator _ s ?_ hfo r2 hp hh2
      exact hok
  · refine bind_ok_gen hh (fun _ => True) (fun _ _ => trivial) (fun r => P F r.1) ?_
    intro _ r2 _ hh2
    refine createStep_safe cfg sk creator _ s ?_ hfo r2 hp hh2
    exact hok

/-! ## `amend_step`, `declare_static` -/

theorem amendEnv_srow (cfg : KConfig) (env : List String) : ∀ (n : Node), SRow n (env.foldl (fun n name =>
      if n.overrides.any (·.1 = name) ∨ n.envs.any (·.1 = name) then n
      else { n with envs := n.envs ++ [(name, envValue cfg name, true)] }) n) := by
  induction env with
  | nil => intro n; exact SRowD.refl _ n
  | cons x xs ih =>
    intro n
    simp only [List.foldl_cons]
    split
    · exact ih _
    · have h1 := ih { n with envs := n.envs ++ [(x, envValue cfg x, true)] }
      exact ⟨h1.1, fun hs => h1.2 hs⟩

theorem amendEnv_safe (s : KState) (cfg : KConfig) (step : Key) (env : List String) (hp : P F s) :
    P F (s.amendEnv cfg step env) := by
  unfold KState.amendEnv
  exact hp.modify _ _ fun n _ _ => amendEnv_srow cfg env n

theorem amendProducts_safe (cfg : KConfig) (step : Key) (infos : List Supply) (env out vol : List String)
    (conc : List Key) (s1 : KState) (r : KState × AmendResult) (ha : P F s1)
    (hh : s1.amendProducts cfg step infos env out vol conc = .ok r) : P F r.1 := by
  unfold KState.amendProducts at hh
  have hp2 : P F (s1.amendEnv cfg step env) := amendEnv_safe _ _ _ _ ha
  refine bind_ok_gen hh (fun _ => True) (fun _ _ => trivial) (fun r => P F r.1) ?_
  intro out' r2 _ hh2
  refine bind_ok_gen hh2 (fun _ => True) (fun _ _ => trivial) (fun r => P F r.1) ?_
  intro vol' r3 _ hh3
  refine bind_ok_gen hh3 (fun _ => True) (fun _ _ => trivial) (fun r => P F r.1) ?_
  intro _ r4 _ hh4
  refine bind_ok_gen hh4 (fun _ => True) (fun _ _ => trivial) (fun r => P F r.1) ?_
  intro _ r5 _ hh5
  refine bind_ok_gen hh5 (P F) (fun s3 h3 => declareProducts_safe cfg step out' .planned _ s3 hp2 h3)
    (fun r => P F r.1) ?_
  intro s3 r6 hp3 hh6
  refine bind_ok_gen hh6 (P F) (fun s4 h4 => declareProducts_safe cfg step vol' .volatile _ s4 hp3 h4)
    (fun r => P F r.1) ?_
  intro s4 r7 hp4 hh7
  simp only [pure, Except.pure, Except.ok.injEq] at hh7
  subst hh7
  exact markDynamic_safe _ _ hp4

/-- **`Workflow.amend_step` preserves the discipline.** -/
theorem amendStep_safe (cfg : KConfig) (step : Key) (inp env out vol : List String) (conc : List Key)
    (s : KState) (r : KState × AmendResult) (hp : P F s)
    (h : s.amendStep cfg step inp env out vol conc = .ok r) : P F r.1 := by
  unfold KState.amendStep at h
  refine bind_ok_gen h (fun _ => True) (fun _ _ => trivial) (fun r => P F r.1) ?_
  intro _ r0 _ h0
  refine bind_ok_gen h0 (fun a => P F a.1) (fun a ha => supplyFiles_safe cfg step _ false s a hp ha)
    (fun r => P F r.1) ?_
  intro a r1 ha hh
  obtain ⟨s1, infos⟩ := a
  exact amendProducts_safe cfg step infos env out vol conc s1 r1 ha hh

theorem registerNglobs_safe (creator : Key) (patterns : List (String × List String)) :
    Preserves (P F) (fun s => s.registerNglobs creator patterns) := by
  intro s s' hp h
  replace h : s.registerNglobs creator patterns = .ok s' := h
  unfold KState.registerNglobs at h
  exact foldlM_preserves (P F) (fun (st : KState) (pm : String × List String) => st.registerNglob creator pm.1 pm.2)
    patterns (fun pm => registerNglob_safe creator pm.1 pm.2) s s' hp h

theorem registerTrees_safe (cfg : KConfig) (creator : Key) (trees : List String) (s : KState)
    (r : KState × List String) (hp : P F s) (h : s.registerTrees cfg creator trees = .ok r) : P F r.1 := by
  unfold KState.registerTrees at h
  refine foldlM_inv (fun (a : KState × List String) => P F a.1) _ trees ?_ (s, []) r hp h
  intro a x b ha hb
  refine bind_ok_gen hb (fun c => P F c.1) (fun c hc => registerStaticTree_safe cfg creator x a.1 c ha hc)
    (fun r => P F r.1) ?_
  intro c d hc hd
  obtain ⟨s', chk⟩ := c
  simp only [pure, Except.pure, Except.ok.injEq] at hd
  subst hd; exact hc

/-- **`DirectorHandler.declare_static` preserves the discipline.** -/
theorem declareStaticRequest_safe (cfg : KConfig) (creator : Key) (trees files : List String)
    (patterns : List (String × List String)) (s : KState) (r : KState × List String) (hp : P F s)
    (h : s.declareStaticRequest cfg creator trees files patterns = .ok r) : P F r.1 := by
  unfold KState.declareStaticRequest at h
  refine bind_ok_gen h (fun a => P F a.1) (fun a ha => registerTrees_safe cfg creator trees s a hp ha)
    (fun r => P F r.1) ?_
  intro a r1 ha hh
  obtain ⟨s1, chk1⟩ := a
  simp only at hh
  refine bind_ok_gen hh (fun a => P F a.1) (fun a h2 => declareStaticFiles_safe cfg creator files s1 a ha h2)
    (fun r => P F r.1) ?_
  intro a2 r2 ha2 hh2
  obtain ⟨s2, chk2⟩ := a2
  simp only at hh2
  refine bind_ok_gen hh2 (P F) (fun s3 h3 => registerNglobs_safe creator patterns s2 s3 ha2 h3)
    (fun r => P F r.1) ?_
  intro s3 r3 hp3 hh3
  simp only [pure, Except.pure, Except.ok.injEq] at hh3
  subst hh3; exact hp3

end

end StepupModel.K.SafeDisc
