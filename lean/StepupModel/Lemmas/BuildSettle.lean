import StepupModel.Lemmas.BuildKernel
/-!
# Kernel facts for the composed build phase: the final transaction of a job leaves its step not RUNNING

`Step.set_state(st)` for `st ≠ RUNNING` and `Step.mark_completed` leave no RUNNING row with the key of the
step (`setStepState_settles`, `markCompleted_settles`), whatever else they rewrite: the three endings of
a job in `executor.py` (`mark_completed`; `set_state(PENDING)`; `reset_for_rerun` + `delete_hash` +
`set_state(PENDING)`) all end with one of the two.  No property statements here.
-/
namespace StepupModel.K
open StepupModel.K.Resources StepupModel.Lemmas

theorem setStepState_settles {s s' : KState} {k : Key} {st : StepState} {d : Bool} (hst : st ≠ .running)
    (hw : s.setStepState k st d = .ok s') : RunsIn (fun x => x ≠ k) s' := by
  unfold KState.setStepState KState.writeStepState at hw
  cases hf : s.find? k with
  | none =>
    simp only [hf, pure, Except.pure, Except.ok.injEq] at hw
    subst hw
    intro n hn _ hk
    unfold KState.find? at hf
    have := List.find?_eq_none.1 hf n hn
    simp [hk] at this
  | some n =>
    simp only [hf, bind, Except.bind] at hw
    cases hrw : stepRowWrite n st (some d) with
    | error e => simp [hrw] at hw
    | ok n' =>
      simp only [hrw, pure, Except.pure, Except.ok.injEq] at hw
      subst hw
      obtain ⟨-, -, c3⟩ := stepRowWrite_cols hrw
      intro m hm hrun
      unfold KState.modify at hm
      obtain ⟨m0, hm0, rfl⟩ := List.mem_map.1 hm
      by_cases hp : m0.key = k
      · rw [if_pos hp] at hrun
        have := ((runs_iff n').1 hrun).2
        rw [c3] at this
        exact absurd this hst
      · rw [if_neg hp]; exact hp

theorem completeFailure_settles {s s' : KState} {cfg : KConfig} {k : Key} {wd : Bool}
    (h : s.completeFailure cfg k wd = .ok s') : RunsIn (fun x => x ≠ k) s' := by
  have L := stableRes_runsIn (fun x => x ≠ k)
  unfold KState.completeFailure at h
  simp only [bind, Except.bind] at h
  cases h1 : s.outdateBuiltProducts k with
  | error e => simp [h1] at h
  | ok s1 =>
    simp only [h1] at h
    cases h2 : (s1.bumpDeferCount k wd).writeFailureState k (s1.deferGranted cfg k wd) with
    | error e => simp [h2] at h
    | ok s2 =>
      simp only [h2] at h
      cases h3 : s2.detachCreatedIfFailed k with
      | error e => simp [h3] at h
      | ok s3 =>
        simp only [h3, pure, Except.pure, Except.ok.injEq] at h
        subst h
        have p2 : RunsIn (fun x => x ≠ k) s2 := by
          unfold KState.writeFailureState at h2
          split at h2
          · exact setStepState_settles (by decide) h2
          · exact setStepState_settles (by decide) h2
        have p3 : RunsIn (fun x => x ≠ k) s3 := by
          unfold KState.detachCreatedIfFailed at h3
          split at h3
          · exact L.detachCreatedSteps_preserves k s2 s3 p2 h3
          · simp only [pure, Except.pure, Except.ok.injEq] at h3; subst h3; exact p2
        exact L.deleteHash s3 k p3

theorem completeSuccess_settles {s s' : KState} {cfg : KConfig} {k : Key} {hh : Nat}
    (h : s.completeSuccess cfg k hh = .ok s') : RunsIn (fun x => x ≠ k) s' := by
  have L := stableRes_runsIn (fun x => x ≠ k)
  unfold KState.completeSuccess at h
  simp only [bind, Except.bind] at h
  cases h1 : s.setStepState k .succeeded with
  | error e => simp [h1] at h
  | ok s1 =>
    simp only [h1] at h
    cases h2 : s1.rebuildOutdatedProducts k with
    | error e => simp [h2] at h
    | ok s2 =>
      simp only [h2, pure, Except.pure, Except.ok.injEq] at h
      subst h
      have p1 : RunsIn (fun x => x ≠ k) s1 := setStepState_settles (by decide) h1
      have p2 := L.rebuildOutdatedProducts_preserves k s1 s2 p1 h2
      unfold KState.refreshEnvValues
      exact L.cacheAt _ k _ (fun _ => ⟨rfl, rfl⟩) (L.setHash s2 k hh p2)

/-- `Step.mark_completed` leaves no RUNNING row with the key of the step. -/
theorem markCompleted_settles {s s' : KState} {cfg : KConfig} {k : Key} {nh : Option Nat} {wd b : Bool}
    (h : s.markCompleted cfg k nh wd = .ok (s', b)) : RunsIn (fun x => x ≠ k) s' := by
  unfold KState.markCompleted at h
  cases nh with
  | none =>
    simp only [bind, Except.bind] at h
    cases h1 : s.completeFailure cfg k wd with
    | error e => simp [h1] at h
    | ok st =>
      simp only [h1, pure, Except.pure, Except.ok.injEq, Prod.mk.injEq] at h
      obtain ⟨rfl, -⟩ := h
      exact completeFailure_settles h1
  | some hh =>
    simp only [bind, Except.bind] at h
    cases h1 : s.completeSuccess cfg k hh with
    | error e => simp [h1] at h
    | ok st =>
      simp only [h1, pure, Except.pure, Except.ok.injEq, Prod.mk.injEq] at h
      obtain ⟨rfl, -⟩ := h
      exact completeSuccess_settles h1

/-- The last request of the final transaction of a job for step `k`, as the executor issues it. -/
def Settling (k : Key) : Req → Prop
  | .completed k' _ _ => k' = k
  | .setState k' st => k' = k ∧ st ≠ .running
  | _ => False

theorem exec_settles {s : KState} {cfg : KConfig} {k : Key} {r : Req} {res : KState × String} (hs : Settling k r)
    (h : s.exec cfg r = .ok res) : RunsIn (fun x => x ≠ k) res.1 := by
  cases r with
  | completed k' nh wd =>
    have hk : k' = k := hs
    subst hk
    simp only [KState.exec, bind, Except.bind] at h
    cases h1 : s.markCompleted cfg k' nh wd with
    | error e => simp [h1] at h
    | ok st =>
      obtain ⟨st, b⟩ := st
      simp only [h1, pure, Except.pure, Except.ok.injEq] at h
      subst h
      exact markCompleted_settles h1
  | setState k' st =>
    obtain ⟨hk, hst⟩ : k' = k ∧ st ≠ .running := hs
    subst hk
    exact setStepState_settles hst (StableRes.unitOut_ok h)
  | _ => exact hs.elim

end StepupModel.K
