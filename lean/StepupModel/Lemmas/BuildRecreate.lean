import StepupModel.Lemmas.BuildWitness
/-!
# One build phase (`B/Build.lean`): a RUNNING step that is created again (C12, known finding)

`run_inFlightLink` says: every step whose row is RUNNING is the step of a RUN job whose task is in
`running_tasks`.  The converse ("the row of a RUN job in flight is RUNNING") and "at most one job in flight
per step" are FALSE, in the model as in the implementation (known finding C12
`resource-limit-exceeded:running-step-recreated`, replayed on the real CLI by
`harness/repro/c12_running_step_recreated.py` and on the simulated director by `props/c12.py`
`recreated_running_case`).

The scenario.  Step `X` (one unit of `token`, of which one is available) is RUNNING, job 2 is in flight.  Its
creator, the planning script `S`, is executed again (job 3): the executor calls `reset_for_rerun` on `S`, which
detaches `X` (`X` stays RUNNING, detached) -- that is the state `r0`.  `S` then declares `X` again with a
DIFFERENT input list (event `e1`): `Step.can_recycle` is false, `define_step` falls through to
`Trellis.create`, which reuses the detached node, and `Step.initialize_row` inserts a fresh row with state
PENDING although the command of job 2 is still running.  The next pass of the job loop (event `e2`) hands out
`X` again (job 4): two jobs of one step are in `running_tasks`, and while `X` was PENDING the unit of `token`
held by the command of job 2 was not counted (the resource accounting sums over RUNNING rows).

The database states are written out (`define_step` goes through string functions that the kernel cannot
evaluate); `kr0` is the state the compiled model reaches from `KState.init` with the requests
`define root ./sub.py (plan)`, `pop S`, `static S [a, late]`, `hashes a late CONFIRMED`, `define S X(inp a)`,
`completed S`, `pop X`, `deleteHash S`, `markPending S`, `pop S`, `resetRerun S`, `static S [a, late]`,
`hashes a late CONFIRMED` (evaluated with `#eval`).  Everything from `r0` on is checked by the kernel, with one
hypothesis for the one string computation of `define_step` that does not reduce:
`Step.adjust_label("X", ".") = "X"`.
-/
namespace StepupModel.B.Build
open StepupModel.K StepupModel.K.Resources StepupModel.B.JobLoop

/-- The converse of `InFlightLink`: every job of `Scheduler.jobs` that was handed out to run its command (not
a hash check) and whose task is in `running_tasks` has a RUNNING row. -/
def FlightRows (s : Sys) : Prop :=
  ∀ a ∈ s.jobs, a.2.2 = false → Job.step a.1 ∈ s.jl.running → ∃ n ∈ s.k.nodes, n.key = a.2.1 ∧ runs n = true

/-- At most one job in flight per step. -/
def OneJobPerStep (s : Sys) : Prop :=
  ∀ a ∈ s.jobs, ∀ b ∈ s.jobs, Job.step a.1 ∈ s.jl.running → Job.step b.1 ∈ s.jl.running → a.2.1 = b.2.1 → a.1 = b.1

end StepupModel.B.Build

namespace StepupModel.B.Build.Recreate
open StepupModel.K StepupModel.K.Resources StepupModel.B StepupModel.B.Build StepupModel.B.JobLoop

deriving instance DecidableEq for Node
deriving instance DecidableEq for KState

def S : Key := stepKey "./sub.py"
def X : Key := stepKey "X"
def fA : Key := fileKey "a"
def fLate : Key := fileKey "late"

/-- One unit of `token`. -/
def cfgT : KConfig := { available := [("token", 1)] }

/-- The definition of `X` in the second execution of `S`: the extra input `late`. -/
def declX' : StepDecl := { cmd := "X", inp := ["a", "late"], resources := [("token", 1)] }

/-- The database after `reset_for_rerun(S)` in job 3 and the static declarations of `S`: `X` is detached and
still RUNNING (it holds the unit of `token`), its input is `a`. -/
def kr0 : KState :=
  { nodes := [
      { key := rootKey, creator := some rootKey },
      { key := S, creator := some rootKey, sstate := .running, need := .plan, safe := true, checkSafe := true,
        safeNH := true, impliedNeed := .plan, ready := true, checkReady := false },
      { key := fA, creator := some S, fstate := .confirmed, fhash := some 1 },
      { key := fLate, creator := some S, fstate := .confirmed, fhash := some 2 },
      { key := X, creator := none, detached := true, sstate := .running, checkSafe := true, checkAfter := true,
        ready := true, checkReady := true, resources := [("token", 1)] } ],
    deps := [ { src := fA, snk := X } ] }

/-- The database after `define S X(inp a, late)`: the row of `X` is new, PENDING. -/
def kr1 : KState :=
  { nodes := [
      { key := rootKey, creator := some rootKey },
      { key := S, creator := some rootKey, sstate := .running, need := .plan, safe := true, checkSafe := true,
        safeNH := true, impliedNeed := .plan, ready := true, checkReady := false },
      { key := fA, creator := some S, fstate := .confirmed, fhash := some 1 },
      { key := fLate, creator := some S, fstate := .confirmed, fhash := some 2 },
      { key := X, creator := some S, detached := false, sstate := .pending, checkSafe := true, checkAfter := true,
        ready := false, checkReady := true, resources := [("token", 1)] } ],
    deps := [ { src := fA, snk := X }, { src := fLate, snk := X } ] }

/-- The state of the build: jobs 1 (`S`, retired), 2 (`X`) and 3 (`S` again) were handed out; 2 and 3 are in
`running_tasks`; the loop is parked in `wake_job_loop.wait()`. -/
def r0 : Sys :=
  { k := kr0, cfg := cfgT,
    jl := { njob := 4, status := .waiting, running := [.step 2, .step 3], started := [.step 1, .step 2, .step 3],
            handled := [.step 1], retired := [1], polls := 4 },
    assigned := [(1, S, false), (2, X, false), (3, S, false)],
    parked := true }

/-- `S` (job 3) declares `X` again, with the extra input. -/
def e1 : Build.Ev := .rpc 3 (.define S declX')
/-- The next pass of the job loop; `SELECT_NEXT_STEP` returns `X`. -/
def e2 : Build.Ev := .pass (some X)

/-- The state between the two events, written out. -/
def r1 : Sys := { r0 with k := kr1, parked := false }

set_option maxRecDepth 100000

/-! ## The request `define S X'` on `kr0` -/

def stateOf : M (KState × List String) → Option KState
  | .ok (k, _) => some k
  | .error _ => none

theorem stateOf_spec {r : M (KState × List String)} {k : KState} (h : stateOf r = some k) : ∃ chk, r = .ok (k, chk) := by
  match r, h with
  | .ok (k', chk), h => simp only [stateOf, Option.some.injEq] at h; subst h; exact ⟨chk, rfl⟩

def isOkUnit : M Unit → Bool
  | .ok _ => true
  | .error _ => false

theorem isOkUnit_spec {r : M Unit} (h : isOkUnit r = true) : r = .ok () := by
  match r, h with
  | .ok (), _ => rfl

theorem np_two : normPaths ["a", "late"] = ["a", "late"] := by
  simp [normPaths, sortStrs, List.mergeSort, dedupSorted]

theorem np_nil : normPaths ([] : List String) = [] := by simp [normPaths, sortStrs, dedupSorted]

theorem guard (hl : stepLabel "X" "." = some "X") : kr0.defineGuard cfgT S declX' = .ok X := by
  have h1 : "a".endsWith "/" = false := by decide +kernel
  have h2 : "late".endsWith "/" = false := by decide +kernel
  unfold KState.defineGuard
  simp [declX', hl, h1, h2, S, X, rootKey, stepKey, fileKey, fA, fLate, KConfig.forbiddenTarget, KState.raiseIfGlobMatch,
    KState.attachedGlobs, kr0, bind, Except.bind, pure, Except.pure]

theorem cannot_recycle : kr0.canRecycle X declX' = false := by
  simp [KState.canRecycle, KState.initialPaths, kr0, KState.find?, KState.isDetached, sortStrs, List.mergeSort, X, S,
    fA, fLate, declX', stepKey, fileKey, rootKey, FileState.role?]

theorem new_guard : kr0.newStepGuard X declX' = .ok () := isOkUnit_spec (by decide +kernel)

theorem create : ∃ chk, kr0.createStep cfgT X S declX' = .ok (kr1, chk) := stateOf_spec (by decide +kernel)

theorem nd : normDecl declX' = declX' := by simp [normDecl, declX', np_two, np_nil]

/-- The row of `X` in `kr0`: detached, RUNNING. -/
def xRow : Node :=
  { key := X, creator := none, detached := true, sstate := .running, checkSafe := true, checkAfter := true,
    ready := true, checkReady := true, resources := [("token", 1)] }

/-- **The request.**  `define S X(inp a, late)` on `kr0` is accepted, does not recycle (`can_recycle` is false:
the input lists differ) and leaves `kr1`: the row of `X` is PENDING. -/
theorem define_recreates (hl : stepLabel "X" "." = some "X") :
    ∃ o, kr0.exec cfgT (.define S declX') = .ok (kr1, o) := by
  obtain ⟨chk, hc⟩ := create
  have hf : kr0.find? X = some xRow := by decide +kernel
  have hnd := nd
  unfold normDecl at hnd
  refine ⟨StepupModel.Proto.hexList chk, ?_⟩
  simp only [KState.exec]
  unfold KState.defineStep
  simp only [hnd, bind, Except.bind, guard hl, hf, cannot_recycle, new_guard, hc, Bool.false_eq_true, and_false,
    if_false, pure, Except.pure]

/-! ## The two events -/

theorem step_e1 (hl : stepLabel "X" "." = some "X") : step r0 e1 = r1 := by
  obtain ⟨o, ho⟩ := define_recreates hl
  have ho' : r0.k.exec r0.cfg (.define S declX') = .ok (kr1, o) := ho
  have hc : r0.jl.running.contains (.step 3) = true := by decide
  show unpark (applyEv r0 (.rpc 3 (.define S declX'))) = r1
  simp only [applyEv, hc, ho', wakes, if_true]
  rfl

theorem r0_kernelLink : KernelLink r0 := by
  intro n hn hr
  simp only [r0, kr0, List.mem_cons, List.mem_nil_iff, or_false] at hn
  rcases hn with rfl | rfl | rfl | rfl | rfl
  · cases hr
  · exact ⟨(1, S, false), by decide, rfl, rfl⟩
  · cases hr
  · cases hr
  · exact ⟨(2, X, false), by decide, rfl, rfl⟩

theorem r0_inFlightLink : InFlightLink r0 := by
  intro n hn hr
  simp only [r0, kr0, List.mem_cons, List.mem_nil_iff, or_false] at hn
  rcases hn with rfl | rfl | rfl | rfl | rfl
  · cases hr
  · exact ⟨(3, S, false), by decide, rfl, rfl, by decide⟩
  · cases hr
  · cases hr
  · exact ⟨(2, X, false), by decide, rfl, rfl, by decide⟩

theorem r0_flightRows : FlightRows r0 := by
  intro a ha _ _
  have hj : r0.jobs = [(2, X, false), (3, S, false)] := by decide +kernel
  rw [hj] at ha
  simp only [List.mem_cons, List.mem_nil_iff, or_false] at ha
  rcases ha with rfl | rfl
  · exact ⟨xRow, by decide +kernel, rfl, rfl⟩
  · exact ⟨_, List.mem_cons_of_mem _ List.mem_cons_self, rfl, rfl⟩

theorem r0_oneJobPerStep : OneJobPerStep r0 := by
  intro a ha b hb _ _ hk
  have hj : r0.jobs = [(2, X, false), (3, S, false)] := by decide +kernel
  rw [hj] at ha hb
  simp only [List.mem_cons, List.mem_nil_iff, or_false] at ha hb
  rcases ha with rfl | rfl <;> rcases hb with rfl | rfl <;> first | rfl | (revert hk; decide)

theorem e1_legal : e1.legal := trivial
theorem e2_legal : e2.legal := trivial

/-- The facts about `r1` and `step r1 e2` that the kernel evaluates. -/
theorem r1_facts :
    r1.jl.running = [.step 2, .step 3] ∧ r1.jobs = [(2, X, false), (3, S, false)] ∧
    (r1.k.find? X).map (·.sstate) = some .pending ∧ (r1.k.nodes.filter fun n => runs n).map (·.key) = [S] ∧
    used r1.k "token" = 0 ∧
    (step r1 e2).jl.running = [.step 2, .step 3, .step 4] ∧
    (step r1 e2).jobs = [(2, X, false), (3, S, false), (4, X, false)] ∧
    (step r1 e2).jl.running.length ≤ (step r1 e2).jl.njob ∧
    ((step r1 e2).k.nodes.filter fun n => runs n).map (·.key) = [S, X] ∧
    used (step r1 e2).k "token" = 1 := by decide +kernel

/-- **C12, known finding `running-step-recreated`, on the composed model** (kernel-checked; `hl`: the one string
computation of `define_step` that the kernel cannot evaluate, `Step.adjust_label("X", ".") = "X"`).

`r0` satisfies the link invariants in both directions (`KernelLink`, `InFlightLink`, `FlightRows`,
`OneJobPerStep`): `X` is RUNNING and detached, job 2 (`X`) and job 3 (its creator `S`, executed again) are in
flight.  Two LEGAL events follow, both accepted: `e1`, the request `define S X(inp a, late)` of job 3, and `e2`,
a pass of the job loop.

* After `e1` job 2 is still in `running_tasks`, but the row of its step is PENDING: `FlightRows` is false, and
  no RUNNING row holds `token` although the command of job 2, which requires it, still runs.
* After `e2` jobs 2 and 4 are in `running_tasks` and both are jobs of `X`: `OneJobPerStep` is false; two
  commands that require the single unit of `token` run, and the RUNNING rows account for one unit.

`InFlightLink` (RUNNING row => job in flight) and the job limit are not contradicted: they hold in all three
states. -/
theorem two_jobs_of_one_step (hl : stepLabel "X" "." = some "X") :
    (KernelLink r0 ∧ InFlightLink r0 ∧ FlightRows r0 ∧ OneJobPerStep r0) ∧
    (r0.k.find? X = some xRow ∧ xRow.sstate = .running ∧ xRow.detached = true ∧
      r0.jobs = [(2, X, false), (3, S, false)] ∧ r0.jl.running = [.step 2, .step 3]) ∧
    (e1.legal ∧ e2.legal ∧ FinishOK r0 e1 ∧ FinishOK (step r0 e1) e2) ∧
    -- after `define`: a RUN job in flight whose row is not RUNNING
    ((step r0 e1).jobs = [(2, X, false), (3, S, false)] ∧ (step r0 e1).jl.running = [.step 2, .step 3] ∧
      ((step r0 e1).k.find? X).map (·.sstate) = some .pending ∧ used (step r0 e1).k "token" = 0 ∧
      InFlightLink (step r0 e1) ∧ ¬ FlightRows (step r0 e1)) ∧
    -- after the next pass: two jobs of one step in flight
    ((step (step r0 e1) e2).jobs = [(2, X, false), (3, S, false), (4, X, false)] ∧
      (step (step r0 e1) e2).jl.running = [.step 2, .step 3, .step 4] ∧
      (step (step r0 e1) e2).jl.running.length ≤ (step (step r0 e1) e2).jl.njob ∧
      used (step (step r0 e1) e2).k "token" = 1 ∧
      InFlightLink (step (step r0 e1) e2) ∧ ¬ OneJobPerStep (step (step r0 e1) e2)) := by
  have h1 := step_e1 hl
  obtain ⟨f1, f2, f3, f4, f5, f6, f7, f8, -, f10⟩ := r1_facts
  have l1 : InFlightLink (step r0 e1) := step_inFlight r0 e1 e1_legal trivial r0_inFlightLink
  have l2 : InFlightLink (step (step r0 e1) e2) := step_inFlight _ e2 e2_legal trivial l1
  rw [h1] at l1 l2 ⊢
  refine ⟨⟨r0_kernelLink, r0_inFlightLink, r0_flightRows, r0_oneJobPerStep⟩,
    ⟨by decide +kernel, rfl, rfl, by decide +kernel, rfl⟩, ⟨e1_legal, e2_legal, trivial, trivial⟩,
    ⟨f2, f1, f3, f5, l1, ?_⟩, ⟨f7, f6, f8, f10, l2, ?_⟩⟩
  · intro h
    obtain ⟨n, hn, hk, hr⟩ := h (2, X, false) (by rw [f2]; exact List.mem_cons_self) rfl (by rw [f1]; exact List.mem_cons_self)
    have hmem : n.key ∈ (r1.k.nodes.filter fun n => runs n).map (·.key) :=
      List.mem_map.2 ⟨n, List.mem_filter.2 ⟨hn, hr⟩, rfl⟩
    rw [f4, hk] at hmem
    revert hmem; decide
  · intro h
    have := h (2, X, false) (by rw [f7]; decide) (4, X, false) (by rw [f7]; decide) (by rw [f6]; decide)
      (by rw [f6]; decide) rfl
    revert this; decide

/-! ## The contrast: the same request with the same input list recycles, and `X` stays RUNNING -/

/-- The definition of `X` in the first execution of `S`. -/
def declX : StepDecl := { cmd := "X", inp := ["a"], resources := [("token", 1)] }

/-- `S` (job 3) declares `X` again, unchanged. -/
def e1same : Build.Ev := .rpc 3 (.define S declX)

/-- The database after `define S X(inp a)` on `kr0`: `X` is attached again, still RUNNING. -/
def kr1s : KState :=
  { nodes := [
      { key := rootKey, creator := some rootKey },
      { key := S, creator := some rootKey, sstate := .running, need := .plan, safe := true, checkSafe := true,
        safeNH := true, impliedNeed := .plan, ready := true, checkReady := false },
      { key := fA, creator := some S, fstate := .confirmed, fhash := some 1 },
      { key := fLate, creator := some S, fstate := .confirmed, fhash := some 2 },
      { key := X, creator := some S, detached := false, sstate := .running, checkSafe := true, checkAfter := true,
        ready := true, checkReady := true, resources := [("token", 1)] } ],
    deps := [ { src := fA, snk := X } ] }

def r1s : Sys := { r0 with k := kr1s, parked := false }

def stateOfM : M KState → Option KState
  | .ok k => some k
  | .error _ => none

theorem stateOfM_spec {r : M KState} {k : KState} (h : stateOfM r = some k) : r = .ok k := by
  match r, h with
  | .ok k', h => simp only [stateOfM, Option.some.injEq] at h; subst h; rfl

theorem np_one (a : String) : normPaths [a] = [a] := by simp [normPaths, sortStrs, dedupSorted]

theorem nd_same : normDecl declX = declX := by simp [normDecl, declX, np_one, np_nil]

theorem guard_same (hl : stepLabel "X" "." = some "X") : kr0.defineGuard cfgT S declX = .ok X := by
  have h1 : "a".endsWith "/" = false := by decide +kernel
  unfold KState.defineGuard
  simp [declX, hl, h1, S, X, rootKey, stepKey, fileKey, fA, fLate, KConfig.forbiddenTarget, KState.raiseIfGlobMatch,
    KState.attachedGlobs, kr0, bind, Except.bind, pure, Except.pure]

theorem can_recycle_same : kr0.canRecycle X declX = true := by
  simp [KState.canRecycle, KState.initialPaths, kr0, KState.find?, KState.isDetached, sortStrs, X, S,
    fA, fLate, declX, stepKey, fileKey, rootKey, FileState.role?]

theorem recycle_same : kr0.recycleStep X S declX xRow = .ok kr1s := stateOfM_spec (by decide +kernel)

theorem step_e1same (hl : stepLabel "X" "." = some "X") : step r0 e1same = r1s := by
  have hg : kr0.defineGuard cfgT S (normDecl declX) = .ok X := by rw [nd_same]; exact guard_same hl
  have hc : kr0.canRecycle X (normDecl declX) = true := by rw [nd_same]; exact can_recycle_same
  have hf : kr0.find? X = some xRow := by decide +kernel
  have ho : r0.k.exec r0.cfg (.define S declX) =
      .ok (kr1s, StepupModel.Proto.hexList (kr1s.unconfirmedTreeInputs X)) := by
    show kr0.exec cfgT (.define S declX) = _
    simp only [KState.exec]
    rw [defineStep_recycle hg hf rfl hc, nd_same, recycle_same]
    rfl
  have hr : r0.jl.running.contains (.step 3) = true := by decide
  show unpark (applyEv r0 (.rpc 3 (.define S declX))) = r1s
  simp only [applyEv, hr, ho, wakes, if_true]
  rfl

/-- A `define` request that creates anew (does not recycle) a step that has a job in flight. -/
def RecreatesInFlight (s : Sys) (c : Key) (d : StepDecl) : Prop :=
  ∃ sk, s.k.defineGuard s.cfg c (normDecl d) = .ok sk ∧ (∃ a ∈ s.jobs, a.2.1 = sk ∧ Job.step a.1 ∈ s.jl.running) ∧
    ¬ ((s.k.find? sk).any (·.detached) = true ∧ s.k.canRecycle sk (normDecl d) = true)

/-- **The discriminating condition in this scenario is `Step.can_recycle`.**  On the same state the request with
the unchanged input list recycles the row (`try_recycle`): `X` is attached again and still RUNNING, and the link
holds in both directions after it; the request of `two_jobs_of_one_step` is the one that re-creates a step in
flight. -/
theorem recycle_keeps_running (hl : stepLabel "X" "." = some "X") :
    RecreatesInFlight r0 S declX' ∧ ¬ RecreatesInFlight r0 S declX ∧
    (step r0 e1same).jobs = [(2, X, false), (3, S, false)] ∧ (step r0 e1same).jl.running = [.step 2, .step 3] ∧
    ((step r0 e1same).k.find? X).map (·.sstate) = some .running ∧
    InFlightLink (step r0 e1same) ∧ FlightRows (step r0 e1same) ∧ OneJobPerStep (step r0 e1same) := by
  have hj : r1s.jobs = [(2, X, false), (3, S, false)] := by decide +kernel
  have hg' : r0.k.defineGuard r0.cfg S (normDecl declX') = .ok X := by rw [nd]; exact guard hl
  have hg : r0.k.defineGuard r0.cfg S (normDecl declX) = .ok X := by rw [nd_same]; exact guard_same hl
  refine ⟨⟨X, hg', ⟨(2, X, false), by decide +kernel, rfl, by decide⟩, ?_⟩, ?_, ?_⟩
  · rintro ⟨-, h⟩
    rw [nd] at h
    exact absurd (show kr0.canRecycle X declX' = true from h) (by rw [cannot_recycle]; decide)
  · rintro ⟨sk, hsk, -, hn⟩
    rw [hg] at hsk
    cases hsk
    refine hn ⟨by decide +kernel, ?_⟩
    rw [nd_same]; exact can_recycle_same
  · rw [step_e1same hl]
    refine ⟨hj, rfl, by decide +kernel, ?_, ?_, ?_⟩
    · have := step_inFlight r0 e1same trivial trivial r0_inFlightLink
      rwa [step_e1same hl] at this
    · intro a ha _ _
      rw [hj] at ha
      simp only [List.mem_cons, List.mem_nil_iff, or_false] at ha
      rcases ha with rfl | rfl
      · exact ⟨{ xRow with creator := some S, detached := false }, by decide +kernel, rfl, rfl⟩
      · exact ⟨_, List.mem_cons_of_mem _ List.mem_cons_self, rfl, rfl⟩
    · intro a ha b hb _ _ hk
      rw [hj] at ha hb
      simp only [List.mem_cons, List.mem_nil_iff, or_false] at ha hb
      rcases ha with rfl | rfl <;> rcases hb with rfl | rfl <;> first | rfl | (revert hk; decide)

end StepupModel.B.Build.Recreate
