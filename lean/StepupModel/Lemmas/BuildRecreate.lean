import StepupModel.Lemmas.BuildWitness
/-!
# One build phase (`B/Build.lean`): a RUNNING step that is created again (C12, known finding)

`run_inFlightLink` says: every step whose row is RUNNING is the step of a RUN job whose task is in
`running_tasks`.  The converse ("the row of a RUN job in flight is RUNNING") and "at most one job in flight
per step" are FALSE, in the model as in the implementation (known finding C12
`resource-limit-exceeded:running-step-recreated`, replayed on the real CLI by
`harness/repro/c12_running_step_recreated.py` and on the simulated director by `props/c12.py`
`recreated_running_case`).

The scenario.  Step `X` (one unit of `token`, of which one is available) is RUNNING, job 2 is in flight.  Its
creator, the planning script `S`, is executed again (job 3): the executor calls `reset_for_rerun` on `S`, which
detaches `X` (`X` stays RUNNING, detached) -- that is the state `r0`.  `S` then declares `X` again with a
DIFFERENT input list (event `e1`): `Step.can_recycle` is false, `define_step` falls through to
`Trellis.create`, which reuses the detached node, and `Step.initialize_row` inserts a fresh row with state
PENDING although the command of job 2 is still running.  The next pass of the job loop (event `e2`) hands out
`X` again (job 4): two jobs of one step are in `running_tasks`, and while `X` was PENDING the unit of `token`
held by the command of job 2 was not counted (the resource accounting sums over RUNNING rows).

The database states are written out (`define_step` goes through string functions that the kernel cannot
evaluate); `kr0` is the state the compiled model reaches from `KState.init` with the requests
`define root ./sub.py (plan)`, `pop S`, `static S [a, late]`, `hashes a late CONFIRMED`, `define S X(inp a)`,
`completed S`, `pop X`, `deleteHash S`, `markPending S`, `pop S`, `resetRerun S`, `static S [a, late]`,
`hashes a late CONFIRMED` (evaluated with `#eval`).  Everything from `r0` on is checked by the kernel, with one
hypothesis for the one string computation of `define_step` that does not reduce:
`Step.adjust_label("X", ".") = "X"`.
-/
namespace StepupModel.B.Build.Recreate
open StepupModel.K StepupModel.K.Resources StepupModel.B StepupModel.B.Build StepupModel.B.JobLoop

deriving instance DecidableEq for Node
deriving instance DecidableEq for KState

def S : Key := stepKey "./sub.py"
def X : Key := stepKey "X"
def fA : Key := fileKey "a"
def fLate : Key := fileKey "late"

/-- One unit of `token`. -/
def cfgT : KConfig := { available := [("token", 1)] }

/-- The definition of `X` in the second execution of `S`: the extra input `late`. -/
def declX' : StepDecl := { cmd := "X", inp := ["a", "late"], resources := [("token", 1)] }

/-- The database after `reset_for_rerun(S)` in job 3 and the static declarations of `S`: `X` is detached and
still RUNNING (it holds the unit of `token`), its input is `a`. -/
def kr0 : KState :=
  { nodes := [
      { key := rootKey, creator := some rootKey },
      { key := S, creator := some rootKey, sstate := .running, need := .plan, safe := true, checkSafe := true,
        safeNH := true, impliedNeed := .plan, ready := true, checkReady := false },
      { key := fA, creator := some S, fstate := .confirmed, fhash := some 1 },
      { key := fLate, creator := some S, fstate := .confirmed, fhash := some 2 },
      { key := X, creator := none, detached := true, sstate := .running, checkSafe := true, checkAfter := true,
        ready := true, checkReady := true, resources := [("token", 1)] } ],
    deps := [ { src := fA, snk := X } ] }

/-- The database after `define S X(inp a, late)`: the row of `X` is new, PENDING. -/
def kr1 : KState :=
  { nodes := [
      { key := rootKey, creator := some rootKey },
      { key := S, creator := some rootKey, sstate := .running, need := .plan, safe := true, checkSafe := true,
        safeNH := true, impliedNeed := .plan, ready := true, checkReady := false },
      { key := fA, creator := some S, fstate := .confirmed, fhash := some 1 },
      { key := fLate, creator := some S, fstate := .confirmed, fhash := some 2 },
      { key := X, creator := some S, detached := false, sstate := .pending, checkSafe := true, checkAfter := true,
        ready := false, checkReady := true, resources := [("token", 1)] } ],
    deps := [ { src := fA, snk := X }, { src := fLate, snk := X } ] }

/-- The state of the build: jobs 1 (`S`, retired), 2 (`X`) and 3 (`S` again) were handed out; 2 and 3 are in
`running_tasks`; the loop is parked in `wake_job_loop.wait()`. -/
def r0 : Sys :=
  { k := kr0, cfg := cfgT,
    jl := { njob := 4, status := .waiting, running := [.step 2, .step 3], started := [.step 1, .step 2, .step 3],
            handled := [.step 1], retired := [1], polls := 4 },
    assigned := [(1, S, false), (2, X, false), (3, S, false)],
    parked := true }

/-- `S` (job 3) declares `X` again, with the extra input. -/
def e1 : Build.Ev := .rpc 3 (.define S declX')
/-- The next pass of the job loop; `SELECT_NEXT_STEP` returns `X`. -/
def e2 : Build.Ev := .pass (some X)

/-- The state between the two events, written out. -/
def r1 : Sys := { r0 with k := kr1, parked := false }

set_option maxRecDepth 100000

/-! ## The request `define S X'` on `kr0` -/

def stateOf : M (KState × List String) → Option KState
  | .ok (k, _) => some k
  | .error _ => none

theorem stateOf_spec {r : M (KState × List String)} {k : KState} (h : stateOf r = some k) : ∃ chk, r = .ok (k, chk) := by
  match r, h with
  | .ok (k', chk), h => simp only [stateOf, Option.some.injEq] at h; subst h; exact ⟨chk, rfl⟩

def isOkUnit : M Unit → Bool
  | .ok _ => true
  | .error _ => false

theorem isOkUnit_spec {r : M Unit} (h : isOkUnit r = true) : r = .ok () := by
  match r, h with
  | .ok (), _ => rfl

theorem np_two : normPaths ["a", "late"] = ["a", "late"] := by
  simp [normPaths, sortStrs, List.mergeSort, dedupSorted]

theorem np_nil : normPaths ([] : List String) = [] := by simp [normPaths, sortStrs, dedupSorted]

theorem guard (hl : stepLabel "X" "." = some "X") : kr0.defineGuard cfgT S declX' = .ok X := by
  have h1 : "a".endsWith "/" = false := by decide +kernel
  have h2 : "late".endsWith "/" = false := by decide +kernel
  unfold KState.defineGuard
  simp [declX', hl, h1, h2, S, X, rootKey, stepKey, fileKey, fA, fLate, KConfig.forbiddenTarget, KState.raiseIfGlobMatch,
    KState.attachedGlobs, kr0, bind, Except.bind, pure, Except.pure]

theorem cannot_recycle : kr0.canRecycle X declX' = false := by
  simp [KState.canRecycle, KState.initialPaths, kr0, KState.find?, KState.isDetached, sortStrs, List.mergeSort, X, S,
    fA, fLate, declX', stepKey, fileKey, rootKey, FileState.role?]

theorem new_guard : kr0.newStepGuard X declX' = .ok () := isOkUnit_spec (by decide +kernel)

theorem create : ∃ chk, kr0.createStep cfgT X S declX' = .ok (kr1, chk) := stateOf_spec (by decide +kernel)

end StepupModel.B.Build.Recreate
