import StepupModel.P.Like
/-! The BINARY collation order on code point / byte lists is a strict total order. -/
namespace StepupModel.P.Like

theorem ltB_asymm (a b : Str) : ltB a b = true → ltB b a = false := by
  induction a generalizing b with
  | nil => cases b <;> simp [ltB]
  | cons x xs ih =>
    cases b with
    | nil => simp [ltB]
    | cons y ys =>
      simp only [ltB]
      intro h
      by_cases h1 : x < y
      · have : ¬ y < x := by omega
        simp [h1, this]
      · by_cases h2 : y < x
        · simp [h1, h2] at h
        · simp [h1, h2] at h ⊢
          exact ih ys h

theorem ltB_trichotomy (a b : Str) : ltB a b = false → ltB b a = false → a = b := by
  induction a generalizing b with
  | nil => cases b <;> simp [ltB]
  | cons x xs ih =>
    cases b with
    | nil => simp [ltB]
    | cons y ys =>
      simp only [ltB]
      intro h1 h2
      by_cases hxy : x < y
      · simp [hxy] at h1
      · by_cases hyx : y < x
        · simp [hyx] at h2
        · have : x = y := by omega
          subst this
          simp [hxy] at h1 h2
          rw [ih ys h1 h2]

theorem ltB_trans (a b c : Str) : ltB a b = true → ltB b c = true → ltB a c = true := by
  induction a generalizing b c with
  | nil =>
    cases b with
    | nil => simp [ltB]
    | cons y ys => cases c <;> simp [ltB]
  | cons x xs ih =>
    cases b with
    | nil => simp [ltB]
    | cons y ys =>
      cases c with
      | nil => simp [ltB]
      | cons z zs =>
        simp only [ltB]
        intro h1 h2
        by_cases hxy : x < y
        · by_cases hyz : y < z
          · have : x < z := by omega
            simp [this]
          · by_cases hzy : z < y
            · simp [hyz, hzy] at h2
            · have : y = z := by omega
              subst this; simp [hxy]
        · by_cases hyx : y < x
          · simp [hxy, hyx] at h1
          · have : x = y := by omega
            subst this
            simp [hxy] at h1
            by_cases hxz : x < z
            · simp [hxz]
            · by_cases hzx : z < x
              · simp [hxz, hzx] at h2
              · simp [hxz, hzx] at h2 ⊢
                exact ih ys zs h1 h2

theorem leB_total (a b : Str) : (leB a b || leB b a) = true := by
  simp only [leB, Bool.or_eq_true, Bool.not_eq_true']
  by_cases h : ltB b a = true
  · exact Or.inr (ltB_asymm b a h)
  · exact Or.inl (by simpa using h)

theorem leB_antisymm (a b : Str) : leB a b = true → leB b a = true → a = b := by
  simp only [leB, Bool.not_eq_true']
  intro h1 h2
  exact ltB_trichotomy a b h2 h1

theorem leB_trans (a b c : Str) : leB a b = true → leB b c = true → leB a c = true := by
  simp only [leB, Bool.not_eq_true']
  intro h1 h2
  by_cases h : ltB c a = true
  · exfalso
    by_cases hab : ltB a b = true
    · have := ltB_trans c a b h hab
      simp [this] at h2
    · have : a = b := ltB_trichotomy a b (by simpa using hab) h1
      subst this
      simp [h] at h2
  · simpa using h

end StepupModel.P.Like
