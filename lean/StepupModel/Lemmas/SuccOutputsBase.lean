import StepupModel.Lemmas.EverOutput
import StepupModel.Lemmas.KProp
/-!
# I4 "every attached output of a SUCCEEDED step is BUILT or VOLATILE": the invariant and its leaves

`SuccOutputsOK` is the statement the oracle `succeeded_outputs` of `harness/koracles.py` decides (the form
`Workflow._check_consistency` tests).  It is not inductive.  The invariant that is carried through the
requests is `J X W N s`, a statement about every edge `src -> f` into a file row `f`:

* (row) `f` has a row;
* (own) the creator of `f` is `src` or `f` has no creator (a raw `detach` of the file cuts the link and
  leaves the edge);
* (role) `f` is in a product state (PLANNED, BUILT, OUTDATED, VOLATILE);
* (done) if the creator of `f` is `src`, and `src` is a SUCCEEDED step, then `f` is BUILT or VOLATILE.

`(done)` does not mention `detached`: a detached SUCCEEDED step with its detached outputs satisfies it too, which
is what makes the re-attachment of a recycled subtree harmless.  The parameters: `X` are the sink keys
for which anything is claimed (`Trellis.create` rewrites the row of its key before it deletes the edges
into it), `W` the edges whose `(done)` clause is waived (inside `mark_completed`, between the write of the
step state and the writes of the file states), `N` keys that are not SUCCEEDED steps (the creator of the
products that are being declared).  No property statements here.
-/
namespace StepupModel.K.SuccOut
open StepupModel.K.MetaAfter StepupModel.K.Discipline StepupModel.Lemmas StepupModel.K.Ever
set_option linter.unusedSimpArgs false
set_option linter.unusedVariables false

/-- The states an output of a SUCCEEDED step may be in. -/
def Done (st : FileState) : Prop := st = .built ∨ st = .volatile

instance (st : FileState) : Decidable (Done st) := by unfold Done; exact inferInstance

theorem Done.isProduct {st : FileState} (h : Done st) : IsProduct st := by
  rcases h with rfl | rfl <;> decide

/-- **I4 as the oracle states it**: every attached file that is the sink of an edge from a SUCCEEDED
step (attached or not) is BUILT or VOLATILE. -/
def SuccOutputsOK (s : KState) : Prop :=
  ∀ n ∈ s.nodes, n.key.kind = .step → n.sstate = .succeeded →
    ∀ d ∈ s.deps, d.src = n.key →
      ∀ f ∈ s.nodes, f.key = d.snk → f.key.kind = .file → f.detached = false → Done f.fstate

instance (s : KState) : Decidable (SuccOutputsOK s) := by
  unfold SuccOutputsOK Done; exact inferInstance

/-- The same as a computation. -/
def succOutputsOKB (s : KState) : Bool := decide (SuccOutputsOK s)

theorem succOutputsOKB_iff (s : KState) : succOutputsOKB s = true ↔ SuccOutputsOK s := by
  unfold succOutputsOKB; exact decide_eq_true_iff

/-- `k` is a SUCCEEDED step. -/
def Succ (s : KState) (k : Key) : Prop := k.kind = .step ∧ s.sstateOf k = some .succeeded

/-- What is claimed of the row `f` of the sink of the edge `d`. -/
def EdgeOK (s : KState) (W : Key → Key → Prop) (d : Dep) (f : Node) : Prop :=
  (f.creator = none ∨ f.creator = some d.src) ∧ IsProduct f.fstate ∧
    (f.creator = some d.src → ¬ W d.src d.snk → Succ s d.src → Done f.fstate)

/-- The invariant (see the header). -/
def J (X : Key → Prop) (W : Key → Key → Prop) (N : Key → Prop) (s : KState) : Prop :=
  (∀ d ∈ s.deps, d.snk.kind = .file → X d.snk → ∃ f, s.find? d.snk = some f ∧ EdgeOK s W d f) ∧
  (∀ k, N k → ¬ Succ s k)

def NoW (_ _ : Key) : Prop := False
def NoN (_ : Key) : Prop := False

/-- The state change of a file row that needs no context. -/
def StMono (s' : KState) (f f' : Node) : Prop :=
  f'.fstate = f.fstate ∨ f'.fstate = .built ∨ (IsProduct f'.fstate ∧ ¬ Done f.fstate) ∨
    (IsProduct f'.fstate ∧ ∀ c, f'.creator = some c → ¬ Succ s' c)

/-- **The monotonicity lemma**: edges only disappear, the file rows that are still sinks keep their creator
(or lose it) and change state by `StMono`, no step becomes SUCCEEDED. -/
theorem J.mono {X : Key → Prop} {W : Key → Key → Prop} {N : Key → Prop} {s s' : KState} (hJ : J X W N s)
    (hd : ∀ d' ∈ s'.deps, d'.snk.kind = .file → X d'.snk → ∃ d ∈ s.deps, d.src = d'.src ∧ d.snk = d'.snk)
    (hr : ∀ k f, k.kind = .file → X k → s.find? k = some f → (∃ d' ∈ s'.deps, d'.snk = k) →
      ∃ f', s'.find? k = some f' ∧ (f'.creator = f.creator ∨ f'.creator = none) ∧ StMono s' f f')
    (hs : ∀ k, Succ s' k → Succ s k) : J X W N s' := by
  refine ⟨?_, fun k hk h => hJ.2 k hk (hs k h)⟩
  intro d' hd' hkind hx
  obtain ⟨d, hdm, h1, h2⟩ := hd d' hd' hkind hx
  obtain ⟨f, hf, hc1, hc2, hc3⟩ := hJ.1 d hdm (h2 ▸ hkind) (h2 ▸ hx)
  rw [h2] at hf
  obtain ⟨f', hf', hcr, hst⟩ := hr d'.snk f hkind hx hf ⟨d', hd', rfl⟩
  refine ⟨f', hf', ?_, ?_, ?_⟩
  · rcases hcr with he | he
    · rw [he, ← h1]; exact hc1
    · exact .inl he
  · rcases hst with he | he | he | he
    · rw [he]; exact hc2
    · rw [he]; decide
    · exact he.1
    · exact he.1
  · intro hcs hw hsucc
    have hcf : f.creator = some d.src := by
      rcases hcr with he | he
      · rw [← he, h1]; exact hcs
      · rw [he] at hcs; cases hcs
    have hsd : Succ s d.src := h1 ▸ hs _ hsucc
    have hdone : Done f.fstate := hc3 hcf (by rw [h1, h2]; exact hw) hsd
    rcases hst with he | he | he | he
    · rw [he]; exact hdone
    · exact .inl he
    · exact absurd hdone he.2
    · exact absurd hsucc (he.2 _ hcs)

theorem StMono.rfl' {s' : KState} {f f' : Node} (h : f'.fstate = f.fstate) : StMono s' f f' := .inl h

/-- States with the same rows and edges. -/
theorem J.congr {X : Key → Prop} {W : Key → Key → Prop} {N : Key → Prop} {s s' : KState} (hJ : J X W N s)
    (hn : s'.nodes = s.nodes) (hd : s'.deps = s.deps) : J X W N s' := by
  have hfind : ∀ k, s'.find? k = s.find? k := fun k => by unfold KState.find?; rw [hn]
  refine hJ.mono (fun d' h _ _ => ⟨d', hd ▸ h, rfl, rfl⟩) (fun k f _ _ hf _ => ⟨f, (hfind k).trans hf, .inl rfl, .inl rfl⟩)
    (fun k h => ⟨h.1, ?_⟩)
  have := h.2
  unfold KState.sstateOf at this ⊢
  rw [hfind] at this; exact this

/-- Fewer claims. -/
theorem J.weaken {X X' : Key → Prop} {W W' : Key → Key → Prop} {N N' : Key → Prop} {s : KState} (hJ : J X W N s)
    (hX : ∀ k, X' k → X k) (hW : ∀ a b, W a b → W' a b) (hN : ∀ k, N' k → N k) : J X' W' N' s := by
  refine ⟨?_, fun k hk => hJ.2 k (hN k hk)⟩
  intro d hd hk hx
  obtain ⟨f, hf, h1, h2, h3⟩ := hJ.1 d hd hk (hX _ hx)
  exact ⟨f, hf, h1, h2, fun hc hw => h3 hc (fun h => hw (hW _ _ h))⟩

/-- Keys that are not SUCCEEDED steps may be added to `N`. -/
theorem J.addN {X : Key → Prop} {W : Key → Key → Prop} {N : Key → Prop} {s : KState} (hJ : J X W N s)
    (M : Key → Prop) (hM : ∀ k, M k → ¬ Succ s k) : J X W (fun k => N k ∨ M k) s :=
  ⟨hJ.1, fun k hk => hk.elim (hJ.2 k) (hM k)⟩

/-- Waivers of edges whose source is not a SUCCEEDED step can be dropped. -/
theorem J.unwaive {X : Key → Prop} {W W' : Key → Key → Prop} {N : Key → Prop} {s : KState} (hJ : J X W N s)
    (h : ∀ d ∈ s.deps, d.snk.kind = .file → W d.src d.snk → ¬ W' d.src d.snk → ∀ f, s.find? d.snk = some f →
      f.creator = some d.src → Succ s d.src → Done f.fstate) : J X W' N s := by
  refine ⟨?_, hJ.2⟩
  intro d hd hk hx
  obtain ⟨f, hf, h1, h2, h3⟩ := hJ.1 d hd hk hx
  refine ⟨f, hf, h1, h2, fun hc hw hs => ?_⟩
  by_cases hW : W d.src d.snk
  · exact h d hd hk hW hw f hf hc hs
  · exact h3 hc hW hs

/-! ## Row updates -/

/-- What a row update may do without context. -/
def RowMono (n n' : Node) : Prop :=
  (n.key.kind = .file → (n'.creator = n.creator ∨ n'.creator = none) ∧ (n'.fstate = n.fstate ∨ n'.fstate = .built)) ∧
  (n'.sstate = .succeeded → n.sstate = .succeeded)

theorem RowMono.refl (n : Node) : RowMono n n := ⟨fun _ => ⟨.inl rfl, .inl rfl⟩, id⟩

/-- Rows are rewritten one by one (keys kept) by `RowMono`, edges stay. -/
theorem J.rows {X : Key → Prop} {W : Key → Key → Prop} {N : Key → Prop} {s s' : KState} (hJ : J X W N s)
    (hd : s'.deps = s.deps)
    (hf : ∀ k, ∃ g : Node → Node, s'.find? k = (s.find? k).map g ∧ ∀ n, s.find? k = some n → RowMono n (g n)) :
    J X W N s' := by
  refine hJ.mono (fun d' h _ _ => ⟨d', hd ▸ h, rfl, rfl⟩) ?_ ?_
  · intro k f hk _ hfk _
    obtain ⟨g, hg, hm⟩ := hf k
    have hkey := find?_key s k f hfk
    obtain ⟨h1, h2⟩ := (hm f hfk).1 (hkey ▸ hk)
    refine ⟨g f, by rw [hg, hfk]; rfl, h1, ?_⟩
    rcases h2 with h2 | h2
    · exact .inl h2
    · exact .inr (.inl h2)
  · intro k h
    refine ⟨h.1, ?_⟩
    obtain ⟨g, hg, hm⟩ := hf k
    have h2 := h.2
    unfold KState.sstateOf at h2 ⊢
    rw [hg] at h2
    cases hfk : s.find? k with
    | none => rw [hfk] at h2; cases h2
    | some n =>
      rw [hfk] at h2
      simp only [Option.map_some, Option.some.injEq] at h2 ⊢
      exact (hm n hfk).2 h2

theorem J.modifyWhere {X : Key → Prop} {W : Key → Key → Prop} {N : Key → Prop} {s : KState} (hJ : J X W N s)
    (p : Node → Bool) (g : Node → Node) (hkey : ∀ n, (g n).key = n.key) (hg : ∀ n, RowMono n (g n)) :
    J X W N (s.modifyWhere p g) := by
  refine hJ.rows rfl fun k => ⟨fun n => if p n then g n else n, find?_modifyWhere s p g k hkey, fun n _ => ?_⟩
  by_cases hp : p n = true
  · simp only [hp, if_true]; exact hg n
  · simp only [hp]; exact RowMono.refl n

theorem J.modify {X : Key → Prop} {W : Key → Key → Prop} {N : Key → Prop} {s : KState} (hJ : J X W N s)
    (k : Key) (g : Node → Node) (hkey : ∀ n, n.key = k → (g n).key = k)
    (hg : ∀ n, s.find? k = some n → RowMono n (g n)) : J X W N (s.modify k g) := by
  refine hJ.rows rfl fun q => ⟨fun n => if n.key = k then g n else n, find?_modify s k q g hkey, fun n hn => ?_⟩
  by_cases hp : n.key = k
  · simp only [hp, if_true]
    have : q = k := (find?_key s q n hn).symm.trans hp
    subst this
    exact hg n hn
  · simp only [hp, if_false]; exact RowMono.refl n

/-- A cache-only update (`Lemmas/Stable.lean`) is harmless. -/
theorem rowMono_of_cacheOnly {g : Node → Node} (hg : CacheOnly g) (n : Node) : RowMono n (g n) := by
  have h := hg n
  unfold Node.hard at h
  simp only [Prod.mk.injEq] at h
  obtain ⟨_, h2, _, h4, _, h6, _⟩ := h
  exact ⟨fun _ => ⟨.inl h2, .inl h4⟩, fun hs => by rw [← h6]; exact hs⟩

theorem key_of_cacheOnly {g : Node → Node} (hg : CacheOnly g) (n : Node) : (g n).key = n.key := by
  have h := hg n
  unfold Node.hard at h
  simp only [Prod.mk.injEq] at h
  exact h.1

theorem J.cache {X : Key → Prop} {W : Key → Key → Prop} {N : Key → Prop} {s : KState} (hJ : J X W N s)
    (p : Node → Bool) (g : Node → Node) (hg : CacheOnly g) : J X W N (s.modifyWhere p g) :=
  hJ.modifyWhere p g (key_of_cacheOnly hg) (rowMono_of_cacheOnly hg)

theorem J.cacheAt {X : Key → Prop} {W : Key → Key → Prop} {N : Key → Prop} {s : KState} (hJ : J X W N s)
    (k : Key) (g : Node → Node) (hg : CacheOnly g) : J X W N (s.modify k g) :=
  hJ.modify k g (fun n hn => (key_of_cacheOnly hg n).trans hn) (fun n _ => rowMono_of_cacheOnly hg n)

/-! ## Edge updates -/

theorem J.depsSub {X : Key → Prop} {W : Key → Key → Prop} {N : Key → Prop} {s : KState} (hJ : J X W N s) (D : List Dep)
    (hD : ∀ d' ∈ D, ∃ d ∈ s.deps, d.src = d'.src ∧ d.snk = d'.snk) : J X W N { s with deps := D } :=
  hJ.mono (fun d' h _ _ => hD d' h) (fun k f _ _ hf _ => ⟨f, hf, .inl rfl, .inl rfl⟩) (fun k h => h)

theorem J.filterDeps {X : Key → Prop} {W : Key → Key → Prop} {N : Key → Prop} {s : KState} (hJ : J X W N s) (p : Dep → Bool) :
    J X W N { s with deps := s.deps.filter fun d => !p d } :=
  hJ.depsSub _ fun d' h => ⟨d', (List.mem_filter.1 h).1, rfl, rfl⟩

theorem J.markDyn {X : Key → Prop} {W : Key → Key → Prop} {N : Key → Prop} {s : KState} (hJ : J X W N s) (a b : Key) (dyn : Bool) :
    J X W N { s with deps := s.deps.map fun (d : Dep) => if d.src = a ∧ d.snk = b then { d with dyn := dyn } else d } := by
  refine hJ.depsSub _ fun d' h => ?_
  obtain ⟨d, hd, rfl⟩ := List.mem_map.1 h
  refine ⟨d, hd, ?_, ?_⟩ <;> split <;> rfl

/-- Edges into a key are removed: whatever was exempt for that key can be claimed again. -/
theorem J.dropSink {X : Key → Prop} {W : Key → Key → Prop} {N : Key → Prop} {s : KState} (k : Key) (hJ : J (fun x => X x ∧ x ≠ k) W N s)
    (p : Dep → Bool) (hp : ∀ d ∈ s.deps, d.snk = k → p d = true) : J X W N { s with deps := s.deps.filter fun d => !p d } := by
  have h1 := hJ.filterDeps p
  refine ⟨?_, h1.2⟩
  intro d hd hk hx
  refine h1.1 d hd hk ⟨hx, fun he => ?_⟩
  obtain ⟨hm, hq⟩ := List.mem_filter.1 hd
  rw [hp d hm he] at hq; cases hq

/-- A new edge, given the clauses of its sink. -/
theorem J.addDep {X : Key → Prop} {W : Key → Key → Prop} {N : Key → Prop} {s : KState} (hJ : J X W N s) (a b : Key)
    (h : b.kind = .file → X b → ∃ f, s.find? b = some f ∧ EdgeOK s W { src := a, snk := b } f) :
    J X W N { s with deps := s.deps ++ [({ src := a, snk := b } : Dep)] } := by
  refine ⟨?_, hJ.2⟩
  intro d hd hk hx
  rcases List.mem_append.1 hd with hd | hd
  · exact hJ.1 d hd hk hx
  · rw [List.mem_singleton] at hd
    subst hd
    exact h hk hx

/-! ## Rows that come and go -/

theorem find?_appendNode (s : KState) (k q : Key) (c : Option Key) :
    (s.appendNode k c).find? q = (s.find? q).or
      (if k = q then some ({ key := k, creator := c, detached := s.creatorDetached c } : Node) else none) := by
  unfold KState.appendNode KState.find?
  simp only [List.find?_append, List.find?_cons, List.find?_nil]
  by_cases h : k = q <;> simp [h]

theorem J.appendNode {X : Key → Prop} {W : Key → Key → Prop} {N : Key → Prop} {s : KState} (hJ : J X W N s) (k : Key)
    (c : Option Key) : J X W N (s.appendNode k c) := by
  refine hJ.mono (fun d' h _ _ => ⟨d', h, rfl, rfl⟩) ?_ ?_
  · intro q f _ _ hf _
    refine ⟨f, ?_, .inl rfl, .inl rfl⟩
    rw [find?_appendNode, hf]; rfl
  · intro q h
    refine ⟨h.1, ?_⟩
    have h2 := h.2
    unfold KState.sstateOf at h2 ⊢
    rw [find?_appendNode] at h2
    cases hq : s.find? q with
    | some n => rw [hq] at h2; exact h2
    | none =>
      rw [hq] at h2
      by_cases hk : k = q
      · simp [hk] at h2
      · simp [hk] at h2

theorem find?_filter_ne (l : List Node) (k q : Key) (hq : q ≠ k) :
    (l.filter (·.key ≠ k)).find? (·.key = q) = l.find? (·.key = q) := by
  induction l with
  | nil => rfl
  | cons a as ih =>
    by_cases ha : a.key = k
    · have hne : ¬ a.key = q := fun h => hq (h.symm.trans ha)
      rw [List.filter_cons_of_neg (by simpa using ha), List.find?_cons_of_neg (by simpa using hne)]
      exact ih
    · rw [List.filter_cons_of_pos (by simpa using ha)]
      by_cases haq : a.key = q
      · rw [List.find?_cons_of_pos (by simpa using haq), List.find?_cons_of_pos (by simpa using haq)]
      · rw [List.find?_cons_of_neg (by simpa using haq), List.find?_cons_of_neg (by simpa using haq)]
        exact ih

theorem find?_removeNode (s : KState) (k q : Key) (hq : q ≠ k) :
    ({ s with nodes := s.nodes.filter (·.key ≠ k) } : KState).find? q = s.find? q :=
  find?_filter_ne s.nodes k q hq

theorem find?_removeNode_self (s : KState) (k : Key) :
    ({ s with nodes := s.nodes.filter (·.key ≠ k) } : KState).find? k = none := by
  unfold KState.find?
  simp only [List.find?_eq_none, List.mem_filter, decide_eq_true_eq, and_imp]
  intro n _ h1 h2
  simp only [ne_eq, decide_not, Bool.not_eq_eq_eq_not, Bool.not_true, decide_eq_false_iff_not] at h1
  exact h1 h2

theorem J.removeNode {X : Key → Prop} {W : Key → Key → Prop} {N : Key → Prop} {s : KState} (hJ : J X W N s) (k : Key)
    (hk : ∀ d ∈ s.deps, d.snk ≠ k) : J X W N { s with nodes := s.nodes.filter (·.key ≠ k) } := by
  refine hJ.mono (fun d' h _ _ => ⟨d', h, rfl, rfl⟩) ?_ ?_
  · intro q f _ _ hf hex
    obtain ⟨d', hd', he⟩ := hex
    have hq : q ≠ k := he ▸ hk d' hd'
    exact ⟨f, (find?_removeNode s k q hq).trans hf, .inl rfl, .inl rfl⟩
  · intro q h
    refine ⟨h.1, ?_⟩
    have h2 := h.2
    unfold KState.sstateOf at h2 ⊢
    by_cases hq : q = k
    · subst hq; rw [find?_removeNode_self] at h2; cases h2
    · rw [find?_removeNode s k q hq] at h2; exact h2

/-! ## The file row write, with its context -/

/-- `UPDATE file SET state` on the row of `k`: the clauses of the edges into `k` are re-established by the
caller. -/
theorem J.fileWrite {X : Key → Prop} {W : Key → Key → Prop} {N : Key → Prop} {s : KState} (hJ : J X W N s)
    {k : Key} {n n' : Node} (hf : s.find? k = some n) (hkey : n'.key = n.key) (hcr : n'.creator = n.creator)
    (hss : n'.sstate = n.sstate)
    (h : ∀ d ∈ s.deps, d.snk = k → k.kind = .file → X k → IsProduct n'.fstate ∧
      (n.creator = some d.src → ¬ W d.src d.snk → Succ s d.src → Done n'.fstate)) :
    J X W N (s.modify k fun _ => n') := by
  have hk := find?_key s k n hf
  have hfind : ∀ q, (s.modify k fun _ => n').find? q = (s.find? q).map fun m => if m.key = k then n' else m :=
    fun q => find?_modify s k q _ (fun m hm => hkey.trans hk)
  have hsucc : ∀ q, Succ (s.modify k fun _ => n') q → Succ s q := by
    intro q hq
    refine ⟨hq.1, ?_⟩
    have h2 := hq.2
    unfold KState.sstateOf at h2 ⊢
    rw [hfind] at h2
    cases hfq : s.find? q with
    | none => rw [hfq] at h2; cases h2
    | some m =>
      rw [hfq] at h2
      simp only [Option.map_some, Option.some.injEq] at h2 ⊢
      by_cases hm : m.key = k
      · rw [if_pos hm, hss] at h2
        have : q = k := (find?_key s q m hfq).symm.trans hm
        subst this
        rw [hf] at hfq; cases hfq; exact h2
      · rw [if_neg hm] at h2; exact h2
  refine ⟨?_, fun q hq hs => hJ.2 q hq (hsucc q hs)⟩
  intro d hd hkind hx
  obtain ⟨f, hfd, h1, h2, h3⟩ := hJ.1 d hd hkind hx
  by_cases hdk : d.snk = k
  · rw [hdk, hf] at hfd; cases hfd
    refine ⟨n', by rw [hfind, hdk, hf]; simp [hk], by rw [hcr]; exact h1, ?_, ?_⟩
    · exact (h d hd hdk (hdk ▸ hkind) (hdk ▸ hx)).1
    · intro hc hw hs
      exact (h d hd hdk (hdk ▸ hkind) (hdk ▸ hx)).2 (hcr ▸ hc) hw (hsucc _ hs)
  · refine ⟨f, ?_, h1, h2, fun hc hw hs => h3 hc hw (hsucc _ hs)⟩
    rw [hfind, hfd]
    have : f.key ≠ k := fun he => hdk ((find?_key s _ f hfd).symm.trans he)
    simp [this]

/-- A step row write to a state other than SUCCEEDED. -/
theorem J.stepWrite {X : Key → Prop} {W : Key → Key → Prop} {N : Key → Prop} {s : KState} (hJ : J X W N s)
    {k : Key} {n n' : Node} {st : StepState} {d : Option Bool} (hf : s.find? k = some n)
    (hw : stepRowWrite n st d = .ok n') (hst : st ≠ .succeeded) : J X W N (s.modify k fun _ => n') := by
  have hk := find?_key s k n hf
  have hrow : n'.sstate = st ∧ n'.key = n.key ∧ n'.fstate = n.fstate ∧ n'.creator = n.creator := by
    unfold stepRowWrite at hw
    dsimp only at hw
    split at hw
    · cases hw
    · simp only [pure, Except.pure, Except.ok.injEq] at hw
      subst hw
      exact ⟨rfl, rfl, rfl, rfl⟩
  refine hJ.modify k _ (fun m _ => hrow.2.1.trans hk) fun m hm => ?_
  rw [hf] at hm; cases hm
  exact ⟨fun _ => ⟨.inl hrow.2.2.2, .inl hrow.2.2.1⟩, fun hs => absurd (hrow.1.symm.trans hs) hst⟩

end StepupModel.K.SuccOut
