import StepupModel.Lemmas.KProp
import StepupModel.Lemmas.Norm
/-!
Frame lemmas for the recycle branch of `Trellis.create`: which columns the partial recycle of a
step leaves alone.  The view `envView` keeps the key and the `env_var` rows of every node; every
primitive used by `recycleCore` preserves it (nothing in that branch deletes `env_var` rows).
No property statements here (they are in `Props/C01.lean`).
-/
namespace StepupModel.K

/-- Key and `env_var` rows of a node. -/
def Node.envView (n : Node) : Key × List (String × Option String × Bool) := (n.key, n.envs)

/-- `s'` has the same nodes with the same `env_var` rows, in the same order. -/
def EnvFrame (s s' : KState) : Prop := s'.nodes.map Node.envView = s.nodes.map Node.envView

theorem EnvFrame.refl (s : KState) : EnvFrame s s := rfl
theorem EnvFrame.trans {a b c : KState} (h1 : EnvFrame a b) (h2 : EnvFrame b c) : EnvFrame a c :=
  Eq.trans h2 h1

theorem envFrame_modifyWhere (s : KState) (p : Node → Bool) (f : Node → Node) (hf : ∀ n, (f n).envView = n.envView) :
    EnvFrame s (s.modifyWhere p f) := by
  unfold EnvFrame KState.modifyWhere
  simp only [List.map_map]
  apply List.map_congr_left
  intro n _
  simp only [Function.comp]
  split <;> simp [hf]

theorem envFrame_modify (s : KState) (k : Key) (f : Node → Node) (hf : ∀ n, (f n).envView = n.envView) :
    EnvFrame s (s.modify k f) := by
  unfold EnvFrame KState.modify
  simp only [List.map_map]
  apply List.map_congr_left
  intro n _
  simp only [Function.comp]
  split <;> simp [hf]

theorem envFrame_flagReadySinks (s : KState) (k : Key) : EnvFrame s (s.flagReadySinks k) := by
  unfold KState.flagReadySinks
  exact envFrame_modifyWhere _ _ _ (fun n => rfl)

theorem envFrame_setDetachedRow (s : KState) (k : Key) (d : Bool) : EnvFrame s (s.setDetachedRow k d) := by
  unfold KState.setDetachedRow
  split
  · exact EnvFrame.refl s
  · simp only
    split
    · exact (envFrame_modify s k (fun n => { n with detached := d }) (fun n => rfl)).trans (envFrame_flagReadySinks _ k)
    · exact envFrame_modify s k (fun n => { n with detached := d }) (fun n => rfl)

theorem envFrame_foldl_setDetachedRow (l : List Key) (s : KState) (d : Bool) :
    EnvFrame s (l.foldl (fun s x => s.setDetachedRow x d) s) := by
  induction l generalizing s with
  | nil => exact EnvFrame.refl s
  | cons a as ih => exact (envFrame_setDetachedRow s a d).trans (ih _)

theorem envFrame_setDetachedRec (s : KState) (k : Key) (d : Bool) : EnvFrame s (s.setDetachedRec k d) := by
  unfold KState.setDetachedRec
  exact envFrame_foldl_setDetachedRow _ s d

theorem envFrame_setCreator (s s' : KState) (k : Key) (c : Option Key) (d : Bool)
    (h : s.setCreator k c d = .ok s') : EnvFrame s s' := by
  unfold KState.setCreator at h
  split at h
  · simp only [pure, Except.pure, Except.ok.injEq] at h
    subst h
    exact (envFrame_modify s k (fun n => { n with creator := c }) (fun n => rfl)).trans (envFrame_setDetachedRow _ k d)
  · simp [throw, throwThe, MonadExceptOf.throw] at h

theorem envFrame_flagChecksWithProducts (s s' : KState) (k : Key) (h : s.flagChecksWithProducts k = .ok s') :
    EnvFrame s s' := by
  unfold KState.flagChecksWithProducts at h
  split at h
  · simp [throw, throwThe, MonadExceptOf.throw] at h
  · simp only [pure, Except.pure, Except.ok.injEq] at h
    exact h ▸ envFrame_modifyWhere _ _ _ (fun n => rfl)

theorem envFrame_flagCheckAfterSources (s s' : KState) (k : Key) (h : s.flagCheckAfterSources k = .ok s') :
    EnvFrame s s' := by
  unfold KState.flagCheckAfterSources at h
  split at h
  · simp [throw, throwThe, MonadExceptOf.throw] at h
  · simp only [pure, Except.pure, Except.ok.injEq] at h
    exact h ▸ envFrame_modifyWhere _ _ _ (fun n => rfl)

theorem envFrame_detachCore (s s' : KState) (k : Key) (n : Node) (h : s.detachCore k n = .ok s') :
    EnvFrame s s' := by
  unfold KState.detachCore at h
  split at h
  · cases hsc : s.setCreator k none true with
    | error e => simp [hsc, bind, Except.bind] at h
    | ok s2 =>
      simp only [hsc, bind, Except.bind, pure, Except.pure, Except.ok.injEq] at h
      have q := envFrame_setCreator _ _ _ _ _ hsc
      subst h
      split
      · exact q.trans (envFrame_setDetachedRec _ _ _)
      · exact q
  · simp only [pure, Except.pure, Except.ok.injEq] at h
    exact h ▸ EnvFrame.refl s

theorem envFrame_detachFlags (s s' : KState) (k : Key) (h : s.detachFlags k = .ok s') : EnvFrame s s' := by
  unfold KState.detachFlags at h
  split at h
  · cases hfc : s.flagChecksWithProducts k with
    | error e => simp [hfc, bind, Except.bind] at h
    | ok s2 =>
      simp only [hfc, bind, Except.bind] at h
      exact (envFrame_flagChecksWithProducts _ _ _ hfc).trans (envFrame_flagCheckAfterSources _ _ _ h)
  · simp only [pure, Except.pure, Except.ok.injEq] at h
    exact h ▸ EnvFrame.refl s

theorem envFrame_detach (s s' : KState) (k : Key) (h : s.detach k = .ok s') : EnvFrame s s' := by
  unfold KState.detach at h
  cases hf : s.find? k with
  | none => simp [hf, throw, throwThe, MonadExceptOf.throw] at h
  | some n =>
    simp only [hf, bind, Except.bind] at h
    cases hc : s.detachCore k n with
    | error e => simp [hc] at h
    | ok s1 =>
      simp only [hc] at h
      exact (envFrame_detachCore _ _ _ _ hc).trans (envFrame_detachFlags _ _ _ h)

theorem envFrame_foldlM_detach (l : List Node) (s s' : KState)
    (h : l.foldlM (fun s p => s.detach p.key) s = .ok s') : EnvFrame s s' := by
  induction l generalizing s with
  | nil =>
    simp only [List.foldlM_nil, pure, Except.pure, Except.ok.injEq] at h
    exact h ▸ EnvFrame.refl s
  | cons a as ih =>
    simp only [List.foldlM_cons, bind, Except.bind] at h
    cases hd : s.detach a.key with
    | error e => simp [hd] at h
    | ok s1 =>
      simp only [hd] at h
      exact (envFrame_detach _ _ _ hd).trans (ih s1 h)

theorem envFrame_detachProducts (s s' : KState) (k : Key) (h : s.detachProducts k = .ok s') : EnvFrame s s' := by
  unfold KState.detachProducts at h
  exact envFrame_foldlM_detach _ s s' h

theorem envFrame_deleteHash (s : KState) (k : Key) : EnvFrame s (s.deleteHash k) := by
  unfold KState.deleteHash
  apply envFrame_modify
  intro n
  split <;> rfl

theorem envFrame_lostProduct (s s' : KState) (old : Option Key) (h : s.lostProduct old = .ok s') : EnvFrame s s' := by
  unfold KState.lostProduct at h
  split at h
  · split at h
    · simp [throw, throwThe, MonadExceptOf.throw] at h
    · rename_i oc _
      unfold KState.afterLostProduct at h
      split at h
      · simp only [pure, Except.pure, Except.ok.injEq] at h
        exact h ▸ envFrame_deleteHash s oc
      · simp only [pure, Except.pure, Except.ok.injEq] at h
        exact h ▸ EnvFrame.refl s
      · simp [throw, throwThe, MonadExceptOf.throw] at h
      · simp [throw, throwThe, MonadExceptOf.throw] at h
  · simp only [pure, Except.pure, Except.ok.injEq] at h
    exact h ▸ EnvFrame.refl s

theorem envFrame_flagDepEndpoints (s : KState) (a b : Key) : EnvFrame s (s.flagDepEndpoints a b) := by
  unfold KState.flagDepEndpoints
  exact envFrame_modifyWhere _ _ _ (fun n => rfl)

theorem envFrame_foldl_flagDepEndpoints (l : List Dep) (s : KState) :
    EnvFrame s (l.foldl (fun s d => s.flagDepEndpoints d.src d.snk) s) := by
  induction l generalizing s with
  | nil => exact EnvFrame.refl s
  | cons a as ih => exact (envFrame_flagDepEndpoints s a.src a.snk).trans (ih _)

theorem envFrame_deleteDeps (s : KState) (p : Dep → Bool) : EnvFrame s (s.deleteDeps p) := by
  unfold KState.deleteDeps
  exact envFrame_foldl_flagDepEndpoints _ _

/-- Up to the re-creation of the `step` row, the partial recycle of a step (`Trellis.create` on an
existing detached step node) keeps the `env_var` rows of every node; `initStepRow` then clears
those of the recycled step (`Step.initialize_row` deletes them since commit 7574d5c). -/
theorem recycleCore_step_split (s s' : KState) (k : Key) (n : Node) (creator : Option Key) (i : StepInit)
    (h : s.recycleCore k n creator (.step i) = .ok s') : ∃ s3, EnvFrame s s3 ∧ s' = s3.initStepRow k i := by
  unfold KState.recycleCore at h
  simp only [bind, Except.bind] at h
  cases h1 : s.setCreator k creator (s.creatorDetached creator) with
  | error e => simp [h1] at h
  | ok s1 =>
    simp only [h1] at h
    cases h2 : s1.lostProduct n.creator with
    | error e => simp [h2] at h
    | ok s2 =>
      simp only [h2] at h
      cases h3 : (s2.deleteDeps fun dp => decide (dp.snk = k)).detachProducts k with
      | error e => simp [h3] at h
      | ok s3 =>
        simp only [h3, KState.initRow, pure, Except.pure, Except.ok.injEq] at h
        exact ⟨s3, (envFrame_setCreator _ _ _ _ _ h1).trans <| (envFrame_lostProduct _ _ _ h2).trans <|
          (envFrame_deleteDeps s2 _).trans (envFrame_detachProducts _ _ _ h3), h.symm⟩

/-- Reading one node through an `EnvFrame`. -/
theorem envFrame_find? (s s' : KState) (h : EnvFrame s s') (k : Key) :
    (s'.find? k).map (·.envs) = (s.find? k).map (·.envs) := by
  unfold EnvFrame at h
  unfold KState.find?
  generalize s.nodes = l at h
  generalize s'.nodes = l' at h
  induction l' generalizing l with
  | nil =>
    cases l with
    | nil => rfl
    | cons a as => simp at h
  | cons b bs ih =>
    cases l with
    | nil => simp at h
    | cons a as =>
      simp only [List.map_cons, List.cons.injEq] at h
      obtain ⟨hab, hrest⟩ := h
      have hk : b.key = a.key := congrArg Prod.fst hab
      have he : b.envs = a.envs := congrArg Prod.snd hab
      simp only [List.find?_cons, hk]
      by_cases hq : a.key = k
      · simp [hq, he]
      · simp only [hq, decide_false]
        exact ih as hrest

/-! ## `env_var` rows of one node through `define_step` -/

/-- The `env_var` rows of node `q` (`none`: no such node). -/
def KState.envsOf (s : KState) (q : Key) : Option (List (String × Option String × Bool)) :=
  (s.find? q).map (·.envs)

theorem envsOf_of_frame (s s' : KState) (h : EnvFrame s s') (q : Key) : s'.envsOf q = s.envsOf q :=
  envFrame_find? s s' h q

theorem fileRowWrite_envs (n n' : Node) (st : FileState) (nh : Option (Option Nat))
    (h : fileRowWrite n st nh = .ok n') : n'.envs = n.envs ∧ n'.key = n.key := by
  unfold fileRowWrite at h
  dsimp only at h
  split at h
  · cases h
  · split at h
    · cases h
    · simp only [pure, Except.pure, Except.ok.injEq] at h
      subst h
      exact ⟨rfl, rfl⟩

theorem stepRowWrite_envs (n n' : Node) (st : StepState) (d : Option Bool)
    (h : stepRowWrite n st d = .ok n') : n'.envs = n.envs ∧ n'.key = n.key := by
  unfold stepRowWrite at h
  dsimp only at h
  split at h
  · cases h
  · simp only [pure, Except.pure, Except.ok.injEq] at h
    subst h
    exact ⟨rfl, rfl⟩

theorem envsOf_modify_const (s : KState) (k q : Key) (n n' : Node) (hf : s.find? k = some n)
    (he : n'.envs = n.envs) (hk : n'.key = n.key) : (s.modify k fun _ => n').envsOf q = s.envsOf q := by
  have hkk : n.key = k := find?_key s k n hf
  have hkey : ∀ m : Node, m.key = k → ((fun _ => n') m).key = k := fun _ _ => by simp [hk, hkk]
  unfold KState.envsOf
  by_cases hq : q = k
  · subst hq
    rw [find?_modify_self s q _ hkey, hf]
    simp [he]
  · rw [find?_modify_ne s k q _ hkey hq]

theorem envsOf_flagReadySinks (s : KState) (k q : Key) : (s.flagReadySinks k).envsOf q = s.envsOf q :=
  envsOf_of_frame _ _ (envFrame_flagReadySinks s k) q

theorem writeFile_envsOf (s s' : KState) (k : Key) (st : FileState) (nh : Option (Option Nat))
    (h : s.writeFile k st nh = .ok s') (q : Key) : s'.envsOf q = s.envsOf q := by
  unfold KState.writeFile at h
  cases hf : s.find? k with
  | none => simp only [hf, pure, Except.pure, Except.ok.injEq] at h; subst h; rfl
  | some n =>
    simp only [hf, bind, Except.bind] at h
    cases hw : fileRowWrite n st nh with
    | error e => simp [hw] at h
    | ok n' =>
      simp only [hw, pure, Except.pure, Except.ok.injEq] at h
      obtain ⟨he, hk⟩ := fileRowWrite_envs n n' st nh hw
      split at h
      · subst h; rw [envsOf_flagReadySinks]; exact envsOf_modify_const s k q n n' hf he hk
      · subst h; exact envsOf_modify_const s k q n n' hf he hk

theorem writeStepState_envsOf (s s' : KState) (k : Key) (st : StepState) (d : Option Bool)
    (h : s.writeStepState k st d = .ok s') (q : Key) : s'.envsOf q = s.envsOf q := by
  unfold KState.writeStepState at h
  cases hf : s.find? k with
  | none => simp only [hf, pure, Except.pure, Except.ok.injEq] at h; subst h; rfl
  | some n =>
    simp only [hf, bind, Except.bind] at h
    cases hw : stepRowWrite n st d with
    | error e => simp [hw] at h
    | ok n' =>
      simp only [hw, pure, Except.pure, Except.ok.injEq] at h
      obtain ⟨he, hk⟩ := stepRowWrite_envs n n' st d hw
      subst h
      exact envsOf_modify_const s k q n n' hf he hk

/-- The propagation does not touch `env_var` rows. -/
theorem propInv_envsOf (q : Key) (v : Option (List (String × Option String × Bool))) :
    PropInv (fun s => s.envsOf q = v) where
  file := fun s s' f hs _ _ h => by
    rw [setFileState_eq] at h
    rw [writeFile_envsOf s s' f _ _ h q]; exact hs
  step := fun s s' t _ hs _ _ _ h => by
    rw [setStepState_eq] at h
    rw [writeStepState_envsOf s s' t _ _ h q]; exact hs

theorem markFileOutdated_envsOf (s s' : KState) (f : Key) (h : s.markFileOutdated f = .ok s') (q : Key) :
    s'.envsOf q = s.envsOf q := by
  unfold KState.markFileOutdated at h
  cases hf : s.find? f with
  | none => simp only [hf, pure, Except.pure, Except.ok.injEq] at h; subst h; rfl
  | some n =>
    simp only [hf] at h
    split at h
    · simp only [bind, Except.bind] at h
      cases hw : s.setFileState f .outdated with
      | error e => simp [hw] at h
      | ok s1 =>
        simp only [hw] at h
        rw [setFileState_eq] at hw
        have h1 := writeFile_envsOf s s1 f _ _ hw q
        have := markConsumersPending_inv (propInv_envsOf q (s1.envsOf q)) s1 s' f rfl h
        rw [this, h1]
    · split at h
      · simp only [pure, Except.pure, Except.ok.injEq] at h; subst h; rfl
      · simp [throw, throwThe, MonadExceptOf.throw] at h

theorem initFileRow_envsOf (s s' : KState) (k : Key) (st : FileState) (existed : Bool)
    (h : s.initFileRow k st existed = .ok s') (q : Key) : s'.envsOf q = s.envsOf q := by
  unfold KState.initFileRow at h
  simp only [bind, Except.bind] at h
  cases hw : s.writeInitialFile k (s.keptState k st existed) existed with
  | error e => simp [hw] at h
  | ok s1 =>
    simp only [hw] at h
    have h1 : s1.envsOf q = s.envsOf q := by
      unfold KState.writeInitialFile at hw
      split at hw
      · rw [setFileState_eq] at hw; exact writeFile_envsOf s s1 k _ _ hw q
      · split at hw
        · simp [throw, throwThe, MonadExceptOf.throw] at hw
        · simp only [pure, Except.pure, Except.ok.injEq] at hw
          subst hw
          rw [envsOf_flagReadySinks]
          refine envsOf_of_frame _ _ (envFrame_modify s k _ ?_) q
          intro n; rfl
    split at h
    · rw [markFileOutdated_envsOf s1 s' k h q, h1]
    · simp only [pure, Except.pure, Except.ok.injEq] at h; subst h; exact h1

theorem appendNode_envsOf (s : KState) (k q : Key) (c : Option Key) (hq : q ≠ k) :
    (s.appendNode k c).envsOf q = s.envsOf q := by
  unfold KState.appendNode KState.envsOf KState.find?
  simp only [List.find?_append, List.find?_cons, List.find?_nil]
  have : decide (k = q) = false := by simp; exact fun h => hq h.symm
  cases s.nodes.find? (·.key = q) <;> simp [this]

/-- `Trellis.create` of a *file* node leaves the `env_var` rows of every node of another key alone
(file nodes have none). -/
theorem create_file_envsOf (s s' : KState) (k : Key) (c : Option Key) (st : FileState)
    (h : s.create k c (.file st) = .ok s') (q : Key) (hq : q ≠ k) : s'.envsOf q = s.envsOf q := by
  unfold KState.create at h
  cases hf : s.find? k with
  | some n =>
    simp only [hf] at h
    split at h
    · simp [throw, throwThe, MonadExceptOf.throw] at h
    · split at h
      · simp [throw, throwThe, MonadExceptOf.throw] at h
      · unfold KState.recycleCore at h
        simp only [bind, Except.bind] at h
        cases h1 : s.setCreator k c (s.creatorDetached c) with
        | error e => simp [h1] at h
        | ok s1 =>
          simp only [h1] at h
          cases h2 : s1.lostProduct n.creator with
          | error e => simp [h2] at h
          | ok s2 =>
            simp only [h2] at h
            cases h3 : (s2.deleteDeps fun dp => decide (dp.snk = k)).detachProducts k with
            | error e => simp [h3] at h
            | ok s3 =>
              simp only [h3, KState.initRow] at h
              have hfr : EnvFrame s s3 := (envFrame_setCreator _ _ _ _ _ h1).trans <|
                (envFrame_lostProduct _ _ _ h2).trans <| (envFrame_deleteDeps s2 _).trans (envFrame_detachProducts _ _ _ h3)
              rw [initFileRow_envsOf s3 s' k st true h q, envsOf_of_frame s s3 hfr q]
  | none =>
    simp only [hf] at h
    split at h
    · simp only [KState.initRow] at h
      rw [initFileRow_envsOf _ s' k st false h q, appendNode_envsOf s k q c hq]
    · simp [throw, throwThe, MonadExceptOf.throw] at h

theorem insertDep_envsOf (s s' : KState) (a b : Key) (h : s.insertDep a b = .ok s') (q : Key) :
    s'.envsOf q = s.envsOf q := by
  unfold KState.insertDep at h
  simp only [bind, Except.bind] at h
  split at h
  · simp [throw, throwThe, MonadExceptOf.throw] at h
  · split at h
    · simp [throw, throwThe, MonadExceptOf.throw] at h
    · simp only [pure, Except.pure, Except.ok.injEq] at h
      subst h
      exact envsOf_of_frame _ _ (envFrame_flagDepEndpoints _ a b) q

theorem fileKey_ne_step (p : String) (q : Key) (hq : q.kind = .step) : q ≠ fileKey p := by
  intro h; rw [h] at hq; cases hq

theorem resolveSupply_envsOf (s : KState) (cfg : KConfig) (step : Key) (path : String) (rn : Bool)
    (r : KState × Supply) (h : s.resolveSupply cfg step path rn = .ok r) (q : Key) (hq : q.kind = .step) :
    r.1.envsOf q = s.envsOf q := by
  have hne := fileKey_ne_step path q hq
  unfold KState.resolveSupply at h
  simp only [bind, Except.bind] at h
  cases hn : s.resolveNode cfg path with
  | error e => simp [hn] at h
  | ok t =>
    obtain ⟨s1, state, detached⟩ := t
    simp only [hn] at h
    have h1 : s1.envsOf q = s.envsOf q := by
      unfold KState.resolveNode at hn
      simp only [bind, Except.bind] at hn
      cases ht : s.resolveTree path (s.find? (fileKey path)) with
      | error e => simp [ht] at hn
      | ok tree =>
        simp only [ht] at hn
        unfold KState.resolveWith at hn
        split at hn
        · rename_i t
          unfold KState.adoptByTree at hn
          simp only [bind, Except.bind] at hn
          cases hg : adoptGuard cfg path with
          | error e => simp [hg] at hn
          | ok u =>
            simp only [hg] at hn
            cases hc : s.create (fileKey path) (some t) (.file .unconfirmed) with
            | error e => simp [hc] at hn
            | ok s2 =>
              simp only [hc, pure, Except.pure, Except.ok.injEq, Prod.mk.injEq] at hn
              rw [← hn.1]
              exact create_file_envsOf s s2 _ _ _ hc q hne
        · simp only [bind, Except.bind] at hn
          split at hn
          · simp [throw, throwThe, MonadExceptOf.throw] at hn
          · unfold KState.placeholder at hn
            simp only [bind, Except.bind] at hn
            cases hc : s.create (fileKey path) none (.file .undeclared) with
            | error e => simp [hc] at hn
            | ok s2 =>
              simp only [hc, pure, Except.pure, Except.ok.injEq, Prod.mk.injEq] at hn
              rw [← hn.1]
              exact create_file_envsOf s s2 _ _ _ hc q hne
        · split at hn
          · unfold KState.placeholder at hn
            simp only [bind, Except.bind] at hn
            cases hc : s.create (fileKey path) none (.file .undeclared) with
            | error e => simp [hc] at hn
            | ok s2 =>
              simp only [hc, pure, Except.pure, Except.ok.injEq, Prod.mk.injEq] at hn
              rw [← hn.1]
              exact create_file_envsOf s s2 _ _ _ hc q hne
          · simp only [bind, Except.bind] at hn
            split at hn
            · cases hn
            · simp only [pure, Except.pure, Except.ok.injEq, Prod.mk.injEq] at hn
              rw [← hn.1]
    split at h
    · simp [graphErr, throw, throwThe, MonadExceptOf.throw] at h
    · simp only [pure, Except.pure, Except.ok.injEq] at h
      subst h
      exact h1

theorem resolveAll_envsOf (cfg : KConfig) (step : Key) (rn : Bool) (paths : List String) (s : KState)
    (r : KState × List Supply) (h : s.resolveAll cfg step paths rn = .ok r) (q : Key) (hq : q.kind = .step) :
    r.1.envsOf q = s.envsOf q := by
  unfold KState.resolveAll at h
  have := foldlM_keeps (fun (acc : KState × List Supply) => acc.1.envsOf q = s.envsOf q) _ paths
    (fun b a b' _ hb hr => by
      simp only [bind, Except.bind] at hr
      cases hx : b.1.resolveSupply cfg step a rn with
      | error e => simp [hx] at hr
      | ok x =>
        simp only [hx, pure, Except.pure, Except.ok.injEq] at hr
        subst hr
        exact (resolveSupply_envsOf b.1 cfg step a rn x hx q hq).trans hb) (s, []) r rfl h
  exact this

theorem supplyFiles_envsOf (s : KState) (cfg : KConfig) (step : Key) (paths : List String) (rn : Bool)
    (r : KState × List Supply) (h : s.supplyFiles cfg step paths rn = .ok r) (q : Key) (hq : q.kind = .step) :
    r.1.envsOf q = s.envsOf q := by
  unfold KState.supplyFiles at h
  simp only [bind, Except.bind] at h
  cases ha : s.resolveAll cfg step paths rn with
  | error e => simp [ha] at h
  | ok t =>
    obtain ⟨s1, infos⟩ := t
    simp only [ha] at h
    have h1 := resolveAll_envsOf cfg step rn paths s (s1, infos) ha q hq
    split at h
    · simp [throw, throwThe, MonadExceptOf.throw] at h
    · cases hi : s1.insertNewEdges step infos with
      | error e => simp [hi] at h
      | ok s2 =>
        simp only [hi, pure, Except.pure, Except.ok.injEq] at h
        subst h
        unfold KState.insertNewEdges at hi
        have := foldlM_keeps (fun b => b.envsOf q = s1.envsOf q) _ _
          (fun b a b' _ hb hr => (insertDep_envsOf b b' _ _ hr q).trans hb) s1 s2 rfl hi
        exact this.trans h1

theorem declareFile_envsOf (s s' : KState) (cfg : KConfig) (creator : Key) (path : String) (st : FileState)
    (h : s.declareFile cfg creator path st = .ok s') (q : Key) (hq : q.kind = .step) : s'.envsOf q = s.envsOf q := by
  unfold KState.declareFile at h
  simp only [bind, Except.bind] at h
  split at h
  · cases h
  · cases hc : s.create (fileKey path) (some creator) (.file st) with
    | error e => simp [hc] at h
    | ok s1 =>
      simp only [hc] at h
      unfold KState.volatileSinkCheck at h
      split at h
      · simp [graphErr, throw, throwThe, MonadExceptOf.throw] at h
      · simp only [pure, Except.pure, Except.ok.injEq] at h
        subst h
        exact create_file_envsOf s s1 _ _ _ hc q (fileKey_ne_step path q hq)

theorem declareProducts_envsOf (cfg : KConfig) (step : Key) (st : FileState) (paths : List String) (s s' : KState)
    (h : s.declareProducts cfg step paths st = .ok s') (q : Key) (hq : q.kind = .step) : s'.envsOf q = s.envsOf q := by
  unfold KState.declareProducts at h
  exact foldlM_keeps (fun b => b.envsOf q = s.envsOf q) _ paths
    (fun b a b' _ hb hr => by
      unfold KState.declareProduct at hr
      simp only [bind, Except.bind] at hr
      cases hd : b.declareFile cfg step a st with
      | error e => simp [hd] at hr
      | ok b1 =>
        simp only [hd] at hr
        unfold KState.addSourceChecked at hr
        simp only [bind, Except.bind] at hr
        split at hr
        · simp [throw, throwThe, MonadExceptOf.throw] at hr
        · exact (insertDep_envsOf b1 b' _ _ hr q).trans ((declareFile_envsOf b b1 cfg step a st hd q hq).trans hb))
    s s' rfl h

/-- A step node right after `Trellis.create` (fresh or partially recycled) has no `env_var` row. -/
theorem create_step_envsOf (s s' : KState) (k : Key) (c : Option Key) (i : StepInit)
    (h : s.create k c (.step i) = .ok s') : s'.envsOf k = some [] := by
  unfold KState.create at h
  cases hf : s.find? k with
  | some n =>
    simp only [hf] at h
    split at h
    · simp [throw, throwThe, MonadExceptOf.throw] at h
    · split at h
      · simp [throw, throwThe, MonadExceptOf.throw] at h
      · obtain ⟨s3, hframe, hs'⟩ := recycleCore_step_split s s' k n c i h
        have h3 := envFrame_find? s s3 hframe k
        rw [hf] at h3
        subst hs'
        unfold KState.envsOf KState.initStepRow
        rw [find?_modify_self]
        · cases hf3 : s3.find? k with
          | none => simp [hf3] at h3
          | some m => rfl
        · intro m hm; exact hm
  | none =>
    simp only [hf] at h
    split at h
    · simp only [KState.initRow, pure, Except.pure, Except.ok.injEq] at h
      subst h
      unfold KState.envsOf KState.initStepRow
      rw [find?_modify_self]
      · have : (s.appendNode k c).find? k = some { key := k, creator := c, detached := s.creatorDetached c } := by
          unfold KState.appendNode KState.find?
          unfold KState.find? at hf
          simp only [List.find?_append, hf, List.find?_cons, decide_true, Option.none_or]
        rw [this]; rfl
      · intro m hm; exact hm
    · simp [throw, throwThe, MonadExceptOf.throw] at h

/-- The creation branch of `define_step`: the `env_var` rows of the new step are those that
`add_env_deps` writes on a step without rows. -/
theorem createStep_env_rows (s : KState) (cfg : KConfig) (sk creator : Key) (d : StepDecl) (r : KState × List String)
    (hk : sk.kind = .step) (h : s.createStep cfg sk creator d = .ok r) :
    ∃ n3 : Node, n3.envs = [] ∧ r.1.envsOf sk = some (addEnvDeps cfg n3 d.env).envs := by
  unfold KState.createStep at h
  simp only [bind, Except.bind] at h
  cases h1 : s.create sk (some creator) (.step { need := d.need, shell := d.shell, safe := d.safe }) with
  | error e => simp [h1] at h
  | ok s1 =>
    simp only [h1] at h
    have e1 := create_step_envsOf s s1 sk _ _ h1
    have e2 : (s1.setStepExtras sk d).envsOf sk = some [] := by
      unfold KState.setStepExtras
      rw [envsOf_of_frame _ _ (envFrame_modify s1 sk _ (by intro n; rfl)) sk]; exact e1
    cases h3 : (s1.setStepExtras sk d).supplyFiles cfg sk d.inp true with
    | error e => simp [h3] at h
    | ok t =>
      obtain ⟨s3, infos⟩ := t
      simp only [h3] at h
      have e3 : s3.envsOf sk = some [] := (supplyFiles_envsOf _ cfg sk d.inp true (s3, infos) h3 sk hk).trans e2
      cases hf3 : s3.find? sk with
      | none => simp [KState.envsOf, hf3] at e3
      | some n3 =>
        have hn3 : n3.envs = [] := by simpa [KState.envsOf, hf3] using e3
        have e4 : (s3.modify sk fun n => addEnvDeps cfg n d.env).envsOf sk = some (addEnvDeps cfg n3 d.env).envs := by
          unfold KState.envsOf
          rw [find?_modify_self, hf3]
          · rfl
          · intro m hm
            have : ∀ (l : List String) (m : Node), (addEnvDeps cfg m l).key = m.key := by
              intro l
              unfold addEnvDeps
              induction l with
              | nil => intro m; rfl
              | cons a as ih => intro m; simp only [List.foldl_cons]; rw [ih]
            rw [this]; exact hm
        cases h5 : (s3.modify sk fun n => addEnvDeps cfg n d.env).declareProducts cfg sk d.out .planned with
        | error e => simp [h5] at h
        | ok s5 =>
          simp only [h5] at h
          cases h6 : s5.declareProducts cfg sk d.vol .volatile with
          | error e => simp [h6] at h
          | ok s6 =>
            simp only [h6, pure, Except.pure, Except.ok.injEq] at h
            subst h
            refine ⟨n3, hn3, ?_⟩
            rw [declareProducts_envsOf cfg sk .volatile d.vol s5 s6 h6 sk hk,
              declareProducts_envsOf cfg sk .planned d.out _ s5 h5 sk hk, e4]

theorem defineGuard_key (s : KState) (cfg : KConfig) (creator : Key) (d : StepDecl) (k : Key)
    (h : s.defineGuard cfg creator d = .ok k) : ∃ label, stepLabel d.cmd d.workdir = some label ∧ k = stepKey label := by
  unfold KState.defineGuard at h
  simp only [bind, Except.bind] at h
  repeat' (split at h <;> try (first | (simp [graphErr, throw, throwThe, MonadExceptOf.throw] at h; done) | cases h))
  rename_i l hl _ v hv _ _ _
  simp only [pure, Except.pure, Except.ok.injEq] at hv
  subst hv
  exact ⟨l, hl, rfl⟩

theorem reattach_envsOf (s s' : KState) (k c : Key) (h : s.reattach k c = .ok s') (q : Key) :
    s'.envsOf q = s.envsOf q := by
  unfold KState.reattach at h
  cases hf : s.find? k with
  | none => simp [hf, throw, throwThe, MonadExceptOf.throw] at h
  | some n =>
    simp only [hf] at h
    split at h
    · simp [throw, throwThe, MonadExceptOf.throw] at h
    · split at h
      · simp [throw, throwThe, MonadExceptOf.throw] at h
      · unfold KState.reattachCore at h
        simp only [bind, Except.bind] at h
        cases h1 : s.setCreator k (some c) (s.isDetached c) with
        | error e => simp [h1] at h
        | ok s1 =>
          simp only [h1] at h
          cases h2 : s1.lostProduct n.creator with
          | error e => simp [h2] at h
          | ok s2 =>
            simp only [h2] at h
            have hfr : EnvFrame s (s2.setDetachedRec k (s.isDetached c)) :=
              (envFrame_setCreator _ _ _ _ _ h1).trans <| (envFrame_lostProduct _ _ _ h2).trans
                (envFrame_setDetachedRec s2 k _)
            unfold KState.flagIfStep at h
            split at h
            · exact envsOf_of_frame _ _ (hfr.trans (envFrame_flagChecksWithProducts _ _ _ h)) q
            · simp only [pure, Except.pure, Except.ok.injEq] at h
              subst h
              exact envsOf_of_frame _ _ hfr q

/-- The full recycle of a step keeps its `env_var` rows. -/
theorem recycleStep_envsOf (s s' : KState) (sk creator : Key) (d : StepDecl) (n : Node)
    (h : s.recycleStep sk creator d n = .ok s') (q : Key) : s'.envsOf q = s.envsOf q := by
  unfold KState.recycleStep at h
  simp only [bind, Except.bind] at h
  cases h1 : s.reattach sk creator with
  | error e => simp [h1] at h
  | ok s1 =>
    simp only [h1] at h
    cases h3 : s1.afterRecycle sk d n with
    | error e => simp [h3] at h
    | ok s3 =>
      simp only [h3, pure, Except.pure, Except.ok.injEq] at h
      subst h
      have e1 := reattach_envsOf s s1 sk creator h1 q
      have e3 : s3.envsOf q = s1.envsOf q := by
        unfold KState.afterRecycle at h3
        have hm : (s1.modify sk fun n => { n with need := d.need, shell := d.shell }).envsOf q = s1.envsOf q :=
          envsOf_of_frame _ _ (envFrame_modify s1 sk _ (by intro n; rfl)) q
        split at h3
        · rw [markStepPending_def] at h3
          rw [markStepPending_inv (propInv_envsOf q _) _ _ s3 sk rfl h3, hm]
        · simp only [pure, Except.pure, Except.ok.injEq] at h3
          subst h3; exact hm
      unfold KState.setStepExtras
      rw [envsOf_of_frame _ _ (envFrame_modify s3 sk _ (by intro n; rfl)) q, e3, e1]

/-- `define_step` after the normalisation of its four lists. -/
def KState.defineBody (s : KState) (cfg : KConfig) (creator : Key) (d : StepDecl) : M (KState × List String) := do
  let sk ← s.defineGuard cfg creator d
  match s.find? sk with
  | some n =>
    if n.detached ∧ s.canRecycle sk d then do
      let s1 ← s.recycleStep sk creator d n
      pure (s1, s1.unconfirmedTreeInputs sk)
    else do
      s.newStepGuard sk d
      s.createStep cfg sk creator d
  | none => do
    s.newStepGuard sk d
    s.createStep cfg sk creator d

def StepDecl.normalised (d : StepDecl) : StepDecl :=
  { d with inp := normPaths d.inp, env := normPaths d.env, out := normPaths d.out, vol := normPaths d.vol }

theorem defineStep_eq_body (s : KState) (cfg : KConfig) (creator : Key) (d : StepDecl) :
    s.defineStep cfg creator d = s.defineBody cfg creator d.normalised := rfl

end StepupModel.K
