import StepupModel.K.Scheduler
/-!
Frame lemmas for the recycle branch of `Trellis.create`: which columns the partial recycle of a
step leaves alone.  The view `envView` keeps the key and the `env_var` rows of every node; every
primitive used by `recycleCore` preserves it (nothing in that branch deletes `env_var` rows).
No property statements here (they are in `Props/C01.lean`).
-/
namespace StepupModel.K

/-- Key and `env_var` rows of a node. -/
def Node.envView (n : Node) : Key × List (String × Option String × Bool) := (n.key, n.envs)

/-- `s'` has the same nodes with the same `env_var` rows, in the same order. -/
def EnvFrame (s s' : KState) : Prop := s'.nodes.map Node.envView = s.nodes.map Node.envView

theorem EnvFrame.refl (s : KState) : EnvFrame s s := rfl
theorem EnvFrame.trans {a b c : KState} (h1 : EnvFrame a b) (h2 : EnvFrame b c) : EnvFrame a c :=
  Eq.trans h2 h1

theorem envFrame_modifyWhere (s : KState) (p : Node → Bool) (f : Node → Node) (hf : ∀ n, (f n).envView = n.envView) :
    EnvFrame s (s.modifyWhere p f) := by
  unfold EnvFrame KState.modifyWhere
  simp only [List.map_map]
  apply List.map_congr_left
  intro n _
  simp only [Function.comp]
  split <;> simp [hf]

theorem envFrame_modify (s : KState) (k : Key) (f : Node → Node) (hf : ∀ n, (f n).envView = n.envView) :
    EnvFrame s (s.modify k f) := by
  unfold EnvFrame KState.modify
  simp only [List.map_map]
  apply List.map_congr_left
  intro n _
  simp only [Function.comp]
  split <;> simp [hf]

theorem envFrame_flagReadySinks (s : KState) (k : Key) : EnvFrame s (s.flagReadySinks k) := by
  unfold KState.flagReadySinks
  exact envFrame_modifyWhere _ _ _ (fun n => rfl)

theorem envFrame_setDetachedRow (s : KState) (k : Key) (d : Bool) : EnvFrame s (s.setDetachedRow k d) := by
  unfold KState.setDetachedRow
  split
  · exact EnvFrame.refl s
  · simp only
    split
    · exact (envFrame_modify s k (fun n => { n with detached := d }) (fun n => rfl)).trans (envFrame_flagReadySinks _ k)
    · exact envFrame_modify s k (fun n => { n with detached := d }) (fun n => rfl)

theorem envFrame_foldl_setDetachedRow (l : List Key) (s : KState) (d : Bool) :
    EnvFrame s (l.foldl (fun s x => s.setDetachedRow x d) s) := by
  induction l generalizing s with
  | nil => exact EnvFrame.refl s
  | cons a as ih => exact (envFrame_setDetachedRow s a d).trans (ih _)

theorem envFrame_setDetachedRec (s : KState) (k : Key) (d : Bool) : EnvFrame s (s.setDetachedRec k d) := by
  unfold KState.setDetachedRec
  exact envFrame_foldl_setDetachedRow _ s d

theorem envFrame_setCreator (s s' : KState) (k : Key) (c : Option Key) (d : Bool)
    (h : s.setCreator k c d = .ok s') : EnvFrame s s' := by
  unfold KState.setCreator at h
  split at h
  · simp only [pure, Except.pure, Except.ok.injEq] at h
    subst h
    exact (envFrame_modify s k (fun n => { n with creator := c }) (fun n => rfl)).trans (envFrame_setDetachedRow _ k d)
  · simp [throw, throwThe, MonadExceptOf.throw] at h

theorem envFrame_flagChecksWithProducts (s s' : KState) (k : Key) (h : s.flagChecksWithProducts k = .ok s') :
    EnvFrame s s' := by
  unfold KState.flagChecksWithProducts at h
  split at h
  · simp [throw, throwThe, MonadExceptOf.throw] at h
  · simp only [pure, Except.pure, Except.ok.injEq] at h
    exact h ▸ envFrame_modifyWhere _ _ _ (fun n => rfl)

theorem envFrame_flagCheckAfterSources (s s' : KState) (k : Key) (h : s.flagCheckAfterSources k = .ok s') :
    EnvFrame s s' := by
  unfold KState.flagCheckAfterSources at h
  split at h
  · simp [throw, throwThe, MonadExceptOf.throw] at h
  · simp only [pure, Except.pure, Except.ok.injEq] at h
    exact h ▸ envFrame_modifyWhere _ _ _ (fun n => rfl)

theorem envFrame_detachCore (s s' : KState) (k : Key) (n : Node) (h : s.detachCore k n = .ok s') :
    EnvFrame s s' := by
  unfold KState.detachCore at h
  split at h
  · cases hsc : s.setCreator k none true with
    | error e => simp [hsc, bind, Except.bind] at h
    | ok s2 =>
      simp only [hsc, bind, Except.bind, pure, Except.pure, Except.ok.injEq] at h
      have q := envFrame_setCreator _ _ _ _ _ hsc
      subst h
      split
      · exact q.trans (envFrame_setDetachedRec _ _ _)
      · exact q
  · simp only [pure, Except.pure, Except.ok.injEq] at h
    exact h ▸ EnvFrame.refl s

theorem envFrame_detachFlags (s s' : KState) (k : Key) (h : s.detachFlags k = .ok s') : EnvFrame s s' := by
  unfold KState.detachFlags at h
  split at h
  · cases hfc : s.flagChecksWithProducts k with
    | error e => simp [hfc, bind, Except.bind] at h
    | ok s2 =>
      simp only [hfc, bind, Except.bind] at h
      exact (envFrame_flagChecksWithProducts _ _ _ hfc).trans (envFrame_flagCheckAfterSources _ _ _ h)
  · simp only [pure, Except.pure, Except.ok.injEq] at h
    exact h ▸ EnvFrame.refl s

theorem envFrame_detach (s s' : KState) (k : Key) (h : s.detach k = .ok s') : EnvFrame s s' := by
  unfold KState.detach at h
  cases hf : s.find? k with
  | none => simp [hf, throw, throwThe, MonadExceptOf.throw] at h
  | some n =>
    simp only [hf, bind, Except.bind] at h
    cases hc : s.detachCore k n with
    | error e => simp [hc] at h
    | ok s1 =>
      simp only [hc] at h
      exact (envFrame_detachCore _ _ _ _ hc).trans (envFrame_detachFlags _ _ _ h)

theorem envFrame_foldlM_detach (l : List Node) (s s' : KState)
    (h : l.foldlM (fun s p => s.detach p.key) s = .ok s') : EnvFrame s s' := by
  induction l generalizing s with
  | nil =>
    simp only [List.foldlM_nil, pure, Except.pure, Except.ok.injEq] at h
    exact h ▸ EnvFrame.refl s
  | cons a as ih =>
    simp only [List.foldlM_cons, bind, Except.bind] at h
    cases hd : s.detach a.key with
    | error e => simp [hd] at h
    | ok s1 =>
      simp only [hd] at h
      exact (envFrame_detach _ _ _ hd).trans (ih s1 h)

theorem envFrame_detachProducts (s s' : KState) (k : Key) (h : s.detachProducts k = .ok s') : EnvFrame s s' := by
  unfold KState.detachProducts at h
  exact envFrame_foldlM_detach _ s s' h

theorem envFrame_deleteHash (s : KState) (k : Key) : EnvFrame s (s.deleteHash k) := by
  unfold KState.deleteHash
  apply envFrame_modify
  intro n
  split <;> rfl

theorem envFrame_lostProduct (s s' : KState) (old : Option Key) (h : s.lostProduct old = .ok s') : EnvFrame s s' := by
  unfold KState.lostProduct at h
  split at h
  · split at h
    · simp [throw, throwThe, MonadExceptOf.throw] at h
    · rename_i oc _
      unfold KState.afterLostProduct at h
      split at h
      · simp only [pure, Except.pure, Except.ok.injEq] at h
        exact h ▸ envFrame_deleteHash s oc
      · simp only [pure, Except.pure, Except.ok.injEq] at h
        exact h ▸ EnvFrame.refl s
      · simp [throw, throwThe, MonadExceptOf.throw] at h
      · simp [throw, throwThe, MonadExceptOf.throw] at h
  · simp only [pure, Except.pure, Except.ok.injEq] at h
    exact h ▸ EnvFrame.refl s

theorem envFrame_flagDepEndpoints (s : KState) (a b : Key) : EnvFrame s (s.flagDepEndpoints a b) := by
  unfold KState.flagDepEndpoints
  exact envFrame_modifyWhere _ _ _ (fun n => rfl)

theorem envFrame_foldl_flagDepEndpoints (l : List Dep) (s : KState) :
    EnvFrame s (l.foldl (fun s d => s.flagDepEndpoints d.src d.snk) s) := by
  induction l generalizing s with
  | nil => exact EnvFrame.refl s
  | cons a as ih => exact (envFrame_flagDepEndpoints s a.src a.snk).trans (ih _)

theorem envFrame_deleteDeps (s : KState) (p : Dep → Bool) : EnvFrame s (s.deleteDeps p) := by
  unfold KState.deleteDeps
  exact envFrame_foldl_flagDepEndpoints _ _

/-- Up to the re-creation of the `step` row, the partial recycle of a step (`Trellis.create` on an
existing detached step node) keeps the `env_var` rows of every node; `initStepRow` then clears
those of the recycled step (`Step.initialize_row` deletes them since commit 7574d5c). -/
theorem recycleCore_step_split (s s' : KState) (k : Key) (n : Node) (creator : Option Key) (i : StepInit)
    (h : s.recycleCore k n creator (.step i) = .ok s') : ∃ s3, EnvFrame s s3 ∧ s' = s3.initStepRow k i := by
  unfold KState.recycleCore at h
  simp only [bind, Except.bind] at h
  cases h1 : s.setCreator k creator (s.creatorDetached creator) with
  | error e => simp [h1] at h
  | ok s1 =>
    simp only [h1] at h
    cases h2 : s1.lostProduct n.creator with
    | error e => simp [h2] at h
    | ok s2 =>
      simp only [h2] at h
      cases h3 : (s2.deleteDeps fun dp => decide (dp.snk = k)).detachProducts k with
      | error e => simp [h3] at h
      | ok s3 =>
        simp only [h3, KState.initRow, pure, Except.pure, Except.ok.injEq] at h
        exact ⟨s3, (envFrame_setCreator _ _ _ _ _ h1).trans <| (envFrame_lostProduct _ _ _ h2).trans <|
          (envFrame_deleteDeps s2 _).trans (envFrame_detachProducts _ _ _ h3), h.symm⟩

/-- Reading one node through an `EnvFrame`. -/
theorem envFrame_find? (s s' : KState) (h : EnvFrame s s') (k : Key) :
    (s'.find? k).map (·.envs) = (s.find? k).map (·.envs) := by
  unfold EnvFrame at h
  unfold KState.find?
  generalize s.nodes = l at h
  generalize s'.nodes = l' at h
  induction l' generalizing l with
  | nil =>
    cases l with
    | nil => rfl
    | cons a as => simp at h
  | cons b bs ih =>
    cases l with
    | nil => simp at h
    | cons a as =>
      simp only [List.map_cons, List.cons.injEq] at h
      obtain ⟨hab, hrest⟩ := h
      have hk : b.key = a.key := congrArg Prod.fst hab
      have he : b.envs = a.envs := congrArg Prod.snd hab
      simp only [List.find?_cons, hk]
      by_cases hq : a.key = k
      · simp [hq, he]
      · simp only [hq, decide_false]
        exact ih as hrest

end StepupModel.K
