import StepupModel.Lemmas.ReadyDisciplineLift
/-!
# The flag discipline of `_update_meta_ready`: definitions and the primitive writes

`CacheInvReady s`: every step (attached or not) whose `_check_ready` flag is down has its cached
`_ready` equal to the definition `computeReady` evaluated on the graph.  This file shows that every
primitive write of `K/Prim.lean`, taken with the triggers of the schema that raise `_check_ready`,
keeps it (together with "one row per key"): the instance `stableR_ri` of `StableR`.
-/
namespace StepupModel.K.ReadyDisc
open StepupModel.K StepupModel.Lemmas StepupModel.Generated
set_option linter.unusedSimpArgs false
set_option linter.unusedVariables false

/-- The flag discipline of the cached column `_ready`, over all steps (detached ones included: the
triggers do not look at the `detached` flag of the sink). -/
def CacheInvReady (s : KState) : Prop :=
  ∀ n ∈ s.nodes, n.key.kind = .step → n.checkReady = false → n.ready = s.computeReady n.key

/-- Executable form, for sampling in the driver. -/
def cacheInvReadyB (s : KState) : Bool :=
  s.nodes.all fun n => !(decide (n.key.kind = .step)) || n.checkReady || (n.ready == s.computeReady n.key)

theorem cacheInvReadyB_iff (s : KState) : cacheInvReadyB s = true ↔ CacheInvReady s := by
  unfold cacheInvReadyB CacheInvReady
  simp only [List.all_eq_true, Bool.or_eq_true, Bool.not_eq_true', decide_eq_false_iff_not, beq_iff_eq]
  constructor
  · intro h n hn hk hc
    rcases h n hn with (h1 | h1) | h1
    · exact absurd hk h1
    · rw [hc] at h1; cases h1
    · exact h1
  · intro h n hn
    by_cases hk : n.key.kind = .step
    · cases hc : n.checkReady with
      | true => exact .inl (.inr rfl)
      | false => exact .inr (h n hn hk hc)
    · exact .inl (.inl hk)

/-- The invariant that is carried through the histories: one row per key, and the discipline. -/
def RI (s : KState) : Prop := KeysNodup s ∧ CacheInvReady s

/-! ## Looking rows up -/

theorem find_key {s : KState} {k : Key} {n : Node} (h : s.find? k = some n) : n.key = k :=
  (find?_mem s k n h).2

theorem find?_of_nodup : ∀ (l : List Node), (l.map (·.key)).Nodup → ∀ n ∈ l, l.find? (·.key = n.key) = some n
  | [], _, _, h => by cases h
  | a :: l, hnd, n, hn => by
    rw [List.map_cons, List.nodup_cons] at hnd
    rcases List.mem_cons.1 hn with rfl | h
    · simp
    · have hne : a.key ≠ n.key := fun e => hnd.1 (e ▸ List.mem_map.2 ⟨n, h, rfl⟩)
      rw [List.find?_cons]
      simp only [hne, decide_false]
      exact find?_of_nodup l hnd.2 n h

theorem find?_self {s : KState} (hk : KeysNodup s) {n : Node} (hn : n ∈ s.nodes) : s.find? n.key = some n :=
  find?_of_nodup s.nodes ((keysNodup_iff s).1 hk) n hn

theorem eq_of_key {s : KState} (hk : KeysNodup s) {n m : Node} (hn : n ∈ s.nodes) (hm : m ∈ s.nodes)
    (h : n.key = m.key) : n = m := by
  have h1 := find?_self hk hn
  have h2 := find?_self hk hm
  rw [h, h2] at h1
  exact (Option.some.inj h1).symm

theorem find?_map_key (l : List Node) (g : Node → Node) (hg : ∀ n ∈ l, (g n).key = n.key) (q : Key) :
    (l.map g).find? (·.key = q) = (l.find? (·.key = q)).map g := by
  induction l with
  | nil => rfl
  | cons a as ih =>
    have ha : (g a).key = a.key := hg a (by simp)
    simp only [List.map_cons, List.find?_cons, ha]
    by_cases hq : a.key = q
    · simp only [hq, decide_true, Option.map_some]
    · simp only [hq, decide_false]
      exact ih (fun n hn => hg n (by simp [hn]))

theorem find?_filter_ne (l : List Node) (k q : Key) (h : q ≠ k) :
    (l.filter (·.key ≠ k)).find? (·.key = q) = l.find? (·.key = q) := by
  induction l with
  | nil => rfl
  | cons a as ih =>
    by_cases hk : a.key = k
    · have hq : ¬ a.key = q := fun e => h (e ▸ hk)
      rw [List.filter_cons_of_neg (by simpa using hk), List.find?_cons_of_neg (by simpa using hq)]
      exact ih
    · rw [List.filter_cons_of_pos (by simpa using hk)]
      by_cases hq : a.key = q
      · rw [List.find?_cons_of_pos (by simpa using hq), List.find?_cons_of_pos (by simpa using hq)]
      · rw [List.find?_cons_of_neg (by simpa using hq), List.find?_cons_of_neg (by simpa using hq)]
        exact ih

/-! ## What `computeReady` reads -/

/-- The columns of a source row that `UNAVAILABLE_INPUT_WHERE` reads (the kind is in the key). -/
def view (n : Node) : FileState × Bool := (n.fstate, n.detached)

theorem inputBlocks_congr {s s' : KState} {d : Dep}
    (h : (s'.find? d.src).map view = (s.find? d.src).map view) : s'.inputBlocks d = s.inputBlocks d := by
  unfold KState.inputBlocks
  cases h1 : s'.find? d.src with
  | none =>
    cases h2 : s.find? d.src with
    | none => rfl
    | some m => rw [h1, h2] at h; cases h
  | some m' =>
    cases h2 : s.find? d.src with
    | none => rw [h1, h2] at h; cases h
    | some m =>
      rw [h1, h2] at h
      simp only [Option.map_some, Option.some.injEq, view, Prod.mk.injEq] at h
      simp only [find_key h1, find_key h2, h.1, h.2]

theorem any_blocks_congr (l : List Dep) (t : Key) (f f' : Dep → Bool)
    (h : ∀ d ∈ l, d.snk = t → f' d = f d) :
    (l.any fun d => decide (d.snk = t) && f' d) = (l.any fun d => decide (d.snk = t) && f d) := by
  induction l with
  | nil => rfl
  | cons a as ih =>
    simp only [List.any_cons]
    rw [ih (fun d hd => h d (by simp [hd]))]
    by_cases ha : a.snk = t
    · rw [h a (by simp) ha]
    · simp [ha]

theorem computeReady_congr {s s' : KState} {t : Key} (hd : s'.deps = s.deps)
    (hb : ∀ d ∈ s.deps, d.snk = t → s'.inputBlocks d = s.inputBlocks d) :
    s'.computeReady t = s.computeReady t := by
  unfold KState.computeReady
  rw [hd, any_blocks_congr s.deps t _ _ hb]

/-- Same edges, same source rows (as far as readiness reads them): same readiness. -/
theorem computeReady_of_views {s s' : KState} (hd : s'.deps = s.deps)
    (hv : ∀ q, (s'.find? q).map view = (s.find? q).map view) (t : Key) :
    s'.computeReady t = s.computeReady t :=
  computeReady_congr hd fun d _ _ => inputBlocks_congr (hv d.src)

/-- Same edges, the source rows changed at `k` only, and `k` is not a source of `t`. -/
theorem computeReady_of_views_ne {s s' : KState} {k t : Key} (hd : s'.deps = s.deps)
    (hv : ∀ q, q ≠ k → (s'.find? q).map view = (s.find? q).map view)
    (hk : ∀ d ∈ s.deps, d.src = k → d.snk ≠ t) : s'.computeReady t = s.computeReady t :=
  computeReady_congr hd fun d hd' ht => inputBlocks_congr (hv d.src (fun h => hk d hd' h ht))

/-- Looking a key up after a row-wise rewrite that keeps keys. -/
theorem views_map {s s' : KState} (g : Node → Node) (hn : s'.nodes = s.nodes.map g)
    (hg : ∀ n ∈ s.nodes, (g n).key = n.key) (q : Key) :
    (s'.find? q).map view = (s.find? q).map (fun n => view (g n)) := by
  unfold KState.find?
  rw [hn, find?_map_key _ g hg q, Option.map_map]
  rfl

theorem views_map_eq {s s' : KState} (g : Node → Node) (hn : s'.nodes = s.nodes.map g)
    (hg : ∀ n ∈ s.nodes, (g n).key = n.key) (q : Key)
    (hv : ∀ n ∈ s.nodes, n.key = q → view (g n) = view n) :
    (s'.find? q).map view = (s.find? q).map view := by
  rw [views_map g hn hg q]
  cases hf : s.find? q with
  | none => rfl
  | some m =>
    obtain ⟨hm, hmk⟩ := find?_mem s q m hf
    simp only [Option.map_some, hv m hm hmk]

/-! ## The two workhorses -/

/-- An unflagged step of the new state was an unflagged step of the old one with the same cached value,
and its readiness is the same in both states. -/
theorem cir_of_rel {s s' : KState}
    (h : ∀ n' ∈ s'.nodes, n'.key.kind = .step → n'.checkReady = false →
      (∃ n ∈ s.nodes, n.key = n'.key ∧ n.checkReady = false ∧ n.ready = n'.ready) ∧
        s'.computeReady n'.key = s.computeReady n'.key)
    (hc : CacheInvReady s) : CacheInvReady s' := by
  intro n' hn' hk hf
  obtain ⟨⟨n, hn, hkey, hfl, hr⟩, hcr⟩ := h n' hn' hk hf
  rw [← hr, hcr, ← hkey]
  exact hc n hn (hkey ▸ hk) hfl

/-- The row-wise form. -/
theorem cir_map {s s' : KState} (g : Node → Node) (hn : s'.nodes = s.nodes.map g)
    (hg : ∀ n ∈ s.nodes, (g n).key = n.key ∧ ((g n).checkReady = false → n.checkReady = false ∧ (g n).ready = n.ready))
    (hcr : ∀ n ∈ s.nodes, n.key.kind = .step → (g n).checkReady = false →
      s'.computeReady n.key = s.computeReady n.key)
    (hc : CacheInvReady s) : CacheInvReady s' := by
  refine cir_of_rel (fun n' hn' hk hf => ?_) hc
  rw [hn] at hn'
  obtain ⟨n, hmem, rfl⟩ := List.mem_map.1 hn'
  obtain ⟨hkey, hrest⟩ := hg n hmem
  obtain ⟨h1, h2⟩ := hrest hf
  rw [hkey] at hk ⊢
  exact ⟨⟨n, hmem, rfl, h1, h2.symm⟩, hcr n hmem hk hf⟩

/-- A rewrite that keeps key, state, `detached`, `_ready` and can only raise the flag. -/
def NR (n n' : Node) : Prop :=
  n'.key = n.key ∧ n'.fstate = n.fstate ∧ n'.detached = n.detached ∧
    (n'.checkReady = false → n.checkReady = false ∧ n'.ready = n.ready)

theorem NR.refl (n : Node) : NR n n := ⟨rfl, rfl, rfl, fun h => ⟨h, rfl⟩⟩

theorem NR.trans {a b c : Node} (h1 : NR a b) (h2 : NR b c) : NR a c :=
  ⟨h2.1.trans h1.1, h2.2.1.trans h1.2.1, h2.2.2.1.trans h1.2.2.1,
    fun h => ⟨(h1.2.2.2 (h2.2.2.2 h).1).1, (h2.2.2.2 h).2.trans (h1.2.2.2 (h2.2.2.2 h).1).2⟩⟩

theorem cir_raise {s s' : KState} (g : Node → Node) (hn : s'.nodes = s.nodes.map g) (hd : s'.deps = s.deps)
    (hg : ∀ n ∈ s.nodes, NR n (g n)) (hc : CacheInvReady s) : CacheInvReady s' := by
  refine cir_map g hn (fun n hm => ⟨(hg n hm).1, (hg n hm).2.2.2⟩) ?_ hc
  intro n hm _ _
  refine computeReady_of_views hd (fun q => ?_) n.key
  refine views_map_eq g hn (fun n hm => (hg n hm).1) q (fun m hm _ => ?_)
  unfold view
  rw [(hg m hm).2.1, (hg m hm).2.2.1]

theorem keys_eq {s s' : KState} (h : s'.nodes.map (·.key) = s.nodes.map (·.key)) (hp : KeysNodup s) : KeysNodup s' := by
  rw [keysNodup_iff] at hp ⊢
  rw [h]; exact hp

theorem modifyWhere_nodes (s : KState) (p : Node → Bool) (f : Node → Node) :
    (s.modifyWhere p f).nodes = s.nodes.map (fun n => if p n then f n else n) := rfl

theorem modify_nodes (s : KState) (k : Key) (f : Node → Node) :
    (s.modify k f).nodes = s.nodes.map (fun n => if n.key = k then f n else n) := rfl

/-! ## Flag-raising passes -/

theorem flagReadySinks_nr (s : KState) (k : Key) (n : Node) :
    NR n (if (decide (n.key.kind = .step ∧ (s.sinksOf k).contains n.key = true)) = true then { n with checkReady := true } else n) := by
  split
  · exact ⟨rfl, rfl, rfl, fun h => by cases h⟩
  · exact NR.refl n

theorem flagDepEndpoints_nr (a b : Key) (n : Node) :
    NR n (if (decide (n.key.kind = .step ∧ (n.key = a ∨ n.key = b))) = true
      then { n with checkAfter := true, checkReady := n.checkReady || decide (n.key = b) } else n) := by
  split
  · refine ⟨rfl, rfl, rfl, fun h => ?_⟩
    simp only [Bool.or_eq_false_iff] at h
    exact ⟨h.1, rfl⟩
  · exact NR.refl n

theorem flagDepEndpoints_cir (s : KState) (a b : Key) (hc : CacheInvReady s) : CacheInvReady (s.flagDepEndpoints a b) := by
  unfold KState.flagDepEndpoints
  exact cir_raise _ (modifyWhere_nodes s _ _) rfl (fun n _ => flagDepEndpoints_nr a b n) hc

theorem flagReadySinks_cir (s : KState) (k : Key) (hc : CacheInvReady s) : CacheInvReady (s.flagReadySinks k) := by
  unfold KState.flagReadySinks
  exact cir_raise _ (modifyWhere_nodes s _ _) rfl (fun n _ => flagReadySinks_nr s k n) hc

/-! ## The leaves -/

theorem cache_ri (s : KState) (p : Node → Bool) (f : Node → Node) (hf : ReadyNeutral f) (hp : RI s) :
    RI (s.modifyWhere p f) := by
  have hf' : ∀ n, (f n).key = n.key ∧ (f n).fstate = n.fstate ∧ (f n).detached = n.detached ∧
      (f n).ready = n.ready ∧ (f n).checkReady = n.checkReady := by
    intro n
    have := hf n
    simp only [Node.rhard, Prod.mk.injEq] at this
    exact this
  refine ⟨keys_eq (keys_modifyWhere s p f (fun n => (hf' n).1)) hp.1, ?_⟩
  refine cir_raise _ (modifyWhere_nodes s p f) rfl (fun n _ => ?_) hp.2
  split
  · obtain ⟨h1, h2, h3, h4, h5⟩ := hf' n
    exact ⟨h1, h2, h3, fun h => ⟨by rw [← h5]; exact h, h4⟩⟩
  · exact NR.refl n

theorem not_sink_of_not_contains {s : KState} {k t : Key} (h : (s.sinksOf k).contains t = false) :
    ∀ d ∈ s.deps, d.src = k → d.snk ≠ t := by
  intro d hd hsrc hsnk
  have : t ∈ s.sinksOf k := by
    unfold KState.sinksOf
    exact List.mem_map.2 ⟨d, List.mem_filter.2 ⟨hd, by simpa using hsrc⟩, hsnk⟩
  have h2 : (s.sinksOf k).contains t = true := List.contains_iff_mem.2 this
  rw [h] at h2; cases h2

/-- A change of the row of `k` in `fstate`/`detached` (plus cache columns that readiness does not
read) followed by the trigger that flags every step depending on `k`. -/
theorem rowChange_flag_cir (s : KState) (k : Key) (f : Node → Node)
    (hf : ∀ n ∈ s.nodes, n.key = k → (f n).key = k ∧ (f n).ready = n.ready ∧ (f n).checkReady = n.checkReady)
    (hc : CacheInvReady s) : CacheInvReady ((s.modify k f).flagReadySinks k) := by
  let g1 : Node → Node := fun n => if n.key = k then f n else n
  let g2 : Node → Node := fun n =>
    if (decide (n.key.kind = .step ∧ ((s.modify k f).sinksOf k).contains n.key = true)) = true
      then { n with checkReady := true } else n
  have hn : ((s.modify k f).flagReadySinks k).nodes = s.nodes.map (fun n => g2 (g1 n)) := by
    show (s.nodes.map g1).map g2 = _
    rw [List.map_map]; rfl
  have hkey1 : ∀ n ∈ s.nodes, (g1 n).key = n.key := by
    intro n hm
    show (if n.key = k then f n else n).key = n.key
    split
    · rename_i h; rw [(hf n hm h).1, h]
    · rfl
  have hnr2 : ∀ n, NR n (g2 n) := fun n => flagReadySinks_nr (s.modify k f) k n
  have hkey : ∀ n ∈ s.nodes, (g2 (g1 n)).key = n.key := fun n hm => (hnr2 (g1 n)).1.trans (hkey1 n hm)
  refine cir_map _ hn (fun n hm => ⟨hkey n hm, fun h => ?_⟩) ?_ hc
  · obtain ⟨h1, h2⟩ := (hnr2 (g1 n)).2.2.2 h
    show n.checkReady = false ∧ (g2 (g1 n)).ready = n.ready
    rw [h2]
    by_cases hk : n.key = k
    · have e : g1 n = f n := by show (if n.key = k then f n else n) = f n; rw [if_pos hk]
      rw [e] at h1 ⊢
      exact ⟨(hf n hm hk).2.2 ▸ h1, (hf n hm hk).2.1⟩
    · have e : g1 n = n := by show (if n.key = k then f n else n) = n; rw [if_neg hk]
      rw [e] at h1 ⊢
      exact ⟨h1, rfl⟩
  · intro n hm hstep hflag
    -- `n` is not a sink of `k`
    have hns : ((s.modify k f).sinksOf k).contains n.key = false := by
      cases hcs : ((s.modify k f).sinksOf k).contains n.key with
      | false => rfl
      | true =>
        exfalso
        have hk1 : (g1 n).key = n.key := hkey1 n hm
        have : g2 (g1 n) = { g1 n with checkReady := true } := by
          show (if _ then _ else _) = _
          rw [if_pos]
          rw [hk1]
          exact decide_eq_true ⟨hstep, hcs⟩
        rw [this] at hflag
        cases hflag
    refine computeReady_of_views_ne (k := k) rfl (fun q hq => ?_) (not_sink_of_not_contains hns)
    refine views_map_eq _ hn hkey q (fun m hm hmq => ?_)
    have e : g1 m = m := by
      show (if m.key = k then f m else m) = m
      rw [if_neg (by rw [hmq]; exact hq)]
    show view (g2 (g1 m)) = view m
    rw [e]
    unfold view
    rw [(hnr2 m).2.1, (hnr2 m).2.2.1]

/-- The same change of the row of `k` when it does not alter what readiness reads: no flag needed. -/
theorem rowChange_same_cir (s : KState) (k : Key) (f : Node → Node)
    (hf : ∀ n ∈ s.nodes, n.key = k → NR n (f n)) (hc : CacheInvReady s) : CacheInvReady (s.modify k f) := by
  refine cir_raise _ (modify_nodes s k f) rfl (fun n hm => ?_) hc
  split
  · rename_i h; exact hf n hm h
  · exact NR.refl n

theorem setDetachedRow_ri (s : KState) (k : Key) (d : Bool) (hp : RI s) : RI (s.setDetachedRow k d) := by
  refine ⟨stable_keysNodup.setDetachedRow s k d hp.1, ?_⟩
  unfold KState.setDetachedRow
  cases hf : s.find? k with
  | none => exact hp.2
  | some n =>
    simp only
    split
    · exact rowChange_flag_cir s k _ (fun m _ hk => ⟨hk, rfl, rfl⟩) hp.2
    · rename_i hnd
      have hd : n.detached = d := by simpa using hnd
      refine rowChange_same_cir s k _ (fun m hm hk => ?_) hp.2
      have : m = n := eq_of_key hp.1 hm (find?_mem s k n hf).1 (hk.trans (find_key hf).symm)
      subst this
      exact ⟨rfl, rfl, hd.symm, fun h => ⟨h, rfl⟩⟩

theorem fileRowWrite_spec {n n' : Node} {st : FileState} {nh : Option (Option Nat)}
    (h : fileRowWrite n st nh = .ok n') :
    n'.key = n.key ∧ n'.fstate = st ∧ n'.detached = n.detached ∧ n'.ready = n.ready ∧ n'.checkReady = n.checkReady := by
  unfold fileRowWrite at h
  dsimp only at h
  split at h
  · cases h
  · split at h
    · cases h
    · simp only [pure, Except.pure, Except.ok.injEq] at h
      subst h; exact ⟨rfl, rfl, rfl, rfl, rfl⟩

theorem writeFile_ri (k : Key) (st : FileState) (nh : Option (Option Nat)) :
    Preserves RI (fun s => s.writeFile k st nh) := by
  intro s s' hp h
  refine ⟨stable_keysNodup.writeFile_preserves k st nh s s' hp.1 h, ?_⟩
  replace h : s.writeFile k st nh = .ok s' := h
  unfold KState.writeFile at h
  cases hf : s.find? k with
  | none => simp [hf, pure, Except.pure] at h; subst h; exact hp.2
  | some n =>
    simp only [hf, bind, Except.bind] at h
    cases hw : fileRowWrite n st nh with
    | error e => simp [hw] at h
    | ok n' =>
      simp only [hw, pure, Except.pure, Except.ok.injEq] at h
      obtain ⟨h1, h2, h3, h4, h5⟩ := fileRowWrite_spec hw
      have hnk : n.key = k := find_key hf
      have hone : ∀ m ∈ s.nodes, m.key = k → m = n := fun m hm hk =>
        eq_of_key hp.1 hm (find?_mem s k n hf).1 (hk.trans hnk.symm)
      subst h
      split
      · refine rowChange_flag_cir s k _ (fun m hm hk => ?_) hp.2
        have := hone m hm hk
        subst this
        exact ⟨h1.trans hnk, h4, h5⟩
      · rename_i hsame
        have hst : n.fstate = st := by simpa using hsame
        refine rowChange_same_cir s k _ (fun m hm hk => ?_) hp.2
        have := hone m hm hk
        subst this
        exact ⟨h1, h2.trans hst.symm, h3, fun h => ⟨by rw [← h5]; exact h, h4⟩⟩

theorem stepRowWrite_spec {n n' : Node} {st : StepState} {d : Option Bool} (h : stepRowWrite n st d = .ok n') :
    NR n n' := by
  unfold stepRowWrite at h
  dsimp only at h
  split at h
  · cases h
  · simp only [pure, Except.pure, Except.ok.injEq] at h
    subst h; exact ⟨rfl, rfl, rfl, fun h => ⟨h, rfl⟩⟩

theorem stepWrite_ri (s : KState) (k : Key) (n n' : Node) (st : StepState) (d : Option Bool)
    (hf : s.find? k = some n) (hw : stepRowWrite n st d = .ok n') (hp : RI s) : RI (s.modify k fun _ => n') := by
  refine ⟨stable_keysNodup.stepWrite s k n n' st d hf hw hp.1, ?_⟩
  refine rowChange_same_cir s k _ (fun m hm hk => ?_) hp.2
  have : m = n := eq_of_key hp.1 hm (find?_mem s k n hf).1 (hk.trans (find_key hf).symm)
  subst this
  exact stepRowWrite_spec hw

theorem stepInit_ri (s : KState) (k : Key) (i : StepInit) (hp : RI s) : RI (s.initStepRow k i) := by
  refine ⟨stable_keysNodup.stepInit s k i hp.1, ?_⟩
  unfold KState.initStepRow
  exact rowChange_same_cir s k _ (fun m _ _ => ⟨rfl, rfl, rfl, fun h => by cases h⟩) hp.2

/-! ### Fresh rows -/

theorem no_row_of_find_none {s : KState} {k : Key} (hf : s.find? k = none) : ∀ m ∈ s.nodes, m.key ≠ k := by
  intro m hm hk
  unfold KState.find? at hf
  have := List.find?_eq_none.1 hf m hm
  simp [hk] at this

theorem find?_append_fresh (l : List Node) (new : Node) (q : Key) (h : new.key ≠ q) :
    (l ++ [new]).find? (·.key = q) = l.find? (·.key = q) := by
  rw [List.find?_append, List.find?_cons_of_neg (by simpa using h)]
  simp

theorem appendNode_ri (s : KState) (k : Key) (c : Option Key) (hk : k.kind ≠ .file) (hf : s.find? k = none)
    (hins : s.insertAllowed k c = true) (hp : RI s) : RI (s.appendNode k c) := by
  refine ⟨stable_keysNodup.appendNode s k c hf hins hp.1, ?_⟩
  refine cir_of_rel (fun n' hn' hstep hflag => ?_) hp.2
  have hn'' : n' ∈ s.nodes ++ [({ key := k, creator := c, detached := s.creatorDetached c } : Node)] := hn'
  rcases List.mem_append.1 hn'' with hm | hm
  · refine ⟨⟨n', hm, rfl, hflag, rfl⟩, ?_⟩
    refine computeReady_congr rfl (fun d _ _ => ?_)
    by_cases hd : d.src = k
    · -- the new row is not a file: it blocks nothing, as the missing row did
      unfold KState.inputBlocks
      have h1 : s.find? d.src = none := hd ▸ hf
      have h2 : (s.appendNode k c).find? d.src =
          some ({ key := k, creator := c, detached := s.creatorDetached c } : Node) := by
        unfold KState.find? KState.appendNode
        rw [List.find?_append]
        unfold KState.find? at h1
        rw [h1, hd]
        simp
      rw [h1, h2]
      simp [hk]
    · refine inputBlocks_congr ?_
      unfold KState.find? KState.appendNode
      rw [find?_append_fresh _ _ _ (fun e => hd e.symm)]
  · simp only [List.mem_singleton] at hm
    subst hm
    cases hflag

theorem freshFile_ri (s : KState) (k : Key) (c : Option Key) (st : FileState) (hf : s.find? k = none)
    (hins : s.insertAllowed k c = true) (hp : RI s) :
    RI (((s.appendNode k c).modify k fun n => { n with fstate := st, fhash := none }).flagReadySinks k) := by
  have hk1 : KeysNodup (s.appendNode k c) := stable_keysNodup.appendNode s k c hf hins hp.1
  have hk2 : KeysNodup ((s.appendNode k c).modify k fun n => { n with fstate := st, fhash := none }) :=
    keys_eq (keys_modify _ k _ (fun _ _ h => h)) hk1
  refine ⟨stable_keysNodup.flagReadySinks _ k hk2, ?_⟩
  let new : Node := { key := k, creator := c, detached := s.creatorDetached c }
  let g1 : Node → Node := fun n => if n.key = k then { n with fstate := st, fhash := none } else n
  let s1 : KState := (s.appendNode k c).modify k fun n => { n with fstate := st, fhash := none }
  let g2 : Node → Node := fun n =>
    if (decide (n.key.kind = .step ∧ (s1.sinksOf k).contains n.key = true)) = true
      then { n with checkReady := true } else n
  have hnodes : (s1.flagReadySinks k).nodes = (s.nodes ++ [new]).map (fun n => g2 (g1 n)) := by
    show ((s.nodes ++ [new]).map g1).map g2 = _
    rw [List.map_map]; rfl
  have hnr2 : ∀ n, NR n (g2 n) := fun n => flagReadySinks_nr s1 k n
  have hg1key : ∀ n, (g1 n).key = n.key := by
    intro n; show (if n.key = k then _ else n).key = n.key
    split <;> rfl
  have hnone := no_row_of_find_none hf
  refine cir_of_rel (fun n' hn' hstep hflag => ?_) hp.2
  have hn'' : n' ∈ (s.nodes ++ [new]).map (fun n => g2 (g1 n)) := hnodes ▸ hn'
  obtain ⟨m, hm, rfl⟩ := List.mem_map.1 hn''
  obtain ⟨hfl1, hrd⟩ := (hnr2 (g1 m)).2.2.2 hflag
  rcases List.mem_append.1 hm with hm | hm
  · have hmk : m.key ≠ k := hnone m hm
    have e : g1 m = m := by show (if m.key = k then _ else m) = m; rw [if_neg hmk]
    rw [e] at hfl1 hrd hflag hstep ⊢
    have hkey : (g2 m).key = m.key := (hnr2 m).1
    rw [hkey] at hstep ⊢
    refine ⟨⟨m, hm, rfl, hfl1, hrd.symm⟩, ?_⟩
    -- `m` is not a sink of `k`
    have hns : (s1.sinksOf k).contains m.key = false := by
      cases hcs : (s1.sinksOf k).contains m.key with
      | false => rfl
      | true =>
        exfalso
        have : g2 m = { m with checkReady := true } := by
          show (if _ then _ else _) = _
          rw [if_pos]
          exact decide_eq_true ⟨hstep, hcs⟩
        rw [this] at hflag
        cases hflag
    have hns' : ∀ d ∈ s.deps, d.src = k → d.snk ≠ m.key := not_sink_of_not_contains (s := s1) hns
    refine computeReady_of_views_ne (k := k) rfl (fun q hq => ?_) hns'
    -- rows other than `k` are seen as before
    have hfind : (s1.flagReadySinks k).find? q = (s.find? q).map (fun n => g2 (g1 n)) := by
      unfold KState.find?
      rw [hnodes, find?_map_key _ _ (fun n _ => (hnr2 (g1 n)).1.trans (hg1key n)) q,
        find?_append_fresh _ _ _ (fun e => hq e.symm)]
    rw [hfind, Option.map_map]
    cases hfq : s.find? q with
    | none => rfl
    | some x =>
      have hxq : x.key ≠ k := by rw [find_key hfq]; exact hq
      have ex : g1 x = x := by show (if x.key = k then _ else x) = x; rw [if_neg hxq]
      simp only [Option.map_some, Function.comp, ex]
      unfold view
      rw [(hnr2 x).2.1, (hnr2 x).2.2.1]
  · simp only [List.mem_singleton] at hm
    subst hm
    -- the new row is flagged from birth
    have : (g1 new).checkReady = true := by
      show (if new.key = k then _ else new).checkReady = true
      rw [if_pos rfl]
    rw [this] at hfl1
    cases hfl1

/-! ### Edges -/

theorem any_append_one (l : List Dep) (d0 : Dep) (F : Dep → Bool) (h : F d0 = false) :
    (l ++ [d0]).any F = l.any F := by
  rw [List.any_append]
  simp [h]

theorem insertDep_ri (a b : Key) : Preserves RI (fun s => s.insertDep a b) := by
  intro s s' hp h
  refine ⟨stable_keysNodup.insertDep_preserves a b s s' hp.1 h, ?_⟩
  replace h : s.insertDep a b = .ok s' := h
  unfold KState.insertDep at h
  simp only [bind, Except.bind, pure, Except.pure] at h
  split at h
  · cases h
  · split at h
    · cases h
    · simp only [Except.ok.injEq] at h
      subst h
      let s0 : KState := { s with deps := s.deps ++ [({ src := a, snk := b } : Dep)] }
      have hnr := fun n => flagDepEndpoints_nr a b n
      refine cir_map (s := s) _ (modifyWhere_nodes s0 _ _) (fun n _ => ⟨(hnr n).1, (hnr n).2.2.2⟩) ?_ hp.2
      intro n hm hstep hflag
      -- an unflagged step is not the sink of the new edge
      have hnb : n.key ≠ b := by
        intro e
        have hcond : decide (n.key.kind = Kind.step ∧ (n.key = a ∨ n.key = b)) = true := decide_eq_true ⟨hstep, .inr e⟩
        rw [if_pos hcond] at hflag
        simp [e] at hflag
      have hviews : ∀ q, ((s0.flagDepEndpoints a b).find? q).map view = (s.find? q).map view := by
        intro q
        refine views_map_eq (s := s) _ (modifyWhere_nodes s0 _ _) (fun m _ => (hnr m).1) q (fun m _ _ => ?_)
        unfold view
        rw [(hnr m).2.1, (hnr m).2.2.1]
      unfold KState.computeReady
      show (!((s.deps ++ [({ src := a, snk := b } : Dep)]).any fun d => decide (d.snk = n.key) &&
        (s0.flagDepEndpoints a b).inputBlocks d)) = _
      have hbn : ¬ b = n.key := fun e => hnb e.symm
      rw [any_append_one _ _ _ (by simp [hbn])]
      rw [any_blocks_congr s.deps n.key _ _ (fun d _ _ => inputBlocks_congr (hviews d.src))]

/-- The fold of `flagDepEndpoints` over the deleted edges: a row-wise rewrite that keeps what readiness
reads, raises flags only, and flags every step that was the sink of a deleted edge. -/
theorem foldl_flagDep_spec (gone : List Dep) (s0 : KState) :
    ∃ g : Node → Node, (gone.foldl (fun s d => s.flagDepEndpoints d.src d.snk) s0).nodes = s0.nodes.map g ∧
      (gone.foldl (fun s d => s.flagDepEndpoints d.src d.snk) s0).deps = s0.deps ∧ (∀ n, NR n (g n)) ∧
      ∀ d ∈ gone, ∀ n, n.key.kind = .step → n.key = d.snk → (g n).checkReady = true := by
  induction gone generalizing s0 with
  | nil => exact ⟨id, by simp, rfl, NR.refl, fun d hd => by cases hd⟩
  | cons d ds ih =>
    obtain ⟨g1, hn1, hd1, hnr1, hfl1⟩ := ih (s0.flagDepEndpoints d.src d.snk)
    let g0 : Node → Node := fun n =>
      if (decide (n.key.kind = .step ∧ (n.key = d.src ∨ n.key = d.snk))) = true
        then { n with checkAfter := true, checkReady := n.checkReady || decide (n.key = d.snk) } else n
    have hnr0 : ∀ n, NR n (g0 n) := fun n => flagDepEndpoints_nr d.src d.snk n
    refine ⟨fun n => g1 (g0 n), ?_, ?_, fun n => (hnr0 n).trans (hnr1 (g0 n)), ?_⟩
    · simp only [List.foldl_cons]
      rw [hn1]
      show (s0.nodes.map g0).map g1 = _
      rw [List.map_map]; rfl
    · simp only [List.foldl_cons]
      rw [hd1]; rfl
    · intro d' hd' n hstep hkey
      rcases List.mem_cons.1 hd' with rfl | hd'
      · -- flagged by this pass, and flags stay up
        have h0 : (g0 n).checkReady = true := by
          show (if _ then _ else n).checkReady = true
          rw [if_pos (decide_eq_true ⟨hstep, .inr hkey⟩)]
          simp [hkey]
        cases hc : (g1 (g0 n)).checkReady with
        | true => rfl
        | false =>
          have := ((hnr1 (g0 n)).2.2.2 hc).1
          rw [h0] at this; cases this
      · exact hfl1 d' hd' (g0 n) (by rw [(hnr0 n).1]; exact hstep) (by rw [(hnr0 n).1]; exact hkey)

theorem any_filter_keep (l : List Dep) (t : Key) (p f f' : Dep → Bool)
    (hk : ∀ d ∈ l, d.snk = t → p d = false) (hb : ∀ d ∈ l, d.snk = t → f' d = f d) :
    ((l.filter fun d => !p d).any fun d => decide (d.snk = t) && f' d) =
      (l.any fun d => decide (d.snk = t) && f d) := by
  induction l with
  | nil => rfl
  | cons a as ih =>
    have ih' := ih (fun d hd => hk d (by simp [hd])) (fun d hd => hb d (by simp [hd]))
    by_cases ha : a.snk = t
    · rw [List.filter_cons_of_pos (by simp [hk a (by simp) ha])]
      simp only [List.any_cons]
      rw [ih', hb a (by simp) ha]
    · cases hpa : p a with
      | true =>
        rw [List.filter_cons_of_neg (by simp [hpa])]
        simp only [List.any_cons]
        rw [ih']
        simp [ha]
      | false =>
        rw [List.filter_cons_of_pos (by simp [hpa])]
        simp only [List.any_cons]
        rw [ih']
        simp [ha]

theorem deleteDeps_ri (s : KState) (p : Dep → Bool) (hp : RI s) : RI (s.deleteDeps p) := by
  refine ⟨stable_keysNodup.deleteDeps s p hp.1, ?_⟩
  unfold KState.deleteDeps
  let s0 : KState := { s with deps := s.deps.filter fun d => !p d }
  obtain ⟨g, hn, hd, hnr, hfl⟩ := foldl_flagDep_spec (s.deps.filter p) s0
  refine cir_map (s := s) g hn (fun n _ => ⟨(hnr n).1, (hnr n).2.2.2⟩) ?_ hp.2
  intro n hm hstep hflag
  -- no deleted edge ends in an unflagged step
  have hkeep : ∀ d ∈ s.deps, d.snk = n.key → p d = false := by
    intro d hdm hsnk
    cases hpd : p d with
    | false => rfl
    | true =>
      have := hfl d (List.mem_filter.2 ⟨hdm, hpd⟩) n hstep hsnk.symm
      rw [hflag] at this; cases this
  have hviews : ∀ q, ((List.foldl (fun s d => s.flagDepEndpoints d.src d.snk) s0 (s.deps.filter p)).find? q).map view =
      (s.find? q).map view := by
    intro q
    refine views_map_eq (s := s) g hn (fun m _ => (hnr m).1) q (fun m _ _ => ?_)
    unfold view
    rw [(hnr m).2.1, (hnr m).2.2.1]
  unfold KState.computeReady
  rw [hd]
  show (!((s.deps.filter fun d => !p d).any _)) = _
  rw [any_filter_keep s.deps n.key p _ _ hkeep (fun d _ _ => inputBlocks_congr (hviews d.src))]

theorem any_map_keep (l : List Dep) (t : Key) (φ : Dep → Dep) (F' F : Dep → Bool)
    (hφ : ∀ d, d.snk = t → φ d = d) (hsnk : ∀ d, (φ d).snk = d.snk) (hB : ∀ d, F' d = F d) :
    ((l.map φ).any fun d => decide (d.snk = t) && F' d) = l.any fun d => decide (d.snk = t) && F d := by
  induction l with
  | nil => rfl
  | cons d ds ih =>
    simp only [List.map_cons, List.any_cons]
    rw [ih, hsnk]
    by_cases hd : d.snk = t
    · rw [hφ d hd, hB]
    · simp [hd]

theorem setDynamic_ri (s : KState) (a b : Key) (dyn : Bool) (hp : RI s) : RI (s.setDynamic a b dyn) := by
  refine ⟨stable_keysNodup.setDynamic s a b dyn hp.1, ?_⟩
  unfold KState.setDynamic
  let φ : Dep → Dep := fun d => if d.src = a ∧ d.snk = b then { d with dyn := dyn } else d
  let s0 : KState := { s with deps := s.deps.map φ }
  let f : Node → Node := fun n => if n.key.kind = .step then { n with checkReady := true } else n
  have hnr : ∀ n, NR n (if n.key = b then f n else n) := by
    intro n
    split
    · show NR n (if n.key.kind = .step then { n with checkReady := true } else n)
      split
      · exact ⟨rfl, rfl, rfl, fun h => by cases h⟩
      · exact NR.refl n
    · exact NR.refl n
  refine cir_map (s := s) _ (modify_nodes s0 b f) (fun n _ => ⟨(hnr n).1, (hnr n).2.2.2⟩) ?_ hp.2
  intro n hm hstep hflag
  have hnb : n.key ≠ b := by
    intro e
    rw [if_pos e] at hflag
    have : f n = { n with checkReady := true } := by
      show (if n.key.kind = .step then _ else n) = _
      rw [if_pos hstep]
    rw [this] at hflag
    cases hflag
  have hviews : ∀ q, ((s0.modify b f).find? q).map view = (s.find? q).map view := by
    intro q
    refine views_map_eq (s := s) _ (modify_nodes s0 b f) (fun m _ => (hnr m).1) q (fun m _ _ => ?_)
    unfold view
    rw [(hnr m).2.1, (hnr m).2.2.1]
  have hφ : ∀ d : Dep, d.snk = n.key → φ d = d := by
    intro d hd
    show (if d.src = a ∧ d.snk = b then _ else d) = d
    rw [if_neg]
    intro h
    exact hnb (hd ▸ h.2)
  have hφsnk : ∀ d : Dep, (φ d).snk = d.snk := by
    intro d
    show (if d.src = a ∧ d.snk = b then ({ d with dyn := dyn } : Dep) else d).snk = d.snk
    split <;> rfl
  unfold KState.computeReady
  show (!((s.deps.map φ).any fun d => decide (d.snk = n.key) && (s0.modify b f).inputBlocks d)) = _
  rw [any_map_keep s.deps n.key φ _ _ hφ hφsnk (fun d => inputBlocks_congr (hviews d.src))]

theorem removeNode_ri (s : KState) (k : Key) (hsnk : ∀ d ∈ s.deps, d.snk ≠ k) (hsrc : ∀ d ∈ s.deps, d.src ≠ k)
    (hp : RI s) : RI { s with nodes := s.nodes.filter (·.key ≠ k) } := by
  refine ⟨stable_keysNodup.removeNode s k hsnk hp.1, ?_⟩
  refine cir_of_rel (fun n' hn' hstep hflag => ?_) hp.2
  have hm : n' ∈ s.nodes := (List.mem_filter.1 hn').1
  refine ⟨⟨n', hm, rfl, hflag, rfl⟩, ?_⟩
  refine computeReady_congr rfl (fun d hd _ => inputBlocks_congr ?_)
  show (List.find? (·.key = d.src) (s.nodes.filter (·.key ≠ k))).map view = _
  rw [find?_filter_ne _ _ _ (hsrc d hd)]
  rfl

theorem queue_ri (s : KState) (q : List (String × Option Nat)) (hp : RI s) : RI { s with toBeDeleted := q } :=
  ⟨keys_eq rfl hp.1, fun n hn hk hf => hp.2 n hn hk hf⟩

/-- `_update_meta_ready` on a state that obeys the discipline: afterwards no step is flagged and every
step carries the definition. -/
theorem updateMetaReady_all {s : KState} (hc : CacheInvReady s) :
    ∀ n ∈ s.updateMetaReady.nodes, n.key.kind = .step →
      n.checkReady = false ∧ n.ready = s.updateMetaReady.computeReady n.key := by
  have hcr : ∀ t, s.updateMetaReady.computeReady t = s.computeReady t := by
    intro t
    refine computeReady_of_views (s := s) (s' := s.updateMetaReady) rfl (fun q => ?_) t
    refine views_map_eq (s := s) (s' := s.updateMetaReady) _ (modifyWhere_nodes s _ _) (fun m _ => ?_) q (fun m _ _ => ?_)
    · split <;> rfl
    · unfold view; split <;> rfl
  intro n' hn' hstep
  have hn'' : n' ∈ s.nodes.map _ := (modifyWhere_nodes s _ _) ▸ hn'
  obtain ⟨n, hm, rfl⟩ := List.mem_map.1 hn''
  by_cases hcond : (decide (n.key.kind = .step ∧ n.checkReady = true)) = true
  · rw [if_pos hcond] at hstep ⊢
    exact ⟨rfl, (hcr n.key).symm⟩
  · rw [if_neg hcond] at hstep ⊢
    have hfl : n.checkReady = false := by
      cases h : n.checkReady with
      | false => rfl
      | true => exact absurd (decide_eq_true ⟨hstep, h⟩) hcond
    exact ⟨hfl, (hc n hm hstep hfl).trans (hcr n.key).symm⟩

theorem updateMetaReady_ri (s : KState) (hp : RI s) : RI s.updateMetaReady :=
  ⟨stable_keysNodup.updateMetaReady s hp.1, fun n hn hk _ => (updateMetaReady_all hp.2 n hn hk).2⟩

/-- **Every primitive write, with the triggers of the schema, keeps the flag discipline of `_ready`.** -/
theorem stableR_ri : StableR RI where
  cache := cache_ri
  setDetachedRow := setDetachedRow_ri
  writeFile := writeFile_ri
  freshFile := freshFile_ri
  appendNode := appendNode_ri
  stepWrite := stepWrite_ri
  stepInit := stepInit_ri
  insertDep := insertDep_ri
  deleteDeps := deleteDeps_ri
  setDynamic := setDynamic_ri
  removeNode := removeNode_ri
  queue := queue_ri
  updateMetaReady := updateMetaReady_ri

theorem ri_init : RI KState.init := by
  refine ⟨init_keysNodup, ?_⟩
  intro n hn hs
  simp only [KState.init, List.mem_singleton] at hn
  subst hn
  cases hs

end StepupModel.K.ReadyDisc
