import StepupModel.Lemmas.SuccOutputsCompleted
import StepupModel.Lemmas.KFrame
/-!
# I4: `Trellis.create` of a file row, the declaration of a product

`create` rewrites the row of its key before it deletes the edges into it; the invariant is carried with the
key exempt and claimed again at the end, when no edge ends in the key (`create_post`, the proof of
`Discipline.create_spec` without its structural hypothesis).  `declareProduct_JK`: the new edge `step -> file`
finds a row owned by the step (or by nobody), in a product state, and the step is not SUCCEEDED (or the
product is VOLATILE).  No property statements here.
-/
namespace StepupModel.K.SuccOut
open StepupModel.K.MetaAfter StepupModel.K.Discipline StepupModel.Lemmas StepupModel.K.Ever
set_option linter.unusedSimpArgs false
set_option linter.unusedVariables false

/-- **What `Trellis.create` does** (one row per key, no dangling edge into `k`): the row of `k` exists with the
new creator (or none), no dependency row ends in `k`, and the last thing done is `initialize_row` on a state
that has the row. -/
theorem create_post {s s' : KState} {k : Key} {creator : Option Key} {init : Init} (hku : KeysUnique s)
    (hclosed : ∀ d ∈ s.deps, d.snk = k → (s.find? k).isSome = true) (h : s.create k creator init = .ok s') :
    CInv k creator s s' ∧ (∀ d ∈ s'.deps, d ∈ s.deps ∧ d.snk ≠ k) ∧
      ∃ (t : KState) (e : Bool), (t.find? k).isSome = true ∧ t.initRow k init e = .ok s' := by
  have hkn := kn_of_ku hku
  unfold KState.create at h
  cases hf : s.find? k with
  | some n =>
    simp only [hf] at h
    split at h
    · cases h
    · split at h
      · cases h
      · unfold KState.recycleCore at h
        simp only [bind, Except.bind] at h
        cases h1 : s.setCreator k creator (s.creatorDetached creator) with
        | error e => simp [h1] at h
        | ok s1 =>
          simp only [h1] at h
          cases h2 : s1.lostProduct n.creator with
          | error e => simp [h2] at h
          | ok s2 =>
            simp only [h2] at h
            cases h3 : (s2.deleteDeps fun dp => dp.snk = k).detachProducts k with
            | error e => simp [h3] at h
            | ok s3 =>
              simp only [h3] at h
              have hallow : s.creatorAllowed k creator (s.creatorDetached creator) = true := by
                unfold KState.setCreator at h1
                split at h1
                · assumption
                · cases h1
              have c1 : CInv k creator s s1 := by
                unfold KState.setCreator at h1
                rw [if_pos hallow] at h1
                simp only [pure, Except.pure, Except.ok.injEq] at h1
                subst h1
                have c0 : CInv k creator s (s.modify k fun n => { n with creator := creator }) := by
                  refine ⟨keep_modify s k _ (fun _ hm => hm), ?_, ?_⟩
                  · intro nk hnk
                    rw [find?_modify_k (fun n => { n with creator := creator }) (fun _ hm => hm), hf] at hnk
                    simp only [Option.map_some, Option.some.injEq] at hnk
                    rw [← hnk]; exact .inl rfl
                  · rw [find?_modify_k (fun n => { n with creator := creator }) (fun _ hm => hm), hf]; rfl
                exact c0.rel (structRel_setDetachedRow _ k _)
              have c2 := c1.soft (lostProduct_rel h2)
              have c3a := c2.rel (structRel_deleteDeps s2 fun dp => dp.snk = k)
              have r3 : StructRel (s2.deleteDeps fun dp => dp.snk = k) s3 := by
                unfold KState.detachProducts at h3
                exact structRel_foldl_detach _ _ _ h3
              have c3 := c3a.rel r3
              have hk1 := StableG.setCreator_preserves stable_keysNodup k creator _ s s1 hkn h1
              have hk2 := StableG.lostProduct_preserves stable_keysNodup n.creator s1 s2 hk1 h2
              have hk3a := StableG.deleteDeps stable_keysNodup s2 (fun dp => dp.snk = k) hk2
              have hk3 := StableG.detachProducts_preserves stable_keysNodup k _ s3 hk3a h3
              obtain ⟨c4, hd4, _⟩ := initRow_cinv (ku_of_kn hk3) c3 h
              refine ⟨c4, ?_, s3, true, c3.has, h⟩
              intro d hd
              have hd3 := r3.deps d (hd4 d hd)
              rw [deps_deleteDeps] at hd3
              obtain ⟨hd2, hp⟩ := List.mem_filter.1 hd3
              refine ⟨?_, by simpa using hp⟩
              have e2 : s2.deps = s.deps := by
                rw [(lostProduct_rel h2).deps]
                exact (ur_setCreator (X := fun x => x = k) rfl h1).2
              rw [e2] at hd2; exact hd2
  | none =>
    simp only [hf] at h
    split at h
    · rename_i hins
      have cA : CInv k creator s (s.appendNode k creator) := by
        obtain ⟨nk, hnk, hcr⟩ := find?_append_self creator hf
        refine ⟨keep_of_rowChange (rowChange_append s k creator), ?_, by rw [hnk]; rfl⟩
        intro nk' hnk'
        rw [hnk] at hnk'; cases hnk'; exact .inl hcr
      have hkA := stable_keysNodup.appendNode s k creator hf hins hkn
      obtain ⟨c4, hd4, _⟩ := initRow_cinv (ku_of_kn hkA) cA h
      refine ⟨c4, ?_, _, false, cA.has, h⟩
      intro d hd
      have hd0 : d ∈ s.deps := hd4 d hd
      refine ⟨hd0, fun hsk => ?_⟩
      have := hclosed d hd0 hsk
      rw [hf] at this; cases this
    · cases h

/-! ## The invariant through `create` of a file -/

/-- Any rewrite of the row of an exempt key that keeps the key and makes no step SUCCEEDED. -/
theorem J.modifyExempt {X : Key → Prop} {W : Key → Key → Prop} {N : Key → Prop} {s : KState} (hJ : J X W N s) (k : Key)
    (g : Node → Node) (hX : ¬ X k) (hkey : ∀ n, n.key = k → (g n).key = k)
    (hs : ∀ n, (g n).sstate = .succeeded → n.sstate = .succeeded) : J X W N (s.modify k g) := by
  have hfind := fun q => find?_modify s k q g hkey
  refine hJ.mono (fun d' h _ _ => ⟨d', h, rfl, rfl⟩) ?_ ?_
  · intro q f _ hx hf _
    have hq : q ≠ k := fun he => hX (he ▸ hx)
    refine ⟨f, ?_, .inl rfl, .inl rfl⟩
    rw [find?_modify_ne s k q g hkey hq]; exact hf
  · intro q h
    refine ⟨h.1, ?_⟩
    have h2 := h.2
    unfold KState.sstateOf at h2 ⊢
    rw [hfind] at h2
    cases hfq : s.find? q with
    | none => rw [hfq] at h2; cases h2
    | some m =>
      rw [hfq] at h2
      simp only [Option.map_some, Option.some.injEq] at h2 ⊢
      by_cases hm : m.key = k
      · rw [if_pos hm] at h2; exact hs m h2
      · rw [if_neg hm] at h2; exact h2

theorem markFileOutdated_J {X : Key → Prop} {W : Key → Key → Prop} {N : Key → Prop} {s s' : KState} {f : Key}
    (hJ : J X W N s) (hctx : WriteOK X W s f .outdated) (h : s.markFileOutdated f = .ok s') : J X W N s' := by
  unfold KState.markFileOutdated at h
  cases hf : s.find? f with
  | none => simp [hf, pure, Except.pure] at h; subst h; exact hJ
  | some n =>
    simp only [hf] at h
    split at h
    · simp only [bind, Except.bind] at h
      cases hs : s.setFileState f FileState.outdated with
      | error e => simp [hs] at h
      | ok s1 =>
        simp only [hs] at h
        exact (midJ X W N).markConsumersPending_preserves f s1 s' (writeFile_J hJ hctx hs) h
    · split at h
      · simp only [pure, Except.pure, Except.ok.injEq] at h; subst h; exact hJ
      · cases h

theorem initFileRow_J {X : Key → Prop} {W : Key → Key → Prop} {N : Key → Prop} {t t' : KState} {k : Key} {st : FileState}
    {e : Bool} (hJ : J X W N t) (hX : ¬ X k) (h : t.initFileRow k st e = .ok t') : J X W N t' := by
  unfold KState.initFileRow at h
  simp only [bind, Except.bind] at h
  cases h1 : t.writeInitialFile k (t.keptState k st e) e with
  | error err => simp [h1] at h
  | ok t1 =>
    simp only [h1] at h
    have hJ1 : J X W N t1 := by
      unfold KState.writeInitialFile at h1
      split at h1
      · exact writeFile_J hJ (writeOK_exempt W t hX _) h1
      · split at h1
        · cases h1
        · simp only [pure, Except.pure, Except.ok.injEq] at h1
          subst h1
          exact (leafJ X W N).flagReadySinks _ _ (hJ.modifyExempt k _ hX (fun _ hn => hn) (fun _ hs => hs))
    split at h
    · exact markFileOutdated_J hJ1 (writeOK_exempt W t1 hX _) h
    · simp only [pure, Except.pure, Except.ok.injEq] at h; subst h; exact hJ1

/-- **`Trellis.create` of a file keeps the invariant.** -/
theorem createFile_JK {W : Key → Key → Prop} {N : Key → Prop} (k : Key) (hk : k.kind = .file) (creator : Option Key)
    (st : FileState) (hst : NoHashState st) : Preserves (JK All W N) (fun s => s.create k creator (.file st)) := by
  intro s s' hp h
  replace h : s.create k creator (.file st) = .ok s' := h
  have hkeys := stable_keysNodup.create_preserves k creator (.file st) hst s s' hp.2 h
  have hclosed : ∀ d ∈ s.deps, d.snk = k → (s.find? k).isSome = true := by
    intro d hd hdk
    obtain ⟨f, hf, _⟩ := hp.1.1 d hd (hdk ▸ hk) trivial
    rw [hdk] at hf; rw [hf]; rfl
  obtain ⟨_, hdeps, _⟩ := create_post hp.keys hclosed h
  let X : Key → Prop := fun x => x ≠ k
  have hX : ¬ X k := fun h => h rfl
  have hp0 : J X W N s := hp.1.weaken (fun _ _ => trivial) (fun _ _ h => h) (fun _ h => h)
  have L := leafJ X W N
  suffices J X W N s' by
    refine ⟨⟨fun d hd hkind _ => ?_, this.2⟩, hkeys⟩
    exact this.1 d hd hkind (hdeps d hd).2
  unfold KState.create at h
  cases hf : s.find? k with
  | some n =>
    simp only [hf] at h
    split at h
    · cases h
    · split at h
      · cases h
      · unfold KState.recycleCore at h
        refine bind_ok h (fun s1 h1 => ?_) ?_
        · unfold KState.setCreator at h1
          split at h1
          · simp only [pure, Except.pure, Except.ok.injEq] at h1
            subst h1
            exact L.setDetachedRow _ _ _ (hp0.modifyExempt k _ hX (fun _ hn => hn) (fun _ hs => hs))
          · cases h1
        · intro s1 s1' hp1 hh1
          refine bind_ok hh1 (fun s2 h2 => L.lostProduct_preserves n.creator s1 s2 hp1 h2) ?_
          intro s2 s2' hp2 hh2
          refine bind_ok hh2 (fun s3 h3 => L.detachProducts_preserves k _ s3 (L.deleteDeps s2 _ hp2) h3) ?_
          intro s3 s3' hp3 hh3
          exact initFileRow_J hp3 hX hh3
  | none =>
    simp only [hf] at h
    split at h
    · rename_i hins
      exact initFileRow_J (L.appendNode s k creator hf hins hp0) hX h
    · cases h

/-! ## The state of the row after `create` -/

/-- The final state of a row created with the requested state `st`: `st`, or the BUILT/OUTDATED memory of a
recycled row when UNDECLARED or PLANNED was requested. -/
def KeptLike (st x : FileState) : Prop :=
  x = st ∨ ((st = .undeclared ∨ st = .planned) ∧ (x = .built ∨ x = .outdated))

theorem keptState_like (s : KState) (k : Key) (st : FileState) (e : Bool) : KeptLike st (s.keptState k st e) := by
  unfold KState.keptState
  cases hf : (s.find? k).map (·.fstate) with
  | none => exact .inl rfl
  | some o =>
    simp only
    split
    · rename_i hh; exact .inr ⟨hh.2.1, hh.2.2⟩
    · exact .inl rfl

theorem initFileRow_fstate {t t' : KState} {k : Key} {st : FileState} {e : Bool} (hrow : (t.find? k).isSome = true)
    (hst : st ≠ .built) (h : t.initFileRow k st e = .ok t') : ∃ x, t'.fstateOf k = some x ∧ KeptLike st x := by
  unfold KState.initFileRow at h
  simp only [bind, Except.bind] at h
  cases h1 : t.writeInitialFile k (t.keptState k st e) e with
  | error err => simp [h1] at h
  | ok t1 =>
    simp only [h1] at h
    have hf1 : t1.fstateOf k = some (t.keptState k st e) := by
      unfold KState.writeInitialFile at h1
      split at h1
      · rw [setFileState_eq] at h1
        rw [(writeFile_effect t t1 k _ _ h1).1 k]
        simp only [if_true]
        unfold KState.fstateOf
        cases hfk : t.find? k with
        | none => rw [hfk] at hrow; cases hrow
        | some m => rfl
      · split at h1
        · cases h1
        · simp only [pure, Except.pure, Except.ok.injEq] at h1
          subst h1
          rw [fstateOf_flagReadySinks]
          unfold KState.fstateOf
          have := find?_modify_self t k (fun n => { n with fstate := t.keptState k st e, fhash := none }) (fun _ hn => hn)
          rw [this]
          cases hfk : t.find? k with
          | none => rw [hfk] at hrow; cases hrow
          | some m => rfl
    split at h
    · rename_i hb
      refine ⟨.outdated, ?_, ?_⟩
      · unfold KState.markFileOutdated at h
        cases hfk : t1.find? k with
        | none => unfold KState.fstateOf at hf1; rw [hfk] at hf1; cases hf1
        | some m =>
          have hm : m.fstate = .built := by
            unfold KState.fstateOf at hf1
            rw [hfk] at hf1
            simp only [Option.map_some, Option.some.injEq] at hf1
            rw [hf1, hb]
          simp only [hfk, hm, if_true, bind, Except.bind] at h
          cases hs : t1.setFileState k .outdated with
          | error err => simp [hs] at h
          | ok t2 =>
            simp only [hs] at h
            have h2 : t2.fstateOf k = some .outdated := by
              rw [setFileState_eq] at hs
              rw [(writeFile_effect t1 t2 k _ _ hs).1 k, hf1]; simp
            exact markConsumersPending_inv (propInv_otherFile k (some .outdated) (by decide)) t2 t' k h2 h
      · have := keptState_like t k st e
        rw [hb] at this
        rcases this with h0 | h0
        · exact absurd h0.symm hst
        · exact .inr ⟨h0.1, .inr rfl⟩
    · simp only [pure, Except.pure, Except.ok.injEq] at h; subst h
      exact ⟨_, hf1, keptState_like t k st e⟩

/-! ## The declaration of a product -/

/-- **`_declare_file` + `file.add_source(step)`** for an output (PLANNED) or a volatile output: the step is not
SUCCEEDED (`N`), or the product is VOLATILE. -/
theorem declareProduct_JK {W : Key → Key → Prop} {N : Key → Prop} (cfg : KConfig) (step : Key) (p : String) (st : FileState)
    (hst : st = .planned ∨ st = .volatile) (hD : N step ∨ st = .volatile) :
    Preserves (JK All W N) (fun s => s.declareProduct cfg step p st) := by
  intro s s' hp h
  replace h : s.declareProduct cfg step p st = .ok s' := h
  have hkeys := stable_keysNodup.declareProduct_preserves cfg step p st s s' hp.2 h
  refine ⟨?_, hkeys⟩
  unfold KState.declareProduct at h
  simp only [bind, Except.bind] at h
  cases h1 : s.declareFile cfg step p st with
  | error e => simp [h1] at h
  | ok s1 =>
    simp only [h1] at h
    -- the declaration
    have hnh : NoHashState st := by rcases hst with rfl | rfl <;> simp [NoHashState]
    have hcreate : s.create (fileKey p) (some step) (.file st) = .ok s1 := by
      unfold KState.declareFile at h1
      simp only [bind, Except.bind] at h1
      cases hg : s.declareFileGuard cfg step p st with
      | error e => simp [hg] at h1
      | ok u =>
        simp only [hg] at h1
        cases hc : s.create (fileKey p) (some step) (.file st) with
        | error e => simp [hc] at h1
        | ok s0 =>
          simp only [hc] at h1
          unfold KState.volatileSinkCheck at h1
          split at h1
          · simp [graphErr] at h1
          · simp only [pure, Except.pure, Except.ok.injEq] at h1; subst h1; rfl
    have hp1 : JK All W N s1 := createFile_JK (fileKey p) rfl (some step) st hnh s s1 hp hcreate
    have hclosed : ∀ d ∈ s.deps, d.snk = fileKey p → (s.find? (fileKey p)).isSome = true := by
      intro d hd hdk
      obtain ⟨f, hf, _⟩ := hp.1.1 d hd (by rw [hdk]; rfl) trivial
      rw [hdk] at hf; rw [hf]; rfl
    obtain ⟨hcinv, _, t, e, hrow, hinit⟩ := create_post hp.keys hclosed hcreate
    obtain ⟨x, hx, hlike⟩ := initFileRow_fstate hrow (by rcases hst with rfl | rfl <;> decide) hinit
    -- the row of the product
    cases hfk : s1.find? (fileKey p) with
    | none => have := hcinv.has; rw [hfk] at this; cases this
    | some nk =>
      have hnkx : nk.fstate = x := by
        unfold KState.fstateOf at hx; rw [hfk] at hx
        simp only [Option.map_some, Option.some.injEq] at hx; exact hx
      have hedge : EdgeOK s1 W { src := step, snk := fileKey p } nk := by
        refine ⟨?_, ?_, ?_⟩
        · rcases hcinv.cr nk hfk with hc | hc
          · exact .inr hc
          · exact .inl hc
        · rw [hnkx, isProduct_iff]
          rcases hlike with hl | ⟨_, hl⟩
          · rw [hl]; rcases hst with rfl | rfl
            · exact .inl rfl
            · exact .inr (.inr (.inr rfl))
          · rcases hl with hl | hl
            · exact .inr (.inl hl)
            · exact .inr (.inr (.inl hl))
        · intro _ _ hs
          rcases hD with hD | hD
          · exact absurd hs (hp1.1.2 step hD)
          · rw [hnkx]
            rcases hlike with hl | ⟨hl, _⟩
            · rw [hl, hD]; exact .inr rfl
            · rw [hD] at hl; rcases hl with hl | hl <;> cases hl
      -- the edge
      unfold KState.addSourceChecked at h
      split at h
      · simp [bind, Except.bind, throw, throwThe, MonadExceptOf.throw] at h
      · simp only [pure, Except.pure, bind, Except.bind] at h
        unfold KState.insertDep at h
        simp only [bind, Except.bind, pure, Except.pure] at h
        split at h
        · cases h
        · split at h
          · cases h
          · simp only [Except.ok.injEq] at h
            subst h
            exact (leafJ All W N).flagDepEndpoints _ step (fileKey p) (hp1.1.addDep step (fileKey p) fun _ _ => ⟨nk, hfk, hedge⟩)

/-- `Trellis.create` ends with `initialize_row`. -/
theorem create_initRow {s s' : KState} {k : Key} {creator : Option Key} {init : Init} (h : s.create k creator init = .ok s') :
    ∃ (t : KState) (e : Bool), t.initRow k init e = .ok s' := by
  unfold KState.create at h
  cases hf : s.find? k with
  | some n =>
    simp only [hf] at h
    split at h
    · cases h
    · split at h
      · cases h
      · unfold KState.recycleCore at h
        simp only [bind, Except.bind] at h
        cases h1 : s.setCreator k creator (s.creatorDetached creator) with
        | error e => simp [h1] at h
        | ok s1 =>
          simp only [h1] at h
          cases h2 : s1.lostProduct n.creator with
          | error e => simp [h2] at h
          | ok s2 =>
            simp only [h2] at h
            cases h3 : (s2.deleteDeps fun dp => dp.snk = k).detachProducts k with
            | error e => simp [h3] at h
            | ok s3 => simp only [h3] at h; exact ⟨s3, true, h⟩
  | none =>
    simp only [hf] at h
    split at h
    · exact ⟨_, false, h⟩
    · cases h

theorem not_succ_modify_pending (t : KState) (k : Key) (g : Node → Node) (hkey : ∀ n, n.key = k → (g n).key = k)
    (hp : ∀ n, (g n).sstate = .pending) : ¬ Succ (t.modify k g) k := by
  intro hs
  have := hs.2
  unfold KState.sstateOf at this
  rw [find?_modify_self t k g hkey] at this
  cases hf : t.find? k with
  | none => rw [hf] at this; cases this
  | some m =>
    rw [hf] at this
    simp only [Option.map_some, Option.some.injEq] at this
    rw [hp m] at this; cases this

/-- A step row that has just been created is PENDING. -/
theorem create_step_not_succ {s s' : KState} {k : Key} {creator : Option Key} {i : StepInit}
    (h : s.create k creator (.step i) = .ok s') : ¬ Succ s' k := by
  obtain ⟨t, e, ht⟩ := create_initRow h
  unfold KState.initRow at ht
  simp only [pure, Except.pure, Except.ok.injEq] at ht
  subst ht
  unfold KState.initStepRow
  exact not_succ_modify_pending t k _ (fun _ hn => hn) (fun _ => rfl)

end StepupModel.K.SuccOut
