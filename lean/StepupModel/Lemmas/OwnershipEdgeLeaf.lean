import StepupModel.Lemmas.OwnershipProducts
/-!
# C08 (O5), third part: the operations that are built from the context-free writes

`ELeaf P` lists the primitive writes of `Lemmas/Stable.lean` under which the invariant of
`Lemmas/OwnershipEdgeBase.lean` ("a file row in a product state has an edge from its creator") is stable
without knowing the context: every write of `StableG` except `fileWrite`, `fileInit`, `handOverRow`; the
`creator` write for a cut link or a row that is no file; the deletion of dependency rows none of which ends
in a file key.  The theorems of this file are those of `Lemmas/Stable.lean`, word for word, for the operations
that are built from these leaves (generated from that file by `notes/ownership_edge_regen.py`).  `EMid` adds
`mark_step_pending`.  No property statements here.
-/
namespace StepupModel.K.OwnE
open StepupModel.K.MetaAfter StepupModel.K.Discipline StepupModel.Lemmas StepupModel.K.Ever
set_option linter.unusedSimpArgs false
set_option linter.unusedVariables false

structure ELeaf (P : KState → Prop) : Prop where
  cache : ∀ (s : KState) (p : Node → Bool) (f : Node → Node), CacheOnly f → P s → P (s.modifyWhere p f)
  detached : ∀ (s : KState) (k : Key) (d : Bool), P s → P (s.modify k fun n => { n with detached := d })
  /-- the link is cut, or the row is no file -/
  creator : ∀ (s : KState) (k : Key) (c : Option Key) (d : Bool), s.creatorAllowed k c d = true →
    (c = none ∨ k.kind ≠ .file) → P s → P (s.modify k fun n => { n with creator := c })
  stepWrite : ∀ (s : KState) (k : Key) (n n' : Node) (st : StepState) (d : Option Bool),
    s.find? k = some n → stepRowWrite n st d = .ok n' → P s → P (s.modify k fun _ => n')
  stepInit : ∀ (s : KState) (k : Key) (i : StepInit), P s → P (s.initStepRow k i)
  setHash : ∀ (s : KState) (k : Key) (h : Nat), P s → P (s.setHash k h)
  deleteHash : ∀ (s : KState) (k : Key), P s → P (s.deleteHash k)
  bumpDefer : ∀ (s : KState) (k : Key), P s → P (s.modify k fun n => { n with deferCount := n.deferCount + 1 })
  hold : ∀ (s : KState) (k : Key), P s → P (s.modify k fun n => { n with holding := n.holding + 1 })
  release : ∀ (s : KState) (k : Key) (n : Node), s.find? k = some n → n.holding ≠ 0 → P s →
    P (s.modify k fun n => { n with holding := n.holding - 1 })
  recycled : ∀ (s : KState) (k : Key) (need : Need) (shell : Bool), P s →
    P (s.modify k fun n => { n with need := need, shell := shell })
  addDep : ∀ (s : KState) (src snk : Key), s.hasDep src snk = false → depKindOk src.kind snk.kind = true → P s →
    P { s with deps := s.deps ++ [({ src := src, snk := snk } : Dep)] }
  /-- no deleted row ends in a file key -/
  filterDeps : ∀ (s : KState) (p : Dep → Bool), (∀ d ∈ s.deps, p d = true → d.snk.kind ≠ .file) → P s →
    P { s with deps := s.deps.filter fun d => !p d }
  markDyn : ∀ (s : KState) (src snk : Key) (dyn : Bool), P s →
    P { s with deps := s.deps.map fun (d : Dep) => if d.src = src ∧ d.snk = snk then { d with dyn := dyn } else d }
  appendNode : ∀ (s : KState) (k : Key) (c : Option Key), s.find? k = none → s.insertAllowed k c = true → P s →
    P (s.appendNode k c)
  queueDelete : ∀ (s : KState) (path : String) (h : Option Nat), P s → P (s.queueDelete path h)
  clearQueue : ∀ (s : KState), P s → P { s with toBeDeleted := [] }

namespace ELeaf
variable {P : KState → Prop}

theorem modify_eq_modifyWhere (s : KState) (k : Key) (f : Node → Node) :
    s.modify k f = s.modifyWhere (fun n => decide (n.key = k)) f := StableG.modify_eq_modifyWhere s k f

theorem cacheAt (L : ELeaf P) (s : KState) (k : Key) (f : Node → Node) (hf : CacheOnly f) (hp : P s) :
    P (s.modify k f) := by
  rw [modify_eq_modifyWhere]; exact L.cache _ _ _ hf hp

theorem flagReadySinks (L : ELeaf P) (s : KState) (k : Key) (h : P s) : P (s.flagReadySinks k) := by
  unfold KState.flagReadySinks
  exact L.cache s _ _ (fun _ => rfl) h

theorem flagDepEndpoints (L : ELeaf P) (s : KState) (a b : Key) (hp : P s) : P (s.flagDepEndpoints a b) := by
  unfold KState.flagDepEndpoints
  exact L.cache _ _ _ (fun _ => rfl) hp

theorem writeStepState_preserves (L : ELeaf P) (k : Key) (st : StepState) (d : Option Bool) :
    Preserves P (fun s => s.writeStepState k st d) := by
  intro s s' hp h
  unfold KState.writeStepState at h
  cases hf : s.find? k with
  | none => simp [hf, pure, Except.pure] at h; subst h; exact hp
  | some n =>
    simp only [hf, bind, Except.bind] at h
    cases hw : stepRowWrite n st d with
    | error e => simp [hw] at h
    | ok n' =>
      simp only [hw, pure, Except.pure, Except.ok.injEq] at h
      subst h
      exact L.stepWrite s k n n' st d hf hw hp

theorem setStepState_preserves (L : ELeaf P) (k : Key) (st : StepState) (d : Bool) :
    Preserves P (fun s => s.setStepState k st d) := L.writeStepState_preserves k st (some d)

theorem deleteDeps (L : ELeaf P) (s : KState) (p : Dep → Bool)
    (hq : ∀ d ∈ s.deps, p d = true → d.snk.kind ≠ .file) (hp : P s) : P (s.deleteDeps p) := by
  unfold KState.deleteDeps
  generalize (s.deps.filter p) = gone
  have base : P ({ s with deps := s.deps.filter fun d => !p d } : KState) := L.filterDeps s p hq hp
  generalize ({ s with deps := s.deps.filter fun d => !p d } : KState) = s0 at base
  induction gone generalizing s0 with
  | nil => exact base
  | cons d ds ih =>
    simp only [List.foldl_cons]
    apply ih
    exact L.flagDepEndpoints _ _ _ base

theorem setDetachedRow (L : ELeaf P) (s : KState) (k : Key) (d : Bool) (hp : P s) : P (s.setDetachedRow k d) := by
  unfold KState.setDetachedRow
  cases hf : s.find? k with
  | none => exact hp
  | some n =>
    simp only
    have h1 : P (s.modify k fun n => { n with detached := d }) := L.detached s k d hp
    split
    · exact L.flagReadySinks _ _ h1
    · exact h1

theorem setDetachedRec (L : ELeaf P) (s : KState) (k : Key) (d : Bool) (hp : P s) : P (s.setDetachedRec k d) := by
  unfold KState.setDetachedRec
  generalize s.descendants k = l
  induction l generalizing s with
  | nil => exact hp
  | cons x xs ih => simp only [List.foldl_cons]; exact ih _ (L.setDetachedRow s x d hp)

theorem setCreator_preserves (L : ELeaf P) (k : Key) (c : Option Key) (d : Bool)
    (hc : c = none ∨ k.kind ≠ .file) :
    Preserves P (fun s => s.setCreator k c d) := by
  intro s s' hp h
  replace h : s.setCreator k c d = .ok s' := h
  unfold KState.setCreator at h
  split at h
  · rename_i hall
    simp only [pure, Except.pure, Except.ok.injEq] at h
    subst h
    exact L.setDetachedRow _ _ _ (L.creator s k c d hall hc hp)
  · cases h

theorem flagChecksWithProducts_preserves (L : ELeaf P) (k : Key) : Preserves P (fun s => s.flagChecksWithProducts k) := by
  intro s s' hp h
  replace h : s.flagChecksWithProducts k = .ok s' := h
  unfold KState.flagChecksWithProducts at h
  split at h
  · cases h
  · simp only [pure, Except.pure, Except.ok.injEq] at h
    subst h
    exact L.cache _ _ _ (fun _ => rfl) hp

theorem flagCheckAfterSources_preserves (L : ELeaf P) (k : Key) : Preserves P (fun s => s.flagCheckAfterSources k) := by
  intro s s' hp h
  replace h : s.flagCheckAfterSources k = .ok s' := h
  unfold KState.flagCheckAfterSources at h
  split at h
  · cases h
  · simp only [pure, Except.pure, Except.ok.injEq] at h
    subst h
    exact L.cache _ _ _ (fun _ => rfl) hp

theorem detachCore_preserves (L : ELeaf P) (k : Key) (n : Node) : Preserves P (fun s => s.detachCore k n) := by
  intro s s' hp h
  replace h : s.detachCore k n = .ok s' := h
  unfold KState.detachCore at h
  split at h
  · refine preserves_bind (L.setCreator_preserves k none true (.inl rfl)) ?_ s s' hp h
    intro s1 s2 hp1 h1
    simp only [pure, Except.pure, Except.ok.injEq] at h1
    subst h1
    split
    · exact L.setDetachedRec _ _ _ hp1
    · exact hp1
  · simp only [pure, Except.pure, Except.ok.injEq] at h; subst h; exact hp

theorem detachFlags_preserves (L : ELeaf P) (k : Key) : Preserves P (fun s => s.detachFlags k) := by
  intro s s' hp h
  replace h : s.detachFlags k = .ok s' := h
  unfold KState.detachFlags at h
  split at h
  · exact preserves_bind (L.flagChecksWithProducts_preserves k) (L.flagCheckAfterSources_preserves k) s s' hp h
  · simp only [pure, Except.pure, Except.ok.injEq] at h; subst h; exact hp

theorem detach_preserves (L : ELeaf P) (k : Key) : Preserves P (fun s => s.detach k) := by
  intro s s' hp h
  replace h : s.detach k = .ok s' := h
  unfold KState.detach at h
  cases hf : s.find? k with
  | none => simp [hf] at h
  | some n =>
    simp only [hf] at h
    exact preserves_bind (L.detachCore_preserves k n) (L.detachFlags_preserves k) s s' hp h

theorem detachCreatedSteps_preserves (L : ELeaf P) (k : Key) : Preserves P (fun s => s.detachCreatedSteps k) := by
  intro s s' hp h
  replace h : s.detachCreatedSteps k = .ok s' := h
  unfold KState.detachCreatedSteps at h
  exact foldlM_preserves P _ _ (fun (p : Node) => L.detach_preserves p.key) s s' hp h

theorem detachProductsWhere_preserves (L : ELeaf P) (k : Key) (p : Node → Bool) :
    Preserves P (fun s => s.detachProductsWhere k p) := by
  intro s s' hp h
  replace h : s.detachProductsWhere k p = .ok s' := h
  unfold KState.detachProductsWhere at h
  exact foldlM_preserves P _ _ (fun (n : Node) => L.detach_preserves n.key) s s' hp h

theorem dropDynamicInputs (L : ELeaf P) (s : KState) (k : Key) (hk : k.kind ≠ .file) (hp : P s) : P (s.dropDynamicInputs k) := by
  unfold KState.dropDynamicInputs KState.flagDynamicSuppliers
  exact L.cacheAt _ _ _ (fun _ => rfl) (L.deleteDeps _ _ (fun d _ hd => by rw [(of_decide_eq_true hd).1]; exact hk) (L.cache _ _ _ (fun _ => rfl) hp))

theorem markDir (L : ELeaf P) (s : KState) (d : String) (hp : P s) : P (s.markDirToBeDeleted d) := by
  unfold KState.markDirToBeDeleted
  split
  · exact hp
  · exact L.queueDelete _ _ _ hp

theorem hold_preserves (L : ELeaf P) (k : Key) (s s' : KState) (hp : P s)
    (h : s.hold k = .ok s') : P s' := by
  unfold KState.hold at h
  simp only [bind, Except.bind] at h
  have hp1 : P (s.modify k fun n => { n with holding := n.holding + 1 }) :=
    L.hold _ _ hp
  split at h
  · exact L.flagChecksWithProducts_preserves k _ s' hp1 h
  · simp only [pure, Except.pure, Except.ok.injEq] at h; subst h; exact hp1

theorem release_preserves (L : ELeaf P) (k : Key) : Preserves P (fun s => s.release k) := by
  intro s s' hp h
  replace h : s.release k = .ok s' := h
  unfold KState.release at h
  cases hf : s.find? k with
  | none => simp [hf, graphErr] at h
  | some n =>
    simp only [hf, bind, Except.bind] at h
    split at h
    · cases h
    · rename_i hne
      have hp1 : P (s.modify k fun n => { n with holding := n.holding - 1 }) :=
        L.release s k n hf hne hp
      split at h
      · exact L.flagChecksWithProducts_preserves k _ s' hp1 h
      · simp only [pure, Except.pure, Except.ok.injEq] at h; subst h; exact hp1

theorem updateMetaSafe_preserves (L : ELeaf P) : Preserves P (fun s => s.updateMetaSafe) := by
  intro s s' hp h
  replace h : s.updateMetaSafe = .ok s' := h
  unfold KState.updateMetaSafe at h
  simp only [bind, Except.bind] at h
  split at h
  · simp only [pure, Except.pure, Except.ok.injEq] at h; subst h; exact hp
  · split at h
    · cases h
    · simp only [pure, Except.pure, Except.ok.injEq] at h
      subst h
      refine L.cache _ _ _ (fun _ => rfl) (L.cache _ _ _ ?_ hp)
      intro n
      dsimp only
      split <;> rfl

theorem applyAfterUpdates (L : ELeaf P) (s : KState) (u : List (Key × Need × Nat)) (hp : P s) :
    P (s.applyAfterUpdates u) := by
  unfold KState.applyAfterUpdates
  refine L.cache _ _ _ ?_ hp
  intro n
  dsimp only
  split <;> rfl

theorem afterLoop_preserves (L : ELeaf P) (cfg : KConfig) (fuel : Nat) (s s' : KState) (work : List Key) (first : Bool)
    (hp : P s) (h : KState.afterLoop cfg fuel s work first = some s') : P s' := by
  induction fuel generalizing s work first with
  | zero =>
    unfold KState.afterLoop at h
    split at h
    · simp only [Option.some.injEq] at h; subst h; exact hp
    · cases h
  | succ fuel ih =>
    unfold KState.afterLoop at h
    split at h
    · simp only [Option.some.injEq] at h; subst h; exact hp
    · exact ih _ _ _ (L.applyAfterUpdates s _ hp) h

theorem updateMetaAfter_preserves (L : ELeaf P) (cfg : KConfig) : Preserves P (fun s => s.updateMetaAfter cfg) := by
  intro s s' hp h
  replace h : s.updateMetaAfter cfg = .ok s' := h
  unfold KState.updateMetaAfter at h
  split at h
  · simp only [pure, Except.pure, Except.ok.injEq] at h; subst h; exact hp
  · dsimp only at h
    split at h
    · rename_i st hst
      simp only [pure, Except.pure, Except.ok.injEq] at h
      subst h
      exact L.cache _ _ _ (fun _ => rfl) (L.afterLoop_preserves cfg _ s st _ _ hp hst)
    · cases h

theorem updateMetaReady (L : ELeaf P) (s : KState) (hp : P s) : P s.updateMetaReady := by
  unfold KState.updateMetaReady
  exact L.cache _ _ _ (fun _ => rfl) hp

theorem updateMeta_preserves (L : ELeaf P) (cfg : KConfig) : Preserves P (fun s => s.updateMeta cfg) := by
  intro s s' hp h
  replace h : s.updateMeta cfg = .ok s' := h
  unfold KState.updateMeta at h
  refine bind_ok h (fun s1 h1 => L.updateMetaSafe_preserves s s1 hp h1) ?_
  intro s1 s1' hp1 hh1
  refine bind_ok hh1 (fun s2 h2 => L.updateMetaAfter_preserves cfg s1 s2 hp1 h2) ?_
  exact preserves_pure _ (fun s hs => L.updateMetaReady s hs)

theorem popNext_preserves (L : ELeaf P) (cfg : KConfig) (choice : Option Key) (s s' : KState) (d : Dispatch)
    (hp : P s) (h : s.popNext cfg choice = .ok (s', d)) : P s' := by
  unfold KState.popNext at h
  simp only [bind, Except.bind] at h
  cases hu : s.updateMeta cfg with
  | error e => simp [hu] at h
  | ok su =>
    simp only [hu] at h
    have hpu := L.updateMeta_preserves cfg s su hp hu
    cases choice with
    | none =>
      simp only at h
      split at h
      · simp only [pure, Except.pure, Except.ok.injEq, Prod.mk.injEq] at h
        obtain ⟨rfl, _⟩ := h; exact hpu
      · cases h
    | some k =>
      simp only at h
      split at h
      · cases h
      · rename_i n hn
        split at h
        · cases h
        · split at h
          · cases h
          · cases hj : su.deriveJob k with
            | error e => simp [hj] at h
            | ok run =>
              simp only [hj] at h
              cases hs : su.setStepState k (if n.hasHash = true then StepState.checking else StepState.running) with
              | error e => simp [hs] at h
              | ok s2 =>
                simp only [hs, pure, Except.pure, Except.ok.injEq, Prod.mk.injEq] at h
                obtain ⟨rfl, _⟩ := h
                exact L.setStepState_preserves k _ false su s2 hpu hs

theorem reconcileTarget_preserves (L : ELeaf P) (t : String) : Preserves P (fun s => s.reconcileTarget t) := by
  intro s s' hp h
  replace h : s.reconcileTarget t = .ok s' := h
  unfold KState.reconcileTarget at h
  cases hf : s.find? (fileKey t) with
  | none => simp [hf, pure, Except.pure] at h; subst h; exact hp
  | some f =>
    simp only [hf] at h
    split at h
    · simp only [pure, Except.pure, Except.ok.injEq] at h; subst h; exact hp
    · split at h
      · split at h
        · simp [graphErr] at h
        · simp only [pure, Except.pure, Except.ok.injEq] at h; subst h; exact hp
      · split at h
        · simp only [pure, Except.pure, Except.ok.injEq] at h; subst h
          exact L.cacheAt _ _ _ (fun _ => rfl) hp
        · simp only [pure, Except.pure, Except.ok.injEq] at h; subst h; exact hp

theorem reconcileTargets_preserves (L : ELeaf P) (cfg : KConfig) : Preserves P (fun s => s.reconcileTargets cfg) := by
  intro s s' hp h
  replace h : s.reconcileTargets cfg = .ok s' := h
  unfold KState.reconcileTargets at h
  dsimp only at h
  refine bind_ok h (fun s1 h1 => ?_) ?_
  · have hp0 : P (s.modifyWhere (fun n => n.key.kind = .step ∧ n.impliedNeed = .target)
        fun n => { n with checkAfter := true }) := L.cache _ _ _ (fun _ => rfl) hp
    exact foldlM_preserves P (fun st t => st.reconcileTarget t) _ (fun t => L.reconcileTarget_preserves t) _ s1 hp0 h1
  · refine preserves_pure _ (fun s hs => ?_)
    unfold KState.reconcileTargetDirs
    exact L.cache _ _ _ (fun _ => rfl) hs

theorem afterLostProduct_preserves (L : ELeaf P) (k : Key) : Preserves P (fun s => s.afterLostProduct k) := by
  intro s s' hp h
  replace h : s.afterLostProduct k = .ok s' := h
  unfold KState.afterLostProduct at h
  split at h
  · simp only [pure, Except.pure, Except.ok.injEq] at h; subst h; exact L.deleteHash _ _ hp
  · simp only [pure, Except.pure, Except.ok.injEq] at h; subst h; exact hp
  · cases h
  · cases h

theorem lostProduct_preserves (L : ELeaf P) (old : Option Key) : Preserves P (fun s => s.lostProduct old) := by
  intro s s' hp h
  replace h : s.lostProduct old = .ok s' := h
  unfold KState.lostProduct at h
  cases old with
  | none => simp only [pure, Except.pure, Except.ok.injEq] at h; subst h; exact hp
  | some oc =>
    simp only at h
    split at h
    · cases h
    · exact L.afterLostProduct_preserves oc s s' hp h

theorem flagIfStep_preserves (L : ELeaf P) (k : Key) : Preserves P (fun s => s.flagIfStep k) := by
  intro s s' hp h
  replace h : s.flagIfStep k = .ok s' := h
  unfold KState.flagIfStep at h
  split at h
  · exact L.flagChecksWithProducts_preserves k s s' hp h
  · simp only [pure, Except.pure, Except.ok.injEq] at h; subst h; exact hp

theorem reattachCore_preserves (L : ELeaf P) (k c : Key) (n : Node) (hk : k.kind ≠ .file) : Preserves P (fun s => s.reattachCore k c n) := by
  intro s s' hp h
  replace h : s.reattachCore k c n = .ok s' := h
  unfold KState.reattachCore at h
  dsimp only at h
  refine bind_ok h (fun s1 h1 => L.setCreator_preserves k (some c) _ (.inr hk) s s1 hp h1) ?_
  intro s1 s1' hp1 hh1
  refine bind_ok hh1 (fun s2 h2 => L.lostProduct_preserves n.creator s1 s2 hp1 h2) ?_
  intro s2 s2' hp2 hh2
  exact L.flagIfStep_preserves k _ s2' (L.setDetachedRec s2 k _ hp2) hh2

theorem reattach_preserves (L : ELeaf P) (k c : Key) (hk : k.kind ≠ .file) : Preserves P (fun s => s.reattach k c) := by
  intro s s' hp h
  replace h : s.reattach k c = .ok s' := h
  unfold KState.reattach at h
  cases hf : s.find? k with
  | none => simp [hf] at h
  | some n =>
    simp only [hf] at h
    split at h
    · cases h
    · split at h
      · cases h
      · exact L.reattachCore_preserves k c n hk s s' hp h

theorem detachProducts_preserves (L : ELeaf P) (k : Key) : Preserves P (fun s => s.detachProducts k) := by
  intro s s' hp h
  replace h : s.detachProducts k = .ok s' := h
  unfold KState.detachProducts at h
  exact foldlM_preserves P _ _ (fun (p : Node) => L.detach_preserves p.key) s s' hp h

theorem volatileSinkCheck_preserves (_L : ELeaf P) (p : String) (st : FileState) :
    Preserves P (fun s => s.volatileSinkCheck p st) := by
  intro s s' hp h
  replace h : s.volatileSinkCheck p st = .ok s' := h
  unfold KState.volatileSinkCheck at h
  split at h
  · simp [graphErr] at h
  · simp only [pure, Except.pure, Except.ok.injEq] at h; subst h; exact hp

theorem insertDep_preserves (L : ELeaf P) (a b : Key) : Preserves P (fun s => s.insertDep a b) := by
  intro s s' hp h
  replace h : s.insertDep a b = .ok s' := h
  unfold KState.insertDep at h
  simp only [bind, Except.bind, pure, Except.pure] at h
  split at h
  · cases h
  · rename_i hdup
    split at h
    · cases h
    · rename_i hkind
      simp only [Except.ok.injEq] at h
      subst h
      exact L.flagDepEndpoints _ a b (L.addDep s a b (by simpa using hdup) (by simpa using hkind) hp)

theorem insertNewEdges_preserves (L : ELeaf P) (step : Key) (infos : List Supply) :
    Preserves P (fun s => s.insertNewEdges step infos) := by
  intro s s' hp h
  replace h : s.insertNewEdges step infos = .ok s' := h
  unfold KState.insertNewEdges at h
  exact foldlM_preserves P (fun (st : KState) (i : Supply) => st.insertDep i.file step) _
    (fun i => L.insertDep_preserves i.file step) s s' hp h

theorem addSourceChecked_preserves (L : ELeaf P) (a b : Key) : Preserves P (fun s => s.addSourceChecked a b) := by
  intro s s' hp h
  replace h : s.addSourceChecked a b = .ok s' := h
  unfold KState.addSourceChecked at h
  split at h
  · simp [bind, Except.bind, throw, throwThe, MonadExceptOf.throw] at h
  · simp only [pure, Except.pure, bind, Except.bind] at h
    exact L.insertDep_preserves b a s s' hp h

theorem setStepExtras (L : ELeaf P) (s : KState) (sk : Key) (d : StepDecl) (hp : P s) : P (s.setStepExtras sk d) :=
  L.cacheAt _ _ _ (fun _ => rfl) hp

theorem setDynamic (L : ELeaf P) (s : KState) (a b : Key) (d : Bool) (hp : P s) : P (s.setDynamic a b d) := by
  unfold KState.setDynamic
  refine L.cacheAt _ _ _ (fun n => ?_) (L.markDyn s a b d hp)
  split <;> rfl

theorem markDynamic (L : ELeaf P) (s : KState) (edges : List (Key × Key)) (hp : P s) : P (s.markDynamic edges) := by
  unfold KState.markDynamic
  induction edges generalizing s with
  | nil => exact hp
  | cons e es ih => simp only [List.foldl_cons]; exact ih _ (L.setDynamic s _ _ _ hp)

theorem amendEnv (L : ELeaf P) (s : KState) (cfg : KConfig) (step : Key) (env : List String) (hp : P s) :
    P (s.amendEnv cfg step env) := by
  unfold KState.amendEnv
  refine L.cacheAt _ _ _ (fun n => ?_) hp
  induction env generalizing n with
  | nil => rfl
  | cons x xs ih =>
    simp only [List.foldl_cons]
    split
    · exact ih _
    · exact (ih _).trans rfl

theorem registerNglob_preserves (L : ELeaf P) (step : Key) (pattern : String) (found : List String) :
    Preserves P (fun s => s.registerNglob step pattern found) := by
  intro s s' hp h
  replace h : s.registerNglob step pattern found = .ok s' := h
  unfold KState.registerNglob at h
  refine bind_ok_gen h (fun _ => True) (fun _ _ => trivial) P ?_
  intro _ r _ hh
  simp only [pure, Except.pure, Except.ok.injEq] at hh
  subst hh
  exact L.cacheAt _ _ _ (fun _ => rfl) hp

theorem registerNglobs_preserves (L : ELeaf P) (creator : Key) (patterns : List (String × List String)) :
    Preserves P (fun s => s.registerNglobs creator patterns) := by
  intro s s' hp h
  replace h : s.registerNglobs creator patterns = .ok s' := h
  unfold KState.registerNglobs at h
  exact foldlM_preserves P (fun (st : KState) (pm : String × List String) => st.registerNglob creator pm.1 pm.2)
    patterns (fun pm => L.registerNglob_preserves creator pm.1 pm.2) s s' hp h

theorem treeInner_preserves (L : ELeaf P) (f : Node) (st : KState) (r : ForInStep KState) (hp : P st)
    (h : treeInner f st = .ok r) : P r.value := by
  unfold treeInner at h
  split at h
  · refine bind_ok_gen h P (fun a ha => L.detach_preserves f.key st a hp ha) (fun r => P r.value) ?_
    intro a r' ha hh
    simp only [pure, Except.pure, Except.ok.injEq] at hh; subst hh; exact ha
  · simp only [pure, Except.pure, Except.ok.injEq] at h; subst h; exact hp

theorem treeOuter_preserves (L : ELeaf P) (t : Node) (st : KState) (r : ForInStep KState) (hp : P st)
    (h : treeOuter t st = .ok r) : P r.value := by
  unfold treeOuter at h
  simp only at h
  refine bind_ok_gen h P (fun a ha => ?_) (fun r => P r.value) ?_
  · refine forIn_except_inv _ treeInner P st a hp ?_ ha
    intro f _ b r' hb hf
    exact L.treeInner_preserves f b r' hb hf
  · intro a r' ha hh
    simp only [pure, Except.pure, Except.ok.injEq] at hh; subst hh; exact ha

theorem deleteDetached_preserves (L : ELeaf P)
    (hbase : Preserves P (fun s => s.deleteDetachedBase)) : Preserves P (fun s => s.deleteDetached) := by
  intro s s' hp h
  replace h : s.deleteDetached = .ok s' := h
  rw [deleteDetached_eq] at h
  refine bind_ok h (fun st hst => ?_) hbase
  refine forIn_except_inv _ treeOuter P s st hp ?_ hst
  intro t _ b r' hb hf
  exact L.treeOuter_preserves t b r' hb hf

theorem initRow_preserves (L : ELeaf P) (k : Key) (init : Init) (existed : Bool) (hi : ∀ st, init ≠ .file st) :
    Preserves P (fun s => s.initRow k init existed) := by
  intro s s' hp h
  replace h : s.initRow k init existed = .ok s' := h
  unfold KState.initRow at h
  cases init with
  | root => simp only [pure, Except.pure, Except.ok.injEq] at h; subst h; exact hp
  | tree => simp only [pure, Except.pure, Except.ok.injEq] at h; subst h; exact hp
  | file st => exact absurd rfl (hi st)
  | step i => simp only [pure, Except.pure, Except.ok.injEq] at h; subst h; exact L.stepInit _ _ _ hp

theorem recycleCore_preserves (L : ELeaf P) (k : Key) (n : Node) (creator : Option Key) (init : Init) (hi : ∀ st, init ≠ .file st)
    (hk : k.kind ≠ .file) :
    Preserves P (fun s => s.recycleCore k n creator init) := by
  intro s s' hp h
  replace h : s.recycleCore k n creator init = .ok s' := h
  unfold KState.recycleCore at h
  refine bind_ok h (fun s1 h1 => L.setCreator_preserves k creator _ (.inr hk) s s1 hp h1) ?_
  intro s1 s1' hp1 hh1
  refine bind_ok hh1 (fun s2 h2 => L.lostProduct_preserves n.creator s1 s2 hp1 h2) ?_
  intro s2 s2' hp2 hh2
  refine bind_ok hh2 (fun s3 h3 => L.detachProducts_preserves k _ s3 (L.deleteDeps s2 _ (fun d _ hd => by rw [of_decide_eq_true hd]; exact hk) hp2) h3) ?_
  exact L.initRow_preserves k init true hi

theorem create_preserves (L : ELeaf P) (k : Key) (creator : Option Key) (init : Init) (hi : ∀ st, init ≠ .file st)
    (hk : k.kind ≠ .file) :
    Preserves P (fun s => s.create k creator init) := by
  intro s s' hp h
  replace h : s.create k creator init = .ok s' := h
  unfold KState.create at h
  cases hf : s.find? k with
  | some n =>
    simp only [hf] at h
    split at h
    · cases h
    · split at h
      · cases h
      · exact L.recycleCore_preserves k n creator init hi hk s s' hp h
  | none =>
    simp only [hf] at h
    split at h
    · rename_i hins
      exact L.initRow_preserves k init false hi _ s' (L.appendNode s k creator hf hins hp) h
    · cases h

end ELeaf

/-- `ELeaf` with `mark_step_pending`. -/
structure EMid (P : KState → Prop) : Prop where
  leaf : ELeaf P
  markStepPending_preserves : ∀ (fuel : Nat) (k : Key), Preserves P (fun s => StepupModel.K.markStepPending fuel s k)

end StepupModel.K.OwnE
