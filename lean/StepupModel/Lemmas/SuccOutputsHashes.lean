import StepupModel.Lemmas.SuccOutputsHard
/-!
# I4: `update_file_hashes`

All rows are written first, then the follow-up actions run.  A BUILT output of a SUCCEEDED step that is written
(to PLANNED or OUTDATED: every transition out of BUILT does that, with the action `updated` or `deleted`) makes
the `(done)` clause false until the action of that file has marked the creator pending.  The clause is waived
for the edges into the written files during the request; at the end, a SUCCEEDED owner of a written file would
have been SUCCEEDED all along (no step becomes SUCCEEDED), so the file was BUILT, so one of its actions ran
`mark_step_pending` on the owner: contradiction.  No property statements here.
-/
namespace StepupModel.K.SuccOut
open StepupModel.K.MetaAfter StepupModel.K.Discipline StepupModel.Lemmas StepupModel.K.Ever StepupModel.Generated
set_option linter.unusedSimpArgs false
set_option linter.unusedVariables false

/-- The check of one table entry out of BUILT. -/
def okBuilt : Option (FileState × Option Action) → Bool
  | none => true
  | some (new, act) => (decide (new = .planned) || decide (new = .outdated)) &&
      (decide (act = some .updated) || decide (act = some .deleted)) &&
      (!decide (act = some .deleted) || decide (new = .planned))

theorem okBuilt_all (c : Cause) (kn : Bool) : okBuilt (lookupTransition c .built kn) = true := by
  cases c <;> cases kn <;> decide

/-- Every transition out of BUILT leads to PLANNED or OUTDATED with the action `updated` or `deleted`, and
`deleted` leads to PLANNED. -/
theorem trans_from_built {c : Cause} {kn : Bool} {new : FileState} {act : Option Action}
    (h : lookupTransition c .built kn = some (new, act)) :
    (new = .planned ∨ new = .outdated) ∧ (act = some .updated ∨ act = some .deleted) ∧
        (act = some .deleted → new = .planned) := by
  have := okBuilt_all c kn
  rw [h] at this
  simp only [okBuilt, Bool.and_eq_true, Bool.or_eq_true, decide_eq_true_eq, Bool.not_eq_true', decide_eq_false_iff_not] at this
  obtain ⟨⟨h1, h2⟩, h3⟩ := this
  refine ⟨h1, h2, fun hd => ?_⟩
  rcases h3 with h3 | h3
  · exact absurd hd h3
  · exact h3

theorem trans_from_volatile (c : Cause) (kn : Bool) : lookupTransition c .volatile kn = none := by
  cases c <;> cases kn <;> decide

theorem hashRec_spec {s : KState} {cause : Cause} {u : String × Option Nat} {r : HashRec}
    (h : s.hashRec cause u = .ok r) :
    ∃ n, s.find? r.key = some n ∧ lookupTransition cause n.fstate u.2.isSome = some (r.newState, r.action) := by
  unfold KState.hashRec at h
  cases hf : s.find? (fileKey u.1) with
  | none => simp [hf] at h
  | some n =>
    simp only [hf] at h
    cases hl : lookupTransition cause n.fstate u.2.isSome with
    | none => simp [hl] at h
    | some p =>
      obtain ⟨new, act⟩ := p
      simp only [hl, pure, Except.pure, Except.ok.injEq] at h
      subst h
      exact ⟨n, hf, hl⟩

/-- A record for a row that is BUILT or VOLATILE in `s`. -/
theorem rec_of_done {s : KState} {cause : Cause} {u : String × Option Nat} {r : HashRec} {n : Node}
    (h : s.hashRec cause u = .ok r) (hn : s.find? r.key = some n) (hd : Done n.fstate) :
    (r.newState = .planned ∨ r.newState = .outdated) ∧ (r.action = some .updated ∨ r.action = some .deleted) ∧
      (r.action = some .deleted → r.newState = .planned) := by
  obtain ⟨n', hn', hl⟩ := hashRec_spec h
  rw [hn] at hn'; cases hn'
  rcases hd with hb | hv
  · rw [hb] at hl
    exact trans_from_built hl
  · rw [hv, trans_from_volatile] at hl; cases hl

/-! ## Predicates of the propagation through the follow-up actions -/

theorem pendCreator_inv {Q : KState → Prop} (hQ : PropInv Q) (s s' : KState) (f : Key) (hs : Q s)
    (h : s.pendCreator f = .ok s') : Q s' := by
  unfold KState.pendCreator at h
  cases hc : s.creatorStep f with
  | none => simp [hc, pure, Except.pure] at h; subst h; exact hs
  | some c => simp only [hc] at h; exact markStepPending_inv hQ s.fuel s s' c hs h

theorem handleUpdated_inv {Q : KState → Prop} (hQ : PropInv Q) (s s' : KState) (f : Key) (hs : Q s)
    (h : s.handleUpdated f = .ok s') : Q s' := by
  unfold KState.handleUpdated at h
  by_cases h1 : s.fileState? f = some .confirmed
  · rw [if_pos h1] at h; exact markConsumersPending_inv hQ s s' f hs h
  · rw [if_neg h1] at h
    by_cases h2 : s.fileState? f = some .planned ∨ s.fileState? f = some .outdated
    · rw [if_pos h2] at h; exact pendCreator_inv hQ s s' f hs h
    · rw [if_neg h2] at h
      simp only [pure, Except.pure, Except.ok.injEq] at h; subst h; exact hs

theorem handleDeleted_inv {Q : KState → Prop} (hQ : PropInv Q) (s s' : KState) (f : Key) (hs : Q s)
    (h : s.handleDeleted f = .ok s') : Q s' := by
  unfold KState.handleDeleted at h
  simp only [bind, Except.bind] at h
  by_cases h1 : s.fileState? f = some .planned
  · rw [if_pos h1] at h
    cases hc : s.pendCreator f with
    | error e => simp [hc] at h
    | ok s1 =>
      simp only [hc] at h
      exact markConsumersPending_inv hQ s1 s' f (pendCreator_inv hQ s s1 f hs hc) h
  · rw [if_neg h1] at h
    simp only [pure, Except.pure] at h
    exact markConsumersPending_inv hQ s s' f hs h

/-- Somewhere in the fold the element `a0` is met in a state satisfying `Pre`; its step establishes `Post`,
which the later steps keep. -/
theorem foldlM_reach {α : Type} (Pre Post : KState → Prop) (f : KState → α → M KState) (a0 : α)
    (hpre : ∀ b a b', Pre b → f b a = .ok b' → Pre b')
    (hest : ∀ b b', Pre b → f b a0 = .ok b' → Post b')
    (hpost : ∀ b a b', Post b → f b a = .ok b' → Post b') :
    ∀ l : List α, a0 ∈ l → ∀ b b', Pre b → l.foldlM f b = .ok b' → Post b' := by
  intro l
  induction l with
  | nil => intro h; cases h
  | cons x xs ih =>
    intro hmem b b' hb h
    simp only [List.foldlM_cons, bind, Except.bind] at h
    cases hfx : f b x with
    | error e => simp [hfx] at h
    | ok b1 =>
      simp only [hfx] at h
      rcases List.mem_cons.1 hmem with rfl | hm
      · exact foldlM_keeps Post f xs (fun b a b' _ hb hr => hpost b a b' hb hr) b1 b' (hest b b1 hb hfx) h
      · exact ih hm b1 b' (hpre b x b1 hb hfx) h

theorem not_succ_of_notDone {s : KState} {c : Key} (h : NotDone s c) : ¬ Succ s c := by
  intro hs
  rcases h _ hs.2 with h | h | h <;> cases h

/-- The creator of `B` is marked pending by `pendCreator`. -/
theorem pendCreator_notDone {s0 t t' : KState} {B c : Key} (hsoft : SoftRel s0 t) {n : Node} (hn : s0.find? B = some n)
    (hc : n.creator = some c) (hsucc : Succ s0 c) (h : t.pendCreator B = .ok t') : NotDone t' c := by
  have hrel := hsoft.find? B
  rw [hn] at hrel
  cases hfb : t.find? B with
  | none => rw [hfb] at hrel; exact hrel.elim
  | some m =>
    rw [hfb] at hrel
    have hmc : m.creator = some c := hrel.2.2.1.1.trans hc
    have hhas : t.has c = true := by
      have hrc := hsoft.find? c
      have : ∃ x, s0.find? c = some x := by
        have := hsucc.2
        unfold KState.sstateOf at this
        cases hx : s0.find? c with
        | none => rw [hx] at this; cases this
        | some x => exact ⟨x, rfl⟩
      obtain ⟨x, hx⟩ := this
      rw [hx] at hrc
      unfold KState.has
      cases hy : t.find? c with
      | none => rw [hy] at hrc; exact hrc.elim
      | some y => rfl
    have hcs : t.creatorStep B = some c := by
      unfold KState.creatorStep
      simp only [hfb, Option.bind_some, hmc, hsucc.1, hhas, and_self, if_true]
    unfold KState.pendCreator at h
    rw [hcs] at h
    exact markStepPending_notDone t.fuel t t' c h

/-- PLANNED or OUTDATED. -/
def Po (o : Option FileState) : Prop := o = some .planned ∨ o = some .outdated

theorem propInv_po (q : Key) : PropInv (fun s => Po (s.fstateOf q)) where
  file := fun s s' f hs hb _ h => by
    rw [setFileState_eq] at h
    show Po (s'.fstateOf q)
    rw [(writeFile_effect s s' f _ _ h).1 q]
    by_cases hq : q = f
    · subst hq
      rcases hs with hs | hs <;> rw [hs] at hb <;> cases hb
    · simp only [hq, if_false]; exact hs
  step := fun s s' t _ hs _ _ _ h => by
    rw [setStepState_eq] at h
    show Po (s'.fstateOf q)
    rw [(writeStepState_effect s s' t _ _ h).2.1 q]; exact hs

/-- After the `executemany`: a file all of whose records lead into `T` is in `T`. -/
theorem writes_into (B : Key) (T : FileState → Prop) :
    ∀ (recs : List HashRec) (s s1 : KState), (∀ r ∈ recs, r.key = B → T r.newState) →
      ((∃ r ∈ recs, r.key = B) ∨ ∀ x, s.fstateOf B = some x → T x) →
      recs.foldlM (fun st r => st.writeFile r.key r.newState (some r.newHash)) s = .ok s1 →
      ∀ x, s1.fstateOf B = some x → T x := by
  intro recs
  induction recs with
  | nil =>
    intro s s1 _ hor h
    simp only [List.foldlM_nil, pure, Except.pure, Except.ok.injEq] at h
    subst h
    rcases hor with ⟨r, hr, _⟩ | hor
    · cases hr
    · exact hor
  | cons a as ih =>
    intro s s1 hT hor h
    simp only [List.foldlM_cons, bind, Except.bind] at h
    cases hw : s.writeFile a.key a.newState (some a.newHash) with
    | error e => simp [hw] at h
    | ok b1 =>
      simp only [hw] at h
      refine ih b1 s1 (fun r hr => hT r (List.mem_cons_of_mem _ hr)) ?_ h
      have heff := (writeFile_effect s b1 a.key _ _ hw).1 B
      by_cases hak : a.key = B
      · right
        intro x hx
        rw [heff, if_pos hak.symm] at hx
        cases hs : s.fstateOf a.key with
        | none => rw [hs] at hx; cases hx
        | some y =>
          rw [hs] at hx
          simp only [Option.map_some, Option.some.injEq] at hx
          rw [← hx]; exact hT a List.mem_cons_self hak
      · have hne : ¬ B = a.key := fun h => hak h.symm
        rw [if_neg hne] at heff
        rcases hor with ⟨r, hr, hrk⟩ | hor
        · rcases List.mem_cons.1 hr with rfl | hr
          · exact absurd hrk hak
          · exact .inl ⟨r, hr, hrk⟩
        · right; intro x hx; rw [heff] at hx; exact hor x hx

/-- **`update_file_hashes` keeps the invariant.** -/
theorem updateFileHashes_JK (updates : List (String × Option Nat)) (cause : Cause) (s s' : KState)
    (hp : JK All NoW NoN s) (h : s.updateFileHashes updates cause = .ok s') : JK All NoW NoN s' := by
  have hkeys := stable_keysNodup.updateFileHashes_preserves updates cause s s' hp.2 h
  have hsoft : SoftRel s s' := (updateFileHashes_soft updates cause s s' (SP.refl hp.keys) h).2
  refine ⟨?_, hkeys⟩
  unfold KState.updateFileHashes at h
  split at h
  · simp only [pure, Except.pure, Except.ok.injEq] at h; subst h; exact hp.1
  · simp only [bind, Except.bind] at h
    split at h
    · cases h
    · rename_i recs hrecs
      split at h
      · cases h
      · rename_i s1 h1
        split at h
        · cases h
        · rename_i s2 h2
          split at h
          · cases h
          · rename_i s3 h3
            -- the waiver and the steps that are not SUCCEEDED at the start
            let Wk : Key → Key → Prop := fun _ b => ∃ r ∈ recs, r.key = b
            let N0 : Key → Prop := fun q => NoN q ∨ ¬ Succ s q
            have hspec : ∀ r ∈ recs, ∃ u, s.hashRec cause u = .ok r := by
              intro r hr
              obtain ⟨u, _, hu⟩ := mapM_ok_mem' _ _ _ hrecs r hr
              exact ⟨u, hu⟩
            have hrec : ∀ r ∈ recs, ∃ n, s.find? r.key = some n ∧ r.newState.role? = n.fstate.role? := by
              intro r hr
              obtain ⟨u, hu⟩ := hspec r hr
              exact hashRec_not_volatile hu
            have hp0 : JK All Wk N0 s :=
              ⟨(hp.1.addN _ (fun q hq => hq)).weaken (fun _ h => h) (fun _ _ h => h.elim) (fun _ h => h), hp.2⟩
            -- the writes
            have hw : JK All Wk N0 s1 ∧ SP s s1 := by
              refine foldlM_mem (fun st => JK All Wk N0 st ∧ SP s st)
                (fun st (r : HashRec) => st.writeFile r.key r.newState (some r.newHash)) recs
                (fun st r st' hr hst hwr => ?_) s s1 ⟨hp0, SP.refl hp.keys⟩ h1
              obtain ⟨n, hn, hrole⟩ := hrec r hr
              have hrm : ∀ m, st.find? r.key = some m → r.newState.role? = m.fstate.role? := by
                intro m hm
                have hrel := hst.2.2.find? r.key
                rw [hn, hm] at hrel
                rw [hrole, hrel.2.2.1.2]
              refine ⟨writeFile_JK hst.1 ?_ hwr, writeFile_soft r.key r.newState _ st st' hst.2 hrm hwr⟩
              intro m hm d hd hdk hkind _
              refine ⟨?_, fun _ hnw _ => absurd ⟨r, hr, hdk.symm⟩ hnw⟩
              obtain ⟨f, hf, _, hprod, _⟩ := hst.1.1.1 d hd (hdk ▸ hkind) trivial
              rw [hdk, hm] at hf; cases hf
              exact (isProduct_of_role (hrm m hm)).2 hprod
            have M := midJK All Wk N0
            have hJ2 := foldlM_preserves (JK All Wk N0) _ _ (fun (r : HashRec) => M.handleUpdated_preserves r.key) s1 s2 hw.1 h2
            have hJ3 := foldlM_preserves (JK All Wk N0) _ _ (fun (r : HashRec) => M.handleDeleted_preserves r.key) s2 s3 hJ2 h3
            have hJ' := foldlM_preserves (JK All Wk N0) _ _ (fun (r : HashRec) => M.markConsumersPending_preserves r.key) s3 s' hJ3 h
            have hS2 := foldlM_preserves (SP s) _ _ (fun (r : HashRec) => handleUpdated_soft r.key) s1 s2 hw.2 h2
            -- dropping the waiver
            refine (hJ'.1.unwaive (W' := NoW) fun d hd hkind hwv _ f hf hcr hsucc' => ?_).weaken
              (fun _ h => h) (fun _ _ h => h) (fun _ h => .inl h)
            exfalso
            obtain ⟨r0, hr0, hr0k⟩ := hwv
            -- the owner was SUCCEEDED all along
            have hsucc : Succ s d.src :=
              Classical.byContradiction fun hns => hJ'.1.2 d.src (.inr hns) hsucc'
            -- the row in `s`
            have hrel := hsoft.find? d.snk
            rw [hf] at hrel
            cases hfn : s.find? d.snk with
            | none => rw [hfn] at hrel; exact hrel.elim
            | some n =>
              rw [hfn] at hrel
              have hnc : n.creator = some d.src := hrel.2.2.1.1.symm.trans hcr
              have hds : d ∈ s.deps := hsoft.deps ▸ hd
              obtain ⟨n', hn', _, _, hdone⟩ := hp.1.1 d hds hkind trivial
              rw [hfn] at hn'; cases hn'
              have hbuiltvol : Done n.fstate := hdone hnc (fun h => h) hsucc
              -- all records of this file lead to PLANNED or OUTDATED
              have hall : ∀ r ∈ recs, r.key = d.snk → (r.newState = .planned ∨ r.newState = .outdated) ∧
                  (r.action = some .updated ∨ r.action = some .deleted) ∧ (r.action = some .deleted → r.newState = .planned) := by
                intro r hr hrk
                obtain ⟨u, hu⟩ := hspec r hr
                exact rec_of_done hu (hrk ▸ hfn) hbuiltvol
              -- the row exists after the writes
              have hrow1 : ∃ x, s1.fstateOf d.snk = some x := by
                have hr1 := hw.2.2.find? d.snk
                rw [hfn] at hr1
                unfold KState.fstateOf
                cases hx : s1.find? d.snk with
                | none => rw [hx] at hr1; exact hr1.elim
                | some m => exact ⟨m.fstate, rfl⟩
              obtain ⟨x1, hx1⟩ := hrow1
              have hnd2 : ∀ t t' : KState, NotDone t d.src →
                  (recs.filter fun r => r.action = some .deleted).foldlM (fun st r => st.handleDeleted r.key) t = .ok t' →
                  NotDone t' d.src := fun t t' ht hh =>
                foldlM_keeps (fun st => NotDone st d.src) _ _
                  (fun b a b' _ hb hr => handleDeleted_inv (propInv_notDone d.src) b b' a.key hb hr) t t' ht hh
              have hnd3 : ∀ t t' : KState, NotDone t d.src →
                  (recs.filter fun r => r.action = some .completed).foldlM (fun st r => st.markConsumersPending r.key) t = .ok t' →
                  NotDone t' d.src := fun t t' ht hh =>
                foldlM_keeps (fun st => NotDone st d.src) _ _
                  (fun b a b' _ hb hr => markConsumersPending_inv (propInv_notDone d.src) b b' a.key hb hr) t t' ht hh
              by_cases hupd : ∃ r ∈ recs, r.key = d.snk ∧ r.action = some .updated
              · -- an `updated` action of the file marks the owner pending
                obtain ⟨r, hr, hrk, hra⟩ := hupd
                have hpo1 : Po (s1.fstateOf d.snk) := by
                  have := writes_into d.snk (fun x => x = .planned ∨ x = .outdated) recs s s1
                    (fun r hr hrk => (hall r hr hrk).1) (.inl ⟨r0, hr0, hr0k⟩) h1 x1 hx1
                  rw [hx1]
                  rcases this with h | h
                  · exact .inl (by rw [h])
                  · exact .inr (by rw [h])
                have hmem : r ∈ recs.filter fun r => r.action = some .updated := by
                  rw [List.mem_filter]; exact ⟨hr, by simpa using hra⟩
                have hnd : NotDone s2 d.src := by
                  refine foldlM_reach (fun st => SP s st ∧ Po (st.fstateOf d.snk)) (fun st => NotDone st d.src)
                    (fun st (r : HashRec) => st.handleUpdated r.key) r ?_ ?_ ?_ _ hmem s1 s2 ⟨hw.2, hpo1⟩ h2
                  · intro b a b' hb hab
                    exact ⟨handleUpdated_soft a.key b b' hb.1 hab, handleUpdated_inv (propInv_po d.snk) b b' a.key hb.2 hab⟩
                  · intro b b' hb hab
                    rw [hrk] at hab
                    unfold KState.handleUpdated at hab
                    have hfs : b.fileState? d.snk = b.fstateOf d.snk := rfl
                    have h1' : ¬ b.fileState? d.snk = some .confirmed := by
                      rw [hfs]; rcases hb.2 with h | h <;> rw [h] <;> intro hh <;> cases hh
                    have h2' : b.fileState? d.snk = some .planned ∨ b.fileState? d.snk = some .outdated := by
                      rw [hfs]; exact hb.2
                    rw [if_neg h1', if_pos h2'] at hab
                    exact pendCreator_notDone hb.1.2 hfn hnc hsucc hab
                  · intro b a b' hb hab
                    exact handleUpdated_inv (propInv_notDone d.src) b b' a.key hb hab
                exact not_succ_of_notDone (hnd3 s3 s' (hnd2 s2 s3 hnd h3) h) hsucc'
              · -- all records of the file have the action `deleted`: the file is PLANNED
                have hdel : ∀ r ∈ recs, r.key = d.snk → r.action = some .deleted := by
                  intro r hr hrk
                  rcases (hall r hr hrk).2.1 with h | h
                  · exact absurd ⟨r, hr, hrk, h⟩ hupd
                  · exact h
                have hpl1 : s1.fstateOf d.snk = some .planned := by
                  have := writes_into d.snk (fun x => x = .planned) recs s s1
                    (fun r hr hrk => (hall r hr hrk).2.2 (hdel r hr hrk)) (.inl ⟨r0, hr0, hr0k⟩) h1 x1 hx1
                  rw [hx1, this]
                have hpre2 : SP s s2 ∧ s2.fstateOf d.snk = some .planned := by
                  refine foldlM_keeps (fun st => SP s st ∧ st.fstateOf d.snk = some .planned) _ _ ?_ s1 s2 ⟨hw.2, hpl1⟩ h2
                  intro b a b' _ hb hab
                  exact ⟨handleUpdated_soft a.key b b' hb.1 hab,
                    handleUpdated_inv (propInv_otherFile d.snk (some .planned) (by decide)) b b' a.key hb.2 hab⟩
                have hmem : r0 ∈ recs.filter fun r => r.action = some .deleted := by
                  rw [List.mem_filter]; exact ⟨hr0, by simpa using hdel r0 hr0 hr0k⟩
                have hnd : NotDone s3 d.src := by
                  refine foldlM_reach (fun st => SP s st ∧ st.fstateOf d.snk = some .planned) (fun st => NotDone st d.src)
                    (fun st (r : HashRec) => st.handleDeleted r.key) r0 ?_ ?_ ?_ _ hmem s2 s3 hpre2 h3
                  · intro b a b' hb hab
                    exact ⟨handleDeleted_soft a.key b b' hb.1 hab,
                      handleDeleted_inv (propInv_otherFile d.snk (some .planned) (by decide)) b b' a.key hb.2 hab⟩
                  · intro b b' hb hab
                    rw [hr0k] at hab
                    unfold KState.handleDeleted at hab
                    simp only [bind, Except.bind] at hab
                    have h1' : b.fileState? d.snk = some .planned := hb.2
                    rw [if_pos h1'] at hab
                    cases hc : b.pendCreator d.snk with
                    | error e => simp [hc] at hab
                    | ok b1 =>
                      simp only [hc] at hab
                      exact markConsumersPending_inv (propInv_notDone d.src) b1 b' d.snk
                        (pendCreator_notDone hb.1.2 hfn hnc hsucc hc) hab
                  · intro b a b' hb hab
                    exact handleDeleted_inv (propInv_notDone d.src) b b' a.key hb hab
                exact not_succ_of_notDone (hnd3 s3 s' hnd h) hsucc'

end StepupModel.K.SuccOut
