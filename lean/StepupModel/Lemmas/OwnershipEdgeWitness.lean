import StepupModel.Lemmas.OwnershipEdge
/-!
# C08 (O5), third part: the one side condition is needed (kernel-checked)

`creatorProduces_after_every_history` excludes one thing: a `reset_for_rerun` addressed to a key of kind *file*
whose row is a product with a *dynamic* edge from its creator (`ResetOK`).  The model's `reset_for_rerun k` starts
with `drop_dynamic_inputs`: `DELETE FROM dependency WHERE sink = k AND dynamic`; on a step these are the amended
inputs, on a file this is the edge `creator -> amended output`, and the file stays attached with its creator.

The witness: `define root "./plan.py" (need PLAN, safe)`; `pop` (plan RUNNING); `amend plan out=[o]` (the PLANNED
output o of the plan, edge `plan -> o` dynamic).  The state is a literal, compared with the model's own run of the
history by the `#guard` line (an evaluation check, not a theorem); the invariant and the oracle's clause (O5) hold in
it; `reset_for_rerun file:o` is accepted; afterwards the attached PLANNED file o, created by the plan, is the sink of
no edge: `CreatorProduces` and `ProductsOwned` fail (`producers = []`).  The guard refuses exactly that request.

The request cannot be written in the kernel protocol (`kreplay.py` resolves the operand of `reset_rerun` as a
`Step`) and cannot be issued on the implementation at all: `reset_for_rerun` is a method of `Step`, a `File` object
has none (`harness/witness/ownership_edge_reset_file.py`: `AttributeError`).  The model is more permissive than
the code here; the clause `ResetOK` excludes a model artefact only.
-/
namespace StepupModel.K.OwnE
open StepupModel.K.Own StepupModel.K.Ever

def wCfg : KConfig := {}
def wPlan : Key := stepKey "./plan.py"

/-- The history of the witness. -/
def wHist : List (KConfig × Req) := [
  (wCfg, .define rootKey { cmd := "./plan.py", need := .plan, safe := true }),
  (wCfg, .pop (some wPlan)),
  (wCfg, .amend wPlan [] [] ["o"] [] [])]

/-- The state after `wHist`: plan RUNNING with the amended (dynamic) PLANNED output o. -/
def wState : KState :=
  { nodes := [
      { key := rootKey, creator := some rootKey },
      { key := wPlan, creator := some rootKey, sstate := .running, need := .plan, impliedNeed := .plan,
        safe := true, checkSafe := true, safeNH := true, checkAfter := true, ready := true, checkReady := false },
      { key := fileKey "o", creator := some wPlan, fstate := .planned }],
    deps := [{ src := wPlan, snk := fileKey "o", dyn := true }] }

#guard reprStr wState == reprStr (KState.init.run wHist)

instance (X : Key → Prop) [DecidablePred X] (s : KState) : Decidable (EdgeInv X s) := by
  unfold EdgeInv; exact inferInstance

instance : DecidablePred NoX := fun _ => by unfold NoX; exact inferInstance

instance (s : KState) : Decidable (KeysNodup s) := by
  unfold KeysNodup; exact inferInstance

instance (s : KState) : Decidable (InvE s) := by
  unfold InvE EK; exact inferInstance

/-- Accepted, and the two predicates fail afterwards. -/
def breaksO5 (r : M (KState × String)) : Bool :=
  match r with
  | .ok s' => !decide (CreatorProduces s'.1) && !decide (ProductsOwned s'.1) && decide (producers s'.1 (fileKey "o") = [])
  | .error _ => false

theorem breaksO5_spec {r : M (KState × String)} (h : breaksO5 r = true) :
    ∃ s', r = .ok s' ∧ ¬ CreatorProduces s'.1 ∧ ¬ ProductsOwned s'.1 ∧ producers s'.1 (fileKey "o") = [] := by
  cases r with
  | error e => cases h
  | ok s' =>
    simp only [breaksO5, Bool.and_eq_true, Bool.not_eq_true', decide_eq_false_iff_not, decide_eq_true_eq] at h
    exact ⟨s', rfl, h.1.1, h.1.2, h.2⟩

/-- **`reset_for_rerun` of a file with a dynamic creator edge breaks (O5)**: the invariant, `CreatorProduces` and
the oracle's clause `ProductsOwned` hold before; the request is accepted; afterwards the attached PLANNED product o
of the plan has no producer. -/
theorem reset_for_rerun_of_file_breaks_O5 : InvE wState ∧ CreatorProduces wState ∧ ProductsOwned wState ∧
    ∃ s', wState.exec wCfg (.resetRerun (fileKey "o")) = .ok s' ∧ ¬ CreatorProduces s'.1 ∧ ¬ ProductsOwned s'.1 ∧
      producers s'.1 (fileKey "o") = [] :=
  ⟨by decide, by decide, by decide, breaksO5_spec (by decide)⟩

/-- The guard refuses exactly that request. -/
theorem guard_refuses_reset_file : ¬ ReqOKE wState (.resetRerun (fileKey "o")) := by
  show ¬ ResetOK wState (fileKey "o")
  decide

/-- The same request on the step is unconditional (and harmless: the amended output is detached). -/
theorem guard_accepts_reset_step : ReqOKE wState (.resetRerun wPlan) ∧
    ∃ s', wState.exec wCfg (.resetRerun wPlan) = .ok s' ∧ CreatorProduces s'.1 ∧ ProductsOwned s'.1 := by
  refine ⟨resetOK_of_kind _ (by decide), ?_⟩
  have h : (match wState.exec wCfg (.resetRerun wPlan) with
      | .ok s' => decide (CreatorProduces s'.1) && decide (ProductsOwned s'.1)
      | .error _ => false) = true := by decide
  cases hr : wState.exec wCfg (.resetRerun wPlan) with
  | error e => rw [hr] at h; cases h
  | ok s' =>
    rw [hr] at h
    simp only [Bool.and_eq_true, decide_eq_true_eq] at h
    exact ⟨s', rfl, h.1, h.2⟩

#print axioms reset_for_rerun_of_file_breaks_O5
#print axioms guard_refuses_reset_file
#print axioms guard_accepts_reset_step

end StepupModel.K.OwnE
