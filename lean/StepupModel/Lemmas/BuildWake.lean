import StepupModel.Lemmas.BuildDispatch
/-!
# One build phase (`B/Build.lean`): no lost wake-up at the level of the composed system (C10)

`run_parkedQuiet` / `no_lost_wakeup`: whenever the loop is parked with a free slot and the scheduler is not
draining, no step is eligible on refreshed metadata, PROVIDED every event met while the loop is parked either
keeps "no step is eligible" or sets the wake event (`WakesOrKeeps`, `ProvisoAlong`).  The proviso holds by
construction for every event kind except two (`benign_wakesOrKeeps`): an RPC request whose handler does not
set the wake event, and the end of a *promoted* hash job that writes to the database.  For the second the
statement without proviso is false (`Lemmas/BuildWitness.lean`).  What holds without any proviso:
`run_parkedBusy` (a parked loop has the wake event clear, nothing to retire and a task running),
`end_of_running_job_unparks` (the end of any running task wakes the loop) and the converse direction of
`Lemmas/BuildDispatch.lean` (the phase cannot end while a step is eligible).
-/
namespace StepupModel.B.Build
open StepupModel.K StepupModel.B.JobLoop

/-- **The proviso on one event** (in the state in which it happens): if no step was eligible on refreshed
metadata before it, then none is after it, or the event has set `wake_job_loop`. -/
def WakesOrKeeps (s : Sys) (e : Ev) : Prop :=
  NoEligible s.k s.cfg → NoEligible (applyEv s e).k s.cfg ∨ (applyEv s e).jl.wake = true

/-- The proviso along an event sequence: on every event that happens while the loop is parked. -/
def ProvisoAlong : Sys → List Ev → Prop
  | _, [] => True
  | s, e :: rest => (s.parked = true → WakesOrKeeps s e) ∧ ProvisoAlong (step s e) rest

/-- A parked loop: the wake event is clear, and with a free slot and a scheduler that is not draining no
step is eligible on refreshed metadata. -/
def ParkedQuiet (s : Sys) : Prop :=
  s.parked = true → s.jl.wake = false ∧ s.jl.status = .waiting ∧
    (s.jl.running.length < s.jl.njob → s.draining = false → NoEligible s.k s.cfg)

/-- A parked loop (no proviso): the wake event is clear, every done task has been retired, a task runs. -/
def ParkedBusy (s : Sys) : Prop :=
  s.parked = true → s.jl.wake = false ∧ s.jl.status = .waiting ∧ s.jl.done = [] ∧ s.jl.running ≠ []

theorem unpark_parked (t : Sys) (h : (unpark t).parked = true) :
    t.parked = true ∧ t.jl.wake = false ∧ unpark t = t := by
  unfold unpark at h ⊢
  split at h
  · simp at h
  · rename_i hc
    refine ⟨h, ?_, by rw [if_neg hc]⟩
    cases hw : t.jl.wake with
    | false => rfl
    | true => exact absurd (by simp [h, hw]) hc

theorem unpark_of_wake (t : Sys) (hp : t.parked = true) (hw : t.jl.wake = true) : (unpark t).parked = false := by
  unfold unpark; simp [hp, hw]

theorem unpark_of_quiet (t : Sys) (hw : t.jl.wake = false) : unpark t = t := by
  unfold unpark; simp [hw]

theorem step_parkedBusy (s : Sys) (e : Ev) (h : ParkedBusy s) : ParkedBusy (step s e) := by
  intro hp
  unfold step at hp ⊢
  obtain ⟨tp, tw, tu⟩ := unpark_parked _ hp
  rw [tu]
  by_cases hpk : s.parked = true
  · obtain ⟨b1, b2, b3, b4⟩ := h hpk
    obtain ⟨-, -, a3, a4⟩ := applyEv_parked s e hpk b2
    obtain ⟨q1, q2, -, -⟩ := a4 tw
    exact ⟨tw, a3, q2.trans b3, by rw [q1]; exact b4⟩
  · have hpk' : s.parked = false := by simpa using hpk
    obtain ⟨c, s', rfl, hst, hi, he⟩ := parked_only_by_wait s e hpk' tp
    obtain ⟨h1, h2⟩ := iterK_sim s s' c .wait hi
    obtain ⟨d1, d2⟩ := iter_wait_busy _ h1
    rw [he] at tw ⊢
    refine ⟨tw, (iterK_status s s' c .wait hi).trans hst, ?_, ?_⟩
    · show s'.jl.done = []; rw [← h2]; exact d1
    · show s'.jl.running ≠ []; rw [← h2]; exact d2

theorem step_parkedQuiet (s : Sys) (e : Ev) (hprov : s.parked = true → WakesOrKeeps s e) (h : ParkedQuiet s) :
    ParkedQuiet (step s e) := by
  intro hp
  unfold step at hp ⊢
  obtain ⟨tp, tw, tu⟩ := unpark_parked _ hp
  rw [tu]
  by_cases hpk : s.parked = true
  · obtain ⟨b1, b2, b3⟩ := h hpk
    obtain ⟨-, a2, a3, a4⟩ := applyEv_parked s e hpk b2
    obtain ⟨q1, -, q3, q4⟩ := a4 tw
    refine ⟨tw, a3, fun hfree hdr => ?_⟩
    rw [q1, q3] at hfree
    rcases hprov hpk (b3 hfree (q4 hdr)) with hk | hw
    · rw [a2]; exact hk
    · rw [tw] at hw; cases hw
  · have hpk' : s.parked = false := by simpa using hpk
    obtain ⟨c, s', rfl, hst, hi, he⟩ := parked_only_by_wait s e hpk' tp
    rw [he] at tw ⊢
    refine ⟨tw, (iterK_status s s' c .wait hi).trans hst, fun hfree hdr => ?_⟩
    obtain ⟨c1, c2, -, c4, hs⟩ := iterK_spec s s' c .wait hi
    have hdr' : s.draining = false := by
      have : ({ s' with parked := true } : Sys).draining = s.draining := by
        unfold Sys.draining
        show (s'.drain || s'.jl.draining) = _
        rw [c2, c4 (by simp)]
      rw [← this]; exact hdr
    rcases hs with ⟨-, -, -, -, hwait⟩ | ⟨-, hpop, -, -, -⟩ | ⟨-, _, _, _, -, -, -, hctl⟩
    · have := hwait rfl hfree
      rw [hdr'] at this; cases this
    · show NoEligible s'.k s'.cfg
      rw [c1]
      exact (popNext_none_spec hpop).2.2.2.2.2
    · cases hctl

theorem applyEv_cfg (s : Sys) (e : Ev) : (applyEv s e).cfg = s.cfg := by
  cases e with
  | start => rfl
  | pass c =>
    simp only [applyEv]
    split
    · cases hi : iterK s c with
      | none => rfl
      | some r =>
        obtain ⟨s', ctl⟩ := r
        exact (land_frame s' ctl).2.1.trans (iterK_spec s s' c ctl hi).1
    · rfl
  | rpc j r =>
    simp only [applyEv]
    split
    · split <;> rfl
    · rfl
  | finish j rs =>
    simp only [applyEv]
    split
    · split <;> rfl
    · rfl
  | submit p => rfl
  | promote p => rfl
  | hashFin i r => simp only [applyEv]; split <;> rfl
  | drain => rfl
  | undrain => simp only [applyEv]; split <;> rfl
  | external r => simp only [applyEv]; split <;> rfl

theorem step_cfg (s : Sys) (e : Ev) : (step s e).cfg = s.cfg :=
  (unpark_frame _).2.1.trans (applyEv_cfg s e)

theorem run_cfg (k0 : KState) (cfg : KConfig) (njob : Nat) (evs : List Ev) : (run k0 cfg njob evs).cfg = cfg := by
  unfold run
  suffices h : ∀ s : Sys, (evs.foldl step s).cfg = s.cfg from h _
  induction evs with
  | nil => intro s; rfl
  | cons e rest ih => intro s; exact (ih _).trans (step_cfg s e)

theorem foldl_parkedQuiet (evs : List Ev) : ∀ s : Sys, ProvisoAlong s evs → ParkedQuiet s →
    ParkedQuiet (evs.foldl step s) := by
  induction evs with
  | nil => intro s _ h; exact h
  | cons e rest ih => intro s hp h; exact ih _ hp.2 (step_parkedQuiet s e hp.1 h)

theorem run_parkedQuiet (k0 : KState) (cfg : KConfig) (njob : Nat) (evs : List Ev)
    (hp : ProvisoAlong (init k0 cfg njob) evs) : ParkedQuiet (run k0 cfg njob evs) :=
  foldl_parkedQuiet evs _ hp (by intro h; simp [init] at h)

theorem run_parkedBusy (k0 : KState) (cfg : KConfig) (njob : Nat) (evs : List Ev) :
    ParkedBusy (run k0 cfg njob evs) := by
  unfold run
  suffices h : ∀ s : Sys, ParkedBusy s → ParkedBusy (evs.foldl step s) from h _ (by intro h; simp [init] at h)
  induction evs with
  | nil => intro s h; exact h
  | cons e rest ih => intro s h; exact ih _ (step_parkedBusy s e h)

/-- **C10, no lost wake-up in the composed system.**  From any kernel state, for every job limit,
configuration and event sequence along which every event that happens while the loop is parked keeps "no
step is eligible" or sets the wake event: whenever the loop is parked, the wake event is clear, and if a
job slot is free and the scheduler is not draining, no step is eligible on refreshed metadata. -/
theorem no_lost_wakeup (k0 : KState) (cfg : KConfig) (njob : Nat) (evs : List Ev)
    (hp : ProvisoAlong (init k0 cfg njob) evs) (hpk : (run k0 cfg njob evs).parked = true) :
    (run k0 cfg njob evs).jl.wake = false ∧
    ((run k0 cfg njob evs).jl.running.length < njob → (run k0 cfg njob evs).draining = false →
      NoEligible (run k0 cfg njob evs).k cfg) := by
  obtain ⟨h1, -, h3⟩ := run_parkedQuiet k0 cfg njob evs hp hpk
  rw [(run_jobLimit k0 cfg njob evs).2, run_cfg] at h3
  exact ⟨h1, h3⟩

/-! ## The events for which the proviso holds by construction -/

/-- The event kinds that need no kernel argument: everything except an RPC request whose handler does not
set the wake event and the end of a promoted hash job that writes to the database. -/
def Benign (s : Sys) : Ev → Prop
  | .rpc _ r => wakes r = true
  | .hashFin i r => s.jl.running.contains (.hash i) = true ∨ r = none
  | _ => True

theorem moveDone_wake (jl : JL) (j : Job) (ok : Bool) (h : jl.running.contains j = true) :
    (moveDone jl j ok).wake = true := by
  unfold moveDone; rw [if_pos h]

theorem fin_wake (jl : JL) (j : Job) (h : jl.running.contains j = true) :
    (JobLoop.apply jl (.fin j)).wake = true := by
  simp only [JobLoop.apply]
  exact moveDone_wake _ j true (by rw [(resolveFor_frame jl j).1]; exact h)

theorem benign_wakesOrKeeps (s : Sys) (e : Ev) (hpk : s.parked = true) (hst : s.jl.status = .waiting)
    (hb : Benign s e) : WakesOrKeeps s e := by
  intro hne
  cases e with
  | start => exact .inl hne
  | pass c => simp only [applyEv]; rw [if_neg (by simp [hpk])]; exact .inl hne
  | rpc j r =>
    simp only [applyEv]
    split
    · split
      · have hb' : wakes r = true := hb
        rw [if_pos hb']; exact .inr rfl
      · exact .inl hne
    · exact .inl hne
  | finish j rs =>
    simp only [applyEv]
    split
    · rename_i hc
      split
      · exact .inr (fin_wake s.jl (.step j) hc)
      · exact .inr (moveDone_wake s.jl (.step j) false hc)
    · exact .inl hne
  | submit p => exact .inl hne
  | promote p => exact .inl hne
  | hashFin i r =>
    simp only [applyEv]
    split
    · rcases hb with hb | hb
      · exact .inr (fin_wake s.jl (.hash i) hb)
      · subst hb; exact .inl hne
    · exact .inl hne
  | drain => exact .inl hne
  | undrain => simp only [applyEv]; rw [if_pos hst]; exact .inl hne
  | external r => simp only [applyEv]; rw [if_pos hst]; exact .inl hne

/-- The proviso along a sequence whose non-benign events (met while parked) satisfy it. -/
def NonBenignOK : Sys → List Ev → Prop
  | _, [] => True
  | s, e :: rest => (s.parked = true → Benign s e ∨ WakesOrKeeps s e) ∧ NonBenignOK (step s e) rest

theorem provisoAlong_of_nonBenignOK (evs : List Ev) : ∀ s : Sys, ParkedBusy s → NonBenignOK s evs → ProvisoAlong s evs := by
  induction evs with
  | nil => intro s _ _; trivial
  | cons e rest ih =>
    intro s hb h
    refine ⟨fun hpk => ?_, ih _ (step_parkedBusy s e hb) h.2⟩
    rcases h.1 hpk with hbn | hw
    · exact benign_wakesOrKeeps s e hpk (hb hpk).2.1 hbn
    · exact hw

/-! ## Without the proviso -/

/-- The end of any task in `running_tasks` (the final transaction of a step job, whatever it does and
whether or not it is accepted; the end of a hash job of the loop) takes a parked loop out of `wait()`. -/
theorem end_of_running_job_unparks (s : Sys) (hpk : s.parked = true) :
    (∀ j rs, Job.step j ∈ s.jl.running → (step s (.finish j rs)).parked = false) ∧
    (∀ i r, Job.hash i ∈ s.jl.running → (step s (.hashFin i r)).parked = false) := by
  constructor
  · intro j rs hj
    have hc : s.jl.running.contains (.step j) = true := by simpa using hj
    unfold step
    apply unpark_of_wake
    · simp only [applyEv]; rw [if_pos hc]; split <;> exact hpk
    · simp only [applyEv]; rw [if_pos hc]
      split
      · exact fin_wake s.jl (.step j) hc
      · exact moveDone_wake s.jl (.step j) false hc
  · intro i r hi
    have hc : s.jl.running.contains (.hash i) = true := by simpa using hi
    unfold step
    apply unpark_of_wake
    · simp only [applyEv]; rw [if_pos (.inl hc)]; exact hpk
    · simp only [applyEv]; rw [if_pos (.inl hc)]
      exact fin_wake s.jl (.hash i) hc

/-- **Delayed, never lost.**  After every event sequence (no proviso): a parked loop has the wake event
clear, has retired every done task, and some task is in `running_tasks`; the end of that task wakes the loop
(`end_of_running_job_unparks`), and the phase does not end before a pass has asked the kernel and got
"nothing" (`run_return_is_quiescent`). -/
theorem parked_loop_has_a_running_task (k0 : KState) (cfg : KConfig) (njob : Nat) (evs : List Ev)
    (hpk : (run k0 cfg njob evs).parked = true) :
    (run k0 cfg njob evs).jl.wake = false ∧ (run k0 cfg njob evs).jl.done = [] ∧
    (run k0 cfg njob evs).jl.running ≠ [] := by
  obtain ⟨h1, -, h3, h4⟩ := run_parkedBusy k0 cfg njob evs hpk
  exact ⟨h1, h3, h4⟩

end StepupModel.B.Build
