import StepupModel.Lemmas.DisciplineSoft
/-!
# The flag discipline with a debt: the hard primitive writes

The writes that change `detached`, the node list or the dependency table break the weak flag
discipline for a moment; the composite operations repair it by raising `_check_after` afterwards.
`WD F s cfg` is the discipline in which the keys of `F` count as flagged already (the *debt*):

* a soft change keeps `WD F` (`wd_soft`);
* rewriting, inserting or deleting the row(s) of one key `x` adds `Touched s.deps x` to the debt: `x`
  itself, the sources of `x` when `x` is a file, the sources of the sources of `x` when `x` is a step
  (`wd_rowChange`);
* deleting dependency rows adds their sources and the sources of their sources (`wd_filterDeps`);
* inserting a dependency row whose step endpoints are flagged adds nothing (`wd_addDep`);
* a debt that is flagged on every attached step can be dropped (`wd_drop`).
-/
namespace StepupModel.K.Discipline
open StepupModel.K.MetaAfter StepupModel.Lemmas
set_option linter.unusedSimpArgs false
set_option linter.unusedVariables false

/-- The weak flag discipline in which the keys of `F` count as flagged. -/
def WD (F : Key → Prop) (s : KState) (cfg : KConfig) : Prop :=
  ∀ n ∈ s.nodes, n.key.kind = .step → n.detached = false → n.checkAfter = false → ¬ F n.key →
    AfterLocal s cfg n ∨ ∃ m ∈ s.consumerSteps n.key, m.checkAfter = true ∨ F m.key

theorem wd_of_disc {s : KState} {cfg : KConfig} (F : Key → Prop) (h : CacheInvAfterW s cfg) : WD F s cfg := by
  intro n hn h1 h2 h3 _
  rcases h n hn h1 h2 h3 with hl | ⟨m, hm, hf⟩
  · exact .inl hl
  · exact .inr ⟨m, hm, .inl hf⟩

theorem wd_mono {F F' : Key → Prop} {s : KState} {cfg : KConfig} (hF : ∀ k, F k → F' k) (h : WD F s cfg) :
    WD F' s cfg := by
  intro n hn h1 h2 h3 h4
  rcases h n hn h1 h2 h3 (fun hf => h4 (hF _ hf)) with hl | ⟨m, hm, hf | hf⟩
  · exact .inl hl
  · exact .inr ⟨m, hm, .inl hf⟩
  · exact .inr ⟨m, hm, .inr (hF _ hf)⟩

/-- A debt that is flagged on every attached step can be dropped. -/
theorem wd_drop' {F G : Key → Prop} {s : KState} {cfg : KConfig}
    (hG : ∀ n ∈ s.nodes, n.key.kind = .step → n.detached = false → G n.key → n.checkAfter = true ∨ F n.key)
    (h : WD (fun k => F k ∨ G k) s cfg) : WD F s cfg := by
  intro n hn h1 h2 h3 h4
  have hng : ¬ G n.key := fun hg => by
    rcases hG n hn h1 h2 hg with hx | hx
    · rw [hx] at h3; cases h3
    · exact h4 hx
  rcases h n hn h1 h2 h3 (fun hf => hf.elim h4 hng) with hl | ⟨m, hm, hf | hf | hg⟩
  · exact .inl hl
  · exact .inr ⟨m, hm, .inl hf⟩
  · exact .inr ⟨m, hm, .inr hf⟩
  · obtain ⟨hfm, hs, hd⟩ := consumer_find hm
    rcases hG m (find_mem hfm) hs hd hg with hx | hx
    · exact .inr ⟨m, hm, .inl hx⟩
    · exact .inr ⟨m, hm, .inr hx⟩

theorem wd_drop {F G : Key → Prop} {s : KState} {cfg : KConfig}
    (hG : ∀ n ∈ s.nodes, n.key.kind = .step → n.detached = false → G n.key → n.checkAfter = true)
    (h : WD (fun k => F k ∨ G k) s cfg) : WD F s cfg :=
  wd_drop' (fun n hn h1 h2 hg => .inl (hG n hn h1 h2 hg)) h

theorem disc_of_wd {s : KState} {cfg : KConfig} (h : WD (fun _ => False) s cfg) : CacheInvAfterW s cfg := by
  intro n hn h1 h2 h3
  rcases h n hn h1 h2 h3 (fun hf => hf) with hl | ⟨m, hm, hf | hf⟩
  · exact .inl hl
  · exact .inr ⟨m, hm, hf⟩
  · exact hf.elim

/-! ## The transfer lemma -/

/-- What has to be known of an unflagged attached step of the new state outside the debt. -/
def Carried (F F' : Key → Prop) (s s' : KState) (n' : Node) : Prop :=
  ∃ n ∈ s.nodes, n.key = n'.key ∧ n.detached = false ∧ n.checkAfter = false ∧ n.need = n'.need ∧
    n.impliedNeed = n'.impliedNeed ∧ n.tail = n'.tail ∧
    s'.regularOutputs n'.key = s.regularOutputs n'.key ∧
    ((∃ m' ∈ s'.consumerSteps n'.key, m'.checkAfter = true ∨ F' m'.key) ∨
      (consumerPairs s' n'.key = consumerPairs s n'.key ∧
        ∀ m ∈ s.consumerSteps n'.key, m.checkAfter = false ∧ ¬ F m.key))

theorem wd_transfer {F F' : Key → Prop} {s s' : KState} {cfg : KConfig} (hF : ∀ k, F k → F' k)
    (H : ∀ n' ∈ s'.nodes, n'.key.kind = .step → n'.detached = false → n'.checkAfter = false → ¬ F' n'.key →
      Carried F F' s s' n')
    (h : WD F s cfg) : WD F' s' cfg := by
  intro n' hn' h1 h2 h3 h4
  obtain ⟨n, hn, hk, hd, hf, hneed, himp, htail, hro, hcons⟩ := H n' hn' h1 h2 h3 h4
  rcases hcons with hex | ⟨hpairs, hnone⟩
  · exact .inr hex
  · left
    rcases h n hn (hk ▸ h1) hd hf (fun hx => h4 (hF _ (hk ▸ hx))) with hl | ⟨m, hm, hmf⟩
    · unfold AfterLocal at hl ⊢
      rw [afterValues_eq_core] at hl ⊢
      rw [← hneed, ← himp, ← htail, hro, hpairs, ← hk]
      exact hl
    · rw [hk] at hm
      have := hnone m hm
      rcases hmf with hx | hx
      · rw [this.1] at hx; cases hx
      · exact absurd hx this.2

/-- When the consumer list itself is unchanged, the last clause of `Carried` holds. -/
theorem carried_cons_of_eq {F F' : Key → Prop} {s s' : KState} {k : Key} (hF : ∀ k, F k → F' k)
    (h : s'.consumerSteps k = s.consumerSteps k) :
    (∃ m' ∈ s'.consumerSteps k, m'.checkAfter = true ∨ F' m'.key) ∨
      (consumerPairs s' k = consumerPairs s k ∧ ∀ m ∈ s.consumerSteps k, m.checkAfter = false ∧ ¬ F m.key) := by
  by_cases hex : ∃ m' ∈ s'.consumerSteps k, m'.checkAfter = true ∨ F' m'.key
  · exact .inl hex
  · right
    refine ⟨by unfold consumerPairs; rw [h], fun m hm => ?_⟩
    rw [← h] at hm
    constructor
    · cases hx : m.checkAfter with
      | false => rfl
      | true => exact absurd ⟨m, hm, .inl hx⟩ hex
    · intro hx; exact hex ⟨m, hm, .inr (hF _ hx)⟩

/-! ## Soft changes keep the debt -/

theorem wd_soft {F : Key → Prop} {s s' : KState} {cfg : KConfig} (h : SoftRel s s') (hc : WD F s cfg) : WD F s' cfg := by
  intro n' hn' hstep hatt hflag hnf
  obtain ⟨n, hn, hk, hd, _, hmono, htr⟩ := forall₂_mem_right h.rows n' hn'
  have hcons := h.consumerSteps n.key
  have hflag0 : n.checkAfter = false := by
    cases hx : n.checkAfter with
    | false => rfl
    | true => rw [hmono hx] at hflag; cases hflag
  rw [hk]
  by_cases hex : ∃ m ∈ s'.consumerSteps n.key, m.checkAfter = true ∨ F m.key
  · exact .inr hex
  · left
    have hall : ∀ m ∈ s'.consumerSteps n.key, m.checkAfter = false := by
      intro m hm
      cases hx : m.checkAfter with
      | false => rfl
      | true => exact absurd ⟨m, hm, .inl hx⟩ hex
    rcases htr with hf | ⟨hneed, himp, htail⟩
    · rw [hflag] at hf; cases hf
    · rcases hc n hn (hk ▸ hstep) (hd ▸ hatt) hflag0 (hk ▸ hnf) with hloc | ⟨m, hm, hmf⟩
      · unfold AfterLocal at hloc ⊢
        rw [afterValues_eq_core] at hloc ⊢
        rw [hk, hneed, himp, htail, h.regularOutputs]
        unfold consumerPairs
        rw [pairs_of_rows hcons hall]
        exact hloc
      · obtain ⟨m', hm', hr⟩ := forall₂_mem_left hcons m hm
        rcases hmf with hx | hx
        · have := hall m' hm'
          rw [hr.2.2.2.1 hx] at this; cases this
        · exact absurd ⟨m', hm', .inr (hr.1 ▸ hx)⟩ hex

/-! ## Rewriting, inserting, deleting the rows of one key -/

/-- The keys whose local equation may read the row of `x`: `x`, its sources when it is a file, the
sources of its sources when it is a step. -/
def Touched (deps : List Dep) (x : Key) (k : Key) : Prop :=
  k = x ∨ (x.kind = .file ∧ Edge deps k x) ∨ (x.kind = .step ∧ ∃ f, Edge deps k f ∧ Edge deps f x)

/-- The rows of every key but `x` are the same in both states (same dependency table). -/
structure RowChange (x : Key) (s s' : KState) : Prop where
  deps : s'.deps = s.deps
  find : ∀ c, c ≠ x → s'.find? c = s.find? c
  mem : ∀ n' ∈ s'.nodes, n'.key ≠ x → n' ∈ s.nodes

theorem regularOutputs_rowChange {x : Key} {s s' : KState} (h : RowChange x s s') {k : Key}
    (hk : ¬ (x.kind = .file ∧ Edge s.deps k x)) : s'.regularOutputs k = s.regularOutputs k := by
  unfold KState.regularOutputs
  have hs : s'.sinksOf k = s.sinksOf k := by unfold KState.sinksOf; rw [h.deps]
  rw [hs]
  apply filterMap_congr'
  intro c hc
  by_cases hcx : c = x
  · subst hcx
    have hnf : c.kind ≠ .file := fun hf => hk ⟨hf, mem_sinksOf.1 hc⟩
    have e1 : ∀ (t : KState) (n : Node), t.find? c = some n →
        ¬ (n.key.kind = Kind.file ∧ lookupRegularOutput n.fstate n.detached = true) := by
      intro t n ht hh
      rw [find_key ht] at hh; exact hnf hh.1
    cases hs' : s'.find? c with
    | none =>
      cases hs0 : s.find? c with
      | none => rfl
      | some n => simp only [if_neg (e1 s n hs0)]
    | some n' =>
      cases hs0 : s.find? c with
      | none => simp only [if_neg (e1 s' n' hs')]
      | some n => simp only [if_neg (e1 s n hs0), if_neg (e1 s' n' hs')]
  · rw [h.find c hcx]

theorem consumerSteps_rowChange {x : Key} {s s' : KState} (h : RowChange x s s') {k : Key}
    (hk : ¬ (x.kind = .step ∧ ∃ f, Edge s.deps k f ∧ Edge s.deps f x)) : s'.consumerSteps k = s.consumerSteps k := by
  unfold KState.consumerSteps
  have hs : ∀ a, s'.sinksOf a = s.sinksOf a := by intro a; unfold KState.sinksOf; rw [h.deps]
  have hl : (s'.sinksOf k).flatMap s'.sinksOf = (s.sinksOf k).flatMap s.sinksOf := by
    rw [hs k]; congr 1; funext a; exact hs a
  rw [hl]
  apply filterMap_congr'
  intro c hc
  obtain ⟨f, hf, hcf⟩ := List.mem_flatMap.1 hc
  by_cases hcx : c = x
  · subst hcx
    have hnf : c.kind ≠ .step := fun hst => hk ⟨hst, f, mem_sinksOf.1 hf, mem_sinksOf.1 hcf⟩
    have e1 : ∀ (t : KState) (n : Node), t.find? c = some n →
        ¬ (n.key.kind = Kind.step ∧ (!n.detached) = true) := by
      intro t n ht hh
      rw [find_key ht] at hh; exact hnf hh.1
    cases hs' : s'.find? c with
    | none =>
      cases hs0 : s.find? c with
      | none => rfl
      | some n => simp only [if_neg (e1 s n hs0)]
    | some n' =>
      cases hs0 : s.find? c with
      | none => simp only [if_neg (e1 s' n' hs')]
      | some n => simp only [if_neg (e1 s n hs0), if_neg (e1 s' n' hs')]
  · rw [h.find c hcx]

/-- **Changing the rows of one key** adds what may read them to the debt. -/
theorem wd_rowChange {F : Key → Prop} {x : Key} {s s' : KState} {cfg : KConfig} (h : RowChange x s s')
    (hc : WD F s cfg) : WD (fun k => F k ∨ Touched s.deps x k) s' cfg := by
  refine wd_transfer (fun k hk => .inl hk) ?_ hc
  intro n' hn' h1 h2 h3 h4
  have hx : n'.key ≠ x := fun he => h4 (.inr (.inl he))
  refine ⟨n', h.mem n' hn' hx, rfl, h2, h3, rfl, rfl, rfl,
    regularOutputs_rowChange h (fun hh => h4 (.inr (.inr (.inl hh)))),
    carried_cons_of_eq (F := F) (F' := fun k => F k ∨ Touched s.deps x k) (fun k hk => Or.inl hk)
      (consumerSteps_rowChange h (fun hh => h4 (.inr (.inr (.inr hh)))))⟩

theorem rowChange_modify (s : KState) (x : Key) (f : Node → Node) (hf : ∀ n, (f n).key = n.key) :
    RowChange x s (s.modify x f) := by
  refine ⟨rfl, ?_, ?_⟩
  · intro c hcx
    unfold KState.modify KState.find?
    simp only
    induction s.nodes with
    | nil => rfl
    | cons a l ih =>
      simp only [List.map_cons, List.find?_cons]
      by_cases hax : a.key = x
      · simp only [hax, if_true]
        have h1 : ¬ (f a).key = c := by rw [hf, hax]; exact fun e => hcx e.symm
        have h2 : ¬ x = c := fun e => hcx e.symm
        simp only [h1, decide_false, h2, hax]
        exact ih
      · simp only [hax, if_false]
        by_cases hac : a.key = c
        · simp only [hac, decide_true]
        · simp only [hac, decide_false]; exact ih
  · intro n' hn' hx
    unfold KState.modify at hn'
    obtain ⟨n, hn, rfl⟩ := List.mem_map.1 hn'
    by_cases hnx : n.key = x
    · simp only [hnx, if_true] at hx
      exact absurd (by rw [hf, hnx]) hx
    · simp only [hnx, if_false]; exact hn

theorem rowChange_append (s : KState) (x : Key) (c : Option Key) : RowChange x s (s.appendNode x c) := by
  refine ⟨rfl, ?_, ?_⟩
  · intro k hkx
    unfold KState.appendNode KState.find?
    simp only [List.find?_append]
    cases s.nodes.find? (fun n => n.key = k) with
    | some n => rfl
    | none =>
      simp only [Option.none_or, List.find?_cons, List.find?_nil]
      have : ¬ x = k := fun e => hkx e.symm
      simp only [this, decide_false]
  · intro n' hn' hx
    unfold KState.appendNode at hn'
    simp only [List.mem_append, List.mem_singleton] at hn'
    rcases hn' with h | h
    · exact h
    · subst h; exact absurd rfl hx

theorem rowChange_remove (s : KState) (x : Key) : RowChange x s { s with nodes := s.nodes.filter (·.key ≠ x) } := by
  refine ⟨rfl, ?_, ?_⟩
  · intro c hcx
    unfold KState.find?
    simp only
    induction s.nodes with
    | nil => rfl
    | cons a l ih =>
      simp only [List.filter_cons]
      by_cases hax : a.key = x
      · have h2 : ¬ a.key = c := by rw [hax]; exact fun e => hcx e.symm
        simp only [hax, ne_eq, not_true_eq_false, decide_false, Bool.false_eq_true, if_false, List.find?_cons]
        rw [hax] at h2
        simp only [h2, decide_false]
        exact ih
      · simp only [ne_eq, hax, not_false_eq_true, decide_true, if_true, List.find?_cons]
        by_cases hac : a.key = c
        · simp only [hac, decide_true]
        · simp only [hac, decide_false]; exact ih
  · intro n' hn' _
    exact (List.mem_filter.1 hn').1

/-! ## Deleting and inserting dependency rows -/

theorem flatMap_congr' {α β : Type} {f g : α → List β} {l : List α} (h : ∀ x ∈ l, f x = g x) :
    l.flatMap f = l.flatMap g := by
  induction l with
  | nil => rfl
  | cons a l ih =>
    simp only [List.flatMap_cons, h a List.mem_cons_self]
    rw [ih fun x hx => h x (List.mem_cons_of_mem _ hx)]

/-- The row of `c` counts as a consumer: an attached step. -/
def ConsRow (s : KState) (c : Key) : Prop := ∃ m, s.find? c = some m ∧ m.key.kind = .step ∧ m.detached = false

/-- Sources of the deleted rows, and (when the sink of the row is an attached step) sources of those. -/
def Unhooked (s : KState) (p : Dep → Bool) (k : Key) : Prop :=
  ∃ d ∈ s.deps, p d = true ∧ (k = d.src ∨ (ConsRow s d.snk ∧ Edge s.deps k d.src))

theorem sinksOf_filter {s : KState} {p : Dep → Bool} {k : Key} (h : ∀ d ∈ s.deps, p d = true → d.src ≠ k) :
    ({ s with deps := s.deps.filter fun d => !p d } : KState).sinksOf k = s.sinksOf k := by
  unfold KState.sinksOf
  simp only [List.filter_filter]
  congr 1
  apply List.filter_congr
  intro d hd
  by_cases hs : d.src = k
  · have : p d = false := by
      cases hp : p d with
      | false => rfl
      | true => exact absurd hs (h d hd hp)
    simp [hs, this]
  · simp [hs]

theorem filterMap_filter_of_none {α β : Type} (q : α → Bool) (h : α → Option β) :
    ∀ (l : List α), (∀ x ∈ l, q x = false → h x = none) → (l.filter q).filterMap h = l.filterMap h
  | [], _ => rfl
  | x :: l, hx => by
    have ih := filterMap_filter_of_none q h l fun y hy => hx y (List.mem_cons_of_mem _ hy)
    simp only [List.filter_cons]
    cases hq : q x with
    | true => simp only [if_true, List.filterMap_cons, ih]
    | false =>
      simp only [Bool.false_eq_true, if_false, List.filterMap_cons, hx x List.mem_cons_self hq, ih]

theorem filterMap_flatMap' {α β γ : Type} (g : β → Option γ) (h : α → List β) :
    ∀ l : List α, (l.flatMap h).filterMap g = l.flatMap fun a => (h a).filterMap g
  | [] => rfl
  | a :: l => by simp only [List.flatMap_cons, List.filterMap_append, filterMap_flatMap' g h l]

/-- The consumer selection drops every key whose row is not an attached step. -/
theorem consumerSel_not_cons (s : KState) {c : Key} (hc : ¬ ConsRow s c) :
    (match s.find? c with
      | some m => if m.key.kind = Kind.step ∧ (!m.detached) = true then some m else none
      | none => none) = none := by
  cases hf : s.find? c with
  | none => rfl
  | some m =>
    have : ¬ (m.key.kind = Kind.step ∧ (!m.detached) = true) := by
      intro hh; exact hc ⟨m, hf, hh.1, by simpa using hh.2⟩
    simp only [if_neg this]

/-- **`DELETE FROM dependency`** adds the sources of the deleted rows to the debt, and the sources of
those for the deleted rows that end in an attached step. -/
theorem wd_filterDeps {F : Key → Prop} {s : KState} {cfg : KConfig} (p : Dep → Bool) (hc : WD F s cfg) :
    WD (fun k => F k ∨ Unhooked s p k) { s with deps := s.deps.filter fun d => !p d } cfg := by
  refine wd_transfer (fun k hk => .inl hk) ?_ hc
  intro n' hn' h1 h2 h3 h4
  have hsrc : ∀ d ∈ s.deps, p d = true → d.src ≠ n'.key :=
    fun d hd hp he => h4 (.inr ⟨d, hd, hp, .inl he.symm⟩)
  have hs1 := sinksOf_filter hsrc
  refine ⟨n', hn', rfl, h2, h3, rfl, rfl, rfl, ?_,
    carried_cons_of_eq (F := F) (F' := fun k => F k ∨ Unhooked s p k) (fun k hk => Or.inl hk) ?_⟩
  · unfold KState.regularOutputs
    rw [hs1]; rfl
  · unfold KState.consumerSteps
    rw [hs1, filterMap_flatMap', filterMap_flatMap']
    apply flatMap_congr'
    intro f hf
    -- the sinks of `f` that disappear are not steps
    unfold KState.sinksOf
    simp only [List.filterMap_map, List.filter_filter]
    have hcomm : (s.deps.filter fun d => (decide (d.src = f) && !p d)) =
        (s.deps.filter fun d => decide (d.src = f)).filter fun d => !p d := by
      rw [List.filter_filter]
      apply List.filter_congr
      intro d _
      exact Bool.and_comm _ _
    rw [hcomm]
    apply filterMap_filter_of_none
    intro d hd hq
    have hd' := List.mem_filter.1 hd
    have hp : p d = true := by
      cases hx : p d with
      | true => rfl
      | false => simp [hx] at hq
    have hsf : d.src = f := by simpa using hd'.2
    have hns : ¬ ConsRow s d.snk := by
      intro hst
      exact h4 (.inr ⟨d, hd'.1, hp, .inr ⟨hst, hsf ▸ mem_sinksOf.1 hf⟩⟩)
    simp only [Function.comp]
    exact consumerSel_not_cons s hns

theorem sinksOf_append (s : KState) (a b k : Key) :
    ({ s with deps := s.deps ++ [({ src := a, snk := b } : Dep)] } : KState).sinksOf k =
      s.sinksOf k ++ (if a = k then [b] else []) := by
  unfold KState.sinksOf
  simp only [List.filter_append, List.map_append, List.filter_cons, List.filter_nil]
  by_cases h : a = k <;> simp [h]

theorem filterMap_flatMap_extra {α β : Type} (g : α → Option β) (h : α → List α) (a b : α) [DecidableEq α]
    (hb : g b = none) (l : List α) :
    (l.flatMap fun f => h f ++ (if a = f then [b] else [])).filterMap g = (l.flatMap h).filterMap g := by
  induction l with
  | nil => rfl
  | cons f l ih =>
    simp only [List.flatMap_cons, List.filterMap_append, ih]
    by_cases hf : a = f <;> simp [hf, hb]

/-- **`INSERT INTO dependency`** of `a → b` when the rows of `a` and `b` that are steps are flagged
already (the trigger `step_dependency_check_after_ins`): nothing is added to the debt. -/
theorem wd_addDep {F : Key → Prop} {s : KState} {cfg : KConfig} (a b : Key)
    (hfl : ∀ n ∈ s.nodes, n.key.kind = .step → (n.key = a ∨ n.key = b) → n.checkAfter = true)
    (hc : WD F s cfg) : WD F { s with deps := s.deps ++ [({ src := a, snk := b } : Dep)] } cfg := by
  refine wd_transfer (fun k hk => hk) ?_ hc
  intro n' hn' h1 h2 h3 h4
  have hna : a ≠ n'.key := by
    intro he
    have := hfl n' hn' h1 (.inl he.symm)
    rw [this] at h3; cases h3
  have hs1 : ({ s with deps := s.deps ++ [({ src := a, snk := b } : Dep)] } : KState).sinksOf n'.key = s.sinksOf n'.key := by
    rw [sinksOf_append]; simp [hna]
  refine ⟨n', hn', rfl, h2, h3, rfl, rfl, rfl, ?_, ?_⟩
  · unfold KState.regularOutputs
    rw [hs1]; rfl
  · -- the consumer list gains at most the row of `b`, which is flagged when it counts
    cases hb : (match s.find? b with
        | some m => if m.key.kind = Kind.step ∧ (!m.detached) = true then some m else none
        | none => none) with
    | none =>
      apply carried_cons_of_eq (F := F) (F' := F) (fun k hk => hk)
      unfold KState.consumerSteps
      rw [hs1]
      have : (s.sinksOf n'.key).flatMap ({ s with deps := s.deps ++ [({ src := a, snk := b } : Dep)] } : KState).sinksOf =
          (s.sinksOf n'.key).flatMap fun f => s.sinksOf f ++ (if a = f then [b] else []) := by
        apply flatMap_congr'
        intro f _
        exact sinksOf_append s a b f
      rw [this]
      exact filterMap_flatMap_extra _ _ a b hb _
    | some m =>
      by_cases hedge : a ∈ s.sinksOf n'.key
      · left
        have hm : s.find? b = some m ∧ m.key.kind = .step ∧ m.detached = false := by
          cases hf : s.find? b with
          | none => rw [hf] at hb; cases hb
          | some m0 =>
            rw [hf] at hb
            simp only at hb
            split at hb
            · rename_i hh
              cases hb
              exact ⟨rfl, hh.1, by simpa using hh.2⟩
            · cases hb
        refine ⟨m, ?_, .inl (hfl m (find_mem hm.1) hm.2.1 (.inr (find_key hm.1)))⟩
        refine mem_consumerSteps.2 ⟨a, ?_, b, ?_, hm.1, hm.2.1, hm.2.2⟩
        · rw [hs1]; exact hedge
        · rw [sinksOf_append]; simp
      · apply carried_cons_of_eq (F := F) (F' := F) (fun k hk => hk)
        unfold KState.consumerSteps
        rw [hs1]
        have : (s.sinksOf n'.key).flatMap ({ s with deps := s.deps ++ [({ src := a, snk := b } : Dep)] } : KState).sinksOf =
            (s.sinksOf n'.key).flatMap s.sinksOf := by
          apply flatMap_congr'
          intro f hf
          rw [sinksOf_append]
          have : a ≠ f := fun e => hedge (e ▸ hf)
          simp [this]
        rw [this]; rfl

/-- Marking dependency rows dynamic changes nothing the discipline reads. -/
theorem wd_mapDeps {F : Key → Prop} {s : KState} {cfg : KConfig} (g : Dep → Dep)
    (hg : ∀ d, (g d).src = d.src ∧ (g d).snk = d.snk) (hc : WD F s cfg) :
    WD F { s with deps := s.deps.map g } cfg := by
  have hs : ∀ k, ({ s with deps := s.deps.map g } : KState).sinksOf k = s.sinksOf k := by
    intro k
    unfold KState.sinksOf
    simp only [List.filter_map, List.map_map]
    have : (fun d => decide (d.src = k)) ∘ g = fun d => decide (d.src = k) := by
      funext d; simp only [Function.comp, (hg d).1]
    rw [this]
    apply List.map_congr_left
    intro d _
    simp only [Function.comp, (hg d).2]
  refine wd_transfer (fun k hk => hk) ?_ hc
  intro n' hn' h1 h2 h3 h4
  refine ⟨n', hn', rfl, h2, h3, rfl, rfl, rfl, ?_, carried_cons_of_eq (F := F) (F' := F) (fun k hk => hk) ?_⟩
  · unfold KState.regularOutputs; rw [hs]; rfl
  · unfold KState.consumerSteps
    rw [hs]
    have : (s.sinksOf n'.key).flatMap ({ s with deps := s.deps.map g } : KState).sinksOf =
        (s.sinksOf n'.key).flatMap s.sinksOf := flatMap_congr' fun f _ => hs f
    rw [this]; rfl

end StepupModel.K.Discipline
