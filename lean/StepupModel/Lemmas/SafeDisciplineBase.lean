import StepupModel.Lemmas.MetaSafeReach
import StepupModel.Lemmas.Discipline
/-!
# The flag discipline of `_update_meta_safe`: debt calculus and the transfer lemma

`MetaSafe.CacheInvSafeW s`: every step that is neither flagged `_check_safe` nor below a flagged step
satisfies its two local equations.  This file sets up what is needed to show that the writers of the
model maintain it.

* `WS F s`: the discipline with a *debt* `F` (keys that count as flagged); `WS NoDebt s` is
  `CacheInvSafeW s` (`ws_nodebt_iff`).  A composite operation that rewrites what an equation reads before it
  raises the flag runs through states that obey the discipline only up to a debt.
* `ws_transfer`: the one place where creator chains are walked.  Every unflagged step row of the new state
  is either *fresh* (no step creator, both columns true, no unflagged product) or the unchanged
  *continuation* (`Cont`) of an unflagged row of the old state.
* Leaves: `ws_map` (row rewrites; `SRowD D`: key kept, and a step row outside `D` ends up flagged or was
  unflagged and keeps creator, cached pair, activity and `holding = 0`), `ws_mono` (debt on flagged rows or
  on rows that are no steps can be dropped), `ws_dropFresh`, `ws_append`, `ws_remove`.
-/
namespace StepupModel.K.SafeDisc
open StepupModel.K.MetaSafe StepupModel.Lemmas
set_option linter.unusedSimpArgs false
set_option linter.unusedVariables false

/-- Flagged, or in debt. -/
def FlagF (F : Key → Prop) (n : Node) : Prop := n.checkSafe = true ∨ F n.key

/-- The step is in debt or flagged, or below such a step. -/
def TouchedF (F : Key → Prop) (s : KState) (n : Node) : Prop :=
  ∃ a ∈ s.nodes, a.key.kind = .step ∧ FlagF F a ∧ AncOrSelf s a n

/-- The weak flag discipline up to the debt `F`. -/
def WS (F : Key → Prop) (s : KState) : Prop :=
  ∀ n ∈ s.nodes, n.key.kind = .step → ¬ TouchedF F s n → BothLocal s n

def NoDebt : Key → Prop := fun _ => False

theorem touchedF_nodebt_iff (s : KState) (n : Node) : TouchedF NoDebt s n ↔ Touched s n := by
  unfold TouchedF Touched
  constructor
  · rintro ⟨a, ha, hs, hf, hanc⟩
    rcases hf with hf | hf
    · exact ⟨a, mem_flagged.2 ⟨ha, hs, hf⟩, hanc⟩
    · exact hf.elim
  · rintro ⟨a, ha, hanc⟩
    obtain ⟨h1, h2, h3⟩ := mem_flagged.1 ha
    exact ⟨a, h1, h2, .inl h3, hanc⟩

theorem ws_nodebt_iff (s : KState) : WS NoDebt s ↔ CacheInvSafeW s := by
  unfold WS CacheInvSafeW
  constructor
  · intro h n hn hs ht
    exact h n hn hs (fun hx => ht ((touchedF_nodebt_iff s n).1 hx))
  · intro h n hn hs ht
    exact h n hn hs (fun hx => ht ((touchedF_nodebt_iff s n).2 hx))

/-- The discipline together with "one row per key": what the operations are shown to preserve. -/
def P (F : Key → Prop) (s : KState) : Prop := KeysUnique s ∧ WS F s

/-! ## The transfer lemma -/

/-- `n'` (a row of the new state) is the unchanged continuation of the unflagged row `n` of the old one. -/
structure Cont (F : Key → Prop) (s s' : KState) (n n' : Node) : Prop where
  mem : n ∈ s.nodes
  key : n.key = n'.key
  unfl : ¬ FlagF F n
  safe : n.safe = n'.safe
  safeNH : n.safeNH = n'.safeNH
  act : n.sstate.active = n'.sstate.active
  hold0 : (n.holding == 0) = (n'.holding == 0)
  creator : n.creator = n'.creator
  res : ∀ c, n'.creator = some c → c.kind = .step → s'.find? c = none → s.find? c = none

/-- Correct by itself: no step creator, both columns true, and every step it created is flagged. -/
def Fresh (F' : Key → Prop) (s' : KState) (n' : Node) : Prop :=
  stepCreator s' n' = none ∧ n'.safe = true ∧ n'.safeNH = true ∧
  ∀ p ∈ s'.nodes, p.key.kind = .step → p.creator = some n'.key → FlagF F' p

theorem stepCreator_eq_find {s : KState} {n : Node} {c : Key} (h : n.creator = some c) (hs : c.kind = .step) :
    stepCreator s n = s.find? c := by
  unfold stepCreator
  rw [h]
  simp only [hs, if_true]

theorem stepCreator_none_of_creator {s : KState} {n : Node} (h : n.creator = none) : stepCreator s n = none := by
  unfold stepCreator; rw [h]

theorem stepCreator_none_of_kind {s : KState} {n : Node} {c : Key} (h : n.creator = some c) (hs : c.kind ≠ .step) :
    stepCreator s n = none := by
  unfold stepCreator
  rw [h]
  simp only [hs, if_false]

section transfer
variable {F F' : Key → Prop} {s s' : KState}

theorem touch_transfer (hk : KeysUnique s)
    (hrel : ∀ n' ∈ s'.nodes, n'.key.kind = .step → ¬ FlagF F' n' → Fresh F' s' n' ∨ ∃ n, Cont F s s' n n')
    {a n : Node} (hanc : AncOrSelf s a n) (ha : a ∈ s.nodes) (has : a.key.kind = .step) (haf : FlagF F a) :
    ∀ n' ∈ s'.nodes, n'.key.kind = .step → ¬ FlagF F' n' → Cont F s s' n n' → TouchedF F' s' n' := by
  induction hanc with
  | refl => intro n' _ _ _ hc; exact absurd haf hc.unfl
  | up hsc hanc ih =>
    rename_i c n
    intro n' hn' hst' hnf' hc
    obtain ⟨c_mem, c_step, hcr⟩ := stepCreator_some hsc
    have hcr' : n'.creator = some c.key := by rw [← hc.creator]; exact hcr
    cases hf' : s'.find? c.key with
    | none =>
      have := hc.res c.key hcr' c_step hf'
      rw [find?_of_mem hk c_mem] at this; cases this
    | some c' =>
      have hc'mem := find_mem hf'
      have hc'key := find_key hf'
      have hc'step : c'.key.kind = .step := by rw [hc'key]; exact c_step
      have hsc' : stepCreator s' n' = some c' := by
        rw [stepCreator_eq_find hcr' c_step]; exact hf'
      by_cases hfl : FlagF F' c'
      · exact ⟨c', hc'mem, hc'step, hfl, AncOrSelf.up hsc' (AncOrSelf.refl c')⟩
      · rcases hrel c' hc'mem hc'step hfl with hfr | ⟨c0, hc0⟩
        · exact absurd (hfr.2.2.2 n' hn' hst' (by rw [hc'key]; exact hcr')) hnf'
        · have : c0 = c := node_uniq hk hc0.mem c_mem (by rw [hc0.key, hc'key])
          subst this
          obtain ⟨a', ha', has', haf', hanc'⟩ := ih c' hc'mem hc'step hfl hc0
          exact ⟨a', ha', has', haf', AncOrSelf.up hsc' hanc'⟩

/-- **Transfer.**  If every unflagged step row of `s'` is fresh or the continuation of an unflagged row of
`s`, the discipline (with the respective debts) carries over. -/
theorem ws_transfer (hk : KeysUnique s)
    (hrel : ∀ n' ∈ s'.nodes, n'.key.kind = .step → ¬ FlagF F' n' → Fresh F' s' n' ∨ ∃ n, Cont F s s' n n')
    (hw : WS F s) : WS F' s' := by
  intro n' hn' hst' hnt
  have hnf : ¬ FlagF F' n' := fun h => hnt ⟨n', hn', hst', h, AncOrSelf.refl n'⟩
  rcases hrel n' hn' hst' hnf with hfr | ⟨n, hc⟩
  · unfold BothLocal SafeLocal SafeNHLocal localSafe localSafeNH
    rw [hfr.1]
    exact ⟨hfr.2.1, hfr.2.2.1⟩
  · have hst : n.key.kind = .step := by rw [hc.key]; exact hst'
    have hnt0 : ¬ TouchedF F s n := by
      rintro ⟨a, ha, has, haf, hanc⟩
      exact hnt (touch_transfer hk hrel hanc ha has haf n' hn' hst' hnf hc)
    obtain ⟨hb1, hb2⟩ := hw n hc.mem hst hnt0
    -- the creators agree
    have key : (stepCreator s' n' = none ∧ stepCreator s n = none) ∨
        ∃ c' c, stepCreator s' n' = some c' ∧ stepCreator s n = some c ∧ c.safe = c'.safe ∧ c.safeNH = c'.safeNH ∧
          c.sstate.active = c'.sstate.active ∧ (c.holding == 0) = (c'.holding == 0) := by
      cases hcr' : n'.creator with
      | none =>
        exact .inl ⟨stepCreator_none_of_creator hcr', stepCreator_none_of_creator (by rw [hc.creator]; exact hcr')⟩
      | some ck =>
        have hcr : n.creator = some ck := by rw [hc.creator]; exact hcr'
        by_cases hks : ck.kind = .step
        · rw [stepCreator_eq_find hcr' hks, stepCreator_eq_find hcr hks]
          cases hf' : s'.find? ck with
          | none => exact .inl ⟨rfl, hc.res ck hcr' hks hf'⟩
          | some c' =>
            have hc'mem := find_mem hf'
            have hc'key := find_key hf'
            have hc'step : c'.key.kind = .step := by rw [hc'key]; exact hks
            have hsc' : stepCreator s' n' = some c' := by rw [stepCreator_eq_find hcr' hks]; exact hf'
            have hfl : ¬ FlagF F' c' := fun h =>
              hnt ⟨c', hc'mem, hc'step, h, AncOrSelf.up hsc' (AncOrSelf.refl c')⟩
            rcases hrel c' hc'mem hc'step hfl with hfr | ⟨c0, hc0⟩
            · exact absurd (hfr.2.2.2 n' hn' hst' (by rw [hc'key]; exact hcr')) hnf
            · right
              refine ⟨c', c0, rfl, ?_, hc0.safe, hc0.safeNH, hc0.act, hc0.hold0⟩
              have := find?_of_mem hk hc0.mem
              rw [hc0.key, hc'key] at this
              exact this
        · exact .inl ⟨stepCreator_none_of_kind hcr' hks, stepCreator_none_of_kind hcr hks⟩
    unfold BothLocal SafeLocal SafeNHLocal localSafe localSafeNH at *
    rcases key with ⟨h1, h2⟩ | ⟨c', c, h1, h2, e1, e2, e3, e4⟩
    · rw [h1]; rw [h2] at hb1 hb2
      exact ⟨by rw [← hc.safe]; exact hb1, by rw [← hc.safeNH]; exact hb2⟩
    · rw [h1]; rw [h2] at hb1 hb2
      simp only at hb1 hb2 ⊢
      exact ⟨by rw [← hc.safe, ← e1, ← e3, ← e4]; exact hb1, by rw [← hc.safeNH, ← e2, ← e3]; exact hb2⟩

end transfer

/-! ## Leaves -/

/-- A continuation of a row by itself (same state up to the listed facts). -/
theorem cont_self {F : Key → Prop} {s s' : KState} {n : Node} (hn : n ∈ s.nodes) (hu : ¬ FlagF F n)
    (hres : ∀ c, n.creator = some c → c.kind = .step → s'.find? c = none → s.find? c = none) : Cont F s s' n n :=
  ⟨hn, rfl, hu, rfl, rfl, rfl, rfl, rfl, hres⟩

/-- Debts may be exchanged as long as every step row that counted as flagged still does. -/
theorem ws_mono {F F' : Key → Prop} {s : KState}
    (h : ∀ n ∈ s.nodes, n.key.kind = .step → FlagF F n → FlagF F' n) (hw : WS F s) : WS F' s := by
  intro n hn hs ht
  refine hw n hn hs ?_
  rintro ⟨a, ha, has, haf, hanc⟩
  exact ht ⟨a, ha, has, h a ha has haf, hanc⟩

theorem P.mono {F F' : Key → Prop} {s : KState}
    (h : ∀ n ∈ s.nodes, n.key.kind = .step → FlagF F n → FlagF F' n) (hp : P F s) : P F' s :=
  ⟨hp.1, ws_mono h hp.2⟩

/-- The debt on a key that is no step key is void. -/
theorem P.dropNonStep {F : Key → Prop} {s : KState} {k : Key} (hk : k.kind ≠ .step)
    (hp : P (fun x => F x ∨ x = k) s) : P F s := by
  refine hp.mono ?_
  intro n _ hs hf
  rcases hf with hf | hf | hf
  · exact .inl hf
  · exact .inr hf
  · rw [hf] at hs; exact absurd hs hk

/-- The debt on a key whose rows are flagged is paid. -/
theorem P.dropFlagged {F : Key → Prop} {s : KState} {k : Key}
    (hfl : ∀ n ∈ s.nodes, n.key = k → n.key.kind = .step → n.checkSafe = true)
    (hp : P (fun x => F x ∨ x = k) s) : P F s := by
  refine hp.mono ?_
  intro n hn hs hf
  rcases hf with hf | hf | hf
  · exact .inl hf
  · exact .inr hf
  · exact .inl (hfl n hn hf hs)

theorem P.addDebt {F : Key → Prop} {s : KState} (D : Key → Prop) (hp : P F s) : P (fun x => F x ∨ D x) s :=
  hp.mono fun n _ _ hf => hf.elim .inl fun h => .inr (.inl h)

/-- What a row rewrite may do outside the debt `D`: keep the key, and a step row ends up flagged or was
unflagged and keeps everything the local equations read. -/
def SRowD (D : Key → Prop) (n n' : Node) : Prop :=
  n'.key = n.key ∧ (n.key.kind = .step → D n.key ∨ n'.checkSafe = true ∨
    (n.checkSafe = false ∧ n'.safe = n.safe ∧ n'.safeNH = n.safeNH ∧ n'.sstate.active = n.sstate.active ∧
      (n'.holding == 0) = (n.holding == 0) ∧ n'.creator = n.creator))

def NoD : Key → Prop := fun _ => False

/-- Soft rows: no debt. -/
abbrev SRow (n n' : Node) : Prop := SRowD NoD n n'

theorem SRowD.refl (D : Key → Prop) (n : Node) : SRowD D n n := by
  refine ⟨rfl, fun _ => ?_⟩
  cases h : n.checkSafe with
  | true => exact .inr (.inl rfl)
  | false => exact .inr (.inr ⟨rfl, rfl, rfl, rfl, rfl, rfl⟩)

theorem find?_map_key' (l : List Node) (g : Node → Node) (hg : ∀ n ∈ l, (g n).key = n.key) (k : Key) :
    (l.map g).find? (fun n => decide (n.key = k)) = (l.find? (fun n => decide (n.key = k))).map g := by
  induction l with
  | nil => rfl
  | cons a l ih =>
    simp only [List.map_cons, List.find?_cons, hg a List.mem_cons_self]
    split
    · rfl
    · exact ih fun n hn => hg n (List.mem_cons_of_mem _ hn)

theorem keysUnique_map {s s' : KState} (g : Node → Node) (hnodes : s'.nodes = s.nodes.map g)
    (hg : ∀ n ∈ s.nodes, (g n).key = n.key) (hk : KeysUnique s) : KeysUnique s' := by
  unfold KeysUnique at *
  rw [hnodes, List.map_map]
  have : s.nodes.map ((fun x => x.key) ∘ g) = s.nodes.map (·.key) :=
    List.map_congr_left fun n hn => hg n hn
  rw [this]; exact hk

/-- **Row rewrites.**  Rows are rewritten one by one by `g`; outside the debt `D` the rewrite is soft. -/
theorem P.map {F : Key → Prop} {s s' : KState} (D : Key → Prop) (g : Node → Node) (hnodes : s'.nodes = s.nodes.map g)
    (hrow : ∀ n ∈ s.nodes, SRowD D n (g n)) (hp : P F s) : P (fun x => F x ∨ D x) s' := by
  have hkeys : ∀ n ∈ s.nodes, (g n).key = n.key := fun n hn => (hrow n hn).1
  refine ⟨keysUnique_map g hnodes hkeys hp.1, ws_transfer hp.1 ?_ hp.2⟩
  intro n' hn' hst' hnf'
  rw [hnodes] at hn'
  obtain ⟨n, hn, rfl⟩ := List.mem_map.1 hn'
  right
  have hkey := hkeys n hn
  have hst : n.key.kind = .step := by rw [← hkey]; exact hst'
  rcases (hrow n hn).2 hst with hd | hfl | ⟨h0, h1, h2, h3, h4, h5⟩
  · exact absurd (.inr (.inr (by rw [hkey]; exact hd))) hnf'
  · exact absurd (.inl hfl) hnf'
  · refine ⟨n, hn, hkey.symm, ?_, h1.symm, h2.symm, h3.symm, h4.symm, h5.symm, ?_⟩
    · rintro (hx | hx)
      · rw [h0] at hx; cases hx
      · exact hnf' (.inr (.inl (by rw [hkey]; exact hx)))
    · intro c _ _ hf
      have : s'.find? c = (s.find? c).map g := by
        unfold KState.find?
        rw [hnodes]
        exact find?_map_key' s.nodes g hkeys c
      rw [this] at hf
      cases hx : s.find? c with
      | none => rfl
      | some m => rw [hx] at hf; cases hf

/-- Soft row rewrites keep the debt. -/
theorem P.soft {F : Key → Prop} {s s' : KState} (g : Node → Node) (hnodes : s'.nodes = s.nodes.map g)
    (hrow : ∀ n ∈ s.nodes, SRow n (g n)) (hp : P F s) : P F s' := by
  refine (hp.map NoD g hnodes hrow).mono ?_
  intro n _ _ hf
  rcases hf with hf | hf | hf
  · exact .inl hf
  · exact .inr hf
  · exact hf.elim

/-- Same rows (the dependency table and the deletion queue are free). -/
theorem P.sameNodes {F : Key → Prop} {s s' : KState} (h : s'.nodes = s.nodes) (hp : P F s) : P F s' :=
  hp.soft id (by rw [h, List.map_id]) fun n _ => SRowD.refl _ n

theorem P.modifyWhere {F : Key → Prop} {s : KState} (p : Node → Bool) (f : Node → Node)
    (hf : ∀ n ∈ s.nodes, p n = true → SRow n (f n)) (hp : P F s) : P F (s.modifyWhere p f) := by
  refine hp.soft (fun n => if p n then f n else n) rfl ?_
  intro n hn
  by_cases h : p n = true
  · simp only [h, if_true]; exact hf n hn h
  · simp only [h]; exact SRowD.refl _ n

theorem P.modify {F : Key → Prop} {s : KState} (k : Key) (f : Node → Node)
    (hf : ∀ n ∈ s.nodes, n.key = k → SRow n (f n)) (hp : P F s) : P F (s.modify k f) := by
  refine hp.soft (fun n => if n.key = k then f n else n) rfl ?_
  intro n hn
  by_cases h : n.key = k
  · simp only [h, if_true]; exact hf n hn h
  · simp only [h, if_false]; exact SRowD.refl _ n

/-- Any rewrite of the rows of `k` that keeps the key: `k` goes into the debt. -/
theorem P.modifyDebt {F : Key → Prop} {s : KState} (k : Key) (f : Node → Node)
    (hf : ∀ n ∈ s.nodes, n.key = k → (f n).key = k) (hp : P F s) : P (fun x => F x ∨ x = k) (s.modify k f) := by
  refine hp.map (fun x => x = k) (fun n => if n.key = k then f n else n) rfl ?_
  intro n hn
  by_cases h : n.key = k
  · simp only [h, if_true]
    exact ⟨by rw [hf n hn h, h], fun _ => .inl h⟩
  · simp only [h, if_false]
    exact ⟨rfl, fun hs => ((SRowD.refl NoD n).2 hs).elim (fun x => x.elim) .inr⟩

/-- Replacing the row found under `k`. -/
theorem P.replace {F : Key → Prop} {s : KState} {k : Key} {n n' : Node} (hfind : s.find? k = some n)
    (hr : SRow n n') (hp : P F s) : P F (s.modify k fun _ => n') := by
  refine hp.modify k _ ?_
  intro m hm hmk
  have := find?_of_mem hp.1 hm
  rw [hmk, hfind] at this
  cases this
  exact hr

/-- **A fresh row pays its own debt**: no step creator, both columns true, nothing names it as creator. -/
theorem P.dropFresh {F : Key → Prop} {s : KState} {k : Key}
    (hrow : ∀ n ∈ s.nodes, n.key = k → n.key.kind = .step → n.checkSafe = false →
      stepCreator s n = none ∧ n.safe = true ∧ n.safeNH = true)
    (hnop : ∀ p ∈ s.nodes, p.key.kind = .step → p.creator ≠ some k)
    (hp : P (fun x => F x ∨ x = k) s) : P F s := by
  refine ⟨hp.1, ws_transfer hp.1 ?_ hp.2⟩
  intro n' hn' hst' hnf'
  by_cases hk : n'.key = k
  · left
    have hcs : n'.checkSafe = false := by
      cases h : n'.checkSafe with
      | false => rfl
      | true => exact absurd (.inl h) hnf'
    obtain ⟨h1, h2, h3⟩ := hrow n' hn' hk hst' hcs
    exact ⟨h1, h2, h3, fun p hp' hps hpc => absurd (by rw [← hk]; exact hpc) (hnop p hp' hps)⟩
  · right
    refine ⟨n', cont_self hn' ?_ (fun c _ _ h => h)⟩
    rintro (hx | hx | hx)
    · exact hnf' (.inl hx)
    · exact hnf' (.inr hx)
    · exact hk hx

/-- `INSERT INTO node`: the new key goes into the debt. -/
theorem P.append {F : Key → Prop} {s s' : KState} {m : Node} (hnodes : s'.nodes = s.nodes ++ [m])
    (hnew : s.find? m.key = none) (hp : P F s) : P (fun x => F x ∨ x = m.key) s' := by
  have hk' : KeysUnique s' := by
    unfold KeysUnique at *
    rw [hnodes, List.map_append, List.nodup_append]
    refine ⟨hp.1, by simp, ?_⟩
    intro a ha b hb
    simp only [List.map_cons, List.map_nil, List.mem_singleton] at hb
    subst hb
    obtain ⟨x, hx, rfl⟩ := List.mem_map.1 ha
    intro he
    have := List.find?_eq_none.1 hnew x hx
    simp only [decide_eq_true_eq] at this
    exact this he
  refine ⟨hk', ws_transfer hp.1 ?_ hp.2⟩
  intro n' hn' hst' hnf'
  rw [hnodes] at hn'
  rcases List.mem_append.1 hn' with h | h
  · right
    refine ⟨n', cont_self h (fun hx => hnf' (hx.elim .inl fun y => .inr (.inl y))) ?_⟩
    intro c _ _ hf
    unfold KState.find? at hf ⊢
    rw [hnodes, List.find?_append] at hf
    cases hx : s.nodes.find? (fun n => decide (n.key = c)) with
    | none => rfl
    | some y => rw [hx] at hf; cases hf
  · simp only [List.mem_singleton] at h
    subst h
    exact absurd (.inr (.inr rfl)) hnf'

/-- `DELETE FROM node` of the rows of a key that no other row names as its creator. -/
theorem P.remove {F : Key → Prop} {s s' : KState} {k : Key} (hnodes : s'.nodes = s.nodes.filter (·.key ≠ k))
    (hnop : ∀ p ∈ s.nodes, p.creator = some k → p.key = k) (hp : P F s) : P F s' := by
  have hk' : KeysUnique s' := by
    unfold KeysUnique at *
    rw [hnodes]
    exact (List.filter_sublist.map _).nodup hp.1
  refine ⟨hk', ws_transfer hp.1 ?_ hp.2⟩
  intro n' hn' hst' hnf'
  rw [hnodes] at hn'
  obtain ⟨hn, hne⟩ := List.mem_filter.1 hn'
  simp only [decide_eq_true_eq] at hne
  right
  refine ⟨n', cont_self hn hnf' ?_⟩
  intro c hc _ hf
  have hck : c ≠ k := fun h => hne (hnop n' hn (by rw [hc, h]))
  unfold KState.find? at hf ⊢
  rw [hnodes] at hf
  rw [List.find?_eq_none] at hf ⊢
  intro x hx
  by_cases hxk : x.key = k
  · simp only [decide_eq_true_eq]
    intro h; exact hck (by rw [← h, hxk])
  · exact hf x (List.mem_filter.2 ⟨hx, by simpa using hxk⟩)

end StepupModel.K.SafeDisc
