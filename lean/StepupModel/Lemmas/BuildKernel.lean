import StepupModel.Lemmas.Build
import StepupModel.Lemmas.BuildRefresh
/-!
# One build phase (`B/Build.lean`): which steps are RUNNING in the database (C12)

`RunsIn K s`: every RUNNING step row of `s` has its key in `K`.  It is stable under every primitive write
other than `Step.set_state(RUNNING)` (`stableRes_runsIn`, an instance of `Lemmas/ResourcesFrame.StableRes`),
hence under every request other than `pop` and `setState _ RUNNING` (`exec_runsIn`), and `pop_next_job` adds
exactly the step it dispatches as a RUN job (`popNext_runsIn`).  Composed (`run_kernelLink`): after every
legal event sequence from a kernel state in which no command runs, every step whose row is RUNNING was
handed out by `pop_next_job` in this phase as a job that runs its command.
-/
namespace StepupModel.K
open StepupModel.K.Resources StepupModel.Lemmas

/-- Every RUNNING step row has its key in `K`. -/
def RunsIn (K : Key → Prop) (s : KState) : Prop := ∀ n ∈ s.nodes, runs n = true → K n.key

variable {K : Key → Prop}

theorem runsIn_map (s : KState) (g : Node → Node)
    (hg : ∀ n ∈ s.nodes, runs (g n) = true → K n.key → K (g n).key)
    (hr : ∀ n ∈ s.nodes, runs (g n) = true → runs n = true)
    (h : RunsIn K s) : RunsIn K { s with nodes := s.nodes.map g } := by
  intro n hn hrun
  obtain ⟨m, hm, rfl⟩ := List.mem_map.1 hn
  exact hg m hm hrun (h m hm (hr m hm hrun))

theorem runsIn_modifyWhere (s : KState) (p : Node → Bool) (f : Node → Node)
    (hf : ∀ n, (f n).key = n.key ∧ (runs (f n) = true → runs n = true)) (h : RunsIn K s) :
    RunsIn K (s.modifyWhere p f) := by
  refine runsIn_map s (fun n => if p n then f n else n) (fun n _ hr hk => ?_) (fun n _ hr => ?_) h
  · by_cases hp : p n = true
    · simp only [hp, if_true] at hr ⊢; rw [(hf n).1]; exact hk
    · simp only [hp] at hr ⊢; exact hk
  · by_cases hp : p n = true
    · simp only [hp, if_true] at hr; exact (hf n).2 hr
    · simp only [hp] at hr; exact hr

theorem runsIn_modify (s : KState) (k : Key) (f : Node → Node)
    (hf : ∀ n, (f n).key = n.key ∧ (runs (f n) = true → runs n = true)) (h : RunsIn K s) :
    RunsIn K (s.modify k f) := by
  refine runsIn_map s (fun n => if n.key = k then f n else n) (fun n _ hr hk => ?_) (fun n _ hr => ?_) h
  · by_cases hp : n.key = k
    · rw [if_pos hp] at hr ⊢; rw [(hf n).1]; exact hk
    · rw [if_neg hp] at hr ⊢; exact hk
  · by_cases hp : n.key = k
    · rw [if_pos hp] at hr; exact (hf n).2 hr
    · rw [if_neg hp] at hr; exact hr

/-- Replacing the rows of `k` by a row with the key of the row found that runs only if that one ran. -/
theorem runsIn_replace (s : KState) (k : Key) (n n' : Node) (hf : s.find? k = some n)
    (hn : n'.key = n.key ∧ (runs n' = true → runs n = true)) (h : RunsIn K s) :
    RunsIn K (s.modify k fun _ => n') := by
  obtain ⟨hmem, hkey⟩ := find?_mem s k n hf
  intro m hm hrun
  unfold KState.modify at hm
  obtain ⟨m0, hm0, rfl⟩ := List.mem_map.1 hm
  by_cases hp : m0.key = k
  · rw [if_pos hp] at hrun ⊢
    rw [hn.1]; exact h n hmem (hn.2 hrun)
  · rw [if_neg hp] at hrun ⊢; exact h m0 hm0 hrun

/-- **Frame.**  Every primitive write other than `Step.set_state(RUNNING)` keeps `RunsIn K`. -/
theorem stableRes_runsIn (K : Key → Prop) : StableRes (RunsIn K) := by
  refine
    { cache := ?_, detached := ?_, creator := ?_, handOverRow := ?_, fileWrite := ?_, fileInit := ?_,
      stepWrite := ?_, stepInit := ?_, setHash := ?_, deleteHash := ?_, bumpDefer := ?_, hold := ?_,
      release := ?_, recycled := ?_, addDep := ?_, filterDeps := ?_, markDyn := ?_, appendNode := ?_,
      removeNode := ?_, queueDelete := ?_, clearQueue := ?_ }
  · intro s p f hf hp
    exact runsIn_modifyWhere s p f (fun n => ⟨by
      have := (hf n).1
      simp only [Node.hard, Prod.mk.injEq] at this
      exact this.1, fun hr => by rw [← runs_of_hard (hf n).1]; exact hr⟩) hp
  · intro s k d hp; exact runsIn_modify s k _ (fun _ => ⟨rfl, id⟩) hp
  · intro s k c d _ hp; exact runsIn_modify s k _ (fun _ => ⟨rfl, id⟩) hp
  · intro s k tk hp; exact runsIn_modify s k _ (fun _ => ⟨rfl, id⟩) hp
  · intro s k n n' st nh hf hw hp
    exact runsIn_replace s k n n' hf ⟨(fileRowWrite_frame hw).1, (fileRowWrite_frame hw).2.2⟩ hp
  · intro s k st _ _ hp; exact runsIn_modify s k _ (fun _ => ⟨rfl, id⟩) hp
  · intro s k n n' st d hst hf hw hp
    obtain ⟨h1, h2, h3⟩ := stepRowWrite_cols hw
    refine runsIn_replace s k n n' hf ⟨h1, fun hr => ?_⟩ hp
    unfold runs at hr
    simp only [decide_eq_true_eq] at hr
    exact absurd (h3 ▸ hr.2) hst
  · intro s k i hp
    refine runsIn_modify s k _ (fun n => ⟨rfl, fun hr => ?_⟩) hp
    unfold runs at hr
    simp at hr
  · intro s k h hp; exact runsIn_modify s k _ (fun _ => ⟨rfl, id⟩) hp
  · intro s k hp
    refine runsIn_modify s k _ (fun n => ?_) hp
    split
    · exact ⟨rfl, id⟩
    · exact ⟨rfl, id⟩
  · intro s k hp; exact runsIn_modify s k _ (fun _ => ⟨rfl, id⟩) hp
  · intro s k hp; exact runsIn_modify s k _ (fun _ => ⟨rfl, id⟩) hp
  · intro s k n _ _ hp; exact runsIn_modify s k _ (fun _ => ⟨rfl, id⟩) hp
  · intro s k need shell hp; exact runsIn_modify s k _ (fun _ => ⟨rfl, id⟩) hp
  · intro s src snk _ _ hp; exact hp
  · intro s p hp; exact hp
  · intro s src snk dyn hp; exact hp
  · intro s k c _ _ hp n hn hr
    unfold KState.appendNode at hn
    rcases List.mem_append.1 hn with hn | hn
    · exact hp n hn hr
    · simp only [List.mem_singleton] at hn; subst hn
      unfold runs at hr; simp at hr
  · intro s k _ hp n hn hr
    exact hp n (List.mem_filter.1 hn).1 hr
  · intro s path h hp; exact hp
  · intro s hp; exact hp

/-- The requests that the dispatch protocol reserves to `pop_next_job`: none of them is issued by an RPC
handler, by the executor, by the watcher or at startup. -/
def NoForeign : Req → Prop
  | .pop _ => False
  | .setState _ .running => False
  | _ => True

theorem setStepExtras_runsIn (s : KState) (sk : Key) (d : StepDecl) (h : RunsIn K s) :
    RunsIn K (s.setStepExtras sk d) := by
  unfold KState.setStepExtras
  exact runsIn_modify s sk _ (fun _ => ⟨rfl, id⟩) h

/-- **One request.**  A request other than `pop` and `setState _ RUNNING` makes no step RUNNING. -/
theorem exec_runsIn (cfg : KConfig) (r : Req) (s : KState) (res : KState × String) (hq : NoForeign r)
    (hp : RunsIn K s) (h : s.exec cfg r = .ok res) : RunsIn K res.1 := by
  refine exec_stableRes (stableRes_runsIn K) cfg r s res ?_ ?_ ?_ ?_ hp h
  · intro c d sk n s1 s3 _ _ _ _ _ _ _ hp3; exact setStepExtras_runsIn s3 sk _ hp3
  · intro c d sk s1 _ _ _ hp1; exact setStepExtras_runsIn s1 sk _ hp1
  · intro k _ _ _ e; subst e; exact hq.elim
  · intro k _ e; subst e; exact hq.elim

theorem step_runsIn (cfg : KConfig) (r : Req) (s : KState) (hq : NoForeign r) (hp : RunsIn K s) :
    RunsIn K (s.step cfg r) := by
  unfold KState.step
  split
  · rename_i s' o h; exact exec_runsIn cfg r s (s', o) hq hp h
  · exact hp

theorem runsIn_mono {K K' : Key → Prop} (hk : ∀ x, K x → K' x) {s : KState} (h : RunsIn K s) : RunsIn K' s :=
  fun n hn hr => hk _ (h n hn hr)

/-- `Step.set_state(RUNNING)` adds the step to the RUNNING ones, and nothing else. -/
theorem setRunning_runsIn {s s' : KState} {k : Key} {d : Bool} (hw : s.setStepState k .running d = .ok s')
    (h : RunsIn K s) : RunsIn (fun x => K x ∨ x = k) s' := by
  unfold KState.setStepState KState.writeStepState at hw
  cases hf : s.find? k with
  | none =>
    simp only [hf, pure, Except.pure, Except.ok.injEq] at hw
    subst hw; exact runsIn_mono (fun _ => .inl) h
  | some n =>
    simp only [hf, bind, Except.bind] at hw
    cases hrw : stepRowWrite n .running (some d) with
    | error e => simp [hrw] at hw
    | ok n' =>
      simp only [hrw, pure, Except.pure, Except.ok.injEq] at hw
      subst hw
      obtain ⟨c1, -, -⟩ := stepRowWrite_cols hrw
      obtain ⟨-, hkey⟩ := find?_mem s k n hf
      intro m hm hrun
      unfold KState.modify at hm
      obtain ⟨m0, hm0, rfl⟩ := List.mem_map.1 hm
      by_cases hp : m0.key = k
      · rw [if_pos hp]; exact .inr (c1.trans hkey)
      · rw [if_neg hp] at hrun ⊢; exact .inl (h m0 hm0 hrun)

/-- **`pop_next_job`.**  The RUNNING steps after it are those before it plus the step it hands out as a job
that runs its command (no recorded hash); a hash check (CHECKING) and "nothing" add none. -/
theorem popNext_runsIn {k k' : KState} {cfg : KConfig} {c : Option Key} {d : Dispatch}
    (h : k.popNext cfg c = .ok (k', d)) (hp : RunsIn K k) :
    RunsIn (fun x => K x ∨ ∃ run, d = .job x false run) k' := by
  obtain ⟨su, hu, hcase⟩ := popNext_split h
  have hpu := (stableRes_runsIn K).updateMeta_preserves cfg k su hp hu
  rcases hcase with ⟨_, rfl, _⟩ | ⟨key, n, run, _, _, _, _, hw, rfl⟩
  · exact runsIn_mono (fun _ => .inl) hpu
  · cases hh : n.hasHash with
    | true =>
      rw [hh] at hw
      exact runsIn_mono (fun _ => .inl)
        ((stableRes_runsIn K).setStepState_preserves key .checking false (by decide) su k' hpu hw)
    | false =>
      rw [hh] at hw
      refine runsIn_mono (fun x hx => ?_) (setRunning_runsIn hw hpu)
      rcases hx with hx | rfl
      · exact .inl hx
      · exact .inr ⟨run, rfl⟩

end StepupModel.K

namespace StepupModel.B.Build
open StepupModel.K StepupModel.K.Resources StepupModel.B.JobLoop

/-- The events whose requests respect the dispatch protocol (`NoForeign`). -/
def Ev.legal : Ev → Prop
  | .rpc _ r => NoForeign r
  | .finish _ rs => ∀ r ∈ rs, NoForeign r
  | .hashFin _ (some r) => NoForeign r
  | .external r => NoForeign r
  | _ => True

/-- The keys of the steps that `pop_next_job` has handed out in this phase as jobs that run a command. -/
def Sys.runKeys (s : Sys) (x : Key) : Prop := ∃ a ∈ s.assigned, a.2.1 = x ∧ a.2.2 = false

/-- Every step whose row is RUNNING was dispatched in this phase as a job that runs its command. -/
def KernelLink (s : Sys) : Prop := RunsIn s.runKeys s.k

theorem txn_runsIn {K : Key → Prop} (cfg : KConfig) (rs : List Req) : ∀ (k k' : KState), (∀ r ∈ rs, NoForeign r) →
    RunsIn K k → txn k cfg rs = some k' → RunsIn K k' := by
  induction rs with
  | nil => intro k k' _ hp h; simp only [txn, Option.some.injEq] at h; subst h; exact hp
  | cons r rest ih =>
    intro k k' hq hp h
    simp only [txn] at h
    split at h
    · rename_i k1 o he
      exact ih k1 k' (fun r hr => hq r (List.mem_cons_of_mem _ hr))
        (exec_runsIn cfg r k (k1, o) (hq r List.mem_cons_self) hp he) h
    · cases h

theorem applyEv_kernelLink (s : Sys) (e : Ev) (hl : e.legal) (h : KernelLink s) : KernelLink (applyEv s e) := by
  cases e with
  | start => exact h
  | pass c =>
    simp only [applyEv]
    split
    · cases hi : iterK s c with
      | none => exact h
      | some r =>
        obtain ⟨s', ctl⟩ := r
        have hl' : KernelLink s' → KernelLink (land s' ctl) := by intro hh; cases ctl <;> exact hh
        apply hl'
        obtain ⟨-, -, -, -, hs⟩ := iterK_spec s s' c ctl hi
        unfold KernelLink Sys.runKeys
        rcases hs with ⟨hk, ha, -, -, -⟩ | ⟨-, hpop, ha, -, -⟩ | ⟨-, key, chk, run, hpop, ha, -, -⟩
        · rw [hk, ha]; exact h
        · rw [ha]
          refine runsIn_mono (fun x hx => ?_) (popNext_runsIn hpop h)
          rcases hx with hx | ⟨_, hx⟩
          · exact hx
          · cases hx
        · rw [ha]
          refine runsIn_mono (fun x hx => ?_) (popNext_runsIn hpop h)
          rcases hx with ⟨a, ha', hx⟩ | ⟨run', hx⟩
          · exact ⟨a, List.mem_append_left _ ha', hx⟩
          · simp only [Dispatch.job.injEq] at hx
            obtain ⟨rfl, rfl, -⟩ := hx
            exact ⟨_, List.mem_append_right _ (List.mem_singleton.2 rfl), rfl, rfl⟩
    · exact h
  | rpc j r =>
    simp only [applyEv]
    split
    · split
      · rename_i k' o he
        exact exec_runsIn s.cfg r s.k (k', o) hl h he
      · exact h
    · exact h
  | finish j rs =>
    simp only [applyEv]
    split
    · split
      · rename_i k' he
        exact txn_runsIn s.cfg rs s.k k' hl h he
      · exact h
    · exact h
  | submit p => exact h
  | promote p => exact h
  | hashFin i r =>
    simp only [applyEv]
    split
    · cases r with
      | none => exact h
      | some r => exact step_runsIn s.cfg r s.k hl h
    · exact h
  | drain => exact h
  | undrain => simp only [applyEv]; split <;> exact h
  | external r =>
    simp only [applyEv]
    split
    · exact h
    · exact step_runsIn s.cfg r s.k hl h

theorem step_kernelLink (s : Sys) (e : Ev) (hl : e.legal) (h : KernelLink s) : KernelLink (step s e) := by
  have := applyEv_kernelLink s e hl h
  unfold step unpark; split
  · exact this
  · exact this

/-- **C12, the commands that run (kernel side).**  From a kernel state in which no step is RUNNING (a fresh
project; any database after `reset_interrupted_steps`), for every job limit, configuration and sequence of
events none of which issues `pop` or `setState _ RUNNING` as a request: every step whose row is RUNNING is
the step of a job that `pop_next_job` handed out in this phase to run its command. -/
theorem run_kernelLink (k0 : KState) (cfg : KConfig) (njob : Nat) (evs : List Ev)
    (h0 : ∀ n ∈ k0.nodes, runs n = false) (hl : ∀ e ∈ evs, e.legal) :
    KernelLink (run k0 cfg njob evs) := by
  unfold run
  suffices h : ∀ s : Sys, (∀ e ∈ evs, e.legal) → KernelLink s → KernelLink (evs.foldl step s) from
    h _ hl (fun n hn hr => by rw [h0 n hn] at hr; cases hr)
  clear hl h0
  induction evs with
  | nil => intro s _ h; exact h
  | cons e rest ih =>
    intro s hl h
    exact ih (step s e) (fun e' he => hl e' (List.mem_cons_of_mem _ he)) (step_kernelLink s e (hl e List.mem_cons_self) h)

end StepupModel.B.Build
