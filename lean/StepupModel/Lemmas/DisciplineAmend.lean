import StepupModel.Lemmas.DisciplineStep
/-!
# The flag discipline through `amend_step`, `register_static_tree` and the `declare_static` request
-/
namespace StepupModel.K.Discipline
open StepupModel.K.MetaAfter StepupModel.Lemmas StepupModel.K.Sk
set_option linter.unusedSimpArgs false
set_option linter.unusedVariables false

/-! ## Marking dependency rows dynamic -/

theorem TI.mapDeps {cfg : KConfig} {s : KState} (h : TI cfg s) (g : Dep → Dep)
    (hg : ∀ d, (g d).src = d.src ∧ (g d).snk = d.snk) : TI cfg { s with deps := s.deps.map g } := by
  refine ⟨disc_of_wd (wd_mapDeps g hg (wd_of_disc _ h.disc)), ?_, forest_of_skel rfl h.fo⟩
  have hS := h.st
  refine ⟨hS.keys, ?_, hS.kinds, hS.root, ?_, ?_, hS.roots⟩
  · intro d' hd' hsrc f hf
    obtain ⟨d, hd, rfl⟩ := List.mem_map.1 hd'
    rw [(hg d).1] at hsrc ⊢
    rw [(hg d).2] at hf
    exact hS.own d hd hsrc f hf
  · intro d' hd'
    obtain ⟨d, hd, rfl⟩ := List.mem_map.1 hd'
    rw [(hg d).1, (hg d).2]; exact hS.dkinds d hd
  · intro d' hd'
    obtain ⟨d, hd, rfl⟩ := List.mem_map.1 hd'
    rw [(hg d).1, (hg d).2]; exact hS.closed d hd

theorem setDynamic_ti {cfg : KConfig} {s : KState} (h : TI cfg s) (a b : Key) (dyn : Bool) :
    TI cfg (s.setDynamic a b dyn) ∧ Mono s (s.setDynamic a b dyn) := by
  unfold KState.setDynamic
  have h1 := h.mapDeps (fun (d : Dep) => if d.src = a ∧ d.snk = b then { d with dyn := dyn } else d)
    (fun d => by split <;> exact ⟨rfl, rfl⟩)
  have hr : SoftRel ({ s with deps := s.deps.map fun (d : Dep) => if d.src = a ∧ d.snk = b then { d with dyn := dyn } else d } : KState)
      (({ s with deps := s.deps.map fun (d : Dep) => if d.src = a ∧ d.snk = b then { d with dyn := dyn } else d } : KState).modify b
        fun n => if n.key.kind = .step then { n with checkReady := true } else n) := by
    refine softRel_modify _ _ fun n => ?_
    split
    · exact ⟨rfl, rfl, ⟨rfl, rfl⟩, id, .inr ⟨rfl, rfl, rfl⟩⟩
    · exact SoftRow.refl n
  exact ⟨h1.soft hr, fun x hx => has_soft hr hx⟩

theorem markDynamic_ti {cfg : KConfig} (edges : List (Key × Key)) :
    ∀ s : KState, TI cfg s → TI cfg (s.markDynamic edges) ∧ Mono s (s.markDynamic edges) := by
  unfold KState.markDynamic
  induction edges with
  | nil => intro s h; exact ⟨h, Mono.refl s⟩
  | cons e es ih =>
    intro s h
    simp only [List.foldl_cons]
    obtain ⟨h1, m1⟩ := setDynamic_ti h e.1 e.2 true
    obtain ⟨h2, m2⟩ := ih _ h1
    exact ⟨h2, m1.trans m2⟩

/-! ## `amend_step` -/

theorem amendEnv_rel (s : KState) (cfg : KConfig) (step : Key) (env : List String) : SoftRel s (s.amendEnv cfg step env) := by
  unfold KState.amendEnv
  refine softRel_modify _ _ (softFn_payload ?_)
  intro n
  induction env generalizing n with
  | nil => exact ⟨⟨rfl, rfl, rfl, rfl⟩, rfl⟩
  | cons x xs ih =>
    simp only [List.foldl_cons]
    split
    · exact ih _
    · exact ih _

theorem amendProducts_ti {cfg : KConfig} {s1 : KState} {step : Key} {infos : List Supply} {env out vol : List String}
    {conc : List Key} {r : KState × AmendResult} (h : TI cfg s1) (hstep : Has s1 step)
    (hc : s1.amendProducts cfg step infos env out vol conc = .ok r) : TI cfg r.1 ∧ Mono s1 r.1 := by
  unfold KState.amendProducts at hc
  have hr2 := amendEnv_rel s1 cfg step env
  have hT2 := h.soft hr2
  have hh2 : Has (s1.amendEnv cfg step env) step := has_soft hr2 hstep
  refine bind_ok_gen hc (fun _ => True) (fun _ _ => trivial) (fun r => TI cfg r.1 ∧ Mono s1 r.1) ?_
  intro out' r2 _ hc2
  refine bind_ok_gen hc2 (fun _ => True) (fun _ _ => trivial) (fun r => TI cfg r.1 ∧ Mono s1 r.1) ?_
  intro vol' r3 _ hc3
  refine bind_ok_gen hc3 (fun _ => True) (fun _ _ => trivial) (fun r => TI cfg r.1 ∧ Mono s1 r.1) ?_
  intro _ r4 _ hc4
  refine bind_ok_gen hc4 (fun _ => True) (fun _ _ => trivial) (fun r => TI cfg r.1 ∧ Mono s1 r.1) ?_
  intro _ r5 _ hc5
  refine bind_ok_gen hc5 (fun s3 => TI cfg s3 ∧ Mono (s1.amendEnv cfg step env) s3)
    (fun s3 h3 => declareProducts_ti out' (.inl rfl) _ s3 hT2 hh2 h3) (fun r => TI cfg r.1 ∧ Mono s1 r.1) ?_
  intro s3 r6 ⟨hT3, hm3⟩ hc6
  refine bind_ok_gen hc6 (fun s4 => TI cfg s4 ∧ Mono s3 s4)
    (fun s4 h4 => declareProducts_ti vol' (.inr rfl) _ s4 hT3 (hm3 _ hh2) h4) (fun r => TI cfg r.1 ∧ Mono s1 r.1) ?_
  intro s4 r7 ⟨hT4, hm4⟩ hc7
  simp only [pure, Except.pure, Except.ok.injEq] at hc7
  subst hc7
  obtain ⟨hT5, hm5⟩ := markDynamic_ti (cfg := cfg) _ s4 hT4
  exact ⟨hT5, fun x hx => hm5 x (hm4 x (hm3 x (has_soft hr2 hx)))⟩

/-- **`amend_step`**, for a step that has a row. -/
theorem amendStep_ti {cfg : KConfig} {s : KState} {step : Key} {inp env out vol : List String} {conc : List Key}
    {r : KState × AmendResult} (h : TI cfg s) (hstep : Has s step)
    (hc : s.amendStep cfg step inp env out vol conc = .ok r) : TI cfg r.1 ∧ Mono s r.1 := by
  unfold KState.amendStep at hc
  refine bind_ok_gen hc (fun _ => True) (fun _ _ => trivial) (fun r => TI cfg r.1 ∧ Mono s r.1) ?_
  intro _ r0 _ h0
  refine bind_ok_gen h0 (fun a => TI cfg a.1 ∧ Mono s a.1) (fun a ha => supplyFiles_ti h hstep ha)
    (fun r => TI cfg r.1 ∧ Mono s r.1) ?_
  intro a r1 ⟨ha, hma⟩ hh
  obtain ⟨s1, infos⟩ := a
  obtain ⟨hT, hm⟩ := amendProducts_ti ha (hma _ hstep) hh
  exact ⟨hT, hma.trans hm⟩

/-! ## `register_static_tree` -/

/-- The files the tree takes over are static files. -/
theorem treeGuard_static {s : KState} {creator : Key} {path : String} {hs : List Key}
    (h : s.treeGuard creator path = .ok (some hs)) :
    ∀ k ∈ hs, ∃ n ∈ s.nodes, n.key = k ∧ n.key.kind = .file ∧ n.fstate.role? = some .static := by
  unfold KState.treeGuard at h
  simp only [bind, Except.bind] at h
  cases ho : s.owningTree path with
  | error e => simp [ho] at h
  | ok ot =>
    simp only [ho] at h
    have key : ∀ (hs : List Key), ((List.mapM
                (fun (n : Node) =>
                  if n.fstate.role? ≠ some FileRole.static then (graphErr "tree contains product" : M Key)
                  else if n.creator ≠ some creator then graphErr "tree contains file of other creator" else pure n.key)
                ((List.filter
              (fun n => decide (n.key.kind = Kind.file ∧ (!n.detached) = true ∧ n.key.label.startsWith path = true))
              s.nodes).mergeSort fun a b => decide (a.key.label ≤ b.key.label))) = .ok hs) →
        ∀ k ∈ hs, ∃ n ∈ s.nodes, n.key = k ∧ n.key.kind = .file ∧ n.fstate.role? = some .static := by
      intro hs hm k hk
      obtain ⟨n, hn, hfn⟩ := mapM_ok_mem' _ _ _ hm k hk
      rw [List.mem_mergeSort, List.mem_filter] at hn
      obtain ⟨hn1, hn2⟩ := hn
      simp only [decide_eq_true_eq, Bool.not_eq_true'] at hn2
      split at hfn
      · simp [graphErr] at hfn
      · rename_i hrole
        split at hfn
        · simp [graphErr] at hfn
        · simp only [pure, Except.pure, Except.ok.injEq] at hfn
          exact ⟨n, hn1, hfn, hn2.1, by simpa using hrole⟩
    cases ot with
    | some t =>
      dsimp only at h
      split at h
      · simp [pure, Except.pure] at h
      · split at h
        · simp [graphErr] at h
        · simp [graphErr] at h
    | none =>
      dsimp only at h
      split at h
      · simp [graphErr] at h
      · cases hm : (List.mapM
                (fun (n : Node) =>
                  if n.fstate.role? ≠ some FileRole.static then (graphErr "tree contains product" : M Key)
                  else if n.creator ≠ some creator then graphErr "tree contains file of other creator" else pure n.key)
                ((List.filter
              (fun n => decide (n.key.kind = Kind.file ∧ (!n.detached) = true ∧ n.key.label.startsWith path = true))
              s.nodes).mergeSort fun a b => decide (a.key.label ≤ b.key.label))) with
        | error e => rw [hm] at h; simp at h
        | ok hs' =>
          rw [hm] at h
          simp only [pure, Except.pure, Except.ok.injEq, Option.some.injEq] at h
          subst h
          exact key hs' hm

/-- The hand-over as one rewrite of the node table. -/
theorem handOver_nodes (tk : Key) (hs : List Key) : ∀ s : KState,
    s.handOver tk hs = { s with nodes := s.nodes.map fun n => if n.key ∈ hs then { n with creator := some tk } else n } := by
  unfold KState.handOver
  induction hs with
  | nil =>
    intro s
    simp only [List.foldl_nil, List.not_mem_nil, if_false, List.map_id']
  | cons k ks ih =>
    intro s
    simp only [List.foldl_cons]
    rw [ih]
    unfold KState.modify
    simp only [List.map_map]
    congr 1
    apply List.map_congr_left
    intro n _
    simp only [Function.comp, List.mem_cons]
    by_cases h1 : n.key = k
    · simp only [h1, if_true, true_or]
      split <;> rfl
    · simp only [h1, if_false, false_or]

/-- The hand-over of static files to the tree keeps all three invariants (the forest part is
`treeCreateHandOver_pq` of `Lemmas/ReachLift.lean`). -/
theorem handOver_ti {cfg : KConfig} {s1 : KState} {tk : Key} {hs : List Key} (h : TI cfg s1)
    (hstatic : ∀ k ∈ hs, ∀ n, s1.find? k = some n → n.key.kind = .file ∧ n.fstate.role? = some .static)
    (hfo : Forest (s1.handOver tk hs)) : TI cfg (s1.handOver tk hs) ∧ Mono s1 (s1.handOver tk hs) := by
  have hS := h.st
  rw [handOver_nodes] at hfo ⊢
  have hgk : ∀ n : Node, (if n.key ∈ hs then { n with creator := some tk } else n).key = n.key := by
    intro n; split <;> rfl
  have hfind := find?_mapNodes s1 (fun n => if n.key ∈ hs then { n with creator := some tk } else n) hgk
  have hneutral : AfterNeutral fun n : Node => if n.key ∈ hs then { n with creator := some tk } else n := by
    intro n
    dsimp only
    split <;> exact ⟨rfl, rfl, rfl, rfl⟩
  refine ⟨⟨disc_of_wd (wd_neutral _ hneutral (wd_of_disc _ h.disc)), ?_, hfo⟩, ?_⟩
  · refine ⟨?_, ?_, ?_, ?_, hS.dkinds, ?_, ?_⟩
    · unfold KeysUnique
      simp only [List.map_map]
      have : ((fun n : Node => n.key) ∘ fun n => if n.key ∈ hs then { n with creator := some tk } else n) = fun n => n.key := by
        funext n; exact hgk n
      rw [this]; exact hS.keys
    · intro d hd hsrc f' hf'
      rw [hfind] at hf'
      cases hf : s1.find? d.snk with
      | none => rw [hf] at hf'; cases hf'
      | some f =>
        rw [hf] at hf'
        simp only [Option.map_some, Option.some.injEq] at hf'
        obtain ⟨hown, hrole⟩ := hS.own d hd hsrc f hf
        by_cases hin : f.key ∈ hs
        · exfalso
          have := (hstatic f.key hin f (by rw [find_key hf]; exact hf)).2
          exact hrole this
        · rw [if_neg hin] at hf'
          subst hf'
          exact ⟨hown, hrole⟩
    · intro n' hn' hs' c hc
      obtain ⟨n, hn, rfl⟩ := List.mem_map.1 hn'
      by_cases hin : n.key ∈ hs
      · exfalso
        rw [hgk] at hs'
        have := (hstatic n.key hin n (find?_of_mem hS.keys hn)).1
        rw [this] at hs'; cases hs'
      · rw [if_neg hin] at hs' hc
        exact hS.kinds n hn hs' c hc
    · intro n' hn' hk
      obtain ⟨n, hn, rfl⟩ := List.mem_map.1 hn'
      by_cases hin : n.key ∈ hs
      · exfalso
        rw [hgk] at hk
        have := (hstatic n.key hin n (find?_of_mem hS.keys hn)).1
        rw [hk] at this; cases this
      · rw [if_neg hin] at hk ⊢
        exact hS.root n hn hk
    · intro d hd
      have := hS.closed d hd
      rw [hfind, hfind]
      constructor
      · cases h1 : s1.find? d.src with
        | none => rw [h1] at this; exact absurd this.1 (by simp)
        | some a => rfl
      · cases h1 : s1.find? d.snk with
        | none => rw [h1] at this; exact absurd this.2 (by simp)
        | some a => rfl
    · intro n' hn' hr
      obtain ⟨n, hn, rfl⟩ := List.mem_map.1 hn'
      rw [hgk] at hr ⊢
      exact hS.roots n hn hr
  · intro x hx
    unfold Has at *
    rw [hfind]
    cases h1 : s1.find? x with
    | none => rw [h1] at hx; cases hx
    | some a => rfl

theorem registerStaticTree_ti {cfg : KConfig} {s : KState} {creator : Key} {path : String} {r : KState × List String}
    (h : TI cfg s) (hc : s.registerStaticTree cfg creator path = .ok r) : TI cfg r.1 ∧ Mono s r.1 := by
  unfold KState.registerStaticTree at hc
  refine bind_ok_gen hc (fun _ => True) (fun _ _ => trivial) (fun r => TI cfg r.1 ∧ Mono s r.1) ?_
  intro _ r1 _ hh
  refine bind_ok_gen hh (fun g => s.treeGuard creator (addSlash path) = .ok g) (fun g hg => hg)
    (fun r => TI cfg r.1 ∧ Mono s r.1) ?_
  intro g r2 hg hh2
  cases g with
  | none =>
    simp only [KState.registerTreeBody, pure, Except.pure, Except.ok.injEq] at hh2
    subst hh2; exact ⟨h, Mono.refl s⟩
  | some hs =>
    simp only [KState.registerTreeBody, bind, Except.bind] at hh2
    cases h1 : s.create (treeKey (addSlash path)) (some creator) .tree with
    | error e => simp [h1] at hh2
    | ok s1 =>
      simp only [h1] at hh2
      obtain ⟨hT1, hm1, _, _, _⟩ := h.create (init := .tree) trivial
        (by show (treeKey (addSlash path)).kind ≠ .step; rw [treeKey_kind]; intro hh; cases hh)
        (by rw [treeKey_kind]; intro hh; cases hh) h1
      obtain ⟨hci, _, _, _⟩ := create_spec h.st (init := .tree) trivial h1
      have hstatic : ∀ k ∈ hs, ∀ n, s1.find? k = some n → n.key.kind = .file ∧ n.fstate.role? = some .static := by
        intro k hk n hn
        obtain ⟨n0, hn0, hk0, hkind0, hrole0⟩ := treeGuard_static hg k hk
        have hne : k ≠ treeKey (addSlash path) := by
          intro he
          rw [hk0, he, treeKey_kind] at hkind0; cases hkind0
        have hrel := hci.keep.find k hne
        rw [hn] at hrel
        have hf0 : s.find? k = some n0 := by
          have := find?_of_mem h.st.keys hn0
          rw [hk0] at this; exact this
        rw [hf0] at hrel
        exact ⟨by rw [hrel.1]; exact hkind0, by rw [hrel.2.1]; exact hrole0⟩
      have hfo : Forest (s1.handOver (treeKey (addSlash path)) hs) :=
        (forest_iff _).2 (SkStable.treeCreateHandOver_pq skStable_ok ((forest_iff s).1 h.fo) hg h1)
      obtain ⟨hT2, hm2⟩ := handOver_ti hT1 hstatic hfo
      obtain ⟨hT3, hm3⟩ := declareStaticFiles_ti hT2 hh2
      exact ⟨hT3, Mono.trans hm1 (Mono.trans hm2 hm3)⟩

/-! ## The `declare_static` request -/

theorem registerTrees_ti {cfg : KConfig} {s : KState} {creator : Key} {trees : List String} {r : KState × List String}
    (h : TI cfg s) (hc : s.registerTrees cfg creator trees = .ok r) : TI cfg r.1 ∧ Mono s r.1 := by
  unfold KState.registerTrees at hc
  refine foldlM_inv (fun (a : KState × List String) => TI cfg a.1 ∧ Mono s a.1) _ trees ?_ (s, []) r ⟨h, Mono.refl s⟩ hc
  intro a x b ⟨ha, hma⟩ hb
  refine bind_ok_gen hb (fun c => TI cfg c.1 ∧ Mono a.1 c.1) (fun c hc' => registerStaticTree_ti ha hc')
    (fun (b : KState × List String) => TI cfg b.1 ∧ Mono s b.1) ?_
  intro c d ⟨hc1, hc2⟩ hd
  obtain ⟨s', chk⟩ := c
  simp only [pure, Except.pure, Except.ok.injEq] at hd
  subst hd
  exact ⟨hc1, hma.trans hc2⟩

theorem registerNglobs_ti {cfg : KConfig} {creator : Key} (patterns : List (String × List String)) :
    ∀ s s' : KState, TI cfg s → s.registerNglobs creator patterns = .ok s' → TI cfg s' ∧ Mono s s' := by
  intro s s' h hc
  unfold KState.registerNglobs at hc
  refine foldlM_inv (fun t => TI cfg t ∧ Mono s t) (fun (st : KState) (pm : String × List String) => st.registerNglob creator pm.1 pm.2)
    patterns ?_ s s' ⟨h, Mono.refl s⟩ hc
  intro a x b ⟨ha, hma⟩ hb
  obtain ⟨hT, hr⟩ := ha.of_soft (fun t => registerNglob_soft creator x.1 x.2) hb
  exact ⟨hT, fun y hy => has_soft hr (hma y hy)⟩

theorem declareStaticRequest_ti {cfg : KConfig} {s : KState} {creator : Key} {trees files : List String}
    {patterns : List (String × List String)} {r : KState × List String} (h : TI cfg s)
    (hc : s.declareStaticRequest cfg creator trees files patterns = .ok r) : TI cfg r.1 ∧ Mono s r.1 := by
  unfold KState.declareStaticRequest at hc
  refine bind_ok_gen hc (fun a => TI cfg a.1 ∧ Mono s a.1) (fun a ha => registerTrees_ti h ha)
    (fun r => TI cfg r.1 ∧ Mono s r.1) ?_
  intro a r1 ⟨ha, hma⟩ hh
  obtain ⟨s1, chk1⟩ := a
  simp only at hh
  refine bind_ok_gen hh (fun b => TI cfg b.1 ∧ Mono s1 b.1) (fun b hb => declareStaticFiles_ti ha hb)
    (fun r => TI cfg r.1 ∧ Mono s r.1) ?_
  intro b r2 ⟨hb, hmb⟩ hh2
  obtain ⟨s2, chk2⟩ := b
  simp only at hh2
  refine bind_ok_gen hh2 (fun s3 => TI cfg s3 ∧ Mono s2 s3) (fun s3 h3 => registerNglobs_ti patterns s2 s3 hb h3)
    (fun r => TI cfg r.1 ∧ Mono s r.1) ?_
  intro s3 r3 ⟨h3, hm3⟩ hh3
  simp only [pure, Except.pure, Except.ok.injEq] at hh3
  subst hh3
  exact ⟨h3, hma.trans (hmb.trans hm3)⟩

end StepupModel.K.Discipline
