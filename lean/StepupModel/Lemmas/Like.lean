import StepupModel.P.Like
/-! Helper lemmas for C18 (statements of the property live in `Props/C18.lean`). -/
namespace StepupModel.P.Like

theorem like_pct_nil (cs : Bool) (esc : Nat) (s : Str) : like cs esc [pct] s = true := by
  induction s with
  | nil => simp [like]
  | cons c t ih => rw [like.eq_def]; simp [ih]

theorem like_literal (cs : Bool) (c : Nat) (rest s : Str)
    (h1 : c ≠ pct) (h2 : c ≠ under) (h3 : c ≠ bslash) :
    like cs bslash (c :: rest) s =
      (match s with
       | [] => false
       | x :: t => ceq cs c x && like cs bslash rest t) := by
  rw [like.eq_def]; cases s <;> simp [h1, h2, h3]

theorem like_escaped (cs : Bool) (c : Nat) (rest s : Str) :
    like cs bslash (bslash :: c :: rest) s =
      (match s with
       | [] => false
       | x :: t => ceq cs c x && like cs bslash rest t) := by
  rw [like.eq_def]; cases s <;> simp [bslash, pct, under]

theorem likePrefix_eq_prefixBy (cs : Bool) (d s : Str) : likePrefix cs d s = prefixBy cs d s := by
  unfold likePrefix prefixPattern
  induction d generalizing s with
  | nil => simp [escape, prefixBy, like_pct_nil]
  | cons c cs' ih =>
    by_cases hc : c = bslash ∨ c = pct ∨ c = under
    · simp only [escape, hc, if_true, List.cons_append]
      rw [like_escaped]
      cases s with
      | nil => simp [prefixBy]
      | cons x t => simp [prefixBy, ih]
    · simp only [escape, hc, if_false, List.cons_append]
      have h1 : c ≠ pct := fun h => hc (Or.inr (Or.inl h))
      have h2 : c ≠ under := fun h => hc (Or.inr (Or.inr h))
      have h3 : c ≠ bslash := fun h => hc (Or.inl h)
      rw [like_literal cs c _ s h1 h2 h3]
      cases s with
      | nil => simp [prefixBy]
      | cons x t => simp [prefixBy, ih]

theorem prefixBy_true_iff (d s : Str) : prefixBy true d s = true ↔ d <+: s := by
  induction d generalizing s with
  | nil => simp [prefixBy]
  | cons a as ih =>
    cases s with
    | nil => simp [prefixBy]
    | cons b bs => simp [prefixBy, ceq, ih, List.cons_prefix_cons]

theorem prefixBy_false_iff (d s : Str) :
    prefixBy false d s = true ↔ d.map foldc <+: s.map foldc := by
  induction d generalizing s with
  | nil => simp [prefixBy]
  | cons a as ih =>
    cases s with
    | nil => simp [prefixBy]
    | cons b bs => simp [prefixBy, ceq, ih, List.cons_prefix_cons]

/-! ### The half-open label range -/

theorem ltB_irrefl (a : Str) : ltB a a = false := by
  induction a with
  | nil => simp [ltB]
  | cons x xs ih => simp [ltB, ih]

theorem range_nil (c : Nat) (s : Str) :
    (leB [c] s && ltB s [c + 1]) = true ↔ ∃ t, s = c :: t := by
  cases s with
  | nil => simp [leB, ltB]
  | cons a as => cases as <;> simp [leB, ltB] <;> grind

theorem range_cons (x c : Nat) (xs s : Str) :
    (leB (x :: xs ++ [c]) s && ltB s (x :: xs ++ [c + 1])) = true ↔
      ∃ t, s = x :: t ∧ (leB (xs ++ [c]) t && ltB t (xs ++ [c + 1])) = true := by
  cases s with
  | nil => simp [leB, ltB]
  | cons a as =>
    simp only [leB, List.cons_append, ltB]
    by_cases h1 : a < x
    · simp [h1]; grind
    · by_cases h2 : x < a
      · simp [h1, h2]; grind
      · have : a = x := by omega
        subst this; simp

theorem range_iff_prefix (p : Str) (c : Nat) (s : Str) :
    (leB (p ++ [c]) s && ltB s (p ++ [c + 1])) = true ↔ (p ++ [c]) <+: s := by
  induction p generalizing s with
  | nil =>
    simp only [List.nil_append]
    rw [range_nil]
    constructor
    · rintro ⟨t, rfl⟩; simp
    · intro h; cases s with
      | nil => simp at h
      | cons a as => simp [List.cons_prefix_cons] at h; exact ⟨as, by rw [h]⟩
  | cons x xs ih =>
    rw [range_cons]
    constructor
    · rintro ⟨t, rfl, h⟩
      simpa [List.cons_prefix_cons] using (ih t).1 h
    · intro h
      cases s with
      | nil => simp at h
      | cons a as =>
        simp [List.cons_prefix_cons] at h
        exact ⟨as, by rw [h.1], (ih as).2 h.2⟩

theorem dirRangeUpper_snoc (p : Str) : dirRangeUpper (p ++ [slash]) = some (p ++ [slash + 1]) := by
  simp [dirRangeUpper]

theorem dirRangeUpper_some {d hi : Str} (h : dirRangeUpper d = some hi) :
    ∃ p, d = p ++ [slash] ∧ hi = p ++ [slash + 1] := by
  unfold dirRangeUpper at h
  cases hl : d.getLast? with
  | none => simp [hl] at h
  | some c =>
    simp only [hl] at h
    split at h
    · next hc =>
      subst hc
      refine ⟨d.dropLast, ?_, by simpa using h.symm⟩
      have hne : d ≠ [] := by intro hd; simp [hd] at hl
      have := List.dropLast_concat_getLast hne
      rw [List.getLast?_eq_some_getLast hne] at hl
      simp at hl
      rw [hl] at this
      exact this.symm
    · simp at h

theorem substrEq_iff (label arg : Str) : substrEq label arg = true ↔ label <+: arg := by
  simp only [substrEq, beq_iff_eq]
  constructor
  · intro h; rw [h]; exact List.take_prefix _ _
  · intro h; exact (List.prefix_iff_eq_take.mp h)

end StepupModel.P.Like
