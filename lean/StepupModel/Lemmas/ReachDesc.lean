import StepupModel.Lemmas.ReachFrame
import StepupModel.Lemmas.StableInst
/-!
# The recursive walk behind `RECURSIVELY_SET_DETACHED`, and what the skeleton writes do

Part 1: `KState.descendants s k` (a `UNION` recursion run `#nodes` times) is exactly the set of
recursive products `Sk.Desc s.skel k`: soundness is an invariant of the passes, completeness comes
from a counting argument (a pass that adds nothing has reached the fixed point; a pass that adds a
key lowers the number of rows whose key is not collected yet, and there are `#nodes` of them at
most).  No hypothesis on the state is needed, cycles and duplicate keys included.

Part 2: the effect on the creator forest `s.skel` of the writes that touch it: `setDetachedRow`,
`setDetachedRec`, `setCreator`, `detach`, `reattach`, `create`, `handOver`, `deletePass`.
No property statements here.
-/
namespace StepupModel.K
open StepupModel.Lemmas Sk
set_option linter.unusedSimpArgs false

/-! ## Part 1: the walk -/

/-- One row of one pass of the recursion. -/
def descBody (k : Key) (acc : List Key) (n : Node) : List Key :=
  match n.creator with
  | some c => if (c = k ∨ acc.contains c) ∧ n.key ≠ c ∧ !acc.contains n.key then acc ++ [n.key] else acc
  | none => acc

/-- One pass over the rows `l`. -/
def descPass (k : Key) (l : List Node) (acc : List Key) : List Key := l.foldl (descBody k) acc

theorem descendants_eq (s : KState) (k : Key) :
    s.descendants k = (List.range s.nodes.length).foldl (fun acc _ => descPass k s.nodes acc) [] := rfl

theorem mem_descBody {k : Key} {acc : List Key} {n : Node} {x : Key} (h : x ∈ descBody k acc n) :
    x ∈ acc ∨ (x = n.key ∧ ¬ x ∈ acc ∧ ∃ c, n.creator = some c ∧ (c = k ∨ c ∈ acc) ∧ n.key ≠ c) := by
  unfold descBody at h
  cases hc : n.creator with
  | none => simp only [hc] at h; exact Or.inl h
  | some c =>
    simp only [hc] at h
    split at h
    · rename_i hcond
      simp only [List.mem_append, List.mem_singleton] at h
      rcases h with h | h
      · exact Or.inl h
      · refine Or.inr ⟨h, ?_, c, rfl, ?_, hcond.2.1⟩
        · have := hcond.2.2
          simp only [Bool.not_eq_true', List.contains_eq_mem, decide_eq_false_iff_not] at this
          rw [h]; exact this
        · rcases hcond.1 with h1 | h1
          · exact Or.inl h1
          · exact Or.inr (List.contains_iff_mem.1 h1)
    · exact Or.inl h

theorem descBody_mono {k : Key} {acc : List Key} {n : Node} {x : Key} (h : x ∈ acc) : x ∈ descBody k acc n := by
  unfold descBody
  cases n.creator with
  | none => exact h
  | some c =>
    simp only
    split
    · exact List.mem_append_left _ h
    · exact h

theorem descBody_add {k : Key} {acc : List Key} {n : Node} {c : Key} (hc : n.creator = some c)
    (hck : c = k ∨ c ∈ acc) (hne : n.key ≠ c) : n.key ∈ descBody k acc n := by
  unfold descBody
  simp only [hc]
  by_cases hin : n.key ∈ acc
  · split
    · exact List.mem_append_left _ hin
    · exact hin
  · have hcond : (c = k ∨ acc.contains c = true) ∧ n.key ≠ c ∧ (!acc.contains n.key) = true := by
      refine ⟨?_, hne, ?_⟩
      · rcases hck with h | h
        · exact Or.inl h
        · exact Or.inr (List.contains_iff_mem.2 h)
      · simp only [Bool.not_eq_true', List.contains_eq_mem, decide_eq_false_iff_not]; exact hin
    rw [if_pos hcond]
    exact List.mem_append_right _ (List.mem_singleton.2 rfl)

theorem descPass_mono {k : Key} (l : List Node) {acc : List Key} {x : Key} (h : x ∈ acc) : x ∈ descPass k l acc := by
  unfold descPass
  induction l generalizing acc with
  | nil => exact h
  | cons n ns ih => simp only [List.foldl_cons]; exact ih (descBody_mono h)

/-- Whatever a pass adds is the key of a row, created by `k` or by something collected. -/
theorem mem_descPass {k : Key} (l : List Node) {acc : List Key} {x : Key} (h : x ∈ descPass k l acc) :
    x ∈ acc ∨ (¬ x ∈ acc ∧ ∃ n ∈ l, n.key = x) := by
  unfold descPass at h
  induction l generalizing acc with
  | nil => exact Or.inl h
  | cons n ns ih =>
    simp only [List.foldl_cons] at h
    rcases ih h with h1 | ⟨h1, m, hm, hmk⟩
    · rcases mem_descBody h1 with h2 | ⟨h2, h3, _⟩
      · exact Or.inl h2
      · exact Or.inr ⟨h3, n, List.mem_cons_self, h2.symm⟩
    · by_cases hx : x ∈ acc
      · exact Or.inl hx
      · exact Or.inr ⟨hx, m, List.mem_cons_of_mem _ hm, hmk⟩

theorem descPass_sound {k : Key} (X : List Tri) (l : List Node) (hl : ∀ n ∈ l, n.tri ∈ X) {acc : List Key}
    (hacc : ∀ x ∈ acc, Desc X k x) : ∀ x ∈ descPass k l acc, Desc X k x := by
  unfold descPass
  induction l generalizing acc with
  | nil => exact hacc
  | cons n ns ih =>
    simp only [List.foldl_cons]
    refine ih (fun m hm => hl m (List.mem_cons_of_mem _ hm)) ?_
    intro x hx
    rcases mem_descBody hx with h | ⟨h1, _, c, hc, hck, hne⟩
    · exact hacc x h
    · subst h1
      have hrow : (n.key, some c, n.detached) ∈ X := by
        have := hl n List.mem_cons_self
        unfold Node.tri at this
        rw [hc] at this; exact this
      refine Desc.of_row hrow hne ?_
      rcases hck with h | h
      · exact Or.inl h
      · exact Or.inr (hacc c h)

/-- A pass collects every row whose creator is `k` or was collected before the pass. -/
theorem descPass_progress {k : Key} (l : List Node) {acc : List Key} {n : Node} (hn : n ∈ l) {c : Key}
    (hc : n.creator = some c) (hck : c = k ∨ c ∈ acc) (hne : n.key ≠ c) : n.key ∈ descPass k l acc := by
  unfold descPass
  induction l generalizing acc with
  | nil => cases hn
  | cons m ms ih =>
    simp only [List.foldl_cons]
    simp only [List.mem_cons] at hn
    rcases hn with rfl | hn
    · exact descPass_mono (k := k) ms (descBody_add hc hck hne)
    · refine ih hn ?_
      rcases hck with h | h
      · exact Or.inl h
      · exact Or.inr (descBody_mono h)

/-- The fixed point of the recursion. -/
def DescClosed (k : Key) (l : List Node) (acc : List Key) : Prop :=
  ∀ n ∈ l, ∀ c, n.creator = some c → (c = k ∨ c ∈ acc) → n.key ≠ c → n.key ∈ acc

theorem descBody_closed {k : Key} {l : List Node} {acc : List Key} (h : DescClosed k l acc) {n : Node} (hn : n ∈ l) :
    descBody k acc n = acc := by
  unfold descBody
  cases hc : n.creator with
  | none => rfl
  | some c =>
    simp only
    split
    · rename_i hcond
      have hin : n.key ∈ acc := by
        refine h n hn c hc ?_ hcond.2.1
        rcases hcond.1 with h1 | h1
        · exact Or.inl h1
        · exact Or.inr (List.contains_iff_mem.1 h1)
      have := hcond.2.2
      simp only [Bool.not_eq_true', List.contains_eq_mem, decide_eq_false_iff_not] at this
      exact absurd hin this
    · rfl

theorem descPass_closed {k : Key} {l : List Node} {acc : List Key} (h : DescClosed k l acc) :
    descPass k l acc = acc := by
  unfold descPass
  have : ∀ (l' : List Node), (∀ n ∈ l', n ∈ l) → l'.foldl (descBody k) acc = acc := by
    intro l'
    induction l' with
    | nil => intro _; rfl
    | cons n ns ih =>
      intro hsub
      simp only [List.foldl_cons]
      rw [descBody_closed h (hsub n List.mem_cons_self)]
      exact ih (fun m hm => hsub m (List.mem_cons_of_mem _ hm))
  exact this l (fun _ h => h)

/-- The number of rows whose key is not collected yet. -/
def descMu (l : List Node) (acc : List Key) : Nat := (l.filter fun n => !acc.contains n.key).length

theorem filter_length_le_of_imp {α : Type} (p q : α → Bool) (l : List α) (h : ∀ a ∈ l, q a = true → p a = true) :
    (l.filter q).length ≤ (l.filter p).length := by
  induction l with
  | nil => exact Nat.le_refl _
  | cons a as ih =>
    have ih' := ih (fun b hb => h b (List.mem_cons_of_mem _ hb))
    simp only [List.filter_cons]
    by_cases hq : q a = true
    · have hp := h a List.mem_cons_self hq
      simp only [hq, hp, if_true, List.length_cons]
      omega
    · simp only [hq, Bool.false_eq_true, if_false]
      by_cases hp : p a = true
      · simp only [hp, if_true, List.length_cons]; omega
      · simp only [hp, Bool.false_eq_true, if_false]; exact ih'

theorem filter_length_lt_of_imp {α : Type} (p q : α → Bool) (l : List α) (h : ∀ a ∈ l, q a = true → p a = true)
    (a : α) (ha : a ∈ l) (hpa : p a = true) (hqa : q a = false) : (l.filter q).length < (l.filter p).length := by
  induction l with
  | nil => cases ha
  | cons b bs ih =>
    have hle := filter_length_le_of_imp p q bs (fun c hc => h c (List.mem_cons_of_mem _ hc))
    simp only [List.filter_cons]
    simp only [List.mem_cons] at ha
    rcases ha with rfl | ha
    · simp only [hpa, hqa, if_true, Bool.false_eq_true, if_false, List.length_cons]
      omega
    · have ih' := ih (fun c hc => h c (List.mem_cons_of_mem _ hc)) ha
      by_cases hq : q b = true
      · have hp := h b List.mem_cons_self hq
        simp only [hq, hp, if_true, List.length_cons]
        omega
      · simp only [hq, Bool.false_eq_true, if_false]
        by_cases hp : p b = true
        · simp only [hp, if_true, List.length_cons]; omega
        · simp only [hp, Bool.false_eq_true, if_false]; exact ih'

/-- One pass: either the fixed point was reached before it, or it lowers the count. -/
theorem descPass_step (k : Key) (l : List Node) (acc : List Key) :
    DescClosed k l acc ∨ descMu l (descPass k l acc) < descMu l acc := by
  by_cases hnew : ∃ x, x ∈ descPass k l acc ∧ ¬ x ∈ acc
  · right
    obtain ⟨x, hx, hxa⟩ := hnew
    rcases mem_descPass l hx with h | ⟨_, n, hn, hnk⟩
    · exact absurd h hxa
    · unfold descMu
      refine filter_length_lt_of_imp _ _ l ?_ n hn ?_ ?_
      · intro a _ ha
        simp only [Bool.not_eq_true', List.contains_eq_mem, decide_eq_false_iff_not] at ha ⊢
        exact fun h => ha (descPass_mono l h)
      · simp only [Bool.not_eq_true', List.contains_eq_mem, decide_eq_false_iff_not]
        rw [hnk]; exact hxa
      · simp only [Bool.not_eq_false', List.contains_eq_mem, decide_eq_true_eq]
        rw [hnk]; exact hx
  · left
    intro n hn c hc hck hne
    have := descPass_progress (k := k) l hn hc hck hne
    by_cases hin : n.key ∈ acc
    · exact hin
    · exact absurd ⟨n.key, this, hin⟩ hnew

theorem foldl_range_succ {α : Type} (f : α → α) (a : α) (j : Nat) :
    (List.range (j + 1)).foldl (fun acc _ => f acc) a = f ((List.range j).foldl (fun acc _ => f acc) a) := by
  rw [List.range_succ, List.foldl_append]
  rfl

theorem descIter_inv (k : Key) (l : List Node) (j : Nat) :
    DescClosed k l ((List.range j).foldl (fun acc _ => descPass k l acc) []) ∨
      descMu l ((List.range j).foldl (fun acc _ => descPass k l acc) []) + j ≤ l.length := by
  induction j with
  | zero =>
    right
    unfold descMu
    simp only [List.range_zero, List.foldl_nil, Nat.add_zero]
    exact List.length_filter_le _ _
  | succ j ih =>
    rw [foldl_range_succ (descPass k l)]
    rcases ih with h | h
    · left; rw [descPass_closed h]; exact h
    · rcases descPass_step k l ((List.range j).foldl (fun acc _ => descPass k l acc) []) with h1 | h1
      · left; rw [descPass_closed h1]; exact h1
      · right; omega

/-- The walk reaches the fixed point. -/
theorem descendants_closed (s : KState) (k : Key) : DescClosed k s.nodes (s.descendants k) := by
  rw [descendants_eq]
  rcases descIter_inv k s.nodes s.nodes.length with h | h
  · exact h
  · intro n hn c hc hck hne
    have hz : descMu s.nodes ((List.range s.nodes.length).foldl (fun acc _ => descPass k s.nodes acc) []) = 0 := by
      omega
    unfold descMu at hz
    have hnil := List.eq_nil_of_length_eq_zero hz
    have hnot : ¬ n ∈ s.nodes.filter (fun n => !((List.range s.nodes.length).foldl
        (fun acc _ => descPass k s.nodes acc) []).contains n.key) := by
      rw [hnil]; exact List.not_mem_nil
    by_cases hin : n.key ∈ (List.range s.nodes.length).foldl (fun acc _ => descPass k s.nodes acc) []
    · exact hin
    · exfalso
      apply hnot
      refine List.mem_filter.2 ⟨hn, ?_⟩
      simp only [Bool.not_eq_true', List.contains_eq_mem, decide_eq_false_iff_not]
      exact hin

theorem mem_skel_of_mem {s : KState} {n : Node} (h : n ∈ s.nodes) : n.tri ∈ s.skel :=
  List.mem_map.2 ⟨n, h, rfl⟩

theorem descendants_sound (s : KState) (k : Key) : ∀ x ∈ s.descendants k, Desc s.skel k x := by
  rw [descendants_eq]
  generalize s.nodes.length = j
  induction j with
  | zero => intro x hx; simp at hx
  | succ j ih =>
    rw [foldl_range_succ (descPass k s.nodes)]
    exact descPass_sound s.skel s.nodes (fun n hn => mem_skel_of_mem hn) ih

/-- **The recursive walk is exact**: `descendants s k` is the set of recursive products of `k`. -/
theorem mem_descendants (s : KState) (k x : Key) : x ∈ s.descendants k ↔ Desc s.skel k x := by
  constructor
  · exact descendants_sound s k x
  · intro h
    have hcl := descendants_closed s k
    induction h with
    | direct x d hm hne =>
      obtain ⟨n, hn, htri⟩ := List.mem_map.1 hm
      simp only [Node.tri, Prod.mk.injEq] at htri
      obtain ⟨h1, h2, _⟩ := htri
      rw [← h1]
      exact hcl n hn k h2 (Or.inl rfl) (by rw [h1]; exact hne)
    | trans x c d hm _ hne ih =>
      obtain ⟨n, hn, htri⟩ := List.mem_map.1 hm
      simp only [Node.tri, Prod.mk.injEq] at htri
      obtain ⟨h1, h2, _⟩ := htri
      rw [← h1]
      exact hcl n hn c h2 (Or.inr ih) (by rw [h1]; exact hne)

/-! ## Part 2: the model's observations, read off the creator forest -/

theorem skNodup_iff (s : KState) : Sk.Nodup s.skel ↔ KeysNodup s := by
  rw [keysNodup_iff]
  unfold Sk.Nodup
  rw [skel_keys]

theorem find?_tri {s : KState} {k : Key} {n : Node} (h : s.find? k = some n) : n.tri ∈ s.skel ∧ n.key = k := by
  have := find?_mem s k n h
  exact ⟨mem_skel_of_mem this.1, this.2⟩

theorem find?_row {s : KState} {k : Key} {n : Node} (h : s.find? k = some n) : (k, n.creator, n.detached) ∈ s.skel := by
  have := find?_tri h
  unfold Node.tri at this
  rw [this.2] at this
  exact this.1

theorem has_iff_skel (s : KState) (k : Key) : s.has k = true ↔ Has s.skel k := by
  unfold KState.has KState.find? Has KState.skel
  rw [List.find?_isSome]
  constructor
  · rintro ⟨n, hn, hk⟩
    exact ⟨n.tri, List.mem_map.2 ⟨n, hn, rfl⟩, of_decide_eq_true hk⟩
  · rintro ⟨t, ht, hk⟩
    obtain ⟨n, hn, rfl⟩ := List.mem_map.1 ht
    exact ⟨n, hn, decide_eq_true hk⟩

theorem find?_none_iff (s : KState) (k : Key) : s.find? k = none ↔ ¬ Has s.skel k := by
  rw [← has_iff_skel]
  unfold KState.has
  cases s.find? k <;> simp

theorem find?_some_has {s : KState} {k : Key} {n : Node} (h : s.find? k = some n) : Has s.skel k :=
  ⟨_, find?_row h, rfl⟩

/-- With one row per key, `find?` returns *the* row of the key. -/
theorem find?_of_row {s : KState} (hn : Sk.Nodup s.skel) {k : Key} {c : Option Key} {d : Bool}
    (h : (k, c, d) ∈ s.skel) : ∃ n, s.find? k = some n ∧ n.creator = c ∧ n.detached = d := by
  cases hf : s.find? k with
  | none => exact absurd ⟨_, h, rfl⟩ ((find?_none_iff s k).1 hf)
  | some n =>
    have := Sk.uniq hn (find?_row hf) h rfl
    simp only [Prod.mk.injEq, true_and] at this
    exact ⟨n, rfl, this.1, this.2⟩

theorem isDetached_false_iff {s : KState} (hn : Sk.Nodup s.skel) (k : Key) : s.isDetached k = false ↔ Att s.skel k := by
  unfold KState.isDetached
  constructor
  · intro h
    cases hf : s.find? k with
    | none => simp [hf] at h
    | some n =>
      simp only [hf] at h
      exact ⟨_, find?_row hf, rfl, h⟩
  · rintro ⟨t, ht, hk, hd⟩
    obtain ⟨c, d⟩ := t
    obtain ⟨c, d⟩ := d
    simp only at hk hd
    subst hk hd
    obtain ⟨n, hf, _, h2⟩ := find?_of_row hn ht
    simp only [hf]; exact h2

theorem creatorDetached_false_iff {s : KState} (hn : Sk.Nodup s.skel) (c : Option Key) :
    s.creatorDetached c = false ↔ ∃ c', c = some c' ∧ Att s.skel c' := by
  unfold KState.creatorDetached
  cases c with
  | none => simp
  | some c' =>
    simp only [Option.some.injEq, exists_eq_left']
    exact isDetached_false_iff hn c'

/-- What the triggers and CHECKs accept for a creator: the root row only keeps itself, attached;
any other row gets another, existing row of an accepted kind. -/
theorem creatorAllowed_some {s : KState} {k ck : Key} {d : Bool} (h : s.creatorAllowed k (some ck) d = true) :
    (k.kind = .root ∧ ck = k ∧ d = false) ∨
    (k.kind ≠ .root ∧ ck ≠ k ∧ Has s.skel ck ∧ creatorKindOk k.kind ck.kind = true) := by
  unfold KState.creatorAllowed at h
  by_cases hk : k.kind = .root
  · rw [if_pos hk] at h
    simp only [Bool.and_eq_true, decide_eq_true_eq, Option.some.injEq, Bool.not_eq_true'] at h
    exact Or.inl ⟨hk, h.1, h.2⟩
  · rw [if_neg hk] at h
    simp only [Bool.and_eq_true, decide_eq_true_eq] at h
    obtain ⟨h1, h2⟩ := h
    cases hf : s.find? ck with
    | none => simp [hf] at h1
    | some cn =>
      simp only [hf] at h1
      have := find?_tri hf
      rw [this.2] at h1
      exact Or.inr ⟨hk, h2, find?_some_has hf, h1⟩

/-- No row of kind root loses its creator. -/
theorem creatorAllowed_none {s : KState} {k : Key} {d : Bool} (h : s.creatorAllowed k none d = true) :
    d = true ∧ k.kind ≠ .root := by
  unfold KState.creatorAllowed at h
  by_cases hk : k.kind = .root
  · rw [if_pos hk] at h
    simp at h
  · rw [if_neg hk] at h
    exact ⟨h, hk⟩

theorem insertAllowed_some {s : KState} {k ck : Key} (h : s.insertAllowed k (some ck) = true) :
    Has s.skel ck ∧ creatorKindOk k.kind ck.kind = true := by
  unfold KState.insertAllowed at h
  cases hf : s.find? ck with
  | none => simp [hf] at h
  | some cn =>
    simp only [hf] at h
    have := find?_tri hf
    rw [this.2] at h
    exact ⟨find?_some_has hf, h⟩

/-! ## Part 3: what the skeleton writes do to the creator forest -/

theorem skel_modify_map (s : KState) (k : Key) (f : Node → Node) (G : Tri → Tri)
    (hf : ∀ n, n.key = k → (f n).tri = G n.tri) :
    (s.modify k f).skel = s.skel.map fun t => if t.1 = k then G t else t := by
  unfold KState.modify KState.skel
  simp only [List.map_map]
  apply List.map_congr_left
  intro n _
  simp only [Function.comp]
  by_cases h : n.key = k
  · have h' : n.tri.1 = k := h
    rw [if_pos h, if_pos h']; exact hf n h
  · have h' : ¬ n.tri.1 = k := h
    rw [if_neg h, if_neg h']

theorem skel_flagReadySinks (s : KState) (k : Key) : (s.flagReadySinks k).skel = s.skel := by
  unfold KState.flagReadySinks
  exact skel_modifyWhere _ _ _ (fun _ => rfl)

/-- `UPDATE node SET detached = ? WHERE key = k` -/
theorem skel_setDetachedRow (s : KState) (k : Key) (d : Bool) :
    (s.setDetachedRow k d).skel = s.skel.map fun t => if t.1 = k then (t.1, t.2.1, d) else t := by
  unfold KState.setDetachedRow
  cases hf : s.find? k with
  | none =>
    simp only
    have hno := (find?_none_iff s k).1 hf
    symm
    conv => rhs; rw [← List.map_id s.skel]
    apply List.map_congr_left
    intro t ht
    have : ¬ t.1 = k := fun h => hno ⟨t, ht, h⟩
    rw [if_neg this]; rfl
  | some n =>
    simp only
    have hm := skel_modify_map s k (fun n => { n with detached := d }) (fun t => (t.1, t.2.1, d)) (fun _ _ => rfl)
    split
    · rw [skel_flagReadySinks]; exact hm
    · exact hm

theorem skel_foldl_setDetachedRow (l : List Key) (s : KState) (d : Bool) :
    (l.foldl (fun s x => s.setDetachedRow x d) s).skel = setD (fun x => l.contains x) d s.skel := by
  induction l generalizing s with
  | nil =>
    simp only [List.foldl_nil]
    unfold setD
    symm
    conv => rhs; rw [← List.map_id s.skel]
    apply List.map_congr_left
    intro t _
    simp
  | cons x xs ih =>
    simp only [List.foldl_cons]
    rw [ih, skel_setDetachedRow]
    unfold setD
    rw [List.map_map]
    apply List.map_congr_left
    intro t _
    simp only [Function.comp, List.contains_cons]
    by_cases hx : t.1 = x
    · subst hx
      simp
    · have : (t.1 == x) = false := by simpa using hx
      simp only [hx, if_false, this, Bool.false_or]

/-- `RECURSIVELY_SET_DETACHED`: the flag of exactly the recursive products of `k`. -/
theorem skel_setDetachedRec (s : KState) (k : Key) (d : Bool) :
    (s.setDetachedRec k d).skel = setD (fun x => (s.descendants k).contains x) d s.skel := by
  unfold KState.setDetachedRec
  exact skel_foldl_setDetachedRow _ s d

theorem descendants_contains (s : KState) (k x : Key) : (s.descendants k).contains x = true ↔ Desc s.skel k x := by
  rw [List.contains_iff_mem]
  exact mem_descendants s k x

/-- `UPDATE node SET creator = ?, detached = ? WHERE key = k` (accepted by the triggers). -/
theorem skel_setCreator {s s' : KState} {k : Key} {c : Option Key} {d : Bool} (h : s.setCreator k c d = .ok s') :
    s'.skel = setRow k c d s.skel ∧ s.creatorAllowed k c d = true := by
  unfold KState.setCreator at h
  split at h
  · rename_i hall
    simp only [pure, Except.pure, Except.ok.injEq] at h
    subst h
    refine ⟨?_, hall⟩
    rw [skel_setDetachedRow, skel_modify_map s k (fun n => { n with creator := c }) (fun t => (t.1, c, t.2.2)) (fun _ _ => rfl)]
    unfold setRow
    rw [List.map_map]
    apply List.map_congr_left
    intro t _
    simp only [Function.comp]
    by_cases hk : t.1 = k
    · simp [hk]
    · simp [hk]
  · cases h

theorem skel_appendNode (s : KState) (k : Key) (c : Option Key) :
    (s.appendNode k c).skel = s.skel ++ [(k, c, s.creatorDetached c)] := by
  unfold KState.appendNode KState.skel
  simp only [List.map_append, List.map_cons, List.map_nil]
  rfl

/-- the plain `UPDATE node SET creator = ?` of `register_static_tree` -/
theorem skel_handOver (s : KState) (tk : Key) (hs : List Key) : (s.handOver tk hs).skel = hand tk hs s.skel := by
  unfold KState.handOver
  induction hs generalizing s with
  | nil =>
    simp only [List.foldl_nil]
    unfold hand
    symm
    conv => rhs; rw [← List.map_id s.skel]
    apply List.map_congr_left
    intro t _
    simp
  | cons x xs ih =>
    simp only [List.foldl_cons]
    rw [ih, skel_modify_map s x (fun n => { n with creator := some tk }) (fun t => (t.1, some tk, t.2.2)) (fun _ _ => rfl)]
    unfold hand
    rw [List.map_map]
    apply List.map_congr_left
    intro t _
    simp only [Function.comp, List.contains_cons]
    by_cases hx : t.1 = x
    · subst hx
      simp
    · have : (t.1 == x) = false := by simpa using hx
      simp only [hx, if_false, this, Bool.false_or]

theorem skel_of_cores {s s' : KState} (h : s'.cores = s.cores) : s'.skel = s.skel := by
  have e : ∀ (t : KState), t.skel = t.cores.map (fun c => (c.1, c.2.1, c.2.2.1)) := by
    intro t
    unfold KState.skel KState.cores
    rw [List.map_map]
    rfl
  rw [e, e, h]

theorem skel_deleteDeps (s : KState) (p : Dep → Bool) : (s.deleteDeps p).skel = s.skel :=
  skel_of_cores (deleteDeps_spec s p).1

/-- One pass of `Trellis.delete_detached` removes the rows of its candidates, nothing else. -/
theorem skel_deletePass {s s' : KState} {cs : List Key} {b : Bool} (h : s.deletePass = .ok (s', cs, b)) :
    s'.skel = s.skel.filter (fun t => !((s.cands.map (·.key)).contains t.1)) := by
  obtain ⟨_, hspec⟩ := deletePass_spec s s' cs b h
  have e : ∀ (t : KState), t.skel = t.cores.map (fun c => (c.1, c.2.1, c.2.2.1)) := by
    intro t
    unfold KState.skel KState.cores
    rw [List.map_map]
    rfl
  rw [e, e, hspec.cores, List.filter_map]
  congr 1
  apply List.filter_congr
  intro c _
  simp only [Function.comp]
  exact all_ne_contains s.cands c.1

end StepupModel.K
