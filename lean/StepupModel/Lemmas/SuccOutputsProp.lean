import StepupModel.Lemmas.SuccOutputsCleanup
/-!
# I4: the leaves of the invariant, the state propagation

`leafJ`: the invariant `J X W N` of `Lemmas/SuccOutputsBase.lean` is stable under the context-free writes
(`Leaf`).  `writeFile_J`: a file state write with its context.  `markStepPending_J`: the recursion
`mark_step_pending` / `mark_file_outdated` / `mark_consuming_steps_pending` keeps the invariant: the step is
made PENDING *before* its BUILT sinks become OUTDATED, and a file with an edge from the step is owned by the
step or by nobody, so no SUCCEEDED owner is left behind.  `Mid` adds this to the leaves; its chain
(generated from `Lemmas/Stable.lean`) covers the operations built from the propagation.  No property
statements here.
-/
namespace StepupModel.K.SuccOut
open StepupModel.K.MetaAfter StepupModel.K.Discipline StepupModel.Lemmas StepupModel.K.Ever
set_option linter.unusedSimpArgs false
set_option linter.unusedVariables false

theorem rowMono_same {n n' : Node} (h1 : n'.creator = n.creator) (h2 : n'.fstate = n.fstate)
    (h3 : n'.sstate = n.sstate) : RowMono n n' :=
  ⟨fun _ => ⟨.inl h1, .inl h2⟩, fun h => h3 ▸ h⟩

/-- **The invariant is stable under the context-free writes.** -/
theorem leafJ (X : Key → Prop) (W : Key → Key → Prop) (N : Key → Prop) : Leaf (J X W N) where
  cache := fun s p f hf hp => hp.cache p f hf
  detached := fun s k d hp => hp.modify k _ (fun n hn => hn) (fun n _ => rowMono_same rfl rfl rfl)
  creator := fun s k c d _ hc hp => by
    refine hp.modify k _ (fun n hn => hn) (fun n hn => ?_)
    have hk := find?_key s k n hn
    refine ⟨fun hfile => ⟨?_, .inl rfl⟩, id⟩
    rcases hc with hc | hc
    · exact .inr hc
    · exact absurd (hk ▸ hfile) hc
  stepWrite := fun s k n n' st d hf hw hst hp => hp.stepWrite hf hw hst
  stepInit := fun s k i hp => by
    unfold KState.initStepRow
    exact hp.modify k _ (fun n hn => hn) (fun n _ => ⟨fun _ => ⟨.inl rfl, .inl rfl⟩, fun h => by cases h⟩)
  setHash := fun s k h hp => by
    unfold KState.setHash
    exact hp.modify k _ (fun n hn => hn) (fun n _ => rowMono_same rfl rfl rfl)
  deleteHash := fun s k hp => by
    unfold KState.deleteHash
    refine hp.modify k _ (fun n hn => ?_) (fun n _ => ?_)
    · split <;> exact hn
    · split
      · exact rowMono_same rfl rfl rfl
      · exact RowMono.refl n
  bumpDefer := fun s k hp => hp.modify k _ (fun n hn => hn) (fun n _ => rowMono_same rfl rfl rfl)
  hold := fun s k hp => hp.modify k _ (fun n hn => hn) (fun n _ => rowMono_same rfl rfl rfl)
  release := fun s k n _ _ hp => hp.modify k _ (fun n hn => hn) (fun n _ => rowMono_same rfl rfl rfl)
  recycled := fun s k need shell hp => hp.modify k _ (fun n hn => hn) (fun n _ => rowMono_same rfl rfl rfl)
  addDep := fun s a b _ hkind ha hp => by
    refine hp.addDep a b (fun hb => ?_)
    rw [ha, hb] at hkind
    cases hkind
  filterDeps := fun s p hp => hp.filterDeps p
  markDyn := fun s a b dyn hp => hp.markDyn a b dyn
  appendNode := fun s k c _ _ hp => hp.appendNode k c
  removeNode := fun s k hk hp => hp.removeNode k hk
  queueDelete := fun s path h hp => hp.congr rfl rfl
  clearQueue := fun s hp => hp.congr rfl rfl

/-! ## `UPDATE file SET state` with its context -/

theorem fileRowWrite_cols {n n' : Node} {st : FileState} {nh : Option (Option Nat)} (h : fileRowWrite n st nh = .ok n') :
    n'.fstate = st ∧ n'.key = n.key ∧ n'.creator = n.creator ∧ n'.sstate = n.sstate := by
  unfold fileRowWrite at h
  dsimp only at h
  split at h
  · cases h
  · split at h
    · cases h
    · simp only [pure, Except.pure, Except.ok.injEq] at h
      subst h
      exact ⟨rfl, rfl, rfl, rfl⟩

/-- The context of a state write on the file `k`: every edge into `k` (if anything is claimed for `k`) finds a
product state, and a state of a finished output when the owner is a SUCCEEDED step. -/
def WriteOK (X : Key → Prop) (W : Key → Key → Prop) (s : KState) (k : Key) (st : FileState) : Prop :=
  ∀ n, s.find? k = some n → ∀ d ∈ s.deps, d.snk = k → k.kind = .file → X k →
    IsProduct st ∧ (n.creator = some d.src → ¬ W d.src d.snk → Succ s d.src → Done st)

theorem writeFile_J {X : Key → Prop} {W : Key → Key → Prop} {N : Key → Prop} {s s' : KState} {k : Key}
    {st : FileState} {nh : Option (Option Nat)} (hJ : J X W N s) (hctx : WriteOK X W s k st)
    (h : s.writeFile k st nh = .ok s') : J X W N s' := by
  unfold KState.writeFile at h
  cases hf : s.find? k with
  | none => simp [hf, pure, Except.pure] at h; subst h; exact hJ
  | some n =>
    simp only [hf, bind, Except.bind] at h
    cases hw : fileRowWrite n st nh with
    | error e => simp [hw] at h
    | ok n' =>
      simp only [hw, pure, Except.pure, Except.ok.injEq] at h
      obtain ⟨h1, h2, h3, h4⟩ := fileRowWrite_cols hw
      have hmod : J X W N (s.modify k fun _ => n') :=
        hJ.fileWrite hf h2 h3 h4 (fun d hd hdk hkind hx => h1 ▸ hctx n hf d hd hdk hkind hx)
      subst h
      split
      · exact (leafJ X W N).flagReadySinks _ _ hmod
      · exact hmod

/-- A write of BUILT needs no context. -/
theorem writeOK_built (X : Key → Prop) (W : Key → Key → Prop) (s : KState) (k : Key) : WriteOK X W s k .built :=
  fun _ _ _ _ _ _ _ => ⟨by decide, fun _ _ _ => .inl rfl⟩

/-- Nothing is claimed for an exempt key. -/
theorem writeOK_exempt {X : Key → Prop} (W : Key → Key → Prop) (s : KState) {k : Key} (hk : ¬ X k) (st : FileState) :
    WriteOK X W s k st := fun _ _ _ _ _ _ hx => absurd hx hk

/-- No edge into the key. -/
theorem writeOK_noEdge (X : Key → Prop) (W : Key → Key → Prop) (s : KState) {k : Key} (hk : ∀ d ∈ s.deps, d.snk ≠ k)
    (st : FileState) : WriteOK X W s k st := fun _ _ d hd hdk _ _ => absurd hdk (hk d hd)

theorem mem_sinksOf_iff (s : KState) (k f : Key) : f ∈ s.sinksOf k ↔ ∃ d ∈ s.deps, d.src = k ∧ d.snk = f := by
  unfold KState.sinksOf
  simp only [List.mem_map, List.mem_filter, decide_eq_true_eq]
  constructor
  · rintro ⟨d, ⟨hd, hs⟩, rfl⟩; exact ⟨d, hd, hs, rfl⟩
  · rintro ⟨d, hd, hs, rfl⟩; exact ⟨d, ⟨hd, hs⟩, rfl⟩

/-- A sink of a step that is not SUCCEEDED may take any product state: the file is owned by that step or by
nobody. -/
theorem writeOK_sink {X : Key → Prop} {W : Key → Key → Prop} {N : Key → Prop} {s : KState} (hJ : J X W N s)
    {k f : Key} (hk : f ∈ s.sinksOf k) (hns : ¬ Succ s k) {st : FileState} (hst : IsProduct st) :
    WriteOK X W s f st := by
  intro n hn d hd hdk hkind hx
  refine ⟨hst, fun hc _ hs => ?_⟩
  obtain ⟨e, he, hes, hef⟩ := (mem_sinksOf_iff s k f).1 hk
  obtain ⟨fn, hfn, hown, _, _⟩ := hJ.1 e he (hef ▸ hkind) (hef ▸ hx)
  rw [hef, hn] at hfn; cases hfn
  rcases hown with ho | ho
  · rw [ho] at hc; cases hc
  · rw [ho] at hc
    have : e.src = d.src := Option.some.inj hc
    exact absurd (by rw [← hes, this]; exact hs) hns

theorem not_succ_of_pending {s : KState} {k : Key} (h : s.sstateOf k = some .pending) : ¬ Succ s k := by
  intro hs; rw [hs.2] at h; cases h

/-! ## `mark_step_pending` -/

/-- **`mark_step_pending` keeps the invariant**, for every fuel, from every step. -/
theorem markStepPending_J {X : Key → Prop} {W : Key → Key → Prop} {N : Key → Prop} :
    ∀ (fuel : Nat) (k : Key), Preserves (J X W N) (fun s => StepupModel.K.markStepPending fuel s k) := by
  intro fuel
  induction fuel with
  | zero => intro k s s' _ h; replace h : markStepPending 0 s k = .ok s' := h; rw [markStepPending_zero] at h; cases h
  | succ fuel ih =>
    intro k s s' hs h
    replace h : markStepPending (fuel + 1) s k = .ok s' := h
    rw [markStepPending_succ] at h
    cases hf : s.find? k with
    | none => simp only [hf, Except.ok.injEq] at h; exact h ▸ hs
    | some n =>
      simp only [hf] at h
      split at h
      · simp only [Except.ok.injEq] at h; exact h ▸ hs
      · rename_i hrc
        cases hw : s.setStepState k .pending with
        | error e => simp [hw, Except.bind] at h
        | ok s1 =>
          simp only [hw, Except.bind] at h
          have h1 : J X W N s1 := (leafJ X W N).setStepState_preserves k .pending false (by decide) s s1 hs hw
          have hpend : s1.sstateOf k = some .pending := by
            rw [setStepState_eq] at hw
            rw [(writeStepState_effect s s1 k _ _ hw).1 k]
            simp [KState.sstateOf, hf]
          split at h
          · -- the fold over the sinks of `k`
            let Q : KState → Prop := fun st => J X W N st ∧ st.sstateOf k = some .pending ∧ st.deps = s1.deps
            have hQ : Q s' := by
              refine foldlM_keeps Q _ _ ?_ s1 s' ⟨h1, hpend, rfl⟩ h
              intro b f b' hfm hb hr
              obtain ⟨hbJ, hbp, hbd⟩ := hb
              unfold outdateStep at hr
              cases hff : b.find? f with
              | none => simp only [hff, pure, Except.pure, Except.ok.injEq] at hr; exact hr ▸ ⟨hbJ, hbp, hbd⟩
              | some fn =>
                simp only [hff] at hr
                split at hr
                · simp only [bind, Except.bind] at hr
                  cases hwf : b.setFileState f .outdated with
                  | error e => simp [hwf] at hr
                  | ok b1 =>
                    simp only [hwf] at hr
                    have hfm' : f ∈ b.sinksOf k := by rw [sinksOf_congr s1 b hbd]; exact hfm
                    have hb1 : J X W N b1 := by
                      rw [setFileState_eq] at hwf
                      exact writeFile_J hbJ (writeOK_sink hbJ hfm' (not_succ_of_pending hbp) (by decide)) hwf
                    have hb1p : b1.sstateOf k = some .pending := by
                      rw [setFileState_eq] at hwf
                      rw [(writeFile_effect b b1 f _ _ hwf).2.1 k]; exact hbp
                    have hb1d : b1.deps = s1.deps := by
                      rw [setFileState_eq] at hwf
                      exact (writeFile_effect b b1 f _ _ hwf).2.2.trans hbd
                    refine foldlM_keeps Q _ _ ?_ b1 b' ⟨hb1, hb1p, hb1d⟩ hr
                    intro c t c' _ hc hrt
                    exact ⟨ih t c c' hc.1 hrt,
                      markStepPending_inv (propInv_pending k) fuel c c' t hc.2.1 hrt,
                      (markStepPending_deps fuel c c' t hrt).trans hc.2.2⟩
                · simp only [pure, Except.pure, Except.ok.injEq] at hr; exact hr ▸ ⟨hbJ, hbp, hbd⟩
            exact hQ.1
          · simp only [Except.ok.injEq] at h; exact h ▸ h1

/-! ## The leaves with the propagation -/

/-- `Leaf` with `mark_step_pending`. -/
structure Mid (P : KState → Prop) : Prop where
  leaf : Leaf P
  markStepPending_preserves : ∀ (fuel : Nat) (k : Key), Preserves P (fun s => StepupModel.K.markStepPending fuel s k)

theorem midJ (X : Key → Prop) (W : Key → Key → Prop) (N : Key → Prop) : Mid (J X W N) :=
  ⟨leafJ X W N, markStepPending_J⟩

end StepupModel.K.SuccOut
