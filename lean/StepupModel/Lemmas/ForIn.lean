/-!
# Invariant rules for `for` loops in the `Except` monad

The kernel model writes the loops of the Python code as `for x in l do ...` with mutable
variables; these two rules are how theorems reach through them: an invariant that every
iteration keeps holds at the end, and for loops that can `break`, an invariant indexed by the
number of completed iterations together with what holds at the break.
-/
namespace StepupModel.Lemmas

/-- An invariant kept by every iteration (whether it continues or breaks) holds of the result. -/
theorem forIn_except_inv {α β ε : Type} (l : List α) (f : α → β → Except ε (ForInStep β))
    (I : β → Prop) (init r : β) (h0 : I init)
    (hstep : ∀ a ∈ l, ∀ b r', I b → f a b = .ok r' → I r'.value)
    (h : forIn l init f = .ok r) : I r := by
  induction l generalizing init with
  | nil =>
    simp [forIn, pure, Except.pure] at h
    subst h; exact h0
  | cons a as ih =>
    rw [List.forIn_cons] at h
    cases hf : f a init with
    | error e => simp [hf, bind, Except.bind] at h
    | ok st =>
      have hI := hstep a (by simp) init st h0 hf
      cases st with
      | done b =>
        simp [hf, bind, Except.bind, pure, Except.pure] at h
        subst h; exact hI
      | yield b =>
        simp [hf, bind, Except.bind] at h
        exact ih b hI (fun a' ha' => hstep a' (by simp [ha'])) h

/-- A loop with `break`: `I k` holds after `k` iterations that continued, `Q` holds of the state
an iteration breaks with.  The result either comes from a break or from running through the
whole list. -/
theorem forIn_except_inv_idx {α β ε : Type} (l : List α) (f : α → β → Except ε (ForInStep β))
    (I : Nat → β → Prop) (Q : β → Prop) (k0 : Nat) (init r : β) (h0 : I k0 init)
    (hy : ∀ k a b b', I k b → f a b = .ok (.yield b') → I (k + 1) b')
    (hd : ∀ k a b b', I k b → f a b = .ok (.done b') → Q b')
    (h : forIn l init f = .ok r) : Q r ∨ I (k0 + l.length) r := by
  induction l generalizing init k0 with
  | nil =>
    simp [forIn, pure, Except.pure] at h
    subst h; exact Or.inr (by simpa using h0)
  | cons a as ih =>
    rw [List.forIn_cons] at h
    cases hf : f a init with
    | error e => simp [hf, bind, Except.bind] at h
    | ok st =>
      cases st with
      | done b =>
        simp [hf, bind, Except.bind, pure, Except.pure] at h
        subst h; exact Or.inl (hd k0 a init b h0 hf)
      | yield b =>
        simp [hf, bind, Except.bind] at h
        have := ih (k0 + 1) b (hy k0 a init b h0 hf) h
        rcases this with hq | hi
        · exact Or.inl hq
        · refine Or.inr ?_
          have e : k0 + (a :: as).length = k0 + 1 + as.length := by simp; omega
          rw [e]; exact hi

/-- A loop that never breaks, with an invariant that may mention the elements processed so far. -/
theorem forIn_except_inv_prefix_aux {α β ε : Type} (l : List α) (f : α → β → Except ε (ForInStep β))
    (I : List α → β → Prop) (acc : List α) (init r : β) (h0 : I acc init)
    (hstep : ∀ pre a post b r', l = pre ++ a :: post → I (acc ++ pre) b → f a b = .ok r' →
      ∃ b', r' = .yield b' ∧ I (acc ++ pre ++ [a]) b')
    (h : forIn l init f = .ok r) : I (acc ++ l) r := by
  induction l generalizing init acc with
  | nil =>
    simp [forIn, pure, Except.pure] at h
    subst h; simpa using h0
  | cons a as ih =>
    rw [List.forIn_cons] at h
    cases hf : f a init with
    | error e => simp [hf, bind, Except.bind] at h
    | ok st =>
      obtain ⟨b', hb', hI⟩ := hstep [] a as init st rfl (by simpa using h0) hf
      subst hb'
      simp [hf, bind, Except.bind] at h
      have := ih (acc ++ [a]) b' (by simpa using hI)
        (fun pre a' post b r' hl hIb hfa => by
          have := hstep (a :: pre) a' post b r' (by simp [hl]) (by simpa using hIb) hfa
          simpa using this) h
      simpa using this

theorem forIn_except_inv_prefix {α β ε : Type} (l : List α) (f : α → β → Except ε (ForInStep β))
    (I : List α → β → Prop) (init r : β) (h0 : I [] init)
    (hstep : ∀ pre a post b r', l = pre ++ a :: post → I pre b → f a b = .ok r' →
      ∃ b', r' = .yield b' ∧ I (pre ++ [a]) b')
    (h : forIn l init f = .ok r) : I l r := by
  have := forIn_except_inv_prefix_aux l f I [] init r h0 (by simpa using hstep) h
  simpa using this

end StepupModel.Lemmas
