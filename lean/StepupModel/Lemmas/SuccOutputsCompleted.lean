import StepupModel.Lemmas.SuccOutputsHard
/-!
# I4: the step becomes SUCCEEDED

`mark_completed(new_hash)` writes the state SUCCEEDED first and then turns the OUTDATED products BUILT, one by
one, marking the consumers of each pending.  Between the two the `(done)` clause is false; it is waived for
the edges from the step into the products that have not been visited yet.  What the request needs from its
caller (`CompletedOK`): no output of the step is PLANNED any more (the executor runs the SUCCEEDED-cause hash
update of the outputs in the same transaction, before).  The raw `set_state(SUCCEEDED)` needs all outputs
finished (`SetSucceededOK`).  No property statements here.
-/
namespace StepupModel.K.SuccOut
open StepupModel.K.MetaAfter StepupModel.K.Discipline StepupModel.Lemmas StepupModel.K.Ever
set_option linter.unusedSimpArgs false
set_option linter.unusedVariables false

/-- The outputs of `k` (edge from `k`, owned by `k`) have been hashed: none is PLANNED. -/
def CompletedOK (s : KState) (k : Key) : Prop :=
  ∀ d ∈ s.deps, d.src = k → ∀ f, s.find? d.snk = some f → f.creator = some k → f.fstate ≠ .planned

/-- The outputs of `k` are all BUILT or VOLATILE. -/
def SetSucceededOK (s : KState) (k : Key) : Prop :=
  ∀ d ∈ s.deps, d.src = k → ∀ f, s.find? d.snk = some f → f.creator = some k → Done f.fstate

theorem stepRowWrite_cols {n n' : Node} {st : StepState} {d : Option Bool} (hw : stepRowWrite n st d = .ok n') :
    n'.sstate = st ∧ n'.key = n.key ∧ n'.fstate = n.fstate ∧ n'.creator = n.creator := by
  unfold stepRowWrite at hw
  dsimp only at hw
  split at hw
  · cases hw
  · simp only [pure, Except.pure, Except.ok.injEq] at hw
    subst hw
    exact ⟨rfl, rfl, rfl, rfl⟩

/-- What a step state write does to the rows. -/
theorem setStepState_rows {s s' : KState} {k : Key} {st : StepState} {d : Bool} (h : s.setStepState k st d = .ok s') :
    s'.deps = s.deps ∧ ∀ q, ∃ g : Node → Node, s'.find? q = (s.find? q).map g ∧
      ∀ m, s.find? q = some m → (g m).key = m.key ∧ (g m).creator = m.creator ∧ (g m).fstate = m.fstate ∧
        (q ≠ k → (g m).sstate = m.sstate) := by
  unfold KState.setStepState KState.writeStepState at h
  cases hf : s.find? k with
  | none =>
    simp [hf, pure, Except.pure] at h; subst h
    exact ⟨rfl, fun q => ⟨id, by simp, fun m _ => ⟨rfl, rfl, rfl, fun _ => rfl⟩⟩⟩
  | some n =>
    simp only [hf, bind, Except.bind] at h
    cases hw : stepRowWrite n st (some d) with
    | error e => simp [hw] at h
    | ok n' =>
      simp only [hw, pure, Except.pure, Except.ok.injEq] at h
      subst h
      obtain ⟨_, h2, h3, h4⟩ := stepRowWrite_cols hw
      have hk := find?_key s k n hf
      refine ⟨rfl, fun q => ⟨fun m => if m.key = k then n' else m, find?_modify s k q _ (fun m _ => h2.trans hk), ?_⟩⟩
      intro m hm
      have hmq := find?_key s q m hm
      by_cases hmk : m.key = k
      · dsimp only
        rw [if_pos hmk]
        have : q = k := hmq.symm.trans hmk
        subst this
        rw [hf] at hm; cases hm
        exact ⟨h2, h4, h3, fun hne => absurd rfl hne⟩
      · dsimp only
        rw [if_neg hmk]
        exact ⟨rfl, rfl, rfl, fun _ => rfl⟩

/-- **A step state write to any state**: the `(done)` clause of the edges out of the step is waived. -/
theorem setStepState_any_J {W : Key → Key → Prop} {s s' : KState} {k : Key} {st : StepState} {d : Bool}
    (hJ : J All W NoN s) (h : s.setStepState k st d = .ok s') : J All (fun a b => W a b ∨ a = k) NoN s' := by
  obtain ⟨hd, hrows⟩ := setStepState_rows h
  refine ⟨?_, fun _ hn => hn.elim⟩
  intro e he hkind hx
  rw [hd] at he
  obtain ⟨f, hf, h1, h2, h3⟩ := hJ.1 e he hkind hx
  obtain ⟨g, hg, hgm⟩ := hrows e.snk
  obtain ⟨g1, g2, g3, _⟩ := hgm f hf
  refine ⟨g f, by rw [hg, hf]; rfl, by rw [g2]; exact h1, by rw [g3]; exact h2, ?_⟩
  intro hc hw hs
  rw [g3]
  rw [g2] at hc
  have hne : e.src ≠ k := fun he => hw (.inr he)
  refine h3 hc (fun hw' => hw (.inl hw')) ⟨hs.1, ?_⟩
  have h5 := hs.2
  unfold KState.sstateOf at h5 ⊢
  obtain ⟨g', hg', hgm'⟩ := hrows e.src
  rw [hg'] at h5
  cases hfs : s.find? e.src with
  | none => rw [hfs] at h5; cases h5
  | some m =>
    rw [hfs] at h5
    simp only [Option.map_some, Option.some.injEq] at h5 ⊢
    rw [← (hgm' m hfs).2.2.2 hne]; exact h5

/-- The raw `set_state`: any state other than SUCCEEDED, or SUCCEEDED when all outputs are finished. -/
theorem setStepState_JK {s s' : KState} {k : Key} {st : StepState}
    (hp : JK All NoW NoN s) (hg : st = .succeeded → SetSucceededOK s k) (h : s.setStepState k st = .ok s') :
    JK All NoW NoN s' := by
  refine ⟨?_, stable_keysNodup.setStepState_preserves k st false s s' hp.2 h⟩
  by_cases hst : st = .succeeded
  · have h1 := setStepState_any_J hp.1 h
    obtain ⟨hd, hrows⟩ := setStepState_rows h
    refine h1.unwaive fun e he hkind hw _ f hf hc hs => ?_
    rcases hw with hw | hw
    · exact hw.elim
    · obtain ⟨g, hg', hgm⟩ := hrows e.snk
      rw [hg'] at hf
      cases hfs : s.find? e.snk with
      | none => rw [hfs] at hf; cases hf
      | some m =>
        rw [hfs] at hf
        simp only [Option.map_some, Option.some.injEq] at hf
        obtain ⟨_, g2, g3, _⟩ := hgm m hfs
        rw [← hf, g3]
        rw [← hf, g2, hw] at hc
        exact hg hst e (hd ▸ he) hw m hfs hc
  · exact (leafJ All NoW NoN).setStepState_preserves k st false hst s s' hp.1 h

/-! ## The loop over the products -/

theorem foldlM_suffix {α β : Type} (P : List α → β → Prop) (f : β → α → M β)
    (hstep : ∀ a rest b b', P (a :: rest) b → f b a = .ok b' → P rest b') :
    ∀ (l : List α) (b b' : β), P l b → l.foldlM f b = .ok b' → P [] b' := by
  intro l
  induction l with
  | nil =>
    intro b b' hb h
    simp only [List.foldlM_nil, pure, Except.pure, Except.ok.injEq] at h
    exact h ▸ hb
  | cons a as ih =>
    intro b b' hb h
    simp only [List.foldlM_cons, bind, Except.bind] at h
    cases hfa : f b a with
    | error e => simp [hfa] at h
    | ok b1 =>
      simp only [hfa] at h
      exact ih b1 b' (hstep a as b b1 hb hfa) h

/-- BUILT, OUTDATED or VOLATILE. -/
def Bov (o : Option FileState) : Prop := o = some .built ∨ o = some .outdated ∨ o = some .volatile

theorem propInv_bov (q : Key) : PropInv (fun s => Bov (s.fstateOf q)) where
  file := fun s s' f hs hb _ h => by
    rw [setFileState_eq] at h
    show Bov (s'.fstateOf q)
    rw [(writeFile_effect s s' f _ _ h).1 q]
    by_cases hq : q = f
    · subst hq; simp only [if_true, hb]; exact .inr (.inl rfl)
    · simp only [hq, if_false]; exact hs
  step := fun s s' t _ hs _ _ _ h => by
    rw [setStepState_eq] at h
    show Bov (s'.fstateOf q)
    rw [(writeStepState_effect s s' t _ _ h).2.1 q]; exact hs

/-- The waiver inside the loop: the edges from `k` into the products not visited yet. -/
def Wr (k : Key) (rest : List Node) (a b : Key) : Prop := a = k ∧ ∃ p ∈ rest, p.key = b

/-- The unvisited products with an edge from `k` are BUILT, OUTDATED or VOLATILE. -/
def Tr (k : Key) (rest : List Node) (st : KState) : Prop :=
  ∀ p ∈ rest, (∃ d ∈ st.deps, d.src = k ∧ d.snk = p.key) → Bov (st.fstateOf p.key)

theorem rebuildOutdatedProducts_JK {s1 s2 : KState} {k : Key}
    (hp : JK All (Wr k (s1.fileProducts k)) NoN s1) (hT : Tr k (s1.fileProducts k) s1)
    (h : s1.rebuildOutdatedProducts k = .ok s2) : JK All NoW NoN s2 := by
  unfold KState.rebuildOutdatedProducts at h
  have := foldlM_suffix (fun rest st => JK All (Wr k rest) NoN st ∧ Tr k rest st) _ ?_ _ s1 s2 ⟨hp, hT⟩ h
  · exact this.1.weaken (fun _ h => h) (fun a b hw => by obtain ⟨_, p, hp, _⟩ := hw; cases hp) (fun _ h => h)
  · intro a rest st st' hst hh
    obtain ⟨hJ, hTr⟩ := hst
    -- dropping the waiver of `a`, given that its row is finished
    have hdrop : ∀ t : KState, JK All (Wr k (a :: rest)) NoN t →
        ((∃ d ∈ t.deps, d.src = k ∧ d.snk = a.key) → t.fstateOf a.key = some .built ∨ t.fstateOf a.key = some .volatile) →
        JK All (Wr k rest) NoN t := by
      intro t ht hfin
      refine ⟨ht.1.unwaive fun e he hkind hw hnw f hf hc hs => ?_, ht.2⟩
      obtain ⟨hsrc, p, hpm, hpk⟩ := hw
      rcases List.mem_cons.1 hpm with rfl | hpr
      · have := hfin ⟨e, he, hsrc, hpk.symm⟩
        unfold KState.fstateOf at this
        rw [hpk, hf] at this
        simp only [Option.map_some, Option.some.injEq] at this
        exact this
      · exact absurd ⟨hsrc, p, hpr, hpk⟩ hnw
    split at hh
    · rename_i hout
      simp only [bind, Except.bind] at hh
      cases hw : st.setFileState a.key .built with
      | error e => simp [hw] at hh
      | ok t =>
        simp only [hw] at hh
        have ht : JK All (Wr k (a :: rest)) NoN t := setFileState_JK hJ (writeOK_built _ _ _ _) hw
        rw [setFileState_eq] at hw
        obtain ⟨hfs, _, hdeps⟩ := writeFile_effect st t a.key _ _ hw
        have hbuilt : t.fstateOf a.key = some .built := by
          rw [hfs a.key]
          simp only [if_true]
          unfold KState.fstateOf
          cases hfa : st.find? a.key with
          | none => rw [hfa] at hout; cases hout
          | some m => rfl
        have ht' := hdrop t ht (fun _ => .inl hbuilt)
        have hTt : Tr k rest t := by
          intro p hpm hex
          by_cases hpa : p.key = a.key
          · rw [hpa, hbuilt]; exact .inl rfl
          · rw [hfs p.key, if_neg hpa]
            exact hTr p (List.mem_cons_of_mem _ hpm) (by rw [← hdeps]; exact hex)
        refine ⟨(midJK All (Wr k rest) NoN).markConsumersPending_preserves a.key t st' ht' hh, ?_⟩
        intro p hpm hex
        rw [markConsumersPending_deps t st' a.key hh] at hex
        exact markConsumersPending_inv (propInv_bov p.key) t st' a.key (hTt p hpm hex) hh
    · rename_i hout
      simp only [pure, Except.pure, Except.ok.injEq] at hh
      subst hh
      refine ⟨hdrop st hJ fun hex => ?_, fun p hpm hex => hTr p (List.mem_cons_of_mem _ hpm) hex⟩
      rcases hTr a List.mem_cons_self hex with hb | hb | hb
      · exact .inl hb
      · exact absurd hb hout
      · exact .inr hb

theorem mem_fileProducts_iff {s : KState} {k : Key} {f : Node} :
    f ∈ s.fileProducts k ↔ f ∈ s.nodes ∧ f.creator = some k ∧ f.key ≠ k ∧ f.key.kind = .file := by
  unfold KState.fileProducts KState.products
  rw [List.mem_mergeSort]
  simp only [List.mem_filter, decide_eq_true_eq]
  constructor
  · rintro ⟨⟨h1, h2, h3⟩, h4⟩; exact ⟨h1, h2, h3, h4⟩
  · rintro ⟨h1, h2, h3, h4⟩; exact ⟨⟨h1, h2, h3⟩, h4⟩

/-- **`mark_completed(new_hash)`** once the outputs have been hashed. -/
theorem completeSuccess_JK (cfg : KConfig) (k : Key) (hh : Nat) (s s' : KState) (hp : JK All NoW NoN s)
    (hg : CompletedOK s k) (h : s.completeSuccess cfg k hh = .ok s') : JK All NoW NoN s' := by
  unfold KState.completeSuccess at h
  simp only [bind, Except.bind] at h
  cases h1 : s.setStepState k .succeeded with
  | error e => simp [h1] at h
  | ok s1 =>
    simp only [h1] at h
    cases h2 : s1.rebuildOutdatedProducts k with
    | error e => simp [h2] at h
    | ok s2 =>
      simp only [h2, pure, Except.pure, Except.ok.injEq] at h
      subst h
      have hk1 : KeysNodup s1 := stable_keysNodup.setStepState_preserves k .succeeded false s s1 hp.2 h1
      have hku1 : KeysUnique s1 := (keysNodup_iff s1).1 hk1
      obtain ⟨hd, hrows⟩ := setStepState_rows h1
      have hJ1 := setStepState_any_J hp.1 h1
      -- only the edges into the file products of `k` need the waiver
      have hJ1' : J All (Wr k (s1.fileProducts k)) NoN s1 := by
        refine hJ1.unwaive fun e he hkind hw hnw f hf hc hs => ?_
        rcases hw with hw | hw
        · exact hw.elim
        · exfalso
          refine hnw ⟨hw, f, ?_, find?_key s1 _ f hf⟩
          have hfk := find?_key s1 _ f hf
          refine mem_fileProducts_iff.2 ⟨List.mem_of_find?_eq_some hf, hw ▸ hc, fun hfk' => ?_, hfk ▸ hkind⟩
          have : k.kind = .file := by rw [← hfk', hfk]; exact hkind
          rw [← hw] at this
          rw [hs.1] at this; cases this
      have hT : Tr k (s1.fileProducts k) s1 := by
        intro p hpm hex
        obtain ⟨e, he, hsrc, hsnk⟩ := hex
        obtain ⟨hpn, hpc, hpk, hpf⟩ := mem_fileProducts_iff.1 hpm
        have hfp : s1.find? p.key = some p := find?_of_mem hku1 hpn
        obtain ⟨g, hg', hgm⟩ := hrows p.key
        rw [hg'] at hfp
        cases hfs : s.find? p.key with
        | none => rw [hfs] at hfp; cases hfp
        | some m =>
          rw [hfs] at hfp
          simp only [Option.map_some, Option.some.injEq] at hfp
          obtain ⟨_, g2, g3, _⟩ := hgm m hfs
          have hmc : m.creator = some k := by rw [← g2, hfp]; exact hpc
          have hes : e ∈ s.deps := hd ▸ he
          have hnp : m.fstate ≠ .planned := hg e hes hsrc m (hsnk ▸ hfs) hmc
          obtain ⟨f, hf, _, hprod, _⟩ := hp.1.1 e hes (by rw [hsnk]; exact hpf) trivial
          rw [hsnk, hfs] at hf; cases hf
          have : s1.fstateOf p.key = some m.fstate := by
            unfold KState.fstateOf
            rw [hg', hfs]
            simp only [Option.map_some, Option.some.injEq]
            exact g3
          rw [this]
          rcases (isProduct_iff m.fstate).1 hprod with hx | hx | hx | hx
          · exact absurd hx hnp
          · exact .inl (by rw [hx])
          · exact .inr (.inl (by rw [hx]))
          · exact .inr (.inr (by rw [hx]))
      have hp2 := rebuildOutdatedProducts_JK ⟨hJ1', hk1⟩ hT h2
      have L := leafJK All NoW NoN
      unfold KState.refreshEnvValues
      exact L.cacheAt _ _ _ (fun _ => rfl) (L.setHash s2 k hh hp2)

end StepupModel.K.SuccOut
