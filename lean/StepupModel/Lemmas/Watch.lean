import StepupModel.P.Watch
/-!
# Lemmas about the fold of `Watcher.record_change`
-/
namespace StepupModel.P.Watch

variable {α : Type} [DecidableEq α]

theorem mem_add (x y : α) (l : List α) : y ∈ add x l ↔ y = x ∨ y ∈ l := by
  unfold add
  by_cases h : x ∈ l
  · simp only [h, if_true]
    constructor
    · exact Or.inr
    · rintro (rfl | h') <;> assumption
  · simp only [h, if_false, List.mem_append, List.mem_singleton]
    constructor
    · rintro (h' | h')
      · exact Or.inr h'
      · exact Or.inl h'
    · rintro (h' | h')
      · exact Or.inr h'
      · exact Or.inl h'

theorem mem_discard (x y : α) (l : List α) : y ∈ discard x l ↔ y ∈ l ∧ y ≠ x := by
  simp [discard, List.mem_filter]

theorem nodup_add (x : α) (l : List α) (h : l.Nodup) : (add x l).Nodup := by
  unfold add
  by_cases hx : x ∈ l
  · simpa [hx] using h
  · simp only [hx, if_false]
    rw [List.nodup_append]
    refine ⟨h, by simp, ?_⟩
    intro a ha b hb hab
    simp only [List.mem_singleton] at hb
    exact hx (hb ▸ hab ▸ ha)

theorem nodup_discard (x : α) (l : List α) (h : l.Nodup) : (discard x l).Nodup := h.filter _

/-- The two sets say, path by path, what `a` says: `some true` = in `updated`, `some false` = in
`deleted`, `none` = in neither. -/
def Inv (s : Sets α) (a : α → Option Bool) : Prop :=
  ∀ p, (p ∈ s.updated ↔ a p = some true) ∧ (p ∈ s.deleted ↔ a p = some false)

omit [DecidableEq α] in
theorem Inv.congr {s : Sets α} {a a' : α → Option Bool} (h : Inv s a) (he : ∀ p, a p = a' p) : Inv s a' := by
  intro p; rw [← he p]; exact h p

theorem inv_markDeleted {s : Sets α} {a : α → Option Bool} (h : Inv s a) (x : α) :
    Inv (markDeleted s x) (fun p => if p = x then some false else a p) := by
  intro p
  simp only [markDeleted, mem_add, mem_discard]
  by_cases hp : p = x
  · subst hp; simp
  · simp [hp, h p]

theorem inv_markUpdated {s : Sets α} {a : α → Option Bool} (h : Inv s a) (x : α) :
    Inv (markUpdated s x) (fun p => if p = x then some true else a p) := by
  intro p
  simp only [markUpdated, mem_add, mem_discard]
  by_cases hp : p = x
  · subst hp; simp
  · simp [hp, h p]

/-- The loop of the DELETED_PARENT arm. -/
theorem inv_foldDeleted (L : List α) : ∀ {s : Sets α} {a : α → Option Bool}, Inv s a →
    Inv (delLoop L s) (fun p => if p ∈ L then some false else a p) := by
  unfold delLoop
  induction L with
  | nil => intro s a h; simpa using h
  | cons x xs ih =>
    intro s a h
    simp only [List.foldl_cons]
    have h1 : Inv (if x ∉ s.deleted then markDeleted s x else s) (fun p => if p = x then some false else a p) := by
      by_cases hx : x ∈ s.deleted
      · simp only [hx, not_true_eq_false, if_false]
        refine h.congr ?_
        intro p
        by_cases hp : p = x
        · subst hp; simp [(h p).2.mp hx]
        · simp [hp]
      · simp only [hx, not_false_eq_true, if_true]
        exact inv_markDeleted h x
    refine (ih h1).congr ?_
    intro p
    by_cases hp : p = x
    · subst hp; simp
    · by_cases hq : p ∈ xs <;> simp [hp, hq]

/-- One call of `record_change`. -/
theorem inv_recordChange (v : View α) {s : Sets α} {a : α → Option Bool} (h : Inv s a) (e : Event α) :
    Inv (recordChange v s e) (fun p => override (touches v e p) (a p)) := by
  unfold recordChange
  cases hc : e.change with
  | deleted =>
    simp only
    by_cases hin : e.path ∈ s.deleted
    · simp only [hin, not_true_eq_false, if_false]
      refine h.congr ?_
      intro p
      simp only [touches, hc, override]
      by_cases hp : e.path = p ∧ v.relevant e.duringBuild p = true
      · simp only [hp, and_self, if_true]
        exact hp.1 ▸ (h e.path).2.mp hin
      · simp [hp]
    · simp only [hin, not_false_eq_true, if_true]
      by_cases hr : v.relevant e.duringBuild e.path = true
      · simp only [hr, if_true]
        refine (inv_markDeleted h e.path).congr ?_
        intro p
        simp only [touches, hc, override]
        by_cases hp : p = e.path
        · subst hp; simp [hr]
        · have : ¬ e.path = p := fun hx => hp hx.symm
          simp [hp, this]
      · simp only [hr, Bool.false_eq_true, if_false]
        refine h.congr ?_
        intro p
        simp only [touches, hc, override]
        by_cases hp : e.path = p
        · subst hp; simp [hr]
        · simp [hp]
  | updated =>
    simp only
    by_cases hin : e.path ∈ s.updated
    · simp only [hin, not_true_eq_false, if_false]
      refine h.congr ?_
      intro p
      simp only [touches, hc, override]
      by_cases hp : e.path = p ∧ v.relevant e.duringBuild p = true
      · simp only [hp, and_self, if_true]
        exact hp.1 ▸ (h e.path).1.mp hin
      · simp [hp]
    · simp only [hin, not_false_eq_true, if_true]
      by_cases hr : v.relevant e.duringBuild e.path = true
      · simp only [hr, if_true]
        refine (inv_markUpdated h e.path).congr ?_
        intro p
        simp only [touches, hc, override]
        by_cases hp : p = e.path
        · subst hp; simp [hr]
        · have : ¬ e.path = p := fun hx => hp hx.symm
          simp [hp, this]
      · simp only [hr, Bool.false_eq_true, if_false]
        refine h.congr ?_
        intro p
        simp only [touches, hc, override]
        by_cases hp : e.path = p
        · subst hp; simp [hr]
        · simp [hp]
  | deletedParent =>
    simp only
    refine (inv_foldDeleted (v.under e.duringBuild e.path) h).congr ?_
    intro p
    simp only [touches, hc, override]
    by_cases hp : p ∈ v.under e.duringBuild e.path <;> simp [hp]

/-- Any number of calls. -/
theorem inv_recordAll (v : View α) (evs : List (Event α)) : ∀ {s : Sets α} {a : α → Option Bool}, Inv s a →
    Inv (recordAll v s evs) (fun p => lastRelevantFrom v (a p) evs p) := by
  induction evs with
  | nil => intro s a h; simpa [recordAll, lastRelevantFrom] using h
  | cons e es ih =>
    intro s a h
    have := ih (inv_recordChange v h e)
    simpa [recordAll, lastRelevantFrom] using this

theorem nodup_recordChange (v : View α) (s : Sets α) (e : Event α) (hu : s.updated.Nodup) (hd : s.deleted.Nodup) :
    (recordChange v s e).updated.Nodup ∧ (recordChange v s e).deleted.Nodup := by
  unfold recordChange
  cases e.change with
  | deleted =>
    simp only
    split
    · split
      · exact ⟨nodup_discard _ _ hu, nodup_add _ _ hd⟩
      · exact ⟨hu, hd⟩
    · exact ⟨hu, hd⟩
  | updated =>
    simp only
    split
    · split
      · exact ⟨nodup_add _ _ hu, nodup_discard _ _ hd⟩
      · exact ⟨hu, hd⟩
    · exact ⟨hu, hd⟩
  | deletedParent =>
    simp only [delLoop]
    generalize v.under e.duringBuild e.path = L
    induction L generalizing s with
    | nil => exact ⟨hu, hd⟩
    | cons x xs ih =>
      simp only [List.foldl_cons]
      apply ih
      · split
        · exact nodup_discard _ _ hu
        · exact hu
      · split
        · exact nodup_add _ _ hd
        · exact hd

theorem nodup_recordAll (v : View α) (evs : List (Event α)) : ∀ (s : Sets α), s.updated.Nodup → s.deleted.Nodup →
    (recordAll v s evs).updated.Nodup ∧ (recordAll v s evs).deleted.Nodup := by
  induction evs with
  | nil => intro s hu hd; exact ⟨hu, hd⟩
  | cons e es ih =>
    intro s hu hd
    have h := nodup_recordChange v s e hu hd
    exact ih _ h.1 h.2

/-- The DELETED_PARENT loop on any pair of sets: every listed path ends up in `deleted`, and leaves
`updated` unless it was in `deleted` already; nothing else changes. -/
theorem mem_foldDeleted (L : List α) : ∀ (s : Sets α) (p : α),
    (p ∈ (delLoop L s).deleted ↔ p ∈ s.deleted ∨ p ∈ L) ∧
    (p ∈ (delLoop L s).updated ↔ p ∈ s.updated ∧ (p ∈ L → p ∈ s.deleted)) := by
  unfold delLoop
  induction L with
  | nil => intro s p; simp
  | cons x xs ih =>
    intro s p
    simp only [List.foldl_cons]
    by_cases hx : x ∈ s.deleted
    · simp only [hx, not_true_eq_false, if_false]
      obtain ⟨h1, h2⟩ := ih s p
      refine ⟨?_, ?_⟩
      · rw [h1]; simp only [List.mem_cons]
        constructor
        · rintro (h | h)
          · exact Or.inl h
          · exact Or.inr (Or.inr h)
        · rintro (h | rfl | h)
          · exact Or.inl h
          · exact Or.inl hx
          · exact Or.inr h
      · rw [h2]; simp only [List.mem_cons]
        constructor
        · rintro ⟨hu, hr⟩
          refine ⟨hu, ?_⟩
          rintro (rfl | hp)
          · exact hx
          · exact hr hp
        · rintro ⟨hu, hr⟩
          exact ⟨hu, fun hp => hr (Or.inr hp)⟩
    · simp only [hx, not_false_eq_true, if_true]
      obtain ⟨h1, h2⟩ := ih (markDeleted s x) p
      refine ⟨?_, ?_⟩
      · rw [h1]; simp only [markDeleted, mem_add, List.mem_cons]
        constructor
        · rintro ((rfl | h) | h)
          · exact Or.inr (Or.inl rfl)
          · exact Or.inl h
          · exact Or.inr (Or.inr h)
        · rintro (h | rfl | h)
          · exact Or.inl (Or.inr h)
          · exact Or.inl (Or.inl rfl)
          · exact Or.inr h
      · rw [h2]; simp only [markDeleted, mem_add, mem_discard, List.mem_cons]
        constructor
        · rintro ⟨⟨hu, hne⟩, hr⟩
          refine ⟨hu, ?_⟩
          rintro (rfl | hp)
          · exact absurd rfl hne
          · rcases hr hp with rfl | hd
            · exact absurd rfl hne
            · exact hd
        · rintro ⟨hu, hr⟩
          have hne : p ≠ x := by
            intro h
            subst h
            exact hx (hr (Or.inl rfl))
          exact ⟨⟨hu, hne⟩, fun hp => Or.inr (hr (Or.inr hp))⟩

end StepupModel.P.Watch
