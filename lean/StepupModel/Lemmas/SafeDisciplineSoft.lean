import StepupModel.Lemmas.SafeDisciplineBase
/-!
# The flag discipline of `_update_meta_safe`: operations that never rewrite a creator link

Every operation of the kernel model that leaves the creator column of step rows alone and creates or
deletes no row is shown to preserve `P F` (one row per key and the discipline up to the debt `F`) for
every `F`.  The leaves are: `UPDATE step SET state` (the trigger `step_flag_check_safe` flags the row:
`stepRowWrite_srow`), the rewrites of columns that the local equations do not read, and the two passes
that change `_holding` and flag the subtree (`hold_safe`, `release_safe`).  The composites are the
proofs of `Lemmas/DisciplineSoft.lean` with these leaves.
-/
namespace StepupModel.K.SafeDisc
open StepupModel.K.MetaSafe StepupModel.Lemmas StepupModel.Generated
set_option linter.unusedSimpArgs false
set_option linter.unusedVariables false

/-! ## Soft rows -/

theorem srow_same {D : Key → Prop} {n n' : Node} (h1 : n'.key = n.key) (h2 : n'.checkSafe = n.checkSafe)
    (h3 : n'.safe = n.safe) (h4 : n'.safeNH = n.safeNH) (h5 : n'.sstate = n.sstate) (h6 : n'.holding = n.holding)
    (h7 : n'.creator = n.creator) : SRowD D n n' := by
  refine ⟨h1, fun _ => ?_⟩
  cases h : n.checkSafe with
  | true => exact .inr (.inl (by rw [h2, h]))
  | false => exact .inr (.inr ⟨rfl, h3, h4, by rw [h5], by rw [h6], h7⟩)

theorem srow_flag {D : Key → Prop} {n n' : Node} (h1 : n'.key = n.key) (h2 : n'.checkSafe = true) : SRowD D n n' :=
  ⟨h1, fun _ => .inr (.inl h2)⟩

theorem srow_nonstep {D : Key → Prop} {n n' : Node} (h1 : n'.key = n.key) (h : n.key.kind ≠ .step) : SRowD D n n' :=
  ⟨h1, fun hs => absurd hs h⟩

theorem fileRowWrite_srow {n n' : Node} {st : FileState} {nh : Option (Option Nat)}
    (h : fileRowWrite n st nh = .ok n') : SRow n n' := by
  unfold fileRowWrite at h
  simp only at h
  split at h
  · cases h
  · split at h
    · cases h
    · simp only [pure, Except.pure, Except.ok.injEq] at h
      subst h
      exact srow_same rfl rfl rfl rfl rfl rfl rfl

/-- `UPDATE step SET state = ?` fires `step_flag_check_safe`. -/
theorem stepRowWrite_srow {n n' : Node} {st : StepState} {d : Option Bool}
    (h : stepRowWrite n st d = .ok n') : SRow n n' := by
  unfold stepRowWrite at h
  simp only at h
  split at h
  · cases h
  · simp only [pure, Except.pure, Except.ok.injEq] at h
    subst h
    exact srow_flag rfl rfl

/-! ## Primitive writes -/

section
variable {F : Key → Prop}

theorem P.queue {s : KState} (q : List (String × Option Nat)) (hp : P F s) : P F { s with toBeDeleted := q } :=
  P.sameNodes (s := s) rfl hp

theorem P.setDeps {s : KState} (d : List Dep) (hp : P F s) : P F { s with deps := d } :=
  P.sameNodes (s := s) rfl hp

theorem flagReadySinks_safe (s : KState) (k : Key) (hp : P F s) : P F (s.flagReadySinks k) := by
  unfold KState.flagReadySinks
  exact hp.modifyWhere _ _ fun n _ _ => srow_same rfl rfl rfl rfl rfl rfl rfl

theorem writeFile_safe (k : Key) (st : FileState) (nh : Option (Option Nat)) :
    Preserves (P F) (fun s => s.writeFile k st nh) := by
  intro s s' hp h
  replace h : s.writeFile k st nh = .ok s' := h
  unfold KState.writeFile at h
  cases hf : s.find? k with
  | none => simp [hf, pure, Except.pure] at h; subst h; exact hp
  | some n =>
    simp only [hf, bind, Except.bind] at h
    cases hw : fileRowWrite n st nh with
    | error e => simp [hw] at h
    | ok n' =>
      simp only [hw, pure, Except.pure, Except.ok.injEq] at h
      have hmod : P F (s.modify k fun _ => n') := hp.replace hf (fileRowWrite_srow hw)
      subst h
      split
      · exact flagReadySinks_safe _ _ hmod
      · exact hmod

theorem setFileState_safe (k : Key) (st : FileState) : Preserves (P F) (fun s => s.setFileState k st) :=
  writeFile_safe k st none

theorem writeStepState_safe (k : Key) (st : StepState) (d : Option Bool) :
    Preserves (P F) (fun s => s.writeStepState k st d) := by
  intro s s' hp h
  unfold KState.writeStepState at h
  cases hf : s.find? k with
  | none => simp [hf, pure, Except.pure] at h; subst h; exact hp
  | some n =>
    simp only [hf, bind, Except.bind] at h
    cases hw : stepRowWrite n st d with
    | error e => simp [hw] at h
    | ok n' =>
      simp only [hw, pure, Except.pure, Except.ok.injEq] at h
      subst h
      exact hp.replace hf (stepRowWrite_srow hw)

theorem setStepState_safe (k : Key) (st : StepState) (d : Bool) :
    Preserves (P F) (fun s => s.setStepState k st d) := writeStepState_safe k st (some d)

theorem setHash_safe (s : KState) (k : Key) (hh : Nat) (hp : P F s) : P F (s.setHash k hh) := by
  unfold KState.setHash
  exact hp.modify _ _ fun n _ _ => srow_same rfl rfl rfl rfl rfl rfl rfl

theorem deleteHash_safe (s : KState) (k : Key) (hp : P F s) : P F (s.deleteHash k) := by
  unfold KState.deleteHash
  refine hp.modify _ _ fun n _ _ => ?_
  split
  · exact srow_same rfl rfl rfl rfl rfl rfl rfl
  · exact SRowD.refl _ n

theorem flagDepEndpoints_safe (s : KState) (a b : Key) (hp : P F s) : P F (s.flagDepEndpoints a b) := by
  unfold KState.flagDepEndpoints
  exact hp.modifyWhere _ _ fun n _ _ => srow_same rfl rfl rfl rfl rfl rfl rfl

theorem flagChecksWithProducts_safe (k : Key) : Preserves (P F) (fun s => s.flagChecksWithProducts k) := by
  intro s s' hp h
  replace h : s.flagChecksWithProducts k = .ok s' := h
  unfold KState.flagChecksWithProducts at h
  split at h
  · cases h
  · simp only [pure, Except.pure, Except.ok.injEq] at h; subst h
    exact hp.modifyWhere _ _ fun n _ _ => srow_flag rfl rfl

/-- `_flag_checks_with_products` of a step flags (at least) the step itself. -/
theorem flagChecksWithProducts_flagged {s s' : KState} {k : Key} (h : s.flagChecksWithProducts k = .ok s')
    (hs : k.kind = .step) : ∀ n ∈ s'.nodes, n.key = k → n.checkSafe = true := by
  unfold KState.flagChecksWithProducts at h
  split at h
  · cases h
  · rename_i ks hks
    simp only [pure, Except.pure, Except.ok.injEq] at h; subst h
    intro n' hn' hk'
    obtain ⟨n, hn, rfl⟩ := Discipline.mem_modifyWhere hn'
    have hkey : n.key = k := by
      split at hk'
      · exact hk'
      · exact hk'
    cases hf : s.find? k with
    | none =>
      have := List.find?_eq_none.1 hf n hn
      simp only [decide_eq_true_eq] at this
      exact absurd hkey this
    | some m =>
      have hmem := (Discipline.stepSubtree_spec hks hf hs).1
      have : ks.contains n.key = true := by rw [hkey]; exact List.contains_iff_mem.2 hmem
      rw [if_pos this]

theorem flagCheckAfterSources_safe (k : Key) : Preserves (P F) (fun s => s.flagCheckAfterSources k) := by
  intro s s' hp h
  replace h : s.flagCheckAfterSources k = .ok s' := h
  unfold KState.flagCheckAfterSources at h
  split at h
  · cases h
  · simp only [pure, Except.pure, Except.ok.injEq] at h; subst h
    exact hp.modifyWhere _ _ fun n _ _ => srow_same rfl rfl rfl rfl rfl rfl rfl

theorem flagDynamicSuppliers_safe (s : KState) (k : Key) (hp : P F s) : P F (s.flagDynamicSuppliers k) := by
  unfold KState.flagDynamicSuppliers
  exact hp.modifyWhere _ _ fun n _ _ => srow_same rfl rfl rfl rfl rfl rfl rfl

/-! ## The dependency table -/

theorem insertDep_safe (a b : Key) : Preserves (P F) (fun s => s.insertDep a b) := by
  intro s s' hp h
  replace h : s.insertDep a b = .ok s' := h
  unfold KState.insertDep at h
  simp only [bind, Except.bind] at h
  split at h
  · cases h
  · split at h
    · cases h
    · simp only [pure, Except.pure, Except.ok.injEq] at h
      subst h
      exact flagDepEndpoints_safe _ _ _ (hp.setDeps _)

theorem foldl_flagDepEndpoints_safe (l : List Dep) : ∀ (s : KState), P F s →
    P F (l.foldl (fun s d => s.flagDepEndpoints d.src d.snk) s) := by
  induction l with
  | nil => intro s hp; exact hp
  | cons d l ih => intro s hp; exact ih _ (flagDepEndpoints_safe s d.src d.snk hp)

theorem deleteDeps_safe (s : KState) (p : Dep → Bool) (hp : P F s) : P F (s.deleteDeps p) := by
  unfold KState.deleteDeps
  exact foldl_flagDepEndpoints_safe _ _ (hp.setDeps _)

theorem setDynamic_safe (s : KState) (a b : Key) (dyn : Bool) (hp : P F s) : P F (s.setDynamic a b dyn) := by
  unfold KState.setDynamic
  refine (hp.setDeps _).modify _ _ fun n _ _ => ?_
  split
  · exact srow_same rfl rfl rfl rfl rfl rfl rfl
  · exact SRowD.refl _ n

theorem markDynamic_safe (edges : List (Key × Key)) : ∀ (s : KState), P F s → P F (s.markDynamic edges) := by
  unfold KState.markDynamic
  induction edges with
  | nil => intro s hp; exact hp
  | cons e l ih => intro s hp; exact ih _ (setDynamic_safe s e.1 e.2 true hp)

/-! ## The `detached` column -/

theorem setDetachedRow_safe (s : KState) (x : Key) (d : Bool) (hp : P F s) : P F (s.setDetachedRow x d) := by
  unfold KState.setDetachedRow
  cases s.find? x with
  | none => exact hp
  | some n =>
    simp only
    have h1 : P F (s.modify x fun n => { n with detached := d }) :=
      hp.modify _ _ fun n _ _ => srow_same rfl rfl rfl rfl rfl rfl rfl
    split
    · exact flagReadySinks_safe _ _ h1
    · exact h1

theorem foldl_setDetachedRow_safe (d : Bool) (l : List Key) : ∀ (s : KState), P F s →
    P F (l.foldl (fun s x => s.setDetachedRow x d) s) := by
  induction l with
  | nil => intro s hp; exact hp
  | cons x l ih => intro s hp; exact ih _ (setDetachedRow_safe s x d hp)

theorem setDetachedRec_safe (s : KState) (k : Key) (d : Bool) (hp : P F s) : P F (s.setDetachedRec k d) := by
  unfold KState.setDetachedRec
  exact foldl_setDetachedRow_safe d _ s hp

/-! ## State propagation -/

theorem markStepPending_safe (fuel : Nat) (k : Key) :
    Preserves (P F) (fun s => StepupModel.K.markStepPending fuel s k) := by
  induction fuel generalizing k with
  | zero => intro s s' _ h; simp [StepupModel.K.markStepPending] at h
  | succ fuel ih =>
    intro s s' hp h
    unfold StepupModel.K.markStepPending at h
    cases hf : s.find? k with
    | none => simp [hf, pure, Except.pure] at h; subst h; exact hp
    | some n =>
      simp only [hf] at h
      split at h
      · simp only [pure, Except.pure, Except.ok.injEq] at h; subst h; exact hp
      · simp only [bind, Except.bind] at h
        cases hs : s.setStepState k StepState.pending with
        | error e => simp [hs] at h
        | ok s1 =>
          simp only [hs] at h
          have hp1 : P F s1 := setStepState_safe k .pending false s s1 hp hs
          split at h
          · refine foldlM_preserves (P F) _ (s1.sinksOf k) ?_ s1 s' hp1 h
            intro f st st' hst hstep
            cases hff : st.find? f with
            | none => simp [hff, pure, Except.pure] at hstep; subst hstep; exact hst
            | some fn =>
              simp only [hff] at hstep
              split at hstep
              · cases hso : st.setFileState f FileState.outdated with
                | error e => simp [hso, bind, Except.bind] at hstep
                | ok st1 =>
                  simp only [hso, bind, Except.bind] at hstep
                  have hst1 : P F st1 := setFileState_safe f .outdated st st1 hst hso
                  exact foldlM_preserves (P F) _ _ (fun t => ih t) st1 st' hst1 hstep
              · simp only [pure, Except.pure, Except.ok.injEq] at hstep; subst hstep; exact hst
          · simp only [pure, Except.pure, Except.ok.injEq] at h; subst h; exact hp1

theorem markStepPending'_safe (k : Key) : Preserves (P F) (fun s => s.markStepPending k) := by
  intro s s' hp h
  exact markStepPending_safe s.fuel k s s' hp h

theorem markConsumersPending_safe (f : Key) : Preserves (P F) (fun s => s.markConsumersPending f) := by
  intro s s' hp h
  unfold KState.markConsumersPending at h
  exact foldlM_preserves (P F) _ _ (fun t => markStepPending'_safe t) s s' hp h

theorem markFileOutdated_safe (f : Key) : Preserves (P F) (fun s => s.markFileOutdated f) := by
  intro s s' hp h
  unfold KState.markFileOutdated at h
  cases hf : s.find? f with
  | none => simp [hf, pure, Except.pure] at h; subst h; exact hp
  | some n =>
    simp only [hf] at h
    split at h
    · simp only [bind, Except.bind] at h
      cases hs : s.setFileState f FileState.outdated with
      | error e => simp [hs] at h
      | ok s1 =>
        simp only [hs] at h
        exact markConsumersPending_safe f s1 s' (setFileState_safe f .outdated s s1 hp hs) h
    · split at h
      · simp only [pure, Except.pure, Except.ok.injEq] at h; subst h; exact hp
      · cases h

theorem pendCreator_safe (f : Key) : Preserves (P F) (fun s => s.pendCreator f) := by
  intro s s' hp h
  replace h : s.pendCreator f = .ok s' := h
  unfold KState.pendCreator at h
  cases hc : s.creatorStep f with
  | none => simp [hc, pure, Except.pure] at h; subst h; exact hp
  | some c => simp only [hc] at h; exact markStepPending'_safe c s s' hp h

theorem handleUpdated_safe (f : Key) : Preserves (P F) (fun s => s.handleUpdated f) := by
  intro s s' hp h
  replace h : s.handleUpdated f = .ok s' := h
  unfold KState.handleUpdated at h
  by_cases h1 : s.fileState? f = some .confirmed
  · rw [if_pos h1] at h; exact markConsumersPending_safe f s s' hp h
  · rw [if_neg h1] at h
    by_cases h2 : s.fileState? f = some .planned ∨ s.fileState? f = some .outdated
    · rw [if_pos h2] at h; exact pendCreator_safe f s s' hp h
    · rw [if_neg h2] at h
      simp only [pure, Except.pure, Except.ok.injEq] at h; subst h; exact hp

theorem handleDeleted_safe (f : Key) : Preserves (P F) (fun s => s.handleDeleted f) := by
  intro s s' hp h
  replace h : s.handleDeleted f = .ok s' := h
  unfold KState.handleDeleted at h
  simp only [bind, Except.bind] at h
  by_cases h1 : s.fileState? f = some .planned
  · rw [if_pos h1] at h
    cases hc : s.pendCreator f with
    | error e => simp [hc] at h
    | ok s1 =>
      simp only [hc] at h
      exact markConsumersPending_safe f s1 s' (pendCreator_safe f s s1 hp hc) h
  · rw [if_neg h1] at h
    simp only [pure, Except.pure] at h
    exact markConsumersPending_safe f s s' hp h

theorem updateFileHashes_safe (updates : List (String × Option Nat)) (cause : Cause) :
    Preserves (P F) (fun s => s.updateFileHashes updates cause) := by
  intro s s' hp h
  replace h : s.updateFileHashes updates cause = .ok s' := h
  unfold KState.updateFileHashes at h
  split at h
  · simp only [pure, Except.pure, Except.ok.injEq] at h; subst h; exact hp
  · simp only [bind, Except.bind] at h
    split at h
    · cases h
    · rename_i recs hrecs
      split at h
      · cases h
      · rename_i s1 h1
        have hp1 : P F s1 :=
          foldlM_preserves (P F) _ _ (fun (r : HashRec) => writeFile_safe r.key r.newState (some r.newHash)) s s1 hp h1
        split at h
        · cases h
        · rename_i s2 h2
          have hp2 := foldlM_preserves (P F) _ _ (fun (r : HashRec) => handleUpdated_safe r.key) s1 s2 hp1 h2
          split at h
          · cases h
          · rename_i s3 h3
            have hp3 := foldlM_preserves (P F) _ _ (fun (r : HashRec) => handleDeleted_safe r.key) s2 s3 hp2 h3
            exact foldlM_preserves (P F) _ _ (fun (r : HashRec) => markConsumersPending_safe r.key) s3 s' hp3 h

/-! ## Step completion, hold and release -/

theorem outdateBuiltProducts_safe (k : Key) : Preserves (P F) (fun s => s.outdateBuiltProducts k) := by
  intro s s' hp h
  replace h : s.outdateBuiltProducts k = .ok s' := h
  unfold KState.outdateBuiltProducts at h
  exact foldlM_preserves (P F) _ _ (fun (f : Node) => setFileState_safe f.key .outdated) s s' hp h

theorem rebuildOutdatedProducts_safe (k : Key) : Preserves (P F) (fun s => s.rebuildOutdatedProducts k) := by
  intro s s' hp h
  replace h : s.rebuildOutdatedProducts k = .ok s' := h
  unfold KState.rebuildOutdatedProducts at h
  refine foldlM_preserves (P F) _ _ (fun (f : Node) => ?_) s s' hp h
  intro st st' hst hh
  simp only at hh
  split at hh
  · simp only [bind, Except.bind] at hh
    cases hs : st.setFileState f.key FileState.built with
    | error e => simp [hs] at hh
    | ok st1 =>
      simp only [hs] at hh
      exact markConsumersPending_safe f.key st1 st' (setFileState_safe f.key .built st st1 hst hs) hh
  · simp only [pure, Except.pure, Except.ok.injEq] at hh; subst hh; exact hst

theorem completeSuccess_safe (cfg : KConfig) (k : Key) (hh : Nat) :
    Preserves (P F) (fun s => s.completeSuccess cfg k hh) := by
  intro s s' hp h
  replace h : s.completeSuccess cfg k hh = .ok s' := h
  unfold KState.completeSuccess at h
  refine bind_ok h (fun s1 h1 => setStepState_safe k .succeeded false s s1 hp h1) ?_
  intro s1 s1' hp1 hh1
  refine bind_ok hh1 (fun s2 h2 => rebuildOutdatedProducts_safe k s1 s2 hp1 h2) ?_
  refine preserves_pure _ (fun s hs => ?_)
  unfold KState.refreshEnvValues
  exact (setHash_safe s k hh hs).modify _ _ fun n _ _ => srow_same rfl rfl rfl rfl rfl rfl rfl

/-- Paying the debt on `k` by `_flag_checks_with_products(k)`. -/
theorem flagChecksWithProducts_pays {s s' : KState} {k : Key} (hp : P (fun x => F x ∨ x = k) s)
    (h : s.flagChecksWithProducts k = .ok s') : P F s' := by
  have hp' := flagChecksWithProducts_safe k s s' hp h
  by_cases hs : k.kind = .step
  · exact hp'.dropFlagged fun n hn hk _ => flagChecksWithProducts_flagged h hs n hn hk
  · exact hp'.dropNonStep hs

/-- `Step.hold`: the counter goes up; when it leaves zero the subtree is flagged. -/
theorem hold_safe (k : Key) : Preserves (P F) (fun s => s.hold k) := by
  intro s s' hp h
  replace h : s.hold k = .ok s' := h
  unfold KState.hold at h
  simp only [bind, Except.bind] at h
  split at h
  · exact flagChecksWithProducts_pays
      (hp.modifyDebt k (fun n => { n with holding := n.holding + 1 }) fun _ _ hk => hk) h
  · rename_i hne
    simp only [pure, Except.pure, Except.ok.injEq] at h; subst h
    refine hp.modify k _ fun n hn hk => ?_
    have hfind : (s.modify k fun n => { n with holding := n.holding + 1 }).find? k =
        some { n with holding := n.holding + 1 } := by
      have := find?_of_mem hp.1 hn
      rw [hk] at this
      unfold KState.modify KState.find?
      unfold KState.find? at this
      rw [find?_map_key' _ _ (fun m _ => by split <;> rfl), this]
      simp only [Option.map_some, hk, if_true]
    rw [hfind] at hne
    simp only [Option.map_some, Option.some.injEq] at hne
    have h0 : n.holding ≠ 0 := fun h0 => hne (by rw [h0])
    refine ⟨rfl, fun _ => ?_⟩
    cases hc : n.checkSafe with
    | true => exact .inr (.inl rfl)
    | false =>
      refine .inr (.inr ⟨rfl, rfl, rfl, rfl, ?_, rfl⟩)
      have : (n.holding + 1 == 0) = false := by simp
      have h2 : (n.holding == 0) = false := by simpa using h0
      simp only [this, h2]

/-- `Step.release`: the counter goes down; when it reaches zero the subtree is flagged. -/
theorem release_safe (k : Key) : Preserves (P F) (fun s => s.release k) := by
  intro s s' hp h
  replace h : s.release k = .ok s' := h
  unfold KState.release at h
  cases hf : s.find? k with
  | none => simp [hf, graphErr] at h
  | some n =>
    simp only [hf, bind, Except.bind] at h
    split at h
    · cases h
    · rename_i hn0
      split at h
      · exact flagChecksWithProducts_pays
          (hp.modifyDebt k (fun n => { n with holding := n.holding - 1 }) fun _ _ hk => hk) h
      · rename_i hn1
        simp only [pure, Except.pure, Except.ok.injEq] at h; subst h
        refine hp.modify k _ fun m hm hk => ?_
        have : m = n := by
          have := find?_of_mem hp.1 hm
          rw [hk, hf] at this
          exact (Option.some.inj this).symm
        subst this
        refine ⟨rfl, fun _ => ?_⟩
        cases hc : m.checkSafe with
        | true => exact .inr (.inl rfl)
        | false =>
          refine .inr (.inr ⟨rfl, rfl, rfl, rfl, ?_, rfl⟩)
          have h2 : (m.holding == 0) = false := by simpa using hn0
          have h3 : (m.holding - 1 == 0) = false := by
            simp only [beq_eq_false_iff_ne, ne_eq]
            omega
          simp only [h2, h3]

theorem registerNglob_safe (step : Key) (pattern : String) (found : List String) :
    Preserves (P F) (fun s => s.registerNglob step pattern found) := by
  intro s s' hp h
  replace h : s.registerNglob step pattern found = .ok s' := h
  unfold KState.registerNglob at h
  refine bind_ok_gen h (fun _ => True) (fun _ _ => trivial) (P F) ?_
  intro _ r _ hh
  simp only [pure, Except.pure, Except.ok.injEq] at hh
  subst hh
  exact hp.modify _ _ fun n _ _ => srow_same rfl rfl rfl rfl rfl rfl rfl

/-! ## Finalisation and startup -/

theorem queueDelete_safe (s : KState) (p : String) (hh : Option Nat) (hp : P F s) : P F (s.queueDelete p hh) := by
  unfold KState.queueDelete
  exact hp.queue _

theorem markDir_safe (s : KState) (d : String) (hp : P F s) : P F (s.markDirToBeDeleted d) := by
  unfold KState.markDirToBeDeleted
  split
  · exact hp
  · exact queueDelete_safe _ _ _ hp

theorem revertOutput_safe (f : Key) : Preserves (P F) (fun s => s.revertOutput f) := by
  intro s s' hp h
  replace h : s.revertOutput f = .ok s' := h
  unfold KState.revertOutput at h
  cases hf : s.find? f with
  | none => simp [hf, pure, Except.pure] at h; subst h; exact hp
  | some fn =>
    simp only [hf] at h
    split at h
    · split at h
      · exact writeFile_safe f .planned (some none) _ s' (markDir_safe _ _ (queueDelete_safe _ _ _ hp)) h
      · simp only [pure, Except.pure, Except.ok.injEq] at h; subst h
        exact markDir_safe _ _ (queueDelete_safe _ _ _ hp)
    · simp only [pure, Except.pure, Except.ok.injEq] at h; subst h; exact hp

theorem revertStep_safe (n : Node) : Preserves (P F) (fun s => s.revertStep n) := by
  intro s s' hp h
  replace h : s.revertStep n = .ok s' := h
  unfold KState.revertStep at h
  refine bind_ok h (fun a ha => ?_) ?_
  · unfold KState.pendIfNot at ha
    split at ha
    · exact writeStepState_safe n.key .pending none s a hp ha
    · simp only [pure, Except.pure, Except.ok.injEq] at ha; subst ha; exact hp
  · intro a a' ha hh2
    exact foldlM_preserves (P F) _ _ (fun f => revertOutput_safe f) a a' ha hh2

theorem revertOptional_safe : Preserves (P F) (fun s => s.revertOptional) := by
  intro s s' hp h
  replace h : s.revertOptional = .ok s' := h
  unfold KState.revertOptional at h
  exact foldlM_preserves (P F) _ _ (fun (n : Node) => revertStep_safe n) s s' hp h

theorem resetInterrupted_safe : Preserves (P F) (fun s => s.resetInterrupted) := by
  intro s s' hp h
  replace h : s.resetInterrupted = .ok s' := h
  unfold KState.resetInterrupted at h
  refine bind_ok h (fun s1 h1 => ?_) ?_
  · exact foldlM_preserves (P F) _ _ (fun (n : Node) => writeStepState_safe n.key .failed none) s s1 hp h1
  · intro s1 s1' hp1 hh1
    refine bind_ok hh1 (fun s2 h2 => ?_) ?_
    · exact foldlM_preserves (P F) _ _ (fun (n : Node) => writeStepState_safe n.key .pending none) s1 s2 hp1 h2
    · intro s2 s2' hp2 hh2
      exact foldlM_preserves (P F) _ _ (fun (n : Node) => markStepPending'_safe n.key) s2 s2' hp2 hh2

theorem rescanEnvVars_safe (cfg : KConfig) : Preserves (P F) (fun s => s.rescanEnvVars cfg) := by
  intro s s' hp h
  replace h : s.rescanEnvVars cfg = .ok s' := h
  unfold KState.rescanEnvVars at h
  exact foldlM_preserves (P F) _ _ (fun (n : Node) => markStepPending'_safe n.key) s s' hp h

theorem checkConsistency_safe : Preserves (P F) (fun s => s.checkConsistency) := by
  intro s s' hp h
  replace h : s.checkConsistency = .ok s' := h
  unfold KState.checkConsistency at h
  exact foldlM_preserves (P F) (fun (st : KState) (n : Node) => st.markStepPending n.key) _
    (fun n => markStepPending'_safe n.key) s s' hp h

/-! ## Scheduler: the later stages of `_update_meta`, `reconcile_targets` -/

theorem updateMetaReady_safe (s : KState) (hp : P F s) : P F s.updateMetaReady := by
  unfold KState.updateMetaReady
  exact hp.modifyWhere _ _ fun n _ _ => srow_same rfl rfl rfl rfl rfl rfl rfl

/-- Two states whose rows agree up to the three columns of `_update_meta_after`. -/
theorem P.afterFrame {s s' : KState} (h : MetaAfter.AfterFrame s s') (hp : P F s) : P F s' := by
  have hmap := h.2.2
  have hkeys : s'.nodes.map (·.key) = s.nodes.map (·.key) := by
    have := congrArg (List.map fun n => n.key) hmap
    simp only [List.map_map] at this
    have hfun : (fun n => n.key) ∘ MetaAfter.eraseAfter = fun n : Node => n.key := rfl
    rw [hfun] at this
    exact this
  refine ⟨by unfold KeysUnique; rw [hkeys]; exact hp.1, ws_transfer hp.1 ?_ hp.2⟩
  intro n' hn' hst' hnf'
  right
  obtain ⟨n, hn, e⟩ := mem_of_map_eq MetaAfter.eraseAfter hmap hn'
  have e1 : n'.key = n.key :=
    (congrArg Node.key e : (MetaAfter.eraseAfter n').key = (MetaAfter.eraseAfter n).key)
  have e2 : n'.checkSafe = n.checkSafe :=
    (congrArg Node.checkSafe e : (MetaAfter.eraseAfter n').checkSafe = (MetaAfter.eraseAfter n).checkSafe)
  have e3 : n'.safe = n.safe :=
    (congrArg Node.safe e : (MetaAfter.eraseAfter n').safe = (MetaAfter.eraseAfter n).safe)
  have e4 : n'.safeNH = n.safeNH :=
    (congrArg Node.safeNH e : (MetaAfter.eraseAfter n').safeNH = (MetaAfter.eraseAfter n).safeNH)
  have e5 : n'.sstate = n.sstate :=
    (congrArg Node.sstate e : (MetaAfter.eraseAfter n').sstate = (MetaAfter.eraseAfter n).sstate)
  have e6 : n'.holding = n.holding :=
    (congrArg Node.holding e : (MetaAfter.eraseAfter n').holding = (MetaAfter.eraseAfter n).holding)
  have e7 : n'.creator = n.creator :=
    (congrArg Node.creator e : (MetaAfter.eraseAfter n').creator = (MetaAfter.eraseAfter n).creator)
  refine ⟨n, hn, e1.symm, ?_, e3.symm, e4.symm, by rw [e5], by rw [e6], e7.symm, ?_⟩
  · rintro (hx | hx)
    · exact hnf' (.inl (by rw [e2]; exact hx))
    · exact hnf' (.inr (by rw [e1]; exact hx))
  · intro c _ _ hf
    have hv := find?_view MetaAfter.eraseAfter (fun a b hab => (congrArg Node.key hab : (MetaAfter.eraseAfter a).key = (MetaAfter.eraseAfter b).key)) c s.nodes s'.nodes hmap
    unfold KState.find? at hf ⊢
    rw [hf] at hv
    cases hx : s.nodes.find? (fun n => decide (n.key = c)) with
    | none => rfl
    | some y => rw [hx] at hv; cases hv

theorem updateMetaAfter_safe (cfg : KConfig) : Preserves (P F) (fun s => s.updateMetaAfter cfg) := by
  intro s s' hp h
  exact hp.afterFrame (MetaAfter.updateMetaAfter_frame s s' cfg h)

theorem reconcileTarget_safe (t : String) : Preserves (P F) (fun s => s.reconcileTarget t) := by
  intro s s' hp h
  replace h : s.reconcileTarget t = .ok s' := h
  unfold KState.reconcileTarget at h
  cases hf : s.find? (fileKey t) with
  | none => simp [hf, pure, Except.pure] at h; subst h; exact hp
  | some f =>
    simp only [hf] at h
    split at h
    · simp only [pure, Except.pure, Except.ok.injEq] at h; subst h; exact hp
    · split at h
      · split at h
        · simp [graphErr] at h
        · simp only [pure, Except.pure, Except.ok.injEq] at h; subst h; exact hp
      · split at h
        · simp only [pure, Except.pure, Except.ok.injEq] at h; subst h
          exact hp.modify _ _ fun n _ _ => srow_same rfl rfl rfl rfl rfl rfl rfl
        · simp only [pure, Except.pure, Except.ok.injEq] at h; subst h; exact hp

theorem reconcileTargets_safe (cfg : KConfig) : Preserves (P F) (fun s => s.reconcileTargets cfg) := by
  intro s s' hp h
  replace h : s.reconcileTargets cfg = .ok s' := h
  unfold KState.reconcileTargets at h
  dsimp only at h
  refine bind_ok h (fun s1 h1 => ?_) ?_
  · have hp0 : P F (s.modifyWhere (fun n => n.key.kind = .step ∧ n.impliedNeed = .target)
        fun n => { n with checkAfter := true }) :=
      hp.modifyWhere _ _ fun n _ _ => srow_same rfl rfl rfl rfl rfl rfl rfl
    exact foldlM_preserves (P F) (fun st t => st.reconcileTarget t) _ (fun t => reconcileTarget_safe t) _ s1 hp0 h1
  · refine preserves_pure _ (fun s hs => ?_)
    unfold KState.reconcileTargetDirs
    exact hs.modifyWhere _ _ fun n _ _ => srow_same rfl rfl rfl rfl rfl rfl rfl

end

end StepupModel.K.SafeDisc
