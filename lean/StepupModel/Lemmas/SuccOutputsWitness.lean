import StepupModel.Lemmas.SuccOutputsBase
/-!
# I4: the four request kinds the invariant theorem excludes do break it

I4 (`SuccOutputsOK`: every attached output of a SUCCEEDED step is BUILT or VOLATILE) is kept by every request
except four kinds that the director never issues in the form below.  For each of them: the state the model
reaches by a short director-like history (a literal, compared with the model's own run of that history by the
`#guard` lines, which are evaluation checks and not theorems), I4 in that state, and ONE request that is accepted
and after which I4 fails.  The same histories replay on the implementation
(`harness/witness/succ_outputs_*.txt`, `harness/kreplay.py`), with the same answers and the same database.

The common prefix `P`:
`define root "./plan.py" (need PLAN, safe)`; `pop` (plan RUNNING); `define plan "A" (out o)` (A PENDING, o PLANNED).
-/
namespace StepupModel.K.SuccOut

def wCfg : KConfig := {}

def wPlan : Key := stepKey "./plan.py"

/-- The prefix `P` as requests. -/
def wPrefix : List (KConfig × Req) := [
  (wCfg, .define rootKey { cmd := "./plan.py", need := .plan, safe := true }),
  (wCfg, .pop (some wPlan)),
  (wCfg, .define wPlan { cmd := "A", out := ["o"] })]

/-- The answer of one request on a literal state: accepted, and I4 fails afterwards.  The second and third
witness evaluate it with `decide +kernel` (the kernel's own reduction, no compiled evaluation):
`List.mergeSort` (`fileProducts`, `normPaths`) is defined by well-founded recursion, which the elaborator's
`decide` does not unfold. -/
def breaksI4 (r : M (KState × String)) : Bool :=
  match r with
  | .ok s' => !succOutputsOKB s'.1
  | .error _ => false

theorem breaksI4_spec {r : M (KState × String)} (h : breaksI4 r = true) :
    ∃ s', r = .ok s' ∧ ¬ SuccOutputsOK s'.1 := by
  cases r with
  | error e => cases h
  | ok s' =>
    refine ⟨s', rfl, fun hok => ?_⟩
    have hb := (succOutputsOKB_iff s'.1).2 hok
    simp only [breaksI4, hb] at h
    cases h

/-! ## 1. `set_state <step> SUCCEEDED` -/

/-- The state after `P`: plan RUNNING, A PENDING with the PLANNED output o. -/
def wState1 : KState :=
  { nodes := [
      { key := rootKey, creator := some rootKey },
      { key := wPlan, creator := some rootKey, sstate := .running, need := .plan, impliedNeed := .plan,
        safe := true, checkSafe := true, safeNH := true, ready := true, checkReady := false },
      { key := stepKey "A", creator := some wPlan, checkSafe := true, checkAfter := true },
      { key := fileKey "o", creator := some (stepKey "A"), fstate := .planned }],
    deps := [{ src := stepKey "A", snk := fileKey "o" }] }

#guard reprStr wState1 == reprStr (KState.init.run wPrefix)

/-- **A raw `Step.set_state(SUCCEEDED)` breaks I4**: on the state after `P` the request is accepted and leaves
the SUCCEEDED step A with the PLANNED attached output o (`witness/succ_outputs_set_state.txt`).  The only
`set_state(SUCCEEDED)` of the implementation is the one inside `Step.mark_completed`. -/
theorem set_state_succeeded_breaks_I4 : SuccOutputsOK wState1 ∧
    ∃ s', wState1.exec wCfg (.setState (stepKey "A") .succeeded) = .ok s' ∧ ¬ SuccOutputsOK s'.1 :=
  ⟨by decide, breaksI4_spec (by decide)⟩

/-! ## 2. `completed <step> <hash> 0` while an output is PLANNED -/

/-- The state after `P; pop A`: A RUNNING, o still PLANNED (no SUCCEEDED-cause hash update of o yet). -/
def wState2 : KState :=
  { nodes := [
      { key := rootKey, creator := some rootKey },
      { key := wPlan, creator := some rootKey, sstate := .running, need := .plan, impliedNeed := .plan,
        safe := true, safeNH := true, ready := true, checkReady := false },
      { key := stepKey "A", creator := some wPlan, sstate := .running, safe := true, checkSafe := true, safeNH := true,
        ready := true, checkReady := false },
      { key := fileKey "o", creator := some (stepKey "A"), fstate := .planned }],
    deps := [{ src := stepKey "A", snk := fileKey "o" }] }

#guard reprStr wState2 == reprStr ((KState.init.run wPrefix).step wCfg (.pop (some (stepKey "A"))))

/-- **`mark_completed(new_hash)` with a PLANNED output breaks I4**: the success branch of `mark_completed` does not
look at the states of the outputs (`witness/succ_outputs_completed_planned.txt`).  The runner sends the
SUCCEEDED-cause hash update of every output first, and reports a missing output as a failure (`new_hash = None`). -/
theorem completed_with_planned_output_breaks_I4 : SuccOutputsOK wState2 ∧
    ∃ s', wState2.exec wCfg (.completed (stepKey "A") (some 7) false) = .ok s' ∧ ¬ SuccOutputsOK s'.1 :=
  ⟨by decide, breaksI4_spec (by decide +kernel)⟩

/-! ## 3. and 4.: requests on a SUCCEEDED step -/

/-- The state after `P; pop A; hashes SUCCEEDED o=5; completed A 7 0`: A SUCCEEDED with the BUILT output o. -/
def wState3 : KState :=
  { nodes := [
      { key := rootKey, creator := some rootKey },
      { key := wPlan, creator := some rootKey, sstate := .running, need := .plan, impliedNeed := .plan,
        safe := true, safeNH := true, ready := true, checkReady := false },
      { key := stepKey "A", creator := some wPlan, sstate := .succeeded, safe := true, checkSafe := true, safeNH := true,
        ready := true, checkReady := false, hasHash := true, shash := some 7 },
      { key := fileKey "o", creator := some (stepKey "A"), fstate := .built, fhash := some 5 }],
    deps := [{ src := stepKey "A", snk := fileKey "o" }] }

/-- The same history, for the fourth witness. -/
def wState4 : KState := wState3

#guard reprStr wState3 == reprStr ((((KState.init.run wPrefix).step wCfg (.pop (some (stepKey "A")))).step wCfg
  (.hashes [("o", some 5)] .succeeded)).step wCfg (.completed (stepKey "A") (some 7) false))

/-- **`amend` of a SUCCEEDED step breaks I4**: the new output o2 is PLANNED
(`witness/succ_outputs_amend_succeeded.txt`).  `DirectorHandler.amend_step` is an RPC of the process of a RUNNING step. -/
theorem amend_of_succeeded_step_breaks_I4 : SuccOutputsOK wState3 ∧
    ∃ s', wState3.exec wCfg (.amend (stepKey "A") [] [] ["o2"] [] []) = .ok s' ∧ ¬ SuccOutputsOK s'.1 :=
  ⟨by decide, breaksI4_spec (by decide +kernel)⟩

/-- **`reset_for_rerun` of a SUCCEEDED step breaks I4**: the BUILT output o becomes OUTDATED, the
step stays SUCCEEDED (`witness/succ_outputs_reset_rerun.txt`).  The executor calls `reset_for_rerun` on the step
`pop_next_job` has just set RUNNING. -/
theorem reset_for_rerun_of_succeeded_step_breaks_I4 : SuccOutputsOK wState4 ∧
    ∃ s', wState4.exec wCfg (.resetRerun (stepKey "A")) = .ok s' ∧ ¬ SuccOutputsOK s'.1 :=
  ⟨by decide, breaksI4_spec (by decide)⟩

#print axioms set_state_succeeded_breaks_I4
#print axioms completed_with_planned_output_breaks_I4
#print axioms amend_of_succeeded_step_breaks_I4
#print axioms reset_for_rerun_of_succeeded_step_breaks_I4

end StepupModel.K.SuccOut
