import StepupModel.K.Workflow
/-!
Helper lemmas about `normPaths` (`sorted(set(paths))`): the result is strictly increasing, has
exactly the members of the argument, and is therefore determined by the *set* of the argument.
-/
namespace StepupModel.K

theorem mem_sortStrs {a : String} {l : List String} : a ∈ sortStrs l ↔ a ∈ l := by
  unfold sortStrs; exact List.mem_mergeSort

theorem sortStrs_pairwise (l : List String) : (sortStrs l).Pairwise (· ≤ ·) := by
  unfold sortStrs
  have h := List.pairwise_mergeSort (le := fun a b : String => decide (a ≤ b))
    (fun a b c hab hbc => by
      simp only [decide_eq_true_eq] at hab hbc ⊢
      exact String.le_trans hab hbc)
    (fun a b => by
      simp only [Bool.or_eq_true, decide_eq_true_eq]
      exact String.le_total a b) l
  exact h.imp (fun hab => by simpa using hab)

theorem mem_dedupSorted {a : String} : ∀ {l : List String}, a ∈ dedupSorted l ↔ a ∈ l
  | [] => by simp [dedupSorted]
  | [x] => by simp [dedupSorted]
  | x :: y :: rest => by
    have ih := @mem_dedupSorted a (y :: rest)
    unfold dedupSorted
    by_cases hxy : x = y
    · subst hxy
      simp only [if_true, ih, List.mem_cons]
      constructor
      · intro h; exact Or.inr h
      · rintro (h | h)
        · exact Or.inl h
        · exact h
    · simp only [hxy, if_false, List.mem_cons, ih]

theorem dedupSorted_strict : ∀ (l : List String), l.Pairwise (· ≤ ·) → (dedupSorted l).Pairwise (· < ·)
  | [], _ => by simp [dedupSorted]
  | [x], _ => by simp [dedupSorted]
  | x :: y :: rest, h => by
    have hrest : (y :: rest).Pairwise (· ≤ ·) := (List.pairwise_cons.mp h).2
    have ih := dedupSorted_strict (y :: rest) hrest
    unfold dedupSorted
    by_cases hxy : x = y
    · simp only [hxy, if_true]; exact ih
    · simp only [hxy, if_false]
      rw [List.pairwise_cons]
      refine ⟨fun z hz => ?_, ih⟩
      have hz' : z ∈ y :: rest := mem_dedupSorted.mp hz
      have hx : ∀ w ∈ y :: rest, x ≤ w := (List.pairwise_cons.mp h).1
      have hxle : x ≤ y := hx y List.mem_cons_self
      have hyz : y ≤ z := by
        rcases List.mem_cons.mp hz' with rfl | hm
        · exact String.le_refl _
        · exact (List.pairwise_cons.mp hrest).1 z hm
      apply String.not_le.mp
      intro hzx
      exact hxy (String.le_antisymm hxle (String.le_trans hyz hzx))

/-- Two strictly increasing lists with the same members are equal. -/
theorem strict_sorted_ext : ∀ (l1 l2 : List String), l1.Pairwise (· < ·) → l2.Pairwise (· < ·) →
    (∀ x, x ∈ l1 ↔ x ∈ l2) → l1 = l2
  | [], [], _, _, _ => rfl
  | [], b :: t2, _, _, hm => by have := (hm b).mpr List.mem_cons_self; cases this
  | a :: t1, [], _, _, hm => by have := (hm a).mp List.mem_cons_self; cases this
  | a :: t1, b :: t2, h1, h2, hm => by
    obtain ⟨ha, ht1⟩ := List.pairwise_cons.mp h1
    obtain ⟨hb, ht2⟩ := List.pairwise_cons.mp h2
    have hab : a = b := by
      have h1' := (hm a).mp List.mem_cons_self
      have h2' := (hm b).mpr List.mem_cons_self
      rcases List.mem_cons.mp h1' with h | h
      · exact h
      · rcases List.mem_cons.mp h2' with h' | h'
        · exact h'.symm
        · exact absurd (ha b h') (String.lt_asymm (hb a h))
    subst hab
    have htail : ∀ x, x ∈ t1 ↔ x ∈ t2 := by
      intro x
      constructor
      · intro hx
        rcases List.mem_cons.mp ((hm x).mp (List.mem_cons_of_mem _ hx)) with h | h
        · subst h; exact absurd (ha x hx) (String.lt_irrefl x)
        · exact h
      · intro hx
        rcases List.mem_cons.mp ((hm x).mpr (List.mem_cons_of_mem _ hx)) with h | h
        · subst h; exact absurd (hb x hx) (String.lt_irrefl x)
        · exact h
    rw [strict_sorted_ext t1 t2 ht1 ht2 htail]

theorem mem_normPaths {a : String} {l : List String} : a ∈ normPaths l ↔ a ∈ l := by
  unfold normPaths; rw [mem_dedupSorted, mem_sortStrs]

theorem normPaths_strict (l : List String) : (normPaths l).Pairwise (· < ·) :=
  dedupSorted_strict _ (sortStrs_pairwise l)

/-- `sorted(set(l))` depends on `l` only through its set of members. -/
theorem normPaths_congr (l1 l2 : List String) (h : ∀ x, x ∈ l1 ↔ x ∈ l2) : normPaths l1 = normPaths l2 :=
  strict_sorted_ext _ _ (normPaths_strict l1) (normPaths_strict l2)
    (fun x => by rw [mem_normPaths, mem_normPaths]; exact h x)

theorem normPaths_idem (l : List String) : normPaths (normPaths l) = normPaths l :=
  normPaths_congr _ _ (fun _ => mem_normPaths)

/-- A strictly increasing list is its own normal form. -/
theorem normPaths_of_strict (l : List String) (h : l.Pairwise (· < ·)) : normPaths l = l :=
  strict_sorted_ext _ _ (normPaths_strict l) h (fun _ => mem_normPaths)

end StepupModel.K
