import StepupModel.Lemmas.Discipline
/-!
# Product rows and their declarations: the state invariant and the structural writes

`Inv O X A s`: one row per key; every file row in a product state (PLANNED, BUILT, OUTDATED, VOLATILE)
has a label in `A`; on the keys of `X`, the creator of such a row (when it has one) is a step or a static
tree, and an UNDECLARED file row is detached and has no creator.  `KeepX X s s'` is what the writes that do
not declare anything do to the file rows (key and role stay; on `X` the creator is kept or cut and a row
only becomes attached when it has a creator); `Inv.keep` carries the invariant along it.
No property statements here.
-/
namespace StepupModel.K.Ever
open StepupModel.K.MetaAfter StepupModel.K.Discipline StepupModel.Lemmas
set_option linter.unusedSimpArgs false
set_option linter.unusedVariables false

/-- `FILE_ROLE_BY_STATE` gives the role OUTPUT or VOLATILE. -/
def IsProduct (st : FileState) : Prop := st.role? = some .output ∨ st.role? = some .volatile

instance (st : FileState) : Decidable (IsProduct st) := by unfold IsProduct; exact inferInstance

theorem isProduct_iff (st : FileState) :
    IsProduct st ↔ st = .planned ∨ st = .built ∨ st = .outdated ∨ st = .volatile := by
  cases st <;> simp [IsProduct, FileState.role?]

theorem isProduct_of_role {a b : FileState} (h : a.role? = b.role?) : IsProduct a ↔ IsProduct b := by
  unfold IsProduct; rw [h]

theorem undeclared_iff_role (st : FileState) : st = .undeclared ↔ st.role? = none := by
  cases st <;> simp [FileState.role?]

theorem undeclared_of_role {a b : FileState} (h : a.role? = b.role?) : a = .undeclared ↔ b = .undeclared := by
  rw [undeclared_iff_role, undeclared_iff_role, h]

/-- A node that may own a product: a step (or a static tree, which the schema also lets be the source
of an edge into a file). -/
def OwnerKind (c : Key) : Prop := c.kind = .step ∨ c.kind = .st

/-- The invariant; `X` are the keys on which the creator/detached clauses are claimed, `A` the labels
that may be in a product state, `O` the nodes that may own a product. -/
structure Inv (O : Key → Prop) (X : Key → Prop) (A : String → Prop) (s : KState) : Prop where
  keys : KeysUnique s
  prod : ∀ n ∈ s.nodes, n.key.kind = .file → IsProduct n.fstate → A n.key.label
  own : ∀ n ∈ s.nodes, n.key.kind = .file → X n.key → IsProduct n.fstate → ∀ c, n.creator = some c → O c
  und : ∀ n ∈ s.nodes, n.key.kind = .file → X n.key → n.fstate = .undeclared → n.detached = true ∧ n.creator = none

def All (_ : Key) : Prop := True

theorem Inv.mono {O : Key → Prop} {X Y : Key → Prop} {A B : String → Prop} {s : KState} (h : Inv O X A s)
    (hY : ∀ k, k.kind = .file → Y k → X k) (hA : ∀ p, A p → B p) : Inv O Y B s :=
  ⟨h.keys, fun n hn hk hp => hA _ (h.prod n hn hk hp), fun n hn hk hy => h.own n hn hk (hY _ hk hy),
    fun n hn hk hy => h.und n hn hk (hY _ hk hy)⟩

/-- What a non-declaring write does to a file row. -/
def KeepRow (X : Key → Prop) (n n' : Node) : Prop :=
  n'.key = n.key ∧ n'.fstate.role? = n.fstate.role? ∧
    (X n.key → (n'.creator = n.creator ∨ n'.creator = none) ∧
      (n'.detached = false → n.detached = false ∨ n'.creator ≠ none))

theorem KeepRow.refl (X : Key → Prop) (n : Node) : KeepRow X n n :=
  ⟨rfl, rfl, fun _ => ⟨.inl rfl, fun h => .inl h⟩⟩

/-- Every file row of `s'` comes from a row of `s` by `KeepRow`. -/
def KeepX (X : Key → Prop) (s s' : KState) : Prop :=
  ∀ n' ∈ s'.nodes, n'.key.kind = .file → ∃ n ∈ s.nodes, KeepRow X n n'

theorem KeepX.refl (X : Key → Prop) (s : KState) : KeepX X s s := fun n hn _ => ⟨n, hn, KeepRow.refl X n⟩

theorem Inv.keep {O : Key → Prop} {X : Key → Prop} {A : String → Prop} {s s' : KState} (h : Inv O X A s) (hr : KeepX X s s')
    (hk : KeysUnique s') : Inv O X A s' := by
  refine ⟨hk, ?_, ?_, ?_⟩
  · intro n' hn' hkind hp
    obtain ⟨n, hn, h1, h2, _⟩ := hr n' hn' hkind
    rw [h1]
    exact h.prod n hn (h1 ▸ hkind) ((isProduct_of_role h2).1 hp)
  · intro n' hn' hkind hx hp c hc
    obtain ⟨n, hn, h1, h2, h3⟩ := hr n' hn' hkind
    rcases (h3 (h1 ▸ hx)).1 with he | he
    · exact h.own n hn (h1 ▸ hkind) (h1 ▸ hx) ((isProduct_of_role h2).1 hp) c (he ▸ hc)
    · rw [he] at hc; cases hc
  · intro n' hn' hkind hx hu
    obtain ⟨n, hn, h1, h2, h3⟩ := hr n' hn' hkind
    obtain ⟨hd, hc⟩ := h.und n hn (h1 ▸ hkind) (h1 ▸ hx) ((undeclared_of_role h2).1 hu)
    have hcn : n'.creator = none := by
      rcases (h3 (h1 ▸ hx)).1 with he | he
      · rw [he]; exact hc
      · exact he
    refine ⟨?_, hcn⟩
    cases hdd : n'.detached with
    | true => rfl
    | false =>
      rcases (h3 (h1 ▸ hx)).2 hdd with h4 | h4
      · rw [hd] at h4; cases h4
      · exact absurd hcn h4

/-! ## Generic row rewrites -/

theorem keepX_mapNodes (X : Key → Prop) (s : KState) (g : Node → Node)
    (hg : ∀ n ∈ s.nodes, n.key.kind = .file → KeepRow X n (g n)) (hkey : ∀ n, (g n).key = n.key) :
    KeepX X s { s with nodes := s.nodes.map g } := by
  intro n' hn' hkind
  obtain ⟨n, hn, rfl⟩ := List.mem_map.1 hn'
  exact ⟨n, hn, hg n hn (by rw [← hkey n]; exact hkind)⟩

theorem keepX_modify (X : Key → Prop) (s : KState) (k : Key) (f : Node → Node) (hkey : ∀ n, (f n).key = n.key)
    (hf : ∀ n ∈ s.nodes, n.key = k → n.key.kind = .file → KeepRow X n (f n)) : KeepX X s (s.modify k f) := by
  unfold KState.modify
  refine keepX_mapNodes X s _ (fun n hn hkind => ?_) (fun n => ?_)
  · by_cases h : n.key = k
    · rw [if_pos h]; exact hf n hn h hkind
    · rw [if_neg h]; exact KeepRow.refl X n
  · by_cases h : n.key = k
    · rw [if_pos h]; exact hkey n
    · rw [if_neg h]

theorem keepX_of_soft (X : Key → Prop) {s s' : KState} (h : SoftRel s s') : KeepX X s s' := by
  intro n' hn' _
  obtain ⟨n, hn, h1, h2, ⟨h3, h4⟩, _⟩ := forall₂_mem_right h.rows n' hn'
  exact ⟨n, hn, h1, h4, fun _ => ⟨.inl h3, fun hd => .inl (by rw [← h2]; exact hd)⟩⟩

theorem keepX_of_nodes (X : Key → Prop) {s s' : KState} (h : s'.nodes = s.nodes) : KeepX X s s' := by
  intro n' hn' _
  exact ⟨n', h ▸ hn', KeepRow.refl X n'⟩

theorem keepX_mono {X Y : Key → Prop} {s s' : KState} (h : KeepX X s s') (hY : ∀ k, Y k → X k) : KeepX Y s s' := by
  intro n' hn' hk
  obtain ⟨n, hn, h1, h2, h3⟩ := h n' hn' hk
  exact ⟨n, hn, h1, h2, fun hy => h3 (hY _ hy)⟩

/-- An operation that is soft in the sense of `Lemmas/DisciplineSoft.lean` preserves the invariant. -/
theorem Inv.soft {O : Key → Prop} {X : Key → Prop} {A : String → Prop} {s s' : KState} (h : Inv O X A s) (hr : SoftRel s s') : Inv O X A s' :=
  h.keep (keepX_of_soft X hr) (hr.keysUnique h.keys)

theorem Inv.of_soft {O : Key → Prop} {X : Key → Prop} {A : String → Prop} {f : KState → M KState} (hf : ∀ s0, Preserves (SP s0) f) :
    Preserves (Inv O X A) f := by
  intro s s' hp h
  exact hp.soft (hf s s s' (SP.refl hp.keys) h).2

theorem Inv.nodes {O : Key → Prop} {X : Key → Prop} {A : String → Prop} {s s' : KState} (h : Inv O X A s) (hn : s'.nodes = s.nodes) : Inv O X A s' := by
  refine h.keep (keepX_of_nodes X hn) ?_
  unfold KeysUnique; rw [hn]; exact h.keys

theorem flagReadySinks_soft' (s : KState) (k : Key) : SoftRel s (s.flagReadySinks k) := by
  unfold KState.flagReadySinks
  exact softRel_modifyWhere _ _ (softFn_rfl (fun _ => rfl) (fun _ => rfl) (fun _ => rfl) (fun _ => rfl)
    (fun _ => rfl) (fun _ => rfl) (fun _ => rfl) (fun _ => rfl))

/-! ## `detached` and `creator` writes -/

/-- `UPDATE node SET detached = ?`: harmless when the flag is raised, or when the row is no file, or
has a creator. -/
theorem setDetachedRow_inv {O : Key → Prop} {X : Key → Prop} {A : String → Prop} {s : KState} (x : Key) (d : Bool) (h : Inv O X A s)
    (hx : d = false → ∀ n ∈ s.nodes, n.key = x → n.key.kind = .file → X n.key → n.creator ≠ none) :
    Inv O X A (s.setDetachedRow x d) := by
  unfold KState.setDetachedRow
  cases s.find? x with
  | none => exact h
  | some m =>
    simp only
    have h1 : Inv O X A (s.modify x fun n => { n with detached := d }) := by
      refine h.keep (keepX_modify X s x _ (fun _ => rfl) ?_) (keysUnique_modify x _ (fun _ hn => hn) h.keys)
      intro n hn hk hkind
      refine ⟨rfl, rfl, fun hX => ⟨.inl rfl, fun hd => .inr ?_⟩⟩
      have : d = false := hd
      exact hx this n hn hk hkind hX
    split
    · exact h1.soft (flagReadySinks_soft' _ x)
    · exact h1

theorem setDetachedRow_rows (s : KState) (x : Key) (d : Bool) :
    ∀ n' ∈ (s.setDetachedRow x d).nodes, ∃ n ∈ s.nodes, n'.key = n.key ∧ n'.creator = n.creator := by
  intro n' hn'
  unfold KState.setDetachedRow at hn'
  cases hf : s.find? x with
  | none => rw [hf] at hn'; exact ⟨n', hn', rfl, rfl⟩
  | some m =>
    rw [hf] at hn'
    simp only at hn'
    have key : ∀ n1 ∈ (s.modify x fun n => { n with detached := d }).nodes, ∃ n ∈ s.nodes, n1.key = n.key ∧ n1.creator = n.creator := by
      intro n1 hn1
      unfold KState.modify at hn1
      obtain ⟨n, hn, rfl⟩ := List.mem_map.1 hn1
      refine ⟨n, hn, ?_⟩
      split <;> exact ⟨rfl, rfl⟩
    split at hn'
    · unfold KState.flagReadySinks KState.modifyWhere at hn'
      obtain ⟨n1, hn1, rfl⟩ := List.mem_map.1 hn'
      obtain ⟨n, hn, h1, h2⟩ := key n1 hn1
      refine ⟨n, hn, ?_⟩
      split
      · exact ⟨h1, h2⟩
      · exact ⟨h1, h2⟩
    · exact key n' hn'

theorem foldl_setDetachedRow_inv {O : Key → Prop} {X : Key → Prop} {A : String → Prop} (d : Bool) (L : List Key) :
    ∀ s : KState, Inv O X A s →
      (d = false → ∀ x ∈ L, ∀ n ∈ s.nodes, n.key = x → n.key.kind = .file → X n.key → n.creator ≠ none) →
      Inv O X A (L.foldl (fun s x => s.setDetachedRow x d) s) := by
  induction L with
  | nil => intro s h _; exact h
  | cons y L ih =>
    intro s h hx
    simp only [List.foldl_cons]
    refine ih _ (setDetachedRow_inv y d h fun hd n hn hk hkind hX => hx hd y List.mem_cons_self n hn hk hkind hX) ?_
    intro hd x hxL n' hn' hk hkind hX
    obtain ⟨n, hn, h1, h2⟩ := setDetachedRow_rows s y d n' hn'
    rw [h2]
    exact hx hd x (List.mem_cons_of_mem _ hxL) n hn (h1 ▸ hk) (h1 ▸ hkind) (h1 ▸ hX)

/-- Every recursive product has a creator. -/
theorem descendants_creator (s : KState) (hk : KeysUnique s) (k x : Key) (hx : x ∈ s.descendants k) :
    ∀ n ∈ s.nodes, n.key = x → n.creator ≠ none := by
  intro n hn hnx
  have hd := (mem_descendants s k x).1 hx
  have key : ∃ c d, (x, some c, d) ∈ s.skel := by
    cases hd with
    | direct _ d hm _ => exact ⟨k, d, hm⟩
    | trans _ c d hm _ _ => exact ⟨c, d, hm⟩
  obtain ⟨c, d, hm⟩ := key
  unfold KState.skel at hm
  obtain ⟨m, hmn, hmt⟩ := List.mem_map.1 hm
  have hmk : m.key = x := congrArg (·.1) hmt
  have hmc : m.creator = some c := congrArg (·.2.1) hmt
  have : n = m := by
    have h1 := find?_of_mem hk hn
    have h2 := find?_of_mem hk hmn
    rw [hnx] at h1; rw [hmk] at h2
    rw [h1] at h2; exact Option.some.inj h2
  rw [this, hmc]; exact fun h => by cases h

theorem setDetachedRec_inv {O : Key → Prop} {X : Key → Prop} {A : String → Prop} {s : KState} (k : Key) (d : Bool) (h : Inv O X A s) :
    Inv O X A (s.setDetachedRec k d) := by
  unfold KState.setDetachedRec
  exact foldl_setDetachedRow_inv d _ s h fun _ x hx n hn hnx _ _ => descendants_creator s h.keys k x hx n hn hnx

/-- `UPDATE node SET creator = NULL, detached = 1` -/
theorem setCreator_none_inv {O : Key → Prop} {X : Key → Prop} {A : String → Prop} {s s' : KState} {k : Key} (h : Inv O X A s)
    (hs : s.setCreator k none true = .ok s') : Inv O X A s' := by
  unfold KState.setCreator at hs
  split at hs
  · simp only [pure, Except.pure, Except.ok.injEq] at hs
    subst hs
    refine setDetachedRow_inv k true ?_ (fun hd => by cases hd)
    refine h.keep (keepX_modify X s k _ (fun _ => rfl) ?_) (keysUnique_modify k _ (fun _ hn => hn) h.keys)
    intro n hn hk hkind
    exact ⟨rfl, rfl, fun _ => ⟨.inr rfl, fun hd => .inl hd⟩⟩
  · cases hs

theorem detachCore_inv {O : Key → Prop} {X : Key → Prop} {A : String → Prop} {s s' : KState} {k : Key} {n : Node} (h : Inv O X A s)
    (hs : s.detachCore k n = .ok s') : Inv O X A s' := by
  unfold KState.detachCore at hs
  split at hs
  · simp only [bind, Except.bind] at hs
    cases hsc : s.setCreator k none true with
    | error e => simp [hsc] at hs
    | ok sc =>
      simp only [hsc, pure, Except.pure, Except.ok.injEq] at hs
      subst hs
      have h1 := setCreator_none_inv h hsc
      split
      · exact setDetachedRec_inv k true h1
      · exact h1
  · simp only [pure, Except.pure, Except.ok.injEq] at hs; subst hs; exact h

theorem detachFlags_rel {s s' : KState} {k : Key} (h : s.detachFlags k = .ok s') : SoftRel s s' := by
  unfold KState.detachFlags at h
  split at h
  · simp only [bind, Except.bind] at h
    cases h2 : s.flagChecksWithProducts k with
    | error e => simp [h2] at h
    | ok s2 =>
      simp only [h2] at h
      exact (flagChecksWithProducts_rel h2).trans (flagCheckAfterSources_rel h)
  · simp only [pure, Except.pure, Except.ok.injEq] at h; subst h; exact SoftRel.refl _

/-- `Node.detach` (+ `Step.detach`) -/
theorem detach_inv {O : Key → Prop} {X : Key → Prop} {A : String → Prop} (k : Key) : Preserves (Inv O X A) (fun s => s.detach k) := by
  intro s s' h hs
  replace hs : s.detach k = .ok s' := hs
  unfold KState.detach at hs
  cases hf : s.find? k with
  | none => simp [hf] at hs
  | some n =>
    simp only [hf, bind, Except.bind] at hs
    cases h1 : s.detachCore k n with
    | error e => simp [h1] at hs
    | ok s1 =>
      simp only [h1] at hs
      exact (detachCore_inv h h1).soft (detachFlags_rel hs)

theorem foldlM_detach_inv {O : Key → Prop} {X : Key → Prop} {A : String → Prop} (L : List Node) :
    Preserves (Inv O X A) (fun s => L.foldlM (fun st (p : Node) => st.detach p.key) s) := by
  intro s s' h hs
  exact foldlM_mem (fun st => Inv O X A st) (fun st (p : Node) => st.detach p.key) L
    (fun st p st' _ hst hd => detach_inv p.key st st' hst hd) s s' h hs

/-- `DELETE FROM dependency` only raises flags on rows. -/
theorem deleteDeps_inv {O : Key → Prop} {X : Key → Prop} {A : String → Prop} {s : KState} (p : Dep → Bool) (h : Inv O X A s) :
    Inv O X A (s.deleteDeps p) := by
  have h0 : Inv O X A ({ s with deps := s.deps.filter fun d => !p d } : KState) := h.nodes rfl
  unfold KState.deleteDeps
  exact h0.soft (flagFold_spec _ _).1

theorem insertDep_inv {O : Key → Prop} {X : Key → Prop} {A : String → Prop} (a b : Key) : Preserves (Inv O X A) (fun s => s.insertDep a b) := by
  intro s s' h hs
  replace hs : s.insertDep a b = .ok s' := hs
  unfold KState.insertDep at hs
  simp only [bind, Except.bind] at hs
  split at hs
  · cases hs
  · split at hs
    · cases hs
    · simp only [pure, Except.pure, Except.ok.injEq] at hs
      subst hs
      have h0 : Inv O X A ({ s with deps := s.deps ++ [({ src := a, snk := b } : Dep)] } : KState) := h.nodes rfl
      refine h0.soft ?_
      unfold KState.flagDepEndpoints
      exact softRel_modifyWhere _ _ (softFn_flag (fun _ => rfl) (fun _ => rfl) (fun _ => rfl) (fun _ => rfl) (fun _ => rfl))

theorem lostProduct_inv {O : Key → Prop} {X : Key → Prop} {A : String → Prop} (old : Option Key) :
    Preserves (Inv O X A) (fun s => s.lostProduct old) := fun s s' h hs => h.soft (lostProduct_rel hs)

theorem flagIfStep_inv {O : Key → Prop} {X : Key → Prop} {A : String → Prop} (k : Key) : Preserves (Inv O X A) (fun s => s.flagIfStep k) := by
  intro s s' h hs
  replace hs : s.flagIfStep k = .ok s' := hs
  unfold KState.flagIfStep at hs
  split at hs
  · exact h.soft (flagChecksWithProducts_rel hs)
  · simp only [pure, Except.pure, Except.ok.injEq] at hs; subst hs; exact h

/-- `UPDATE node SET creator = ?, detached = ?` on a row whose file clauses are not claimed (no file, or
exempted). -/
theorem setCreator_inv {O : Key → Prop} {X : Key → Prop} {A : String → Prop} {s s' : KState} {k : Key} {c : Option Key} {d : Bool}
    (h : Inv O X A s) (hk : k.kind = .file → ¬ X k) (hs : s.setCreator k c d = .ok s') : Inv O X A s' := by
  unfold KState.setCreator at hs
  split at hs
  · simp only [pure, Except.pure, Except.ok.injEq] at hs
    subst hs
    refine setDetachedRow_inv k d ?_ (fun _ n hn hnk hkind hX => absurd (hnk ▸ hX) (hk (hnk ▸ hkind)))
    refine h.keep (keepX_modify X s k _ (fun _ => rfl) ?_) (keysUnique_modify k _ (fun _ hn => hn) h.keys)
    intro n hn hnk hkind
    exact ⟨rfl, rfl, fun hX => absurd (hnk ▸ hX) (hk (hnk ▸ hkind))⟩
  · cases hs

/-- `Node.reattach` of a node that is not a file (a step, in `define_step`). -/
theorem reattach_inv {O : Key → Prop} {X : Key → Prop} {A : String → Prop} (k c : Key) (hk : k.kind ≠ .file) :
    Preserves (Inv O X A) (fun s => s.reattach k c) := by
  intro s s' h hs
  replace hs : s.reattach k c = .ok s' := hs
  unfold KState.reattach at hs
  cases hf : s.find? k with
  | none => simp [hf] at hs
  | some n =>
    simp only [hf] at hs
    split at hs
    · cases hs
    · split at hs
      · cases hs
      · unfold KState.reattachCore at hs
        simp only [bind, Except.bind] at hs
        cases h1 : s.setCreator k (some c) (s.isDetached c) with
        | error e => simp [h1] at hs
        | ok s1 =>
          simp only [h1] at hs
          cases h2 : s1.lostProduct n.creator with
          | error e => simp [h2] at hs
          | ok s2 =>
            simp only [h2] at hs
            have i1 := setCreator_inv h (fun hf => absurd hf hk) h1
            have i2 := lostProduct_inv n.creator s1 s2 i1 h2
            exact flagIfStep_inv k _ _ (setDetachedRec_inv k _ i2) hs
