import StepupModel.P.Report
/-!
# Helper definitions and lemmas for the model of `report_unbuilt` (`P/Report.lean`)
-/
namespace StepupModel.P.Report
open StepupModel.K

/-- An attached step is FAILED. -/
def anyFailed (i : Input) : Prop := ∃ r ∈ i.steps, r.state = .failed ∧ r.detached = false

/-- An attached PENDING step exceeds the need threshold. -/
def anyPending (i : Input) : Prop :=
  ∃ r ∈ i.steps, r.state = .pending ∧ i.threshold.rank < r.impliedNeed.rank ∧ r.detached = false

theorem nfailed_pos (i : Input) : 0 < nfailed i ↔ anyFailed i := by
  unfold nfailed anyFailed
  rw [List.length_pos_iff_exists_mem]
  simp [List.mem_filter, isFailedRow]

theorem ntotal_pos (i : Input) : 0 < ntotal i ↔ anyPending i := by
  unfold ntotal anyPending
  rw [List.length_pos_iff_exists_mem]
  simp [List.mem_filter, isPendingRow, and_assoc]

/-- Nothing but glob violations is wrong: the condition under which the code looks at them. -/
def CleanBeforeGlobs (i : Input) : Prop :=
  ¬ anyFailed i ∧ i.draining = false ∧ ¬ anyPending i ∧ i.missingTargets = 0 ∧ i.missingDirs = 0 ∧
    i.invalidTargets = 0

theorem returnCode_draining (i : Input) (h : i.draining = true) :
    returnCode i = { failed := decide (0 < nfailed i), drained := true } := by
  simp [returnCode, reportUnbuilt, h]

theorem returnCode_running (i : Input) (h : i.draining = false) :
    returnCode i =
      (let f3 : Flags := { failed := decide (0 < nfailed i) || decide (0 < i.invalidTargets),
                           pending := decide (0 < ntotal i),
                           warning := decide (0 < i.missingTargets) || decide (0 < i.missingDirs) }
       if f3.isZero then f3.or (reportGlobs i).1 else f3) := by
  simp only [returnCode, reportUnbuilt, h, Bool.false_eq_true, if_false]
  split <;> rfl

end StepupModel.P.Report
