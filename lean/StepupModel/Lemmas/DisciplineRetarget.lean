import StepupModel.Lemmas.DisciplineCleanup
/-!
# The flag discipline across a change of the target sets: `reconcile_targets`

`KState.run` lets the configuration vary from request to request; the theorems of
`Lemmas/Discipline.lean` fix the target sets.  A new director with other targets calls
`Workflow.reconcile_targets` before its first dispatch: it flags the steps whose `_implied_need` is
`TARGET`, the creators of the new exact targets and the producers of the files under the new target
directories.  `reconcileTargets_retarget`: if the discipline held for the old target sets, it holds for
the new ones afterwards (under the structural invariant and the creator forest).
-/
namespace StepupModel.K.Discipline
open StepupModel.K.MetaAfter StepupModel.Lemmas StepupModel.K.Sk StepupModel.Generated
set_option linter.unusedSimpArgs false
set_option linter.unusedVariables false

theorem targetTerm_cases (cfg : KConfig) (need : Need) (outs : List String) :
    targetTerm cfg need outs = .target ∨ targetTerm cfg need outs = .optional := by
  unfold targetTerm
  split
  · exact .inl rfl
  · split
    · exact .inl rfl
    · exact .inr rfl

theorem need_of_rank3 {a : Need} (h : 3 ≤ a.rank) : a = .plan := by
  cases a <;> simp [Need.rank] at h ⊢

theorem max_optional (a : Need) : a.max .optional = a := by
  unfold Need.max
  have : ¬ a.rank < Need.optional.rank := by simp [Need.rank]
  rw [if_neg this]

/-- The local equation of a step whose `_implied_need` is not `TARGET` survives a change of the target
sets that does not make it a producer of a target. -/
theorem afterCore_retarget {cfgO cfgN : KConfig} {need : Need} {outs : List String} {cons : List (Need × Nat)}
    {implied : Need} {tail : Nat} (h : (implied, tail) = afterCore cfgO need outs cons) (hne : implied ≠ .target)
    (hno : targetTerm cfgN need outs = .target → targetTerm cfgO need outs = .target) :
    (implied, tail) = afterCore cfgN need outs cons := by
  have h1 : implied = (afterCore cfgO need outs cons).1 := congrArg Prod.fst h
  have h2 : tail = (afterCore cfgO need outs cons).2 := congrArg Prod.snd h
  rw [afterCore_fst] at h1
  rw [afterCore_snd] at h2
  apply Prod.ext
  · rw [afterCore_fst]
    show implied = _
    rcases targetTerm_cases cfgN need outs with hN | hN
    · rw [hN, ← hno hN]; exact h1
    · rcases targetTerm_cases cfgO need outs with hO | hO
      · -- the old term was TARGET and the cached need is not: it is PLAN, whatever the term
        rw [hN, max_optional]
        rw [hO] at h1
        have hge : 2 ≤ implied.rank := by
          rw [h1]
          exact Nat.le_trans (by have := max_rank_right need .target; simpa [Need.rank] using this)
            (foldl_need_ge_init cons _)
        have hplan : implied = .plan := by
          cases hi : implied with
          | plan => rfl
          | target => exact absurd hi hne
          | optional => rw [hi] at hge; simp [Need.rank] at hge
          | default => rw [hi] at hge; simp [Need.rank] at hge
        rw [hplan]
        symm
        apply need_of_rank3
        rw [hplan] at h1
        rcases foldl_need_eq_or cons (need.max .target) with he | ⟨m, hm, he⟩
        · rw [he] at h1
          have hneed : need = .plan := by
            rcases max_eq_or need .target with hx | hx
            · rw [hx] at h1; exact h1.symm
            · rw [hx] at h1; cases h1
          have := foldl_need_ge_init cons need
          rw [hneed] at this ⊢
          simpa [Need.rank] using this
        · rw [he] at h1
          have := foldl_need_ge_mem cons need m hm
          rw [← h1] at this
          simpa [Need.rank] using this
      · rw [hN, ← hO]; exact h1
  · rw [afterCore_snd]; exact h2

theorem bind_ok_exists {α β : Type} {x : M α} {g : α → M β} {r : β} (h : (x >>= g) = .ok r) :
    ∃ a, x = .ok a ∧ g a = .ok r := by
  simp only [bind, Except.bind] at h
  cases hx : x with
  | error e => simp [hx] at h
  | ok a => simp only [hx] at h; exact ⟨a, rfl, h⟩

theorem eq_of_key {s : KState} (hk : KeysUnique s) {m n : Node} (hm : m ∈ s.nodes) (hn : n ∈ s.nodes)
    (h : m.key = n.key) : m = n := by
  have h1 := find?_of_mem hk hm
  have h2 := find?_of_mem hk hn
  rw [h, h2] at h1
  cases h1; rfl

theorem forbidden_iff (a : FileState) :
    Enums.targetForbiddenStates.contains a = true ↔ (a.role? = some .static ∨ a = .volatile) := by
  cases a <;> simp [Enums.targetForbiddenStates, FileState.role?]

theorem reconcileTarget_rel {st st' : KState} {t : String} (hk : KeysUnique st) (h : st.reconcileTarget t = .ok st') :
    SoftRel st st' := (reconcileTarget_soft (s0 := st) t st st' (SP.refl hk) h).2

/-- What one exact target flags: the creating step of the (attached, not forbidden) target file. -/
theorem reconcileTarget_flags {st st' : KState} {t : String} {f : Node} {c : Key} (hf : st.find? (fileKey t) = some f)
    (hd : f.detached = false) (hnf : ¬ Enums.targetForbiddenStates.contains f.fstate = true)
    (hc : st.creatorStep f.key = some c) (h : st.reconcileTarget t = .ok st') :
    ∀ n' ∈ st'.nodes, n'.key = c → n'.checkAfter = true := by
  unfold KState.reconcileTarget at h
  simp only [hf] at h
  rw [if_neg (by rw [hd]; decide)] at h
  rw [if_neg hnf] at h
  simp only [hc, pure, Except.pure, Except.ok.injEq] at h
  subst h
  intro n' hn' hk'
  unfold KState.modify at hn'
  obtain ⟨m, _, rfl⟩ := List.mem_map.1 hn'
  by_cases hm : m.key = c
  · rw [if_pos hm]
  · rw [if_neg hm] at hk'; exact absurd hk' hm

/-- Along the fold over the exact targets: soft changes only, and what the step for `t` flags stays
flagged. -/
theorem reconcileFold_flags (L : List String) {t : String} (ht : t ∈ L) {c : Key} :
    ∀ (s0 s1 : KState), KeysUnique s0 →
      (∀ st, SoftRel s0 st → ∃ f, st.find? (fileKey t) = some f ∧ f.detached = false ∧
        ¬ Enums.targetForbiddenStates.contains f.fstate = true ∧ st.creatorStep f.key = some c) →
      L.foldlM (fun st t => st.reconcileTarget t) s0 = .ok s1 →
      SoftRel s0 s1 ∧ ∀ n' ∈ s1.nodes, n'.key = c → n'.checkAfter = true := by
  induction L with
  | nil => cases ht
  | cons x xs ih =>
    intro s0 s1 hk hgood h
    simp only [List.foldlM_cons, bind, Except.bind] at h
    cases hx : s0.reconcileTarget x with
    | error e => simp [hx] at h
    | ok sx =>
      simp only [hx] at h
      have rx := reconcileTarget_rel hk hx
      have hkx := rx.keysUnique hk
      -- the rest of the fold is soft
      have rest : SoftRel sx s1 := by
        have := foldlM_inv (fun u => KeysUnique u ∧ SoftRel sx u) (fun st t => st.reconcileTarget t) xs
          (fun a y b ha hb => ⟨(reconcileTarget_rel ha.1 hb).keysUnique ha.1, ha.2.trans (reconcileTarget_rel ha.1 hb)⟩)
          sx s1 ⟨hkx, SoftRel.refl sx⟩ h
        exact this.2
      refine ⟨rx.trans rest, ?_⟩
      by_cases hxt : x = t
      · subst hxt
        obtain ⟨f, hf, hd, hnf, hc⟩ := hgood s0 (SoftRel.refl s0)
        have hfl := reconcileTarget_flags hf hd hnf hc hx
        intro n' hn' hk'
        obtain ⟨m, hm, hr⟩ := forall₂_mem_right rest.rows n' hn'
        exact hr.2.2.2.1 (hfl m hm (hr.1 ▸ hk'))
      · have ht' : t ∈ xs := by
          rcases List.mem_cons.1 ht with h' | h'
          · exact absurd h'.symm hxt
          · exact h'
        exact (ih ht' sx s1 hkx (fun st hst => hgood st (rx.trans hst)) h).2

/-- **`reconcile_targets` carries the flag discipline from the old target sets to the new ones.** -/
theorem reconcileTargets_retarget {cfgO cfgN : KConfig} {s s' : KState} (hS : Struct s) (hFo : Forest s)
    (hw : CacheInvAfterW s cfgO) (h : s.reconcileTargets cfgN = .ok s') : CacheInvAfterW s' cfgN := by
  have hk := hS.keys
  unfold KState.reconcileTargets at h
  dsimp only at h
  obtain ⟨s1, e1, h⟩ := bind_ok_exists h
  · simp only [pure, Except.pure, Except.ok.injEq] at h
    have r0 : SoftRel s (s.modifyWhere (fun n => n.key.kind = .step ∧ n.impliedNeed = .target)
        fun n => { n with checkAfter := true }) :=
      softRel_modifyWhere _ _ (softFn_flag (fun _ => rfl) (fun _ => rfl) (fun _ => rfl) (fun _ => rfl) (fun _ => rfl))
    have hk0 := r0.keysUnique hk
    have r1 : SoftRel (s.modifyWhere (fun n => n.key.kind = .step ∧ n.impliedNeed = .target)
        fun n => { n with checkAfter := true }) s1 := by
      have := foldlM_inv (fun u => KeysUnique u ∧ SoftRel (s.modifyWhere (fun n => n.key.kind = .step ∧ n.impliedNeed = .target)
          fun n => { n with checkAfter := true }) u) (fun st t => st.reconcileTarget t) (sortStrs cfgN.targets)
        (fun a y b ha hb => ⟨(reconcileTarget_rel ha.1 hb).keysUnique ha.1, ha.2.trans (reconcileTarget_rel ha.1 hb)⟩)
        _ s1 ⟨hk0, SoftRel.refl _⟩ e1
      exact this.2
    have r2 : SoftRel s1 s' := by
      rw [← h]
      unfold KState.reconcileTargetDirs
      exact softRel_modifyWhere _ _ (softFn_flag (fun _ => rfl) (fun _ => rfl) (fun _ => rfl) (fun _ => rfl) (fun _ => rfl))
    have hrel : SoftRel s s' := (r0.trans r1).trans r2
    intro n' hn' hstep hatt hflag
    obtain ⟨n, hn, hkey, hdet, _, hmono, htr⟩ := forall₂_mem_right hrel.rows n' hn'
    have hcons := hrel.consumerSteps n.key
    have hflag0 : n.checkAfter = false := by
      cases hx : n.checkAfter with
      | false => rfl
      | true => rw [hmono hx] at hflag; cases hflag
    have hnstep : n.key.kind = .step := hkey ▸ hstep
    have hnatt : n.detached = false := hdet ▸ hatt
    -- every row of `s'` with the key of `n` is unflagged
    rw [hkey]
    by_cases hex : ∃ m ∈ s'.consumerSteps n.key, m.checkAfter = true
    · exact .inr hex
    · left
      have hall : ∀ m ∈ s'.consumerSteps n.key, m.checkAfter = false := by
        intro m hm
        cases hx : m.checkAfter with
        | false => rfl
        | true => exact absurd ⟨m, hm, hx⟩ hex
      rcases htr with hf | ⟨hneed, himp, htail⟩
      · rw [hflag] at hf; cases hf
      · rcases hw n hn hnstep hnatt hflag0 with hloc | ⟨m, hm, hmf⟩
        · unfold AfterLocal at hloc ⊢
          rw [afterValues_eq_core] at hloc ⊢
          rw [hkey, hneed, himp, htail, hrel.regularOutputs]
          unfold consumerPairs
          rw [pairs_of_rows hcons hall]
          refine afterCore_retarget hloc ?_ ?_
          · -- a step whose cached need is TARGET was flagged by the first statement
            intro hti
            obtain ⟨n0, hn0, hr0⟩ := forall₂_mem_right (r1.trans r2).rows n' hn'
            obtain ⟨m, hm, hk0', _, _, hsel⟩ := flagPass_rows hn0 (fun _ => rfl) (fun _ => rfl) (fun _ => rfl)
            have hmn : m = n := eq_of_key hk hm hn (by rw [← hk0', ← hr0.1, hkey])
            have : n0.checkAfter = true := by
              apply hsel
              rw [hmn]
              simp [hnstep, hti]
            rw [hr0.2.2.2.1 this] at hflag; cases hflag
          · -- a producer of a new target was flagged
            intro hnew
            exfalso
            unfold targetTerm at hnew
            split at hnew
            · -- an exact target
              rename_i hany
              obtain ⟨o, ho, hot⟩ := List.any_eq_true.1 hany
              have hot' : o ∈ cfgN.targets := by simpa using hot
              unfold KState.regularOutputs at ho
              obtain ⟨k, hks, hko⟩ := List.mem_filterMap.1 ho
              cases hfk : s.find? k with
              | none => rw [hfk] at hko; cases hko
              | some f =>
                rw [hfk] at hko
                simp only at hko
                split at hko
                · rename_i hreg
                  simp only [Option.some.injEq] at hko
                  have hkf : k = fileKey o := by
                    have h1 : k.kind = .file := by rw [← find_key hfk]; exact hreg.1
                    cases k
                    simp only [fileKey, Key.mk.injEq] at *
                    exact ⟨h1, hko⟩
                  obtain ⟨dp, hdm, hsrc, hsnk⟩ := mem_sinksOf.1 hks
                  have hregb : lookupRegularOutput f.fstate f.detached = true := hreg.2
                  rw [lookupRegularOutput_eq] at hregb
                  simp only [Bool.and_eq_true, Bool.not_eq_eq_eq_not, Bool.not_true, decide_eq_true_eq] at hregb
                  obtain ⟨hown, hrole⟩ := hS.own dp hdm (hsrc ▸ hnstep) f (hsnk ▸ hfk)
                  -- the creator of the file is the step
                  have hfroot : f.key ≠ rootKey := by
                    intro he; have := hreg.1; rw [he] at this; cases this
                  obtain ⟨c, cn, hcc, hcf, _⟩ := hFo.2.2.2.1 f (find_mem hfk) hfroot hregb.1
                  have hcn : c = n.key := by rw [hown c hcc, hsrc]
                  -- the fold flags the rows of that step
                  have hgood : ∀ st, SoftRel (s.modifyWhere (fun n => n.key.kind = .step ∧ n.impliedNeed = .target)
                      fun n => { n with checkAfter := true }) st →
                      ∃ f', st.find? (fileKey o) = some f' ∧ f'.detached = false ∧
                        ¬ Enums.targetForbiddenStates.contains f'.fstate = true ∧ st.creatorStep f'.key = some n.key := by
                    intro st hst
                    have hrs := (r0.trans hst).find? k
                    rw [hfk] at hrs
                    cases hfs : st.find? k with
                    | none => rw [hfs] at hrs; exact hrs.elim
                    | some f' =>
                      rw [hfs] at hrs
                      refine ⟨f', hkf ▸ hfs, by rw [hrs.2.1]; exact hregb.1, ?_, ?_⟩
                      · rw [forbidden_iff]
                        rintro (hx | hx)
                        · rw [hrs.2.2.1.2] at hx; exact hrole hx
                        · exact hregb.2 ((SoftRow.volatile hrs).1 hx)
                      · unfold KState.creatorStep
                        rw [find_key hfs, hfs]
                        simp only [Option.bind_some, hrs.2.2.1.1, hcc, hcn]
                        have hhas : st.has n.key = true := by
                          have := (r0.trans hst).find? n.key
                          rw [find?_of_mem hk hn] at this
                          unfold KState.has
                          cases hx : st.find? n.key with
                          | none => rw [hx] at this; exact this.elim
                          | some _ => rfl
                        simp [hnstep, hhas]
                  have hmem : o ∈ sortStrs cfgN.targets := by
                    unfold sortStrs
                    rw [List.mem_mergeSort]; exact hot'
                  obtain ⟨_, hfl⟩ := reconcileFold_flags (sortStrs cfgN.targets) hmem _ s1 hk0 hgood e1
                  obtain ⟨n1, hn1, hr1⟩ := forall₂_mem_right r2.rows n' hn'
                  have := hfl n1 hn1 (by rw [← hr1.1]; exact hkey)
                  rw [hr1.2.2.2.1 this] at hflag; cases hflag
                · cases hko
            · split at hnew
              · -- an output under a target directory
                rename_i hdir
                obtain ⟨o, ho, hod⟩ := List.any_eq_true.1 hdir.2
                unfold KState.regularOutputs at ho
                obtain ⟨k, hks, hko⟩ := List.mem_filterMap.1 ho
                cases hfk : s.find? k with
                | none => rw [hfk] at hko; cases hko
                | some f =>
                  rw [hfk] at hko
                  simp only at hko
                  split at hko
                  · rename_i hreg
                    simp only [Option.some.injEq] at hko
                    obtain ⟨dp, hdm, hsrc, hsnk⟩ := mem_sinksOf.1 hks
                    -- the row of the file in `s1`
                    have hrs := (r0.trans r1).find? k
                    rw [hfk] at hrs
                    cases hf1 : s1.find? k with
                    | none => rw [hf1] at hrs; exact hrs.elim
                    | some f1 =>
                      rw [hf1] at hrs
                      rw [← h] at hn'
                      unfold KState.reconcileTargetDirs at hn'
                      obtain ⟨n1, hn1, hk1, _, _, hsel⟩ := flagPass_rows hn' (fun _ => rfl) (fun _ => rfl) (fun _ => rfl)
                      have : n'.checkAfter = true := by
                        apply hsel
                        have hk1' : n1.key = n.key := by rw [← hk1]; exact hkey
                        simp only [decide_eq_true_eq, Bool.decide_and, Bool.and_eq_true, hk1', hnstep, true_and]
                        rw [List.contains_iff_mem, List.mem_filterMap]
                        have hdm1 : dp ∈ s1.deps := by rw [(r0.trans r1).deps]; exact hdm
                        refine ⟨dp, hdm1, ?_⟩
                        rw [hsnk, hf1]
                        simp only
                        have hc1 : f1.key.kind = Kind.file ∧ lookupRegularOutput f1.fstate f1.detached = true ∧
                            (cfgN.targetDirs.any fun dir => underDir dir f1.key.label) = true := by
                          refine ⟨by rw [hrs.1]; exact hreg.1, ?_, ?_⟩
                          · have := hreg.2
                            rw [lookupRegularOutput_eq] at this ⊢
                            rw [hrs.2.1]
                            have hv := SoftRow.volatile hrs
                            by_cases hx : f.fstate = .volatile
                            · simp [hx] at this
                            · have : ¬ f1.fstate = .volatile := fun hy => hx (hv.1 hy)
                              simp_all
                          · rw [hrs.1, find_key hfk, hko]; exact hod
                        rw [if_pos hc1, hsrc]
                      rw [this] at hflag; cases hflag
                  · cases hko
              · cases hnew
        · obtain ⟨m', hm', hr⟩ := forall₂_mem_left hcons m hm
          have := hall m' hm'
          rw [hr.2.2.2.1 hmf] at this; cases this

end StepupModel.K.Discipline
