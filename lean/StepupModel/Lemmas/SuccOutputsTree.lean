import StepupModel.Lemmas.SuccOutputsTop
/-!
# I4: `register_static_tree`

The files handed over to the new tree are STATIC (`treeGuard`), so no edge ends in them (an edge into a file
finds a product state): rewriting their creator is harmless.  No property statements here.
-/
namespace StepupModel.K.SuccOut
open StepupModel.K.MetaAfter StepupModel.K.Discipline StepupModel.Lemmas StepupModel.K.Ever
set_option linter.unusedSimpArgs false
set_option linter.unusedVariables false

/-- The plain `UPDATE node SET creator` on a row that is in no product state. -/
theorem J.handOverRow {X : Key → Prop} {W : Key → Key → Prop} {N : Key → Prop} {s : KState} (hJ : J X W N s) (k tk : Key)
    (hk : ∀ m, s.find? k = some m → ¬ IsProduct m.fstate) :
    J X W N (s.modify k fun n => { n with creator := some tk }) := by
  have hfind := fun q => find?_modify s k q (fun n => { n with creator := some tk }) (fun _ hn => hn)
  refine hJ.mono (fun d' h _ _ => ⟨d', h, rfl, rfl⟩) ?_ ?_
  · intro q f hkind hx hf hex
    obtain ⟨d', hd', hdq⟩ := hex
    by_cases hq : q = k
    · exfalso
      obtain ⟨f', hf', _, hprod, _⟩ := hJ.1 d' hd' (hdq ▸ hkind) (hdq ▸ hx)
      rw [hdq, hq] at hf'
      exact hk f' hf' hprod
    · refine ⟨f, ?_, .inl rfl, .inl rfl⟩
      rw [find?_modify_ne s k q (fun n => { n with creator := some tk }) (fun _ hn => hn) hq]; exact hf
  · intro q h
    refine ⟨h.1, ?_⟩
    have h2 := h.2
    unfold KState.sstateOf at h2 ⊢
    rw [hfind] at h2
    cases hfq : s.find? q with
    | none => rw [hfq] at h2; cases h2
    | some m =>
      rw [hfq] at h2
      simp only [Option.map_some, Option.some.injEq] at h2 ⊢
      by_cases hm : m.key = k
      · rw [if_pos hm] at h2; exact h2
      · rw [if_neg hm] at h2; exact h2

theorem handOver_J {X : Key → Prop} {W : Key → Key → Prop} {N : Key → Prop} (tk : Key) (hs : List Key) :
    ∀ s : KState, J X W N s → (∀ k ∈ hs, ∀ m, s.find? k = some m → ¬ IsProduct m.fstate) → J X W N (s.handOver tk hs) := by
  unfold KState.handOver
  induction hs with
  | nil => intro s hJ _; exact hJ
  | cons k ks ih =>
    intro s hJ hst
    simp only [List.foldl_cons]
    refine ih _ (hJ.handOverRow k tk (hst k List.mem_cons_self)) ?_
    intro q hq m hm
    rw [find?_modify s k q (fun n => { n with creator := some tk }) (fun _ hn => hn)] at hm
    cases hfq : s.find? q with
    | none => rw [hfq] at hm; cases hm
    | some m0 =>
      rw [hfq] at hm
      simp only [Option.map_some, Option.some.injEq] at hm
      have := hst q (List.mem_cons_of_mem _ hq) m0 hfq
      rw [← hm]
      split <;> exact this

/-- **`register_static_tree` keeps the invariant.** -/
theorem registerStaticTree_JK {N : Key → Prop} (T : Top N (JK All NoW N)) (cfg : KConfig) (creator : Key) (path : String)
    (s : KState) (r : KState × List String) (hp : JK All NoW N s) (h : s.registerStaticTree cfg creator path = .ok r) :
    JK All NoW N r.1 := by
  unfold KState.registerStaticTree at h
  refine bind_ok_gen h (fun _ => True) (fun _ _ => trivial) (fun r => JK All NoW N r.1) ?_
  intro _ r1 _ hh
  refine bind_ok_gen hh (fun g => ∀ hs, g = some hs → s.treeGuard creator (addSlash path) = .ok (some hs))
    (fun g hg hs he => he ▸ hg) (fun r => JK All NoW N r.1) ?_
  intro g r2 hg hh2
  cases g with
  | none =>
    simp only [KState.registerTreeBody, pure, Except.pure, Except.ok.injEq] at hh2
    subst hh2; exact hp
  | some hs =>
    simp only [KState.registerTreeBody] at hh2
    have hstat := treeGuard_static (hg hs rfl)
    refine bind_ok_gen hh2 (fun s1 => JK All NoW N s1 ∧ Keep (treeKey (addSlash path)) s s1) (fun s1 h1 => ?_)
      (fun r => JK All NoW N r.1) ?_
    · exact ⟨T.mid.leaf.create_preserves _ _ .tree (fun st he => by cases he) (fun he => by cases he) s s1 hp h1,
        create_keep hp.keys h1⟩
    · intro s1 r3 hp1 hh3
      refine T.declareStaticFiles_preserves cfg _ _ _ r3 ⟨handOver_J _ hs s1 hp1.1.1 ?_, stable_keysNodup.handOver s1 _ hs hp1.1.2⟩ hh3
      intro k hk m hm hprod
      obtain ⟨n, hn, hnk, hkind, hrole⟩ := hstat k hk
      have hne : k ≠ treeKey (addSlash path) := by
        intro he
        have : n.key.kind = Kind.st := by rw [hnk, he]; rfl
        rw [hkind] at this; cases this
      have hrel := hp1.2.find k hne
      rw [← hnk, find?_of_mem hp.keys hn, hnk, hm] at hrel
      have : m.fstate.role? = some .static := hrel.2.1.trans hrole
      unfold IsProduct at hprod
      rw [this] at hprod
      rcases hprod with h | h <;> cases h

theorem registerTrees_JK {N : Key → Prop} (T : Top N (JK All NoW N)) (cfg : KConfig) (creator : Key) (trees : List String)
    (s : KState) (r : KState × List String) (hp : JK All NoW N s) (h : s.registerTrees cfg creator trees = .ok r) :
    JK All NoW N r.1 := by
  unfold KState.registerTrees at h
  refine foldlM_inv (fun (a : KState × List String) => JK All NoW N a.1) _ trees ?_ (s, []) r hp h
  intro a x b ha hb
  refine bind_ok_gen hb (fun c => JK All NoW N c.1) (fun c hc => registerStaticTree_JK T cfg creator x a.1 c ha hc)
    (fun r => JK All NoW N r.1) ?_
  intro c d hc hd
  obtain ⟨s', chk⟩ := c
  simp only [pure, Except.pure, Except.ok.injEq] at hd
  subst hd; exact hc

theorem declareStaticRequest_JK {N : Key → Prop} (T : Top N (JK All NoW N)) (cfg : KConfig) (creator : Key)
    (trees files : List String) (patterns : List (String × List String)) (s : KState) (r : KState × List String)
    (hp : JK All NoW N s) (h : s.declareStaticRequest cfg creator trees files patterns = .ok r) : JK All NoW N r.1 := by
  unfold KState.declareStaticRequest at h
  refine bind_ok_gen h (fun a => JK All NoW N a.1) (fun a ha => registerTrees_JK T cfg creator trees s a hp ha)
    (fun r => JK All NoW N r.1) ?_
  intro a r1 ha hh
  obtain ⟨s1, chk1⟩ := a
  simp only at hh
  refine bind_ok_gen hh (fun a => JK All NoW N a.1) (fun a h2 => T.declareStaticFiles_preserves cfg creator files s1 a ha h2)
    (fun r => JK All NoW N r.1) ?_
  intro a2 r2 ha2 hh2
  obtain ⟨s2, chk2⟩ := a2
  simp only at hh2
  refine bind_ok_gen hh2 (JK All NoW N) (fun s3 h3 => T.mid.leaf.registerNglobs_preserves creator patterns s2 s3 ha2 h3)
    (fun r => JK All NoW N r.1) ?_
  intro s3 r3 hp3 hh3
  simp only [pure, Except.pure, Except.ok.injEq] at hh3
  subst hh3; exact hp3

end StepupModel.K.SuccOut
