import StepupModel.B.Build
import StepupModel.Lemmas.JobLoopLive
/-!
# One build phase (`B/Build.lean`): the job-loop side

`iterK_sim`: the job-loop projection of a pass of the composed system is `JobLoop.iter` on the state
whose `offers` is the kernel's answer.  The invariants of `Lemmas/JobLoop*.lean` therefore hold along
every event sequence of the composed system (`run_jobLimit`, `run_retIdle`, `run_accounted`,
`run_reported`), and job ids correspond to the log of `_derive_job` (`run_ids`, `jobs_in_flight`).
-/
namespace StepupModel.B.Build
open StepupModel.K StepupModel.B.JobLoop

/-! ## `offers` is a passenger of the helper functions -/

theorem retire_setOffers (s : JL) (o : List Nat) (j : Job) :
    retire { s with offers := o } j = { retire s j with offers := o } := by
  cases j <;> rfl

theorem handleDone_setOffers (o : List Nat) (l : List (Job × Bool)) : ∀ (s : JL),
    handleDone { s with offers := o } l = ({ (handleDone s l).1 with offers := o }, (handleDone s l).2) := by
  induction l with
  | nil => intro s; rfl
  | cons a rest ih =>
    intro s
    obtain ⟨j, ok⟩ := a
    cases ok
    · rfl
    · simp only [handleDone, Bool.not_true, Bool.false_eq_true, if_false]
      rw [retire_setOffers]; exact ih _

theorem popHash_setOffers (o : List Nat) (l : List Nat) : ∀ (s : JL),
    popHash { s with offers := o } l = ({ (popHash s l).1 with offers := o }, (popHash s l).2) := by
  induction l with
  | nil => intro s; rfl
  | cons i rest ih =>
    intro s
    simp only [popHash]
    split
    · exact ih s
    · rfl

theorem tail_setOffers (o : List Nat) (s : JL) :
    tail { s with offers := o } = ({ (tail s).1 with offers := o }, (tail s).2) := by
  unfold tail
  simp only
  split
  · rfl
  · split <;> rfl

theorem handleDone_ok_draining (l : List (Job × Bool)) : ∀ (s : JL),
    (handleDone s l).2 = false → (handleDone s l).1.draining = s.draining := by
  induction l with
  | nil => intro s _; rfl
  | cons a rest ih =>
    intro s
    obtain ⟨j, ok⟩ := a
    cases ok
    · simp [handleDone]
    · simp only [handleDone, Bool.not_true, Bool.false_eq_true, if_false]
      intro h
      rw [ih _ h]; exact (retire_frame s j).2.2.2.2.2.2.2.2.2.2.1

/-! ## Simulation -/

theorem tail_sim (x : JL) (o : List Nat) :
    (tail { x with offers := o }).2 = (tail x).2 ∧
    { (tail { x with offers := o }).1 with offers := x.offers } = (tail x).1 := by
  rw [tail_setOffers]
  refine ⟨rfl, ?_⟩
  have ho : (tail x).1.offers = x.offers := (tail_frame x).2.2.2.2.2.2.2.2.1
  show ({ (tail x).1 with offers := x.offers } : JL) = (tail x).1
  rw [← ho]

/-- **Simulation.**  A pass of the composed system, projected on the job loop, is `JobLoop.iter` run on
the state in which the scheduler offers exactly what the kernel answers (`answer`); an offer that the
pass does not ask for (no free slot, a hash job first, an exception) is dropped. -/
theorem iterK_sim (s s' : Sys) (c : Option Key) (ctl : Ctl) (h : iterK s c = some (s', ctl)) :
    (iter { s.jl with offers := answer s c }).2 = ctl ∧
    { (iter { s.jl with offers := answer s c }).1 with offers := s.jl.offers } = s'.jl := by
  unfold iterK at h
  unfold iter
  simp only
  rw [handleDone_setOffers]
  have hd := handleDone_ok_draining s.jl.done.reverse s.jl
  have hf := handleDone_frame s.jl.done.reverse s.jl
  generalize handleDone s.jl s.jl.done.reverse = r at h hd hf
  obtain ⟨jl1, b⟩ := r
  have ho1 : jl1.offers = s.jl.offers := hf.2.2.2.2.1
  cases b
  · have hd1 : jl1.draining = s.jl.draining := hd rfl
    simp only at h ⊢
    by_cases hlt : jl1.running.length < jl1.njob
    · rw [if_pos hlt] at h
      rw [if_pos hlt, popHash_setOffers]
      have hp := popHash_frame jl1.queue jl1
      generalize popHash jl1 jl1.queue = q at h hp
      obtain ⟨jl2, o⟩ := q
      have hd2 : jl2.draining = s.jl.draining := hp.2.2.2.2.2.2.2.2.2.1.trans hd1
      have ho2 : jl2.offers = s.jl.offers := hp.2.2.2.1.trans ho1
      rw [← ho2]
      cases o with
      | some i =>
        simp only [Option.some.injEq, Prod.mk.injEq] at h ⊢
        obtain ⟨rfl, rfl⟩ := h
        exact ⟨rfl, rfl⟩
      | none =>
        simp only at h ⊢
        have hA : answer s c = if (s.drain || jl2.draining) = true then [] else kernelAnswer s c := by
          unfold answer Sys.draining; rw [hd2]
        rw [hA]
        by_cases hdr : (s.drain || jl2.draining) = true
        · rw [if_pos hdr] at h
          simp only [Option.some.injEq, Prod.mk.injEq] at h
          obtain ⟨rfl, rfl⟩ := h
          rw [if_pos hdr]
          simp only [List.head?_nil]
          exact tail_sim { jl2 with polls := jl2.polls + 1 } []
        · rw [if_neg hdr] at h
          rw [if_neg hdr]
          unfold kernelAnswer
          cases hpop : s.k.popNext s.cfg c with
          | error e => rw [hpop] at h; cases h
          | ok res =>
            obtain ⟨k', d⟩ := res
            rw [hpop] at h
            cases d with
            | none =>
              simp only [Option.some.injEq, Prod.mk.injEq] at h
              obtain ⟨rfl, rfl⟩ := h
              simp only [List.head?_nil]
              exact tail_sim { jl2 with polls := jl2.polls + 1 } []
            | job key chk run =>
              simp only [Option.some.injEq, Prod.mk.injEq] at h
              obtain ⟨rfl, rfl⟩ := h
              simp only [List.head?_cons, List.tail_cons]
              exact ⟨trivial, rfl⟩
    · rw [if_neg hlt] at h
      rw [if_neg hlt, ← ho1]
      simp only [Option.some.injEq, Prod.mk.injEq] at h
      obtain ⟨rfl, rfl⟩ := h
      exact tail_sim jl1 _
  · simp only [Option.some.injEq, Prod.mk.injEq] at h ⊢
    obtain ⟨rfl, rfl⟩ := h
    rw [← ho1]
    exact ⟨rfl, rfl⟩

/-! ## What a pass does on the kernel side -/

/-- The three kinds of pass: it does not ask the kernel (exception, hash job started, no free slot,
scheduler draining), it asks and gets nothing, it asks and gets a job. -/
theorem iterK_spec (s s' : Sys) (c : Option Key) (ctl : Ctl) (h : iterK s c = some (s', ctl)) :
    s'.cfg = s.cfg ∧ s'.drain = s.drain ∧ s'.parked = s.parked ∧
    (ctl ≠ .raise → s'.jl.draining = s.jl.draining) ∧
    ((s'.k = s.k ∧ s'.assigned = s.assigned ∧
        (s'.jl.started = s.jl.started ∨ ∃ i, s'.jl.started = s.jl.started ++ [.hash i]) ∧
        (ctl = .ret → s.jl.njob = 0 ∨ s.draining = true) ∧
        (ctl = .wait → s'.jl.running.length < s'.jl.njob → s.draining = true)) ∨
     (s.draining = false ∧ s.k.popNext s.cfg c = .ok (s'.k, .none) ∧ s'.assigned = s.assigned ∧
        s'.jl.started = s.jl.started ∧ ctl ≠ .raise) ∨
     (s.draining = false ∧ ∃ key chk run, s.k.popNext s.cfg c = .ok (s'.k, .job key chk run) ∧
        s'.assigned = s.assigned ++ [(s.assigned.length + 1, key, chk)] ∧
        s'.jl.started = s.jl.started ++ [.step (s.assigned.length + 1)] ∧ ctl = .again)) := by
  unfold iterK at h
  have hd := handleDone_ok_draining s.jl.done.reverse s.jl
  have hf := handleDone_frame s.jl.done.reverse s.jl
  generalize handleDone s.jl s.jl.done.reverse = r at h hd hf
  obtain ⟨jl1, b⟩ := r
  obtain ⟨f1, f2, -, -, -, -, f7, -⟩ := hf
  simp only at f1 f2 f7
  cases b
  · have hd1 : jl1.draining = s.jl.draining := hd rfl
    simp only at h
    by_cases hlt : jl1.running.length < jl1.njob
    · rw [if_pos hlt] at h
      have hp := popHash_frame jl1.queue jl1
      generalize popHash jl1 jl1.queue = q at h hp
      obtain ⟨jl2, o⟩ := q
      obtain ⟨p1, p2, -, -, -, p6, -, -, -, p10, -⟩ := hp
      simp only at p1 p2 p6 p10
      have hd2 : jl2.draining = s.jl.draining := p10.trans hd1
      cases o with
      | some i =>
        simp only [Option.some.injEq, Prod.mk.injEq] at h
        obtain ⟨rfl, rfl⟩ := h
        refine ⟨rfl, rfl, rfl, fun _ => by simp [startJob, hd2], .inl ⟨rfl, rfl, .inr ⟨i, ?_⟩, by simp, by simp⟩⟩
        simp [startJob, p6, f7]
      | none =>
        simp only at h
        by_cases hdr : (s.drain || jl2.draining) = true
        · rw [if_pos hdr] at h
          simp only [Option.some.injEq, Prod.mk.injEq] at h
          obtain ⟨rfl, rfl⟩ := h
          have hdr' : s.draining = true := by unfold Sys.draining; rw [← hd2]; exact hdr
          refine ⟨rfl, rfl, rfl, fun _ => by simp only [(tail_frame _).2.2.2.2.2.2.1, hd2], .inl ⟨rfl, rfl, .inl ?_, fun _ => .inr hdr', fun _ _ => hdr'⟩⟩
          simp only [(tail_frame _).2.2.2.1, p6, f7]
        · rw [if_neg hdr] at h
          have hdr' : s.draining = false := by
            unfold Sys.draining; rw [← hd2]; simpa using hdr
          cases hpop : s.k.popNext s.cfg c with
          | error e => rw [hpop] at h; cases h
          | ok res =>
            obtain ⟨k', d⟩ := res
            rw [hpop] at h
            cases d with
            | none =>
              simp only [Option.some.injEq, Prod.mk.injEq] at h
              obtain ⟨rfl, rfl⟩ := h
              refine ⟨rfl, rfl, rfl, fun _ => by simp only [(tail_frame _).2.2.2.2.2.2.1, hd2], .inr (.inl ⟨hdr', rfl, rfl, ?_, ?_⟩)⟩
              · simp only [(tail_frame _).2.2.2.1, p6, f7]
              · unfold tail; split
                · simp
                · split <;> simp
            | job key chk run =>
              simp only [Option.some.injEq, Prod.mk.injEq] at h
              obtain ⟨rfl, rfl⟩ := h
              refine ⟨rfl, rfl, rfl, fun _ => by simp [startJob, hd2], .inr (.inr ⟨hdr', key, chk, run, rfl, rfl, ?_, rfl⟩)⟩
              simp [startJob, p6, f7]
    · rw [if_neg hlt] at h
      simp only [Option.some.injEq, Prod.mk.injEq] at h
      obtain ⟨rfl, rfl⟩ := h
      have t := tail_frame jl1
      refine ⟨rfl, rfl, rfl, fun _ => by simp only [t.2.2.2.2.2.2.1, hd1], .inl ⟨rfl, rfl, .inl ?_, fun hret => .inl ?_, fun _ hfree => ?_⟩⟩
      · simp only [t.2.2.2.1, f7]
      · have hr := (tail_ret jl1 hret).1
        rw [t.2.1] at hr
        rw [hr] at hlt
        simp only [List.length_nil] at hlt
        omega
      · simp only [t.2.1, t.2.2.2.2.2.2.2.1] at hfree
        exact absurd hfree hlt
  · simp only [Option.some.injEq, Prod.mk.injEq] at h
    obtain ⟨rfl, rfl⟩ := h
    exact ⟨rfl, rfl, rfl, by simp, .inl ⟨rfl, rfl, .inl f7, by simp, by simp⟩⟩

/-! ## Transfer of the job-loop invariants -/

/-- A predicate of the job-loop state that the loop and its events keep and that does not look at
`offers`, `wake`, `status`. -/
structure Blind (P : JL → Prop) : Prop where
  offers : ∀ (jl : JL) (o : List Nat), P jl → P { jl with offers := o }
  wake : ∀ (jl : JL) (b : Bool), P jl → P { jl with wake := b }
  status : ∀ (jl : JL) (st : Status), P jl → P { jl with status := st }
  iter : ∀ (jl : JL), P jl → P (iter jl).1
  apply : ∀ (jl : JL) (e : JobLoop.Ev), P jl → P (JobLoop.apply jl e)

theorem iterK_blind {P : JL → Prop} (B : Blind P) (s s' : Sys) (c : Option Key) (ctl : Ctl)
    (h : iterK s c = some (s', ctl)) (hp : P s.jl) : P s'.jl := by
  rw [← (iterK_sim s s' c ctl h).2]
  exact B.offers _ _ (B.iter _ (B.offers _ _ hp))

theorem land_blind {P : JL → Prop} (B : Blind P) (s : Sys) (ctl : Ctl) (hp : P s.jl) : P (land s ctl).jl := by
  cases ctl
  · exact hp
  · exact hp
  · exact B.status _ _ hp
  · exact B.status _ _ hp

theorem unpark_blind {P : JL → Prop} (B : Blind P) (s : Sys) (hp : P s.jl) : P (unpark s).jl := by
  unfold unpark; split
  · exact B.wake _ _ hp
  · exact hp

theorem applyEv_blind {P : JL → Prop} (B : Blind P) (s : Sys) (e : Ev) (hp : P s.jl) : P (applyEv s e).jl := by
  cases e with
  | start => exact B.apply _ .start hp
  | pass c =>
    simp only [applyEv]
    split
    · cases hi : iterK s c with
      | none => exact hp
      | some r => obtain ⟨s', ctl⟩ := r; exact land_blind B _ _ (iterK_blind B s s' c ctl hi hp)
    · exact hp
  | rpc j r =>
    simp only [applyEv]
    split
    · split
      · split
        · exact B.wake _ _ hp
        · exact hp
      · exact hp
    · exact hp
  | finish j rs =>
    simp only [applyEv]
    split
    · split
      · exact B.apply _ (.fin (.step j)) hp
      · exact B.apply _ (.fail (.step j)) hp
    · exact hp
  | submit p => exact B.apply _ (.submit p) hp
  | promote p => exact B.apply _ (.promote p) hp
  | hashFin i r =>
    simp only [applyEv]
    split
    · exact B.apply _ (.fin (.hash i)) hp
    · exact hp
  | drain => exact hp
  | undrain => simp only [applyEv]; split <;> exact hp
  | external r => simp only [applyEv]; split <;> exact hp

theorem step_blind {P : JL → Prop} (B : Blind P) (s : Sys) (e : Ev) (hp : P s.jl) : P (step s e).jl :=
  unpark_blind B _ (applyEv_blind B s e hp)

theorem run_blind {P : JL → Prop} (B : Blind P) (k0 : KState) (cfg : KConfig) (njob : Nat) (evs : List Ev)
    (h0 : P { njob := njob }) : P (run k0 cfg njob evs).jl := by
  unfold run
  suffices h : ∀ s : Sys, P s.jl → P (evs.foldl step s).jl from h _ h0
  induction evs with
  | nil => intro s h; exact h
  | cons e rest ih => intro s h; exact ih _ (step_blind B s e h)

/-- The job limit, with the limit itself as part of the predicate. -/
def JobLimit (n : Nat) (jl : JL) : Prop := jl.running.length ≤ jl.njob ∧ jl.njob = n

theorem blind_jobLimit (n : Nat) : Blind (JobLimit n) where
  offers := fun _ _ h => h
  wake := fun _ _ h => h
  status := fun _ _ h => h
  iter := fun jl h => ⟨(iter_running jl h.1).1, (iter_running jl h.1).2.trans h.2⟩
  apply := fun jl e h => ⟨(apply_running jl e h.1).1, (apply_running jl e h.1).2.trans h.2⟩

theorem blind_accounted : Blind Accounted where
  offers := fun _ _ h => h
  wake := fun _ _ h => h
  status := fun _ _ h => h
  iter := iter_accounted
  apply := apply_accounted

theorem blind_reported : Blind Reported where
  offers := fun _ _ h => h
  wake := fun _ _ h => h
  status := fun _ _ h => h
  iter := iter_reported
  apply := apply_reported

/-- **C12, job limit in the composed system.**  After every event sequence, from any kernel state, under
any configuration: at most `njob` tasks are in `running_tasks`. -/
theorem run_jobLimit (k0 : KState) (cfg : KConfig) (njob : Nat) (evs : List Ev) :
    (run k0 cfg njob evs).jl.running.length ≤ njob ∧ (run k0 cfg njob evs).jl.njob = njob := by
  have := run_blind (blind_jobLimit njob) k0 cfg njob evs ⟨by simp, rfl⟩
  obtain ⟨h1, h2⟩ := this
  rw [h2] at h1
  exact ⟨h1, h2⟩

theorem run_accounted (k0 : KState) (cfg : KConfig) (njob : Nat) (evs : List Ev) :
    Accounted (run k0 cfg njob evs).jl :=
  run_blind blind_accounted k0 cfg njob evs (by intro j; simp)

theorem run_reported (k0 : KState) (cfg : KConfig) (njob : Nat) (evs : List Ev) :
    Reported (run k0 cfg njob evs).jl :=
  run_blind blind_reported k0 cfg njob evs (by intro i; simp)

/-! ## The phase ends only when idle -/

theorem step_retIdle (s : Sys) (e : Ev) (h : RetIdle s.jl) : RetIdle (step s e).jl := by
  have hu : ∀ t : Sys, RetIdle t.jl → RetIdle (unpark t).jl := by
    intro t ht; unfold unpark; split
    · exact ht
    · exact ht
  apply hu
  cases e with
  | start => exact apply_retIdle s.jl .start h
  | pass c =>
    simp only [applyEv]
    split
    · rename_i hc
      cases hi : iterK s c with
      | none => exact h
      | some r =>
        obtain ⟨s', ctl⟩ := r
        obtain ⟨h1, h2⟩ := iterK_sim s s' c ctl hi
        have hst : s'.jl.status = .waiting := by
          rw [← h2]; show (iter _).1.status = _; rw [iter_status]; exact hc.1
        show RetIdle (land s' ctl).jl
        cases ctl with
        | again => intro hr; simp only [land] at hr; rw [hst] at hr; cases hr
        | wait => intro hr; simp only [land] at hr; rw [hst] at hr; cases hr
        | ret =>
          intro _
          have := iter_ret _ h1
          simp only [land]
          rw [← h2]; exact this
        | raise => intro hr; simp [land] at hr
    · exact h
  | rpc j r =>
    simp only [applyEv]
    split
    · split
      · split
        · exact h
        · exact h
      · exact h
    · exact h
  | finish j rs =>
    simp only [applyEv]
    split
    · split
      · exact apply_retIdle s.jl (.fin (.step j)) h
      · exact apply_retIdle s.jl (.fail (.step j)) h
    · exact h
  | submit p => exact apply_retIdle s.jl (.submit p) h
  | promote p => exact apply_retIdle s.jl (.promote p) h
  | hashFin i r =>
    simp only [applyEv]
    split
    · exact apply_retIdle s.jl (.fin (.hash i)) h
    · exact h
  | drain => exact h
  | undrain => simp only [applyEv]; split <;> exact h
  | external r => simp only [applyEv]; split <;> exact h

/-- The phase ends (`job_loop` returns) only when no task runs and none waits to be retired. -/
theorem run_retIdle (k0 : KState) (cfg : KConfig) (njob : Nat) (evs : List Ev) :
    RetIdle (run k0 cfg njob evs).jl := by
  unfold run
  suffices h : ∀ s : Sys, RetIdle s.jl → RetIdle (evs.foldl step s).jl from h _ (by intro h; simp [init] at h)
  induction evs with
  | nil => intro s h; exact h
  | cons e rest ih => intro s h; exact ih _ (step_retIdle s e h)

/-! ## Job ids and the log of `_derive_job` -/

def stepId : Job → Option Nat
  | .step i => some i
  | .hash _ => none

/-- The step jobs the loop started are, in order, the jobs `_derive_job` created, numbered 1, 2, ... -/
def Ids (s : Sys) : Prop :=
  s.jl.started.filterMap stepId = s.assigned.map (·.1) ∧
  s.assigned.map (·.1) = List.range' 1 s.assigned.length

theorem apply_started (jl : JL) (e : JobLoop.Ev) : (JobLoop.apply jl e).started = jl.started := by
  cases e with
  | start => simp only [JobLoop.apply]; split <;> rfl
  | offer j => rfl
  | submit p => exact (submit_frame jl p).2.2.2.2.1
  | promote p =>
    have f := submit_frame jl p
    simp only [JobLoop.apply]
    generalize submit jl p = r at f
    obtain ⟨t, i⟩ := r
    simp only at f ⊢
    split <;> simp [f.2.2.2.2.1]
  | fin j =>
    simp only [JobLoop.apply]
    unfold moveDone; split
    · exact (resolveFor_frame jl j).2.2.2.2.1
    · exact (resolveFor_frame jl j).2.2.2.2.1
  | fail j =>
    cases j with
    | step i => simp only [JobLoop.apply]; unfold moveDone; split <;> rfl
    | hash i => rfl

theorem applyEv_ids (s : Sys) (e : Ev) (h : Ids s) : Ids (applyEv s e) := by
  cases e with
  | start => exact ⟨(congrArg _ (apply_started s.jl .start)).trans h.1, h.2⟩
  | pass c =>
    simp only [applyEv]
    split
    · cases hi : iterK s c with
      | none => exact h
      | some r =>
        obtain ⟨s', ctl⟩ := r
        have hl : Ids s' → Ids (land s' ctl) := by intro hh; cases ctl <;> exact hh
        apply hl
        obtain ⟨-, -, -, -, hs⟩ := iterK_spec s s' c ctl hi
        rcases hs with ⟨-, ha, hst, -, -⟩ | ⟨-, -, ha, hst, -⟩ | ⟨-, key, chk, run, -, ha, hst, -⟩
        · refine ⟨?_, ha ▸ h.2⟩
          rw [ha]
          rcases hst with hst | ⟨i, hst⟩
          · rw [hst]; exact h.1
          · rw [hst, List.filterMap_append]; simp [stepId, h.1]
        · exact ⟨by rw [hst, ha]; exact h.1, ha ▸ h.2⟩
        · refine ⟨?_, ?_⟩
          · rw [hst, ha, List.filterMap_append, h.1]; simp [stepId]
          · rw [ha]
            simp only [List.map_append, List.map_cons, List.map_nil, List.length_append, List.length_cons,
              List.length_nil, Nat.zero_add]
            rw [List.range'_concat, h.2]
            simp [Nat.add_comm]
    · exact h
  | rpc j r =>
    simp only [applyEv]
    split
    · split
      · split <;> exact h
      · exact h
    · exact h
  | finish j rs =>
    simp only [applyEv]
    split
    · split
      · exact ⟨(congrArg _ (apply_started s.jl (.fin (.step j)))).trans h.1, h.2⟩
      · exact ⟨(congrArg _ (apply_started s.jl (.fail (.step j)))).trans h.1, h.2⟩
    · exact h
  | submit p => exact ⟨(congrArg _ (apply_started s.jl (.submit p))).trans h.1, h.2⟩
  | promote p => exact ⟨(congrArg _ (apply_started s.jl (.promote p))).trans h.1, h.2⟩
  | hashFin i r =>
    simp only [applyEv]
    split
    · exact ⟨(congrArg _ (apply_started s.jl (.fin (.hash i)))).trans h.1, h.2⟩
    · exact h
  | drain => exact h
  | undrain => simp only [applyEv]; split <;> exact h
  | external r => simp only [applyEv]; split <;> exact h

theorem step_ids (s : Sys) (e : Ev) (h : Ids s) : Ids (step s e) := by
  have := applyEv_ids s e h
  unfold step unpark; split
  · exact this
  · exact this

theorem run_ids (k0 : KState) (cfg : KConfig) (njob : Nat) (evs : List Ev) : Ids (run k0 cfg njob evs) := by
  unfold run
  suffices h : ∀ s : Sys, Ids s → Ids (evs.foldl step s) from h _ ⟨rfl, rfl⟩
  induction evs with
  | nil => intro s h; exact h
  | cons e rest ih => intro s h; exact ih _ (step_ids s e h)

theorem count_filterMap_stepId (i : Nat) (l : List Job) : (l.filterMap stepId).count i = l.count (.step i) := by
  induction l with
  | nil => rfl
  | cons a rest ih =>
    cases a with
    | step j =>
      simp only [List.filterMap_cons, stepId, List.count_cons, ih]
      by_cases hj : j = i
      · subst hj; simp
      · have a1 : (j == i) = false := by simpa using hj
        have a2 : (Job.step j == Job.step i) = false := by simpa using hj
        simp [a1, a2]
    | hash j =>
      simp only [List.filterMap_cons, stepId, List.count_cons, ih]
      have a2 : (Job.hash j == Job.step i) = false := by simp
      simp [a2]

/-- A step job was started at most once. -/
theorem started_once (s : Sys) (h : Ids s) (i : Nat) : s.jl.started.count (.step i) ≤ 1 := by
  rw [← count_filterMap_stepId, h.1, h.2]
  exact List.nodup_iff_count.1 (List.nodup_range' (step := 1) (by omega)) i

/-- **`Scheduler.jobs` versus the tasks of the loop.**  After every event sequence: a job that
`_derive_job` created and whose completion was not recorded has its task in `running_tasks` or in
`done_tasks`, or its task ended with an exception that `handle_done_tasks` raised (then `draining` is
set); conversely every step task in `running_tasks` or `done_tasks` belongs to exactly such a job. -/
theorem jobs_in_flight (k0 : KState) (cfg : KConfig) (njob : Nat) (evs : List Ev) :
    (∀ a ∈ (run k0 cfg njob evs).jobs,
      Job.step a.1 ∈ (run k0 cfg njob evs).jl.running ∨
      Job.step a.1 ∈ (run k0 cfg njob evs).jl.done.map Prod.fst ∨
      (Job.step a.1 ∈ (run k0 cfg njob evs).jl.handled ∧ (run k0 cfg njob evs).jl.draining = true)) ∧
    (∀ i, (Job.step i ∈ (run k0 cfg njob evs).jl.running ∨ Job.step i ∈ (run k0 cfg njob evs).jl.done.map Prod.fst) →
      ∃ a ∈ (run k0 cfg njob evs).jobs, a.1 = i) := by
  have hids := run_ids k0 cfg njob evs
  have hacc := run_accounted k0 cfg njob evs
  have hrep := run_reported k0 cfg njob evs
  generalize run k0 cfg njob evs = s at hids hacc hrep
  constructor
  · intro a ha
    unfold Sys.jobs at ha
    rw [List.mem_filter] at ha
    obtain ⟨hmem, hnr⟩ := ha
    have hnr' : a.1 ∉ s.jl.retired := by simpa using hnr
    have hin : a.1 ∈ s.jl.started.filterMap stepId := by rw [hids.1]; exact List.mem_map_of_mem hmem
    have hpos : 0 < s.jl.started.count (.step a.1) := by
      rw [← count_filterMap_stepId]; exact List.count_pos_iff.2 hin
    have hx := hacc (.step a.1)
    by_cases hr : Job.step a.1 ∈ s.jl.running
    · exact .inl hr
    · by_cases hdn : Job.step a.1 ∈ s.jl.done.map Prod.fst
      · exact .inr (.inl hdn)
      · have c1 : s.jl.running.count (.step a.1) = 0 := List.count_eq_zero.2 hr
        have c2 : (s.jl.done.map Prod.fst).count (.step a.1) = 0 := List.count_eq_zero.2 hdn
        have hh : 0 < s.jl.handled.count (.step a.1) := by omega
        refine .inr (.inr ⟨List.count_pos_iff.1 hh, ?_⟩)
        cases hdr : s.jl.draining with
        | true => rfl
        | false =>
          have := (hrep a.1).2 hdr
          have : 0 < s.jl.retired.count a.1 := by omega
          exact absurd (List.count_pos_iff.1 this) hnr'
  · intro i hi
    have hx := hacc (.step i)
    have h1 := started_once s hids i
    have hpos : 0 < s.jl.running.count (.step i) + (s.jl.done.map Prod.fst).count (.step i) := by
      rcases hi with hi | hi
      · have := List.count_pos_iff.2 hi; omega
      · have := List.count_pos_iff.2 hi; omega
    have hst : 0 < s.jl.started.count (.step i) := by omega
    have hin : i ∈ s.jl.started.filterMap stepId := by
      rw [← count_filterMap_stepId] at hst; exact List.count_pos_iff.1 hst
    rw [hids.1] at hin
    obtain ⟨a, ha, rfl⟩ := List.mem_map.1 hin
    refine ⟨a, ?_, rfl⟩
    unfold Sys.jobs
    rw [List.mem_filter]
    refine ⟨ha, ?_⟩
    have hh : s.jl.handled.count (.step a.1) = 0 := by omega
    have := (hrep a.1).1
    have hz : s.jl.retired.count a.1 = 0 := by omega
    simpa using List.count_eq_zero.1 hz

end StepupModel.B.Build
