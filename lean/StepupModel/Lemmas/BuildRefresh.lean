import StepupModel.Lemmas.Resources
/-!
# Kernel facts for the composed build phase: the metadata refresh is idempotent

`_update_meta` leaves no `_check_*` flag on a step (`updateMeta_clean`), and on a table without flags it
writes nothing (`updateMeta_of_clean`): the state that `pop_next_job` leaves when it answers "nothing" is
a fixed point of the refresh in which no step is eligible (`popNext_none_spec`).  No property
statements here.
-/
namespace StepupModel.K
open StepupModel.K.MetaSafe StepupModel.K.MetaAfter StepupModel.K.Resources

/-- No step row carries a `_check_safe`, `_check_after` or `_check_ready` flag. -/
def Clean (s : KState) : Prop :=
  ∀ n ∈ s.nodes, n.key.kind = .step → n.checkSafe = false ∧ n.checkAfter = false ∧ n.checkReady = false

/-- After `_update_meta_after` no step is flagged `_check_after` (unconditionally). -/
theorem updateMetaAfter_flags (s s' : KState) (cfg : KConfig) (h : s.updateMetaAfter cfg = .ok s') :
    ∀ n ∈ s'.nodes, n.key.kind = .step → n.checkAfter = false := by
  unfold KState.updateMetaAfter at h
  split at h
  · rename_i hnone
    simp only [pure, Except.pure, Except.ok.injEq] at h; subst h
    intro n hn hk
    cases hc : n.checkAfter with
    | false => rfl
    | true =>
      rw [Bool.not_eq_true', List.any_eq_false] at hnone
      have := hnone n hn
      simp [hk, hc] at this
  · dsimp only at h
    split at h
    · rename_i st hst
      simp only [pure, Except.pure, Except.ok.injEq] at h; subst h
      intro n hn hk
      unfold KState.modifyWhere at hn
      obtain ⟨m, hm, rfl⟩ := List.mem_map.1 hn
      by_cases hmk : m.key.kind = .step
      · simp [hmk]
      · simp only [hmk, decide_false, Bool.false_eq_true, if_false] at hk
    · cases h

/-- Rows of the result of `_update_meta_after` are rows of the start up to the three cached columns. -/
theorem afterFrame_mem {s s' : KState} (h : AfterFrame s s') {n' : Node} (hn : n' ∈ s'.nodes) :
    ∃ n ∈ s.nodes, eraseAfter n = eraseAfter n' := by
  have : eraseAfter n' ∈ s'.nodes.map eraseAfter := List.mem_map_of_mem hn
  rw [h.2.2] at this
  obtain ⟨n, hn, he⟩ := List.mem_map.1 this
  exact ⟨n, hn, he⟩

/-- **`_update_meta` clears every flag.** -/
theorem updateMeta_clean {s su : KState} {cfg : KConfig} (h : s.updateMeta cfg = .ok su) : Clean su := by
  obtain ⟨s1, s2, h1, h2, rfl⟩ := updateMeta_stages h
  have f1 := updateMetaSafe_flags h1
  have f2 := updateMetaAfter_flags s1 s2 cfg h2
  have fr := MetaAfter.updateMetaAfter_frame s1 s2 cfg h2
  have f12 : ∀ m ∈ s2.nodes, m.key.kind = .step → m.checkSafe = false ∧ m.checkAfter = false := by
    intro m hm hk
    obtain ⟨m1, hm1, he⟩ := afterFrame_mem fr hm
    have hkey : (eraseAfter m1).key = (eraseAfter m).key := congrArg Node.key he
    have hcs : (eraseAfter m1).checkSafe = (eraseAfter m).checkSafe := congrArg Node.checkSafe he
    refine ⟨?_, f2 m hm hk⟩
    have : m1.checkSafe = false := f1 m1 hm1 (by rw [show m1.key = m.key from hkey]; exact hk)
    rw [← show m1.checkSafe = m.checkSafe from hcs]; exact this
  intro n hn hk
  unfold KState.updateMetaReady KState.modifyWhere at hn
  obtain ⟨m, hm, rfl⟩ := List.mem_map.1 hn
  by_cases hp : m.key.kind = .step ∧ m.checkReady = true
  · have e : (if (fun n : Node => decide (n.key.kind = .step ∧ n.checkReady = true)) m = true then
        (fun n : Node => { n with ready := s2.computeReady n.key, checkReady := false }) m else m) =
        { m with ready := s2.computeReady m.key, checkReady := false } := by
      simp only [hp, and_self, decide_true, if_true]
    rw [e] at hk ⊢
    exact ⟨(f12 m hm hk).1, (f12 m hm hk).2, rfl⟩
  · have e : (if (fun n : Node => decide (n.key.kind = .step ∧ n.checkReady = true)) m = true then
        (fun n : Node => { n with ready := s2.computeReady n.key, checkReady := false }) m else m) = m := by
      simp only [hp, decide_false, Bool.false_eq_true, if_false]
    rw [e] at hk ⊢
    refine ⟨(f12 m hm hk).1, (f12 m hm hk).2, ?_⟩
    cases hc : m.checkReady with
    | false => rfl
    | true => exact absurd ⟨hk, hc⟩ hp

/-- **On a table without flags `_update_meta` writes nothing.** -/
theorem updateMeta_of_clean {s : KState} (cfg : KConfig) (h : Clean s) : s.updateMeta cfg = .ok s := by
  have e1 : s.updateMetaSafe = .ok s := by
    rw [updateMetaSafe_eq]
    have : flagged s = [] := by
      unfold flagged
      rw [List.filter_eq_nil_iff]
      intro n hn
      by_cases hk : n.key.kind = .step
      · simp [hk, (h n hn hk).1]
      · simp [hk]
    simp [this, pure, Except.pure]
  have e2 : s.updateMetaAfter cfg = .ok s := by
    unfold KState.updateMetaAfter
    have : (s.nodes.any fun n => n.key.kind = .step ∧ n.checkAfter) = false := by
      rw [List.any_eq_false]
      intro n hn
      by_cases hk : n.key.kind = .step
      · simp [hk, (h n hn hk).2.1]
      · simp [hk]
    simp only [this, Bool.not_false, if_true]
    rfl
  have e3 : s.updateMetaReady = s := by
    unfold KState.updateMetaReady KState.modifyWhere
    have : (s.nodes.map fun n => if (decide (n.key.kind = .step ∧ n.checkReady = true)) = true then
        { n with ready := s.computeReady n.key, checkReady := false } else n) = s.nodes := by
      conv => rhs; rw [← List.map_id s.nodes]
      apply List.map_congr_left
      intro n hn
      by_cases hk : n.key.kind = .step
      · simp [hk, (h n hn hk).2.2]
      · simp [hk]
    rw [this]
  unfold KState.updateMeta
  simp only [bind, Except.bind, e1, e2, pure, Except.pure, e3]

/-- No step is eligible on refreshed metadata: `_update_meta` succeeds and `SELECT_NEXT_STEP` finds no
row in the state it leaves. -/
def NoEligible (k : KState) (cfg : KConfig) : Prop :=
  ∃ su, k.updateMeta cfg = .ok su ∧ ∀ n ∈ su.nodes, su.eligible cfg n = false

/-- `pop_next_job` answers "nothing": it was asked with "no row", the state it leaves is the refreshed
state, no step is eligible there, and that state is a fixed point of the refresh. -/
theorem popNext_none_spec {k k' : KState} {cfg : KConfig} {c : Option Key}
    (h : k.popNext cfg c = .ok (k', .none)) :
    c = none ∧ k.updateMeta cfg = .ok k' ∧ (∀ n ∈ k'.nodes, k'.eligible cfg n = false) ∧
      k'.updateMeta cfg = .ok k' ∧ NoEligible k cfg ∧ NoEligible k' cfg := by
  obtain ⟨su, hu, hcase⟩ := popNext_split h
  rcases hcase with ⟨rfl, rfl, -⟩ | ⟨_, _, _, _, _, _, _, _, hd⟩
  · have hel : ∀ n ∈ k'.nodes, k'.eligible cfg n = false := by
      unfold KState.popNext at h
      simp only [hu, bind, Except.bind] at h
      split at h
      · rename_i hempty
        intro n hn
        have : n ∉ k'.nodes.filter (k'.eligible cfg) := by rw [List.isEmpty_iff.mp hempty]; simp
        simpa [List.mem_filter, hn] using this
      · cases h
    have hfix := updateMeta_of_clean cfg (updateMeta_clean hu)
    exact ⟨rfl, hu, hel, hfix, ⟨k', hu, hel⟩, ⟨k', hfix, hel⟩⟩
  · cases hd

/-- `pop_next_job` answers with a job for `key`: `key` was the choice, it is the key of a step that is
eligible in the refreshed state, which is set CHECKING (recorded hash) or RUNNING. -/
theorem popNext_job_spec {k k' : KState} {cfg : KConfig} {c : Option Key} {key : Key} {chk run : Bool}
    (h : k.popNext cfg c = .ok (k', .job key chk run)) :
    c = some key ∧ ∃ su n, k.updateMeta cfg = .ok su ∧ n ∈ su.nodes ∧ n.key = key ∧ su.eligible cfg n = true ∧
      chk = n.hasHash ∧ su.setStepState key (if chk = true then .checking else .running) = .ok k' := by
  obtain ⟨su, hu, hcase⟩ := popNext_split h
  rcases hcase with ⟨_, _, hd⟩ | ⟨k1, n, run1, rfl, hn, hk, hel, hw, hd⟩
  · cases hd
  · simp only [Dispatch.job.injEq] at hd
    obtain ⟨rfl, rfl, rfl⟩ := hd
    exact ⟨rfl, su, n, hu, hn, hk, hel, rfl, hw⟩

/-- If some step can be dispatched, "no step is eligible" is false. -/
theorem not_noEligible_of_job {k k' : KState} {cfg : KConfig} {c : Option Key} {key : Key} {chk run : Bool}
    (h : k.popNext cfg c = .ok (k', .job key chk run)) : ¬ NoEligible k cfg := by
  obtain ⟨-, su, n, hu, hn, -, hel, -⟩ := popNext_job_spec h
  rintro ⟨su', hu', hall⟩
  rw [hu] at hu'
  cases hu'
  rw [hall n hn] at hel
  cases hel

end StepupModel.K
