import StepupModel.K.Scheduler
/-! Helper lemmas about the kernel model's row updates (no property statements here). -/
namespace StepupModel.K

/-- Looking a key up after a row-wise rewrite that keeps keys, seen through a projection that
the rewrite does not change. -/
theorem find?_map_proj {β : Type} (l : List Node) (g : Node → Node) (π : Node → β) (q : Key)
    (hkey : ∀ n, (g n).key = n.key) (hπ : ∀ n, π (g n) = π n) :
    ((l.map g).find? (·.key = q)).map π = (l.find? (·.key = q)).map π := by
  induction l with
  | nil => rfl
  | cons a as ih =>
    simp only [List.map_cons, List.find?_cons, hkey]
    by_cases hq : a.key = q
    · simp only [hq, decide_true, Option.map_some, hπ]
    · simp only [hq, decide_false]
      exact ih

theorem find?_modifyWhere_proj {β : Type} (s : KState) (p : Node → Bool) (f : Node → Node) (π : Node → β)
    (q : Key) (hkey : ∀ n, (f n).key = n.key) (hπ : ∀ n, π (f n) = π n) :
    ((s.modifyWhere p f).find? q).map π = (s.find? q).map π := by
  unfold KState.modifyWhere KState.find?
  apply find?_map_proj
  · intro n; by_cases h : p n = true <;> simp [h, hkey]
  · intro n; by_cases h : p n = true <;> simp [h, hπ]

theorem find?_modify_proj {β : Type} (s : KState) (k : Key) (f : Node → Node) (π : Node → β)
    (q : Key) (hkey : ∀ n, (f n).key = n.key) (hπ : ∀ n, π (f n) = π n) :
    ((s.modify k f).find? q).map π = (s.find? q).map π := by
  unfold KState.modify KState.find?
  apply find?_map_proj
  · intro n; by_cases h : n.key = k <;> simp [h, hkey]
  · intro n; by_cases h : n.key = k <;> simp [h, hπ]

end StepupModel.K
