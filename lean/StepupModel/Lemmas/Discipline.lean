import StepupModel.Lemmas.DisciplineRetarget
/-!
# The flag discipline of `_update_meta_after` over requests and histories

`CacheInvAfterW s cfg` (`Lemmas/MetaAfterW.lean`): an attached step that is not flagged `_check_after`
satisfies its local equation or has a flagged attached consumer.  It is the hypothesis of the worklist
theorems; this development shows that the writers of the model maintain it.

Main results (all for a fixed pair of target sets; `reconcile_targets` under an unchanged configuration
only raises flags):

* `exec_ti` / `step_ti` / `run_ti` / `reachable_ti`: `TI cfg` (the discipline, the flag-free structural
  invariant `Struct`, the creator forest `Forest`) is preserved by **every** accepted request, with three
  side conditions (`ReqOK'`): the step of an `amend` has a row, `reset_for_rerun` is asked of a step, and
  the raw `detach` of a file meets `FileDetachOK`.
* `detach_output_file_breaks_discipline`: the third side condition is needed (the raw `Node.detach` of an
  output file that still has the edge from its attached, unflagged producer; `counterexample_1`; not a
  request the director delivers).
* `reachable_updateMetaAfter_correct'`: hence `_update_meta_after` is correct on every reachable state.
* `exec_reconcile_retarget` (`reconcileTargets_retarget`), `exec_plainSoft_ti`: a change of the target sets
  followed by the plain soft requests of a restart and `reconcile_targets` carries the invariants from the
  old target sets to the new ones.
* `exec_soft_disc`, `exec_ds`, `run_ds`, `run_ds_relative`: the same without `Forest` for the requests that
  do not declare anything.

Per model function (file, theorem):

| function | verdict | theorem |
|---|---|---|
| soft writes: `setStepState`, `writeFile` within a role, `setHash`, `deleteHash`, flagging passes, `markStepPending`, `markFileOutdated`, `handleUpdated/Deleted`, `updateFileHashes`, `outdateBuiltProducts`, `rebuildOutdatedProducts`, `completeSuccess`, `hold`, `release`, `registerNglob`, `revertOptional`, `resetInterrupted`, `rescanEnvVars`, `checkConsistency`, `updateMetaSafe`, `updateMetaReady`, `reconcileTargets` | preserved | `DisciplineSoft`: `*_soft`, `cacheInvW_soft` |
| `updateMetaAfter`, `updateMeta`, `popNext` | establish the strict form | `updateMeta_disc`, `popNext_disc` |
| `insertDep` | preserved, unconditionally | `insertDep_wd` |
| `deleteDeps` | preserved when the steps that lose an attached consumer are flagged | `wd_deleteDeps` |
| `dropDynamicInputs` (`flagDynamicSuppliers`) | preserved | `RInv.dropDynamicInputs` |
| `detach` of a step or a tree | preserved under `Struct` | `detach_disc_struct` |
| `detach` of a file | preserved under `Struct` and `FileDetachOK`; refuted without | `detach_output_file_breaks_discipline` |
| `resetForRerun`, `completeFailure`, `markCompleted` | preserved under `Struct` | `resetForRerun_rinv`, `completeFailure_rinv` |
| `create` (fresh and recycling) | preserved under `Struct`, `Forest` | `create_wd`, `create_struct` |
| `reattach` (of a step), `recycleStep`, `afterRecycle` | preserved under `Struct`, `Forest` | `reattach_wd`, `recycleStep_ti` |
| `declareFile`, `declareStaticFiles`, `supplyFiles`, `declareProducts`, `createStep`, `defineStep`, `amendStep`, `handOver`, `registerStaticTree`, `declareStaticRequest` | preserved (`TI`) | `*_ti` |
| `deletePass`, `deleteDetachedBase`, `deleteDetached` | preserved (`TI`) | `deleteDetached_ti` |
-/
namespace StepupModel.K.Discipline
open StepupModel.K.MetaAfter StepupModel.Lemmas StepupModel.Generated StepupModel.K.Sk
set_option linter.unusedSimpArgs false
set_option linter.unusedVariables false

/-- The flag discipline as a state predicate (for a fixed configuration). -/
def Disc (cfg : KConfig) (s : KState) : Prop := KeysUnique s ∧ CacheInvAfterW s cfg

/-- An operation that preserves `SP s0` for every `s0` preserves the discipline. -/
theorem preserves_disc_of_soft {f : KState → M KState} (hf : ∀ s0, Preserves (SP s0) f) (cfg : KConfig) :
    Preserves (Disc cfg) f := by
  intro s s' hp h
  have := disc_of_soft hf cfg s s' hp.1 hp.2 h
  exact ⟨this.2, this.1⟩

/-- The discipline reads the configuration through the target sets only. -/
theorem afterValues_cfg_congr (s : KState) {cfg cfg' : KConfig} (h1 : cfg'.targets = cfg.targets)
    (h2 : cfg'.targetDirs = cfg.targetDirs) (n : Node) : s.afterValues cfg' n = s.afterValues cfg n := by
  unfold KState.afterValues
  simp only [h1, h2]

theorem disc_cfg_congr {s : KState} {cfg cfg' : KConfig} (h1 : cfg'.targets = cfg.targets)
    (h2 : cfg'.targetDirs = cfg.targetDirs) (h : Disc cfg s) : Disc cfg' s := by
  refine ⟨h.1, fun n hn hs hd hf => ?_⟩
  rcases h.2 n hn hs hd hf with hl | hx
  · left
    unfold AfterLocal at hl ⊢
    rw [afterValues_cfg_congr s h1 h2]; exact hl
  · exact .inr hx

/-- The empty workflow obeys the discipline. -/
theorem disc_init (cfg : KConfig) : Disc cfg KState.init := by
  refine ⟨by unfold KeysUnique; decide, ?_⟩
  intro n hn hs
  simp only [KState.init, List.mem_singleton] at hn
  subst hn
  cases hs

/-! ## `_update_meta` establishes the strict form -/

theorem disc_of_consistent {s : KState} {cfg : KConfig} (hk : KeysUnique s) (h : AfterConsistent s cfg) : Disc cfg s :=
  ⟨hk, fun n hn h1 h2 _ => .inl (h n hn h1 h2)⟩

theorem updateMeta_disc (cfg : KConfig) : Preserves (Disc cfg) (fun s => s.updateMeta cfg) := by
  intro s s' hp h
  obtain ⟨hc, _, hv⟩ := updateMeta_correct_weak s s' cfg hp.1 hp.2 h
  exact disc_of_consistent (keysUnique_view hv hp.1) hc

theorem updateMetaAfter_disc (cfg : KConfig) : Preserves (Disc cfg) (fun s => s.updateMetaAfter cfg) := by
  intro s s' hp h
  obtain ⟨hc, _, hv⟩ := updateMetaAfter_correct_weak s s' cfg hp.1 hp.2 h
  exact disc_of_consistent (keysUnique_frame hv hp.1) hc

theorem popNext_disc (cfg : KConfig) (choice : Option Key) (s s' : KState) (d : Dispatch)
    (hp : Disc cfg s) (h : s.popNext cfg choice = .ok (s', d)) : Disc cfg s' := by
  unfold KState.popNext at h
  simp only [bind, Except.bind] at h
  cases hu : s.updateMeta cfg with
  | error e => simp [hu] at h
  | ok su =>
    simp only [hu] at h
    have hpu := updateMeta_disc cfg s su hp hu
    cases choice with
    | none =>
      simp only at h
      split at h
      · simp only [pure, Except.pure, Except.ok.injEq, Prod.mk.injEq] at h
        obtain ⟨rfl, _⟩ := h; exact hpu
      · cases h
    | some k =>
      simp only at h
      split at h
      · cases h
      · rename_i n hn
        split at h
        · cases h
        · split at h
          · cases h
          · cases hj : su.deriveJob k with
            | error e => simp [hj] at h
            | ok run =>
              simp only [hj] at h
              cases hs : su.setStepState k (if n.hasHash = true then StepState.checking else StepState.running) with
              | error e => simp [hs] at h
              | ok s2 =>
                simp only [hs, pure, Except.pure, Except.ok.injEq, Prod.mk.injEq] at h
                obtain ⟨rfl, _⟩ := h
                exact preserves_disc_of_soft (fun s0 => setStepState_soft k _ false) cfg su s2 hpu hs

/-! ## Requests that change the state softly (or run `_update_meta`) -/

/-- The requests whose writes are soft, plus the two that run `_update_meta`. -/
def isSoftReq : Req → Bool
  | .nglob .. | .hashes .. | .pop .. | .updateMeta | .completed _ (some _) _ | .setState .. | .deleteHash ..
  | .markPending .. | .hold .. | .release .. | .revertOptional | .clearQueue | .resetInterrupted | .rescanEnv
  | .reconcile | .checkConsistency => true
  | _ => false

theorem unitOut_ok' {x : M KState} {res : KState × String} (h : unitOut x = .ok res) : x = .ok res.1 :=
  StableG.unitOut_ok h

/-- **Every accepted soft request preserves the flag discipline** (for the configuration it runs
under). -/
theorem exec_soft_disc (cfg : KConfig) (r : Req) (hr : isSoftReq r = true) (s : KState) (res : KState × String)
    (hp : Disc cfg s) (h : s.exec cfg r = .ok res) : Disc cfg res.1 := by
  cases r with
  | define c d => cases hr
  | amend k inp env out vol conc => cases hr
  | static c ps => cases hr
  | tree c p => cases hr
  | declStatic c ts fs ps => cases hr
  | resetRerun k => cases hr
  | detach k => cases hr
  | deleteDetached => cases hr
  | nglob k p ms => exact preserves_disc_of_soft (fun s0 => registerNglob_soft k p ms) cfg s _ hp (unitOut_ok' h)
  | hashes u c => exact preserves_disc_of_soft (fun s0 => updateFileHashes_soft u c) cfg s _ hp (unitOut_ok' h)
  | pop c =>
    simp only [KState.exec] at h
    refine bind_ok_gen h (fun a => Disc cfg a.1) (fun a ha => popNext_disc cfg c s a.1 a.2 hp ha)
      (fun r => Disc cfg r.1) ?_
    intro a b ha hb; obtain ⟨st, d⟩ := a
    simp only [pure, Except.pure, Except.ok.injEq] at hb; subst hb; exact ha
  | updateMeta => exact updateMeta_disc cfg s _ hp (unitOut_ok' h)
  | completed k nh wd =>
    cases nh with
    | none => cases hr
    | some hh =>
      simp only [KState.exec, KState.markCompleted] at h
      simp only [bind, Except.bind] at h
      cases hc : s.completeSuccess cfg k hh with
      | error e => simp [hc] at h
      | ok st =>
        simp only [hc, pure, Except.pure, Except.ok.injEq] at h
        subst h
        exact preserves_disc_of_soft (fun s0 => completeSuccess_soft cfg k hh) cfg s st hp hc
  | setState k stt => exact preserves_disc_of_soft (fun s0 => setStepState_soft k stt false) cfg s _ hp (unitOut_ok' h)
  | deleteHash k =>
    have := unitOut_ok' h
    simp only [pure, Except.pure, Except.ok.injEq] at this
    rw [← this]
    have hs := deleteHash_soft s k (SP.refl hp.1)
    exact ⟨hs.keys, hs.disc cfg hp.2⟩
  | markPending k => exact preserves_disc_of_soft (fun s0 => markStepPending'_soft k) cfg s _ hp (unitOut_ok' h)
  | hold k => exact preserves_disc_of_soft (fun s0 => hold_soft k) cfg s _ hp (unitOut_ok' h)
  | release k => exact preserves_disc_of_soft (fun s0 => release_soft k) cfg s _ hp (unitOut_ok' h)
  | revertOptional => exact preserves_disc_of_soft (fun s0 => revertOptional_soft) cfg s _ hp (unitOut_ok' h)
  | clearQueue =>
    have := unitOut_ok' h
    simp only [pure, Except.pure, Except.ok.injEq] at this
    rw [← this]
    have hs := (SP.refl hp.1).queue []
    exact ⟨hs.keys, hs.disc cfg hp.2⟩
  | resetInterrupted => exact preserves_disc_of_soft (fun s0 => resetInterrupted_soft) cfg s _ hp (unitOut_ok' h)
  | rescanEnv => exact preserves_disc_of_soft (fun s0 => rescanEnvVars_soft cfg) cfg s _ hp (unitOut_ok' h)
  | reconcile => exact preserves_disc_of_soft (fun s0 => reconcileTargets_soft cfg) cfg s _ hp (unitOut_ok' h)
  | checkConsistency => exact preserves_disc_of_soft (fun s0 => checkConsistency_soft) cfg s _ hp (unitOut_ok' h)

/-! ## Discipline and structure together -/

/-- The flag discipline together with the flag-free structural invariant. -/
def DS (cfg : KConfig) (s : KState) : Prop := CacheInvAfterW s cfg ∧ Struct s

theorem DS.disc {cfg : KConfig} {s : KState} (h : DS cfg s) : Disc cfg s := ⟨h.2.keys, h.1⟩

theorem ds_of_rinv {cfg : KConfig} {s s' : KState} (h : RInv cfg s s') : DS cfg s' := ⟨h.disc, h.st⟩

theorem ds_cfg_congr {s : KState} {cfg cfg' : KConfig} (h1 : cfg'.targets = cfg.targets)
    (h2 : cfg'.targetDirs = cfg.targetDirs) (h : DS cfg s) : DS cfg' s :=
  ⟨(disc_cfg_congr h1 h2 h.disc).2, h.2⟩

theorem struct_init : Struct KState.init := by
  refine ⟨by unfold KeysUnique; decide, ?_, ?_, ?_, ?_, ?_, ?_⟩
  · intro d hd; cases hd
  · intro n hn hs
    simp only [KState.init, List.mem_singleton] at hn
    subst hn; cases hs
  · intro n hn _
    simp only [KState.init, List.mem_singleton] at hn
    subst hn; rfl
  · intro d hd; cases hd
  · intro d hd; cases hd
  · intro n hn _
    simp only [KState.init, List.mem_singleton] at hn
    subst hn; rfl

theorem ds_init (cfg : KConfig) : DS cfg KState.init := ⟨(disc_init cfg).2, struct_init⟩

/-- An operation that is soft in the sense of `Lemmas/DisciplineSoft.lean` preserves both. -/
theorem preserves_ds_of_soft {f : KState → M KState} (hf : ∀ s0, Preserves (SP s0) f) (cfg : KConfig) :
    Preserves (DS cfg) f := by
  intro s s' hp h
  exact ds_of_rinv (RInv.of_soft hf ⟨hp.2, hp.1, StructRel.refl s⟩ h)

theorem all₂_of_map_eq {α β : Type} {R : α → α → Prop} (f : α → β) (hR : ∀ a b, f a = f b → R a b) :
    ∀ (l l' : List α), l.map f = l'.map f → All₂ R l l'
  | [], [], _ => .nil
  | [], _ :: _, h => by cases h
  | _ :: _, [], h => by cases h
  | a :: l, b :: l', h => by
    simp only [List.map_cons, List.cons.injEq] at h
    exact .cons (hR a b h.1) (all₂_of_map_eq f hR l l' h.2)

theorem structRel_of_frame {s s' : KState} (h : AfterFrame s s') : StructRel s s' := by
  refine ⟨fun d hd => by rw [h.1] at hd; exact hd, ?_⟩
  refine all₂_of_map_eq eraseAfter ?_ _ _ h.2.2.symm
  intro a b hab
  have h1 : a.key = b.key := eraseAfter_key hab
  have h2 : a.fstate = b.fstate := eraseAfter_fstate hab
  have h3 : a.creator = b.creator := by have := congrArg Node.creator hab; exact this
  exact ⟨h1.symm, by rw [h2], .inl h3.symm⟩

theorem updateMeta_ds (cfg : KConfig) : Preserves (DS cfg) (fun s => s.updateMeta cfg) := by
  intro s s' hp h
  refine ⟨(updateMeta_disc cfg s s' hp.disc h).2, ?_⟩
  replace h : s.updateMeta cfg = .ok s' := h
  unfold KState.updateMeta at h
  simp only [bind, Except.bind] at h
  cases h1 : s.updateMetaSafe with
  | error e => simp [h1] at h
  | ok s1 =>
    simp only [h1] at h
    have r1 : StructRel s s1 := (updateMetaSafe_soft (s0 := s) s s1 (SP.refl hp.2.keys) h1).2.struct
    cases h2 : s1.updateMetaAfter cfg with
    | error e => simp [h2] at h
    | ok s2 =>
      simp only [h2, pure, Except.pure, Except.ok.injEq] at h
      subst h
      have r2 : StructRel s1 s2 := structRel_of_frame (updateMetaAfter_frame s1 s2 cfg h2)
      have hk2 : KeysUnique s2 := (struct_of_rel (r1.trans r2) hp.2).keys
      have r3 : StructRel s2 s2.updateMetaReady := (updateMetaReady_soft (s0 := s2) s2 (SP.refl hk2)).2.struct
      exact struct_of_rel ((r1.trans r2).trans r3) hp.2

theorem popNext_ds (cfg : KConfig) (choice : Option Key) (s s' : KState) (d : Dispatch)
    (hp : DS cfg s) (h : s.popNext cfg choice = .ok (s', d)) : DS cfg s' := by
  unfold KState.popNext at h
  simp only [bind, Except.bind] at h
  cases hu : s.updateMeta cfg with
  | error e => simp [hu] at h
  | ok su =>
    simp only [hu] at h
    have hpu := updateMeta_ds cfg s su hp hu
    cases choice with
    | none =>
      simp only at h
      split at h
      · simp only [pure, Except.pure, Except.ok.injEq, Prod.mk.injEq] at h
        obtain ⟨rfl, _⟩ := h; exact hpu
      · cases h
    | some k =>
      simp only at h
      split at h
      · cases h
      · rename_i n hn
        split at h
        · cases h
        · split at h
          · cases h
          · cases hj : su.deriveJob k with
            | error e => simp [hj] at h
            | ok run =>
              simp only [hj] at h
              cases hs : su.setStepState k (if n.hasHash = true then StepState.checking else StepState.running) with
              | error e => simp [hs] at h
              | ok s2 =>
                simp only [hs, pure, Except.pure, Except.ok.injEq, Prod.mk.injEq] at h
                obtain ⟨rfl, _⟩ := h
                exact preserves_ds_of_soft (fun s0 => setStepState_soft k _ false) cfg su s2 hpu hs

/-- What is asked of a request for the theorem below: the soft requests and the two that run
`_update_meta` are unconditional; `reset_for_rerun` is for a step; `detach` of a file needs
`FileDetachOK` (the raw detach of an output file that still has the edge from its producer breaks
the discipline: `counterexample_1`); the declaring requests and `delete_detached` are not covered. -/
def ReqOK (s : KState) : Req → Prop
  | .define .. | .amend .. | .static .. | .tree .. | .declStatic .. | .deleteDetached => False
  | .resetRerun k => k.kind = .step
  | .detach k => FileDetachOK s k
  | _ => True

/-- **Every accepted request of the covered classes preserves the flag discipline and the structural
invariant**, under the configuration it runs with. -/
theorem exec_ds (cfg : KConfig) (r : Req) (s : KState) (res : KState × String) (hr : ReqOK s r)
    (hp : DS cfg s) (h : s.exec cfg r = .ok res) : DS cfg res.1 := by
  cases r with
  | define c d => exact hr.elim
  | amend k inp env out vol conc => exact hr.elim
  | static c ps => exact hr.elim
  | tree c p => exact hr.elim
  | declStatic c ts fs ps => exact hr.elim
  | deleteDetached => exact hr.elim
  | resetRerun k => exact ds_of_rinv (resetForRerun_rinv hr hp.2 hp.1 (unitOut_ok' h))
  | detach k =>
    have h0 : RInv cfg s s := ⟨hp.2, hp.1, StructRel.refl s⟩
    exact ds_of_rinv (h0.detach hr (unitOut_ok' h))
  | nglob k p ms => exact preserves_ds_of_soft (fun s0 => registerNglob_soft k p ms) cfg s _ hp (unitOut_ok' h)
  | hashes u c => exact preserves_ds_of_soft (fun s0 => updateFileHashes_soft u c) cfg s _ hp (unitOut_ok' h)
  | pop c =>
    simp only [KState.exec] at h
    refine bind_ok_gen h (fun a => DS cfg a.1) (fun a ha => popNext_ds cfg c s a.1 a.2 hp ha)
      (fun r => DS cfg r.1) ?_
    intro a b ha hb; obtain ⟨st, d⟩ := a
    simp only [pure, Except.pure, Except.ok.injEq] at hb; subst hb; exact ha
  | updateMeta => exact updateMeta_ds cfg s _ hp (unitOut_ok' h)
  | completed k nh wd =>
    cases nh with
    | none =>
      simp only [KState.exec, KState.markCompleted] at h
      simp only [bind, Except.bind] at h
      cases hc : s.completeFailure cfg k wd with
      | error e => simp [hc] at h
      | ok st =>
        simp only [hc, pure, Except.pure, Except.ok.injEq] at h
        subst h
        exact ds_of_rinv (completeFailure_rinv wd hp.2 hp.1 hc)
    | some hh =>
      simp only [KState.exec, KState.markCompleted] at h
      simp only [bind, Except.bind] at h
      cases hc : s.completeSuccess cfg k hh with
      | error e => simp [hc] at h
      | ok st =>
        simp only [hc, pure, Except.pure, Except.ok.injEq] at h
        subst h
        exact preserves_ds_of_soft (fun s0 => completeSuccess_soft cfg k hh) cfg s st hp hc
  | setState k stt => exact preserves_ds_of_soft (fun s0 => setStepState_soft k stt false) cfg s _ hp (unitOut_ok' h)
  | deleteHash k =>
    have := unitOut_ok' h
    simp only [pure, Except.pure, Except.ok.injEq] at this
    rw [← this]
    exact ds_of_rinv ((⟨hp.2, hp.1, StructRel.refl s⟩ : RInv cfg s s).soft (deleteHash_soft s k (SP.refl hp.2.keys)).2)
  | markPending k => exact preserves_ds_of_soft (fun s0 => markStepPending'_soft k) cfg s _ hp (unitOut_ok' h)
  | hold k => exact preserves_ds_of_soft (fun s0 => hold_soft k) cfg s _ hp (unitOut_ok' h)
  | release k => exact preserves_ds_of_soft (fun s0 => release_soft k) cfg s _ hp (unitOut_ok' h)
  | revertOptional => exact preserves_ds_of_soft (fun s0 => revertOptional_soft) cfg s _ hp (unitOut_ok' h)
  | clearQueue =>
    have := unitOut_ok' h
    simp only [pure, Except.pure, Except.ok.injEq] at this
    rw [← this]
    exact ds_of_rinv ((⟨hp.2, hp.1, StructRel.refl s⟩ : RInv cfg s s).soft ((SP.refl hp.2.keys).queue []).2)
  | resetInterrupted => exact preserves_ds_of_soft (fun s0 => resetInterrupted_soft) cfg s _ hp (unitOut_ok' h)
  | rescanEnv => exact preserves_ds_of_soft (fun s0 => rescanEnvVars_soft cfg) cfg s _ hp (unitOut_ok' h)
  | reconcile => exact preserves_ds_of_soft (fun s0 => reconcileTargets_soft cfg) cfg s _ hp (unitOut_ok' h)
  | checkConsistency => exact preserves_ds_of_soft (fun s0 => checkConsistency_soft) cfg s _ hp (unitOut_ok' h)

/-- One transaction (accepted, or rejected and rolled back). -/
theorem step_ds (cfg : KConfig) (r : Req) (s : KState) (hr : ReqOK s r) (hp : DS cfg s) : DS cfg (s.step cfg r) := by
  unfold KState.step
  cases h : s.exec cfg r with
  | error e => exact hp
  | ok res => obtain ⟨s', out⟩ := res; exact exec_ds cfg r s (s', out) hr hp h

/-- A history whose requests are of the covered classes (each judged on the state it is issued in) and
whose configurations all have the target sets of `cfg`. -/
def HistOK (cfg : KConfig) : KState → List (KConfig × Req) → Prop
  | _, [] => True
  | s, cr :: rest =>
    (cr.1.targets = cfg.targets ∧ cr.1.targetDirs = cfg.targetDirs ∧ ReqOK s cr.2) ∧ HistOK cfg (s.step cr.1 cr.2) rest

/-- **The flag discipline is an invariant of every covered history with constant target sets.** -/
theorem run_ds (cfg : KConfig) (h : List (KConfig × Req)) (s : KState) (hp : DS cfg s) (hh : HistOK cfg s h) :
    DS cfg (s.run h) := by
  unfold KState.run
  induction h generalizing s with
  | nil => exact hp
  | cons x xs ih =>
    simp only [List.foldl_cons]
    obtain ⟨⟨ht, htd, hr⟩, hrest⟩ := hh
    have h1 : DS x.1 (s.step x.1 x.2) := step_ds x.1 x.2 s hr (ds_cfg_congr ht htd hp)
    exact ih _ (ds_cfg_congr ht.symm htd.symm h1) hrest

theorem reachable_ds (cfg : KConfig) (h : List (KConfig × Req)) (hh : HistOK cfg KState.init h) :
    DS cfg (KState.init.run h) := run_ds cfg h KState.init (ds_init cfg) hh

/-- In every state reached by a covered history, `_update_meta_after` establishes all local equations. -/
theorem reachable_updateMetaAfter_correct (cfg : KConfig) (h : List (KConfig × Req)) (hh : HistOK cfg KState.init h) :
    ∃ s', (KState.init.run h).updateMetaAfter cfg = .ok s' ∧ AfterConsistent s' cfg ∧
      (∀ n ∈ s'.nodes, n.key.kind = .step → n.checkAfter = false) ∧ AfterFrame (KState.init.run h) s' :=
  updateMetaAfter_reachable_correct_weak h cfg (reachable_ds cfg h hh).1


/-! ## Histories with uncovered requests: the relative form -/

/-- Like `HistOK`, but a request outside the covered classes is allowed when the discipline and the
structural invariant are *known* to hold after it: the open obligation is reduced to the declaring
requests (`define`, `amend`, `static`, `tree`, `declStatic`) and `delete_detached`. -/
def HistRel (cfg : KConfig) : KState → List (KConfig × Req) → Prop
  | _, [] => True
  | s, cr :: rest =>
    (cr.1.targets = cfg.targets ∧ cr.1.targetDirs = cfg.targetDirs ∧ (ReqOK s cr.2 ∨ DS cfg (s.step cr.1 cr.2))) ∧
      HistRel cfg (s.step cr.1 cr.2) rest

theorem run_ds_relative (cfg : KConfig) (h : List (KConfig × Req)) (s : KState) (hp : DS cfg s)
    (hh : HistRel cfg s h) : DS cfg (s.run h) := by
  unfold KState.run
  induction h generalizing s with
  | nil => exact hp
  | cons x xs ih =>
    simp only [List.foldl_cons]
    obtain ⟨⟨ht, htd, hr⟩, hrest⟩ := hh
    refine ih _ ?_ hrest
    rcases hr with hr | hr
    · exact ds_cfg_congr ht.symm htd.symm (step_ds x.1 x.2 s hr (ds_cfg_congr ht htd hp))
    · exact hr


/-! ## All requests: discipline, structure and creator forest -/

theorem ti_init (cfg : KConfig) : TI cfg KState.init := ⟨(ds_init cfg).1, struct_init, init_forest⟩

theorem ti_cfg_congr {s : KState} {cfg cfg' : KConfig} (h1 : cfg'.targets = cfg.targets)
    (h2 : cfg'.targetDirs = cfg.targetDirs) (h : TI cfg s) : TI cfg' s :=
  ⟨(ds_cfg_congr h1 h2 ⟨h.disc, h.st⟩).1, h.st, h.fo⟩

/-- What is asked of a request for `exec_ti`: the step of an `amend` has a row; `reset_for_rerun` is for
a step; the raw `detach` of a file needs `FileDetachOK`.  Every other request is unconditional. -/
def ReqOK' (s : KState) : Req → Prop
  | .amend k .. => Has s k
  | .resetRerun k => k.kind = .step
  | .detach k => FileDetachOK s k
  | _ => True

/-- **Every accepted request preserves the flag discipline** together with the structural invariant and
the creator forest (`amend` for a step that has a row, `reset_for_rerun` for a step, `detach` of a file
under `FileDetachOK`). -/
theorem exec_ti (cfg : KConfig) (r : Req) (s : KState) (res : KState × String) (hr : ReqOK' s r)
    (hp : TI cfg s) (h : s.exec cfg r = .ok res) : TI cfg res.1 := by
  have hfo : Forest res.1 := exec_forest cfg r s res hp.fo h
  have old : ReqOK s r → TI cfg res.1 := fun hro =>
    have := exec_ds cfg r s res hro ⟨hp.disc, hp.st⟩ h
    ⟨this.1, this.2, hfo⟩
  cases r with
  | deleteDetached => exact deleteDetached_ti hp (unitOut_ok' h)
  | define c d =>
    simp only [KState.exec] at h
    refine bind_ok_gen h (fun a => TI cfg a.1) (fun a ha => (defineStep_ti hp ha).1) (fun r => TI cfg r.1) ?_
    intro a b ha hb; obtain ⟨st, chk⟩ := a
    simp only [pure, Except.pure, Except.ok.injEq] at hb; subst hb; exact ha
  | amend k inp env out vol conc =>
    simp only [KState.exec] at h
    refine bind_ok_gen h (fun a => TI cfg a.1) (fun a ha => (amendStep_ti hp hr ha).1) (fun r => TI cfg r.1) ?_
    intro a b ha hb; obtain ⟨st, chk⟩ := a
    simp only [pure, Except.pure, Except.ok.injEq] at hb; subst hb; exact ha
  | static c ps =>
    simp only [KState.exec] at h
    refine bind_ok_gen h (fun a => TI cfg a.1) (fun a ha => (declareStaticFiles_ti hp ha).1) (fun r => TI cfg r.1) ?_
    intro a b ha hb; obtain ⟨st, chk⟩ := a
    simp only [pure, Except.pure, Except.ok.injEq] at hb; subst hb; exact ha
  | tree c p =>
    simp only [KState.exec] at h
    refine bind_ok_gen h (fun a => TI cfg a.1) (fun a ha => (registerStaticTree_ti hp ha).1) (fun r => TI cfg r.1) ?_
    intro a b ha hb; obtain ⟨st, chk⟩ := a
    simp only [pure, Except.pure, Except.ok.injEq] at hb; subst hb; exact ha
  | declStatic c ts fs ps =>
    simp only [KState.exec] at h
    refine bind_ok_gen h (fun a => TI cfg a.1) (fun a ha => (declareStaticRequest_ti hp ha).1) (fun r => TI cfg r.1) ?_
    intro a b ha hb; obtain ⟨st, chk⟩ := a
    simp only [pure, Except.pure, Except.ok.injEq] at hb; subst hb; exact ha
  | resetRerun k => exact old hr
  | detach k => exact old hr
  | nglob k p ms => exact old trivial
  | hashes u c => exact old trivial
  | pop c => exact old trivial
  | updateMeta => exact old trivial
  | completed k nh wd => exact old trivial
  | setState k stt => exact old trivial
  | deleteHash k => exact old trivial
  | markPending k => exact old trivial
  | hold k => exact old trivial
  | release k => exact old trivial
  | revertOptional => exact old trivial
  | clearQueue => exact old trivial
  | resetInterrupted => exact old trivial
  | rescanEnv => exact old trivial
  | reconcile => exact old trivial
  | checkConsistency => exact old trivial

theorem step_ti (cfg : KConfig) (r : Req) (s : KState) (hr : ReqOK' s r) (hp : TI cfg s) : TI cfg (s.step cfg r) := by
  unfold KState.step
  cases h : s.exec cfg r with
  | error e => exact hp
  | ok res => obtain ⟨s', out⟩ := res; exact exec_ti cfg r s (s', out) hr hp h

/-- A history with constant target sets whose requests satisfy `ReqOK'` on the states they are issued in. -/
def HistOK' (cfg : KConfig) : KState → List (KConfig × Req) → Prop
  | _, [] => True
  | s, cr :: rest =>
    (cr.1.targets = cfg.targets ∧ cr.1.targetDirs = cfg.targetDirs ∧ ReqOK' s cr.2) ∧
      HistOK' cfg (s.step cr.1 cr.2) rest

theorem run_ti (cfg : KConfig) (h : List (KConfig × Req)) (s : KState) (hp : TI cfg s) (hh : HistOK' cfg s h) :
    TI cfg (s.run h) := by
  unfold KState.run
  induction h generalizing s with
  | nil => exact hp
  | cons x xs ih =>
    simp only [List.foldl_cons]
    obtain ⟨⟨ht, htd, hr⟩, hrest⟩ := hh
    exact ih _ (ti_cfg_congr ht.symm htd.symm (step_ti x.1 x.2 s hr (ti_cfg_congr ht htd hp))) hrest

/-- **The flag discipline holds after every history of requests** (accepted or rejected) under constant
target sets, the three side conditions of `ReqOK'` granted. -/
theorem reachable_ti (cfg : KConfig) (h : List (KConfig × Req)) (hh : HistOK' cfg KState.init h) :
    TI cfg (KState.init.run h) := run_ti cfg h KState.init (ti_init cfg) hh

/-- Hence `_update_meta_after` is correct on every such state: it terminates, establishes every local
equation, clears every flag and writes nothing but the three cached columns. -/
theorem reachable_updateMetaAfter_correct' (cfg : KConfig) (h : List (KConfig × Req)) (hh : HistOK' cfg KState.init h) :
    ∃ s', (KState.init.run h).updateMetaAfter cfg = .ok s' ∧ AfterConsistent s' cfg ∧
      (∀ n ∈ s'.nodes, n.key.kind = .step → n.checkAfter = false) ∧ AfterFrame (KState.init.run h) s' :=
  updateMetaAfter_reachable_correct_weak h cfg (reachable_ti cfg h hh).disc


/-! ## A change of the target sets -/

/-- The requests a new director issues between the change of its targets and `reconcile_targets`
(and every other request whose writes are soft and do not read the target sets). -/
def plainSoftReq : Req → Bool
  | .nglob .. | .hashes .. | .completed _ (some _) _ | .setState .. | .deleteHash .. | .markPending .. | .hold ..
  | .release .. | .revertOptional | .clearQueue | .resetInterrupted | .rescanEnv | .checkConsistency => true
  | _ => false

/-- A plain soft request preserves the invariants **for any target sets** `cfgW`, whatever the
configuration `cfgX` it runs under. -/
theorem exec_plainSoft_ti (cfgW cfgX : KConfig) (r : Req) (hr : plainSoftReq r = true) (s : KState)
    (res : KState × String) (hp : TI cfgW s) (h : s.exec cfgX r = .ok res) : TI cfgW res.1 := by
  have hfo : Forest res.1 := exec_forest cfgX r s res hp.fo h
  have key : ∀ {f : KState → M KState}, (∀ s0, Preserves (SP s0) f) → ∀ st, f s = .ok st → TI cfgW st → TI cfgW st :=
    fun _ _ _ ht => ht
  have lift : ∀ {f : KState → M KState}, (∀ s0, Preserves (SP s0) f) → f s = .ok res.1 → TI cfgW res.1 := by
    intro f hf hs
    have := preserves_ds_of_soft hf cfgW s res.1 ⟨hp.disc, hp.st⟩ hs
    exact ⟨this.1, this.2, hfo⟩
  cases r with
  | nglob k p ms => exact lift (fun s0 => registerNglob_soft k p ms) (unitOut_ok' h)
  | hashes u c => exact lift (fun s0 => updateFileHashes_soft u c) (unitOut_ok' h)
  | completed k nh wd =>
    cases nh with
    | none => cases hr
    | some hh =>
      simp only [KState.exec, KState.markCompleted] at h
      simp only [bind, Except.bind] at h
      cases hc : s.completeSuccess cfgX k hh with
      | error e => simp [hc] at h
      | ok st =>
        simp only [hc, pure, Except.pure, Except.ok.injEq] at h
        subst h
        exact lift (fun s0 => completeSuccess_soft cfgX k hh) hc
  | setState k stt => exact lift (fun s0 => setStepState_soft k stt false) (unitOut_ok' h)
  | deleteHash k =>
    have := unitOut_ok' h
    simp only [pure, Except.pure, Except.ok.injEq] at this
    have hs := deleteHash_soft s k (SP.refl hp.st.keys)
    rw [← this]
    exact hp.soft hs.2
  | markPending k => exact lift (fun s0 => markStepPending'_soft k) (unitOut_ok' h)
  | hold k => exact lift (fun s0 => hold_soft k) (unitOut_ok' h)
  | release k => exact lift (fun s0 => release_soft k) (unitOut_ok' h)
  | revertOptional => exact lift (fun s0 => revertOptional_soft) (unitOut_ok' h)
  | clearQueue =>
    have := unitOut_ok' h
    simp only [pure, Except.pure, Except.ok.injEq] at this
    rw [← this]
    exact hp.soft ((SP.refl hp.st.keys).queue []).2
  | resetInterrupted => exact lift (fun s0 => resetInterrupted_soft) (unitOut_ok' h)
  | rescanEnv => exact lift (fun s0 => rescanEnvVars_soft cfgX) (unitOut_ok' h)
  | checkConsistency => exact lift (fun s0 => checkConsistency_soft) (unitOut_ok' h)
  | define c d => cases hr
  | amend k inp env out vol conc => cases hr
  | static c ps => cases hr
  | tree c p => cases hr
  | declStatic c ts fs ps => cases hr
  | pop c => cases hr
  | updateMeta => cases hr
  | resetRerun k => cases hr
  | detach k => cases hr
  | deleteDetached => cases hr
  | reconcile => cases hr

/-- **`reconcile_targets` under new target sets** turns the invariants for the old target sets into
the invariants for the new ones: the restart of a director with other targets (`check_consistency`,
`reset_interrupted`, `rescan_env`: plain soft requests; then `reconcile`) keeps the flag discipline. -/
theorem exec_reconcile_retarget (cfgO cfgN : KConfig) (s : KState) (res : KState × String) (hp : TI cfgO s)
    (h : s.exec cfgN .reconcile = .ok res) : TI cfgN res.1 := by
  have hfo : Forest res.1 := exec_forest cfgN .reconcile s res hp.fo h
  have hs := unitOut_ok' h
  have hrel := (reconcileTargets_soft (s0 := s) cfgN s res.1 (SP.refl hp.st.keys) hs).2
  exact ⟨reconcileTargets_retarget hp.st hp.fo hp.disc hs, struct_of_rel hrel.struct hp.st, hfo⟩

/-! ## The side condition on `detach` is needed -/

/-- The state after `define plan; pop; define A (out o); update_meta` under the target `o`. -/
def cxState : KState :=
  { nodes := [
      { key := rootKey, creator := some rootKey },
      { key := stepKey "./plan.py", creator := some rootKey, sstate := .running, need := .plan, impliedNeed := .plan,
        safe := true, safeNH := true },
      { key := stepKey "A", creator := some (stepKey "./plan.py"), need := .default, impliedNeed := .target, tail := 1 },
      { key := fileKey "o", creator := some (stepKey "A"), fstate := .planned }],
    deps := [{ src := stepKey "A", snk := fileKey "o" }] }

def cxCfg : KConfig := { targets := ["o"] }

def wAfter (r : M KState) : Bool :=
  match r with
  | .ok s' => cacheInvAfterWB s' cxCfg
  | .error _ => true


theorem cxState_struct : Struct cxState := by
  refine ⟨by unfold KeysUnique; decide, ?_, ?_, ?_, ?_, ?_, ?_⟩
  · intro d hd hs f hf
    simp only [cxState, List.mem_singleton] at hd
    subst hd
    have : cxState.find? (fileKey "o") = some { key := fileKey "o", creator := some (stepKey "A"), fstate := .planned } := by
      rfl
    rw [this] at hf
    cases hf
    refine ⟨fun c hc => ?_, by decide⟩
    cases hc; rfl
  · intro n hn hs c hc
    simp only [cxState, List.mem_cons, List.not_mem_nil, or_false] at hn
    rcases hn with rfl | rfl | rfl | rfl
    · cases hs
    · cases hc; exact .inr rfl
    · cases hc; exact .inl rfl
    · cases hs
  · intro n hn hk
    simp only [cxState, List.mem_cons, List.not_mem_nil, or_false] at hn
    rcases hn with rfl | rfl | rfl | rfl
    · rfl
    · exact absurd hk (by decide)
    · exact absurd hk (by decide)
    · exact absurd hk (by decide)
  · intro d hd
    simp only [cxState, List.mem_singleton] at hd
    subst hd; rfl
  · intro d hd
    simp only [cxState, List.mem_singleton] at hd
    subst hd; exact ⟨rfl, rfl⟩
  · intro n hn hr
    simp only [cxState, List.mem_cons, List.not_mem_nil, or_false] at hn
    rcases hn with rfl | rfl | rfl | rfl
    · rfl
    · cases hr
    · cases hr
    · cases hr

/-- **Without `FileDetachOK` the discipline is not preserved**: the raw `Node.detach` of an output file
that still has the edge from its (attached, unflagged) producer.  The state is the one reached by
`define plan; pop; define A (out o); update_meta` under the target `o` (`counterexample_1`, which
replays on the implementation; the director never issues this request). -/
theorem detach_output_file_breaks_discipline : Disc cxCfg cxState ∧ Struct cxState ∧ ¬ FileDetachOK cxState (fileKey "o") ∧
    ∃ s', cxState.detach (fileKey "o") = .ok s' ∧ ¬ CacheInvAfterW s' cxCfg := by
  refine ⟨⟨cxState_struct.keys, (cacheInvAfterWB_iff _ _).1 (by decide)⟩, cxState_struct, ?_, ?_⟩
  · intro h
    refine h rfl { key := fileKey "o", creator := some (stepKey "A"), fstate := .planned } (stepKey "A") (by rfl) rfl rfl ?_
    exact ⟨_, List.mem_singleton.2 rfl, rfl, rfl⟩
  · cases hd : cxState.detach (fileKey "o") with
    | error e =>
      have : wAfter (cxState.detach (fileKey "o")) = false := by decide
      rw [hd] at this; cases this
    | ok s' =>
      refine ⟨s', rfl, fun hw => ?_⟩
      have : wAfter (cxState.detach (fileKey "o")) = false := by decide
      rw [hd] at this
      exact absurd ((cacheInvAfterWB_iff _ _).2 hw) (by rw [show cacheInvAfterWB s' cxCfg = false from this]; decide)

end StepupModel.K.Discipline
