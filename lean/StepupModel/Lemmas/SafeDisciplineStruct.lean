import StepupModel.Lemmas.SafeDisciplineSoft
/-!
# The flag discipline of `_update_meta_safe`: creator links, new rows, deleted rows

* `setCreator_debt`: `UPDATE node SET creator = ?` puts the key into the debt.
* `detach_safe`, `reattach_safe`: `Step.detach` / `Step.reattach` pay the debt by
  `_flag_checks_with_products` (a file or a tree is read by no local equation).
* `recycleStep_safe`: `try_recycle` + `after_recycle` (the reset of `_holding` hits a row that
  `Step.reattach` has just flagged: `reattach_flagged`).
* `create_safe`: `Trellis.create`, fresh or recycling.  A step row is flagged by `initialize_row` unless it is
  created *safe*; then (`InitKindS`) its creator must not be a step, and under `Forest` nothing names the row as
  its creator any more (`CreateSpec`), so the row is correct by itself.
* `deletePass_safe`, `deleteDetachedBase_safe`, `deleteDetached_safe`: a deleted row has no products.
-/
namespace StepupModel.K.SafeDisc
open StepupModel.K.MetaSafe StepupModel.Lemmas StepupModel.Generated StepupModel.K.Sk
set_option linter.unusedSimpArgs false
set_option linter.unusedVariables false

section
variable {F : Key → Prop}

/-! ## Creator links -/

theorem setCreator_debt {s s' : KState} {k : Key} {c : Option Key} {d : Bool} (h : s.setCreator k c d = .ok s')
    (hp : P F s) : P (fun x => F x ∨ x = k) s' := by
  unfold KState.setCreator at h
  split at h
  · simp only [pure, Except.pure, Except.ok.injEq] at h; subst h
    exact setDetachedRow_safe _ _ _ (hp.modifyDebt k (fun n => { n with creator := c }) fun _ _ hk => hk)
  · cases h

theorem afterLostProduct_safe (c : Key) : Preserves (P F) (fun s => s.afterLostProduct c) := by
  intro s s' hp h
  replace h : s.afterLostProduct c = .ok s' := h
  unfold KState.afterLostProduct at h
  split at h
  · simp only [pure, Except.pure, Except.ok.injEq] at h; subst h; exact deleteHash_safe s c hp
  · simp only [pure, Except.pure, Except.ok.injEq] at h; subst h; exact hp
  · cases h
  · cases h

theorem lostProduct_safe (old : Option Key) : Preserves (P F) (fun s => s.lostProduct old) := by
  intro s s' hp h
  replace h : s.lostProduct old = .ok s' := h
  unfold KState.lostProduct at h
  cases old with
  | none => simp only [pure, Except.pure, Except.ok.injEq] at h; subst h; exact hp
  | some oc =>
    simp only at h
    split at h
    · cases h
    · exact afterLostProduct_safe oc s s' hp h

/-! ## `Node.detach` -/

theorem detachCore_debt {s s1 : KState} {k : Key} {n : Node} (h : s.detachCore k n = .ok s1) (hp : P F s) :
    P (fun x => F x ∨ x = k) s1 := by
  unfold KState.detachCore at h
  split at h
  · simp only [bind, Except.bind] at h
    cases hsc : s.setCreator k none true with
    | error e => simp [hsc] at h
    | ok sc =>
      simp only [hsc, pure, Except.pure, Except.ok.injEq] at h
      have h1 := setCreator_debt hsc hp
      subst h
      split
      · exact setDetachedRec_safe _ _ _ h1
      · exact h1
  · simp only [pure, Except.pure, Except.ok.injEq] at h
    subst h
    exact hp.addDebt _

theorem detachFlags_pays {s s' : KState} {k : Key} (h : s.detachFlags k = .ok s') (hp : P (fun x => F x ∨ x = k) s) :
    P F s' := by
  unfold KState.detachFlags at h
  split at h
  · simp only [bind, Except.bind] at h
    cases hf : s.flagChecksWithProducts k with
    | error e => simp [hf] at h
    | ok s1 =>
      simp only [hf] at h
      exact flagCheckAfterSources_safe k s1 s' (flagChecksWithProducts_pays hp hf) h
  · rename_i hk
    simp only [pure, Except.pure, Except.ok.injEq] at h
    subst h
    exact hp.dropNonStep hk

/-- **`Node.detach` (+ `Step.detach`) preserves the discipline**, whatever the node. -/
theorem detach_safe (k : Key) : Preserves (P F) (fun s => s.detach k) := by
  intro s s' hp h
  replace h : s.detach k = .ok s' := h
  unfold KState.detach at h
  cases hf : s.find? k with
  | none => simp [hf] at h
  | some n =>
    simp only [hf, bind, Except.bind] at h
    cases hc : s.detachCore k n with
    | error e => simp [hc] at h
    | ok s1 =>
      simp only [hc] at h
      exact detachFlags_pays h (detachCore_debt hc hp)

theorem detachProducts_safe (k : Key) : Preserves (P F) (fun s => s.detachProducts k) := by
  intro s s' hp h
  replace h : s.detachProducts k = .ok s' := h
  unfold KState.detachProducts at h
  exact foldlM_preserves (P F) _ _ (fun (p : Node) => detach_safe p.key) s s' hp h

theorem detachCreatedSteps_safe (k : Key) : Preserves (P F) (fun s => s.detachCreatedSteps k) := by
  intro s s' hp h
  replace h : s.detachCreatedSteps k = .ok s' := h
  unfold KState.detachCreatedSteps at h
  exact foldlM_preserves (P F) _ _ (fun (p : Node) => detach_safe p.key) s s' hp h

theorem detachProductsWhere_safe (k : Key) (p : Node → Bool) :
    Preserves (P F) (fun s => s.detachProductsWhere k p) := by
  intro s s' hp h
  replace h : s.detachProductsWhere k p = .ok s' := h
  unfold KState.detachProductsWhere at h
  exact foldlM_preserves (P F) _ _ (fun (n : Node) => detach_safe n.key) s s' hp h

theorem dropDynamicSink_safe (step k : Key) : Preserves (P F) (fun s => s.dropDynamicSink step k) := by
  intro s s' hp h
  replace h : s.dropDynamicSink step k = .ok s' := h
  unfold KState.dropDynamicSink at h
  exact detach_safe k _ s' (deleteDeps_safe s _ hp) h

/-! ## `Node.reattach`, `try_recycle` -/

theorem flagIfStep_pays {s s' : KState} {k : Key} (h : s.flagIfStep k = .ok s') (hp : P (fun x => F x ∨ x = k) s) :
    P F s' := by
  unfold KState.flagIfStep at h
  split at h
  · exact flagChecksWithProducts_pays hp h
  · rename_i hk
    simp only [pure, Except.pure, Except.ok.injEq] at h
    subst h
    exact hp.dropNonStep hk

theorem reattachCore_safe {s s' : KState} {k c : Key} {n : Node} (h : s.reattachCore k c n = .ok s') (hp : P F s) :
    P F s' := by
  unfold KState.reattachCore at h
  simp only [bind, Except.bind] at h
  cases h1 : s.setCreator k (some c) (s.isDetached c) with
  | error e => simp [h1] at h
  | ok s1 =>
    simp only [h1] at h
    cases h2 : s1.lostProduct n.creator with
    | error e => simp [h2] at h
    | ok s2 =>
      simp only [h2] at h
      exact flagIfStep_pays h (setDetachedRec_safe _ _ _ (lostProduct_safe _ s1 s2 (setCreator_debt h1 hp) h2))

/-- **`Node.reattach` (+ `Step.reattach`) preserves the discipline.** -/
theorem reattach_safe (k c : Key) : Preserves (P F) (fun s => s.reattach k c) := by
  intro s s' hp h
  replace h : s.reattach k c = .ok s' := h
  unfold KState.reattach at h
  cases hf : s.find? k with
  | none => simp [hf] at h
  | some n =>
    simp only [hf] at h
    split at h
    · cases h
    · split at h
      · cases h
      · exact reattachCore_safe h hp

/-- After `Step.reattach` the step is flagged. -/
theorem reattach_flagged {s s' : KState} {k c : Key} (h : s.reattach k c = .ok s') (hs : k.kind = .step) :
    ∀ n ∈ s'.nodes, n.key = k → n.checkSafe = true := by
  unfold KState.reattach at h
  cases hf : s.find? k with
  | none => simp [hf] at h
  | some n =>
    simp only [hf] at h
    split at h
    · cases h
    · split at h
      · cases h
      · unfold KState.reattachCore at h
        simp only [bind, Except.bind] at h
        cases h1 : s.setCreator k (some c) (s.isDetached c) with
        | error e => simp [h1] at h
        | ok s1 =>
          simp only [h1] at h
          cases h2 : s1.lostProduct n.creator with
          | error e => simp [h2] at h
          | ok s2 =>
            simp only [h2] at h
            unfold KState.flagIfStep at h
            rw [if_pos hs] at h
            exact flagChecksWithProducts_flagged h hs

theorem setStepExtras_safe (s : KState) (sk : Key) (d : StepDecl) (hp : P F s) : P F (s.setStepExtras sk d) := by
  unfold KState.setStepExtras
  exact hp.modify _ _ fun n _ _ => srow_same rfl rfl rfl rfl rfl rfl rfl

/-- `Trellis.try_recycle` for a step + `Step.after_recycle`: the hold counter is reset on a row that is
flagged already. -/
theorem recycleStep_safe (sk creator : Key) (d : StepDecl) (n : Node) :
    Preserves (P F) (fun s => s.recycleStep sk creator d n) := by
  intro s s' hp h
  replace h : s.recycleStep sk creator d n = .ok s' := h
  unfold KState.recycleStep at h
  simp only [bind, Except.bind] at h
  cases h1 : s.reattach sk creator with
  | error e => simp [h1] at h
  | ok s1 =>
    simp only [h1] at h
    have hp1 : P F s1 := reattach_safe sk creator s s1 hp h1
    have hmod : P F (s1.modify sk fun n => { n with need := d.need, shell := d.shell }) := by
      refine hp1.modify _ _ fun m hm hk => ?_
      by_cases hs : sk.kind = .step
      · exact srow_flag rfl (reattach_flagged h1 hs m hm hk)
      · exact srow_nonstep rfl (by rw [hk]; exact hs)
    cases h3 : s1.afterRecycle sk d n with
    | error e => simp [h3] at h
    | ok s3 =>
      simp only [h3, pure, Except.pure, Except.ok.injEq] at h
      subst h
      refine setStepExtras_safe _ _ _ ?_
      unfold KState.afterRecycle at h3
      split at h3
      · exact markStepPending'_safe sk _ s3 hmod h3
      · simp only [pure, Except.pure, Except.ok.injEq] at h3; subst h3; exact hmod

/-! ## `Trellis.create` -/

theorem writeInitialFile_safe (k : Key) (st : FileState) (existed : Bool) :
    Preserves (P F) (fun s => s.writeInitialFile k st existed) := by
  intro s s' hp h
  replace h : s.writeInitialFile k st existed = .ok s' := h
  unfold KState.writeInitialFile at h
  split at h
  · exact setFileState_safe k st s s' hp h
  · split at h
    · cases h
    · simp only [pure, Except.pure, Except.ok.injEq] at h
      subst h
      exact flagReadySinks_safe _ _ (hp.modify _ _ fun n _ _ => srow_same rfl rfl rfl rfl rfl rfl rfl)

theorem initFileRow_safe (k : Key) (st : FileState) (existed : Bool) :
    Preserves (P F) (fun s => s.initFileRow k st existed) := by
  intro s s' hp h
  replace h : s.initFileRow k st existed = .ok s' := h
  unfold KState.initFileRow at h
  simp only [bind, Except.bind] at h
  cases h1 : s.writeInitialFile k (s.keptState k st existed) existed with
  | error e => simp [h1] at h
  | ok s1 =>
    simp only [h1] at h
    have hp1 := writeInitialFile_safe k _ existed s s1 hp h1
    split at h
    · exact markFileOutdated_safe k s1 s' hp1 h
    · simp only [pure, Except.pure, Except.ok.injEq] at h; subst h; exact hp1

/-- The step row `initialize_row` leaves: flagged unless created safe, both columns as requested. -/
def StepRowInit (k : Key) (init : Init) (s' : KState) : Prop :=
  ∀ i, init = .step i → ∀ n ∈ s'.nodes, n.key = k → n.checkSafe = !i.safe ∧ n.safe = i.safe ∧ n.safeNH = i.safe

/-- `initialize_row` on a key that is in the debt already. -/
theorem initRow_debt {s s' : KState} {k : Key} {init : Init} {existed : Bool} (h : s.initRow k init existed = .ok s')
    (hp : P (fun x => F x ∨ x = k) s) : P (fun x => F x ∨ x = k) s' ∧ StepRowInit k init s' := by
  unfold KState.initRow at h
  cases init with
  | root =>
    simp only [pure, Except.pure, Except.ok.injEq] at h; subst h
    exact ⟨hp, fun i hi => by cases hi⟩
  | tree =>
    simp only [pure, Except.pure, Except.ok.injEq] at h; subst h
    exact ⟨hp, fun i hi => by cases hi⟩
  | file st =>
    exact ⟨initFileRow_safe k st existed s s' hp h, fun i hi => by cases hi⟩
  | step i =>
    simp only [pure, Except.pure, Except.ok.injEq] at h; subst h
    refine ⟨?_, ?_⟩
    · unfold KState.initStepRow
      refine P.mono (F := fun x => (F x ∨ x = k) ∨ x = k) ?_ (hp.modifyDebt k _ fun _ _ hk => hk)
      intro n _ _ hf
      rcases hf with hf | (hf | hf) | hf
      · exact .inl hf
      · exact .inr (.inl hf)
      · exact .inr (.inr hf)
      · exact .inr (.inr hf)
    · intro i' hi' n' hn' hk'
      cases hi'
      unfold KState.initStepRow KState.modify at hn'
      obtain ⟨n, hn, rfl⟩ := List.mem_map.1 hn'
      by_cases hnk : n.key = k
      · rw [if_pos hnk]
        exact ⟨rfl, rfl, rfl⟩
      · rw [if_neg hnk] at hk'
        exact absurd hk' hnk

/-- The prefix of the recycle branch and the fresh branch: `k` in the debt, the row initialised. -/
theorem create_debt {s s' : KState} {k : Key} {creator : Option Key} {init : Init}
    (h : s.create k creator init = .ok s') (hp : P F s) :
    P (fun x => F x ∨ x = k) s' ∧ StepRowInit k init s' := by
  unfold KState.create at h
  cases hf : s.find? k with
  | some n =>
    simp only [hf] at h
    split at h
    · cases h
    · split at h
      · cases h
      · unfold KState.recycleCore at h
        simp only [bind, Except.bind] at h
        cases h1 : s.setCreator k creator (s.creatorDetached creator) with
        | error e => simp [h1] at h
        | ok s1 =>
          simp only [h1] at h
          cases h2 : s1.lostProduct n.creator with
          | error e => simp [h2] at h
          | ok s2 =>
            simp only [h2] at h
            cases h3 : (s2.deleteDeps fun dp => decide (dp.snk = k)).detachProducts k with
            | error e => simp [h3] at h
            | ok s3 =>
              simp only [h3] at h
              have hp1 := setCreator_debt h1 hp
              have hp2 := lostProduct_safe _ s1 s2 hp1 h2
              have hp3 := detachProducts_safe k _ s3 (deleteDeps_safe s2 _ hp2) h3
              exact initRow_debt h hp3
  | none =>
    simp only [hf] at h
    split at h
    · have hp1 : P (fun x => F x ∨ x = k) (s.appendNode k creator) :=
        hp.append (m := { key := k, creator := creator, detached := s.creatorDetached creator }) rfl hf
      exact initRow_debt h hp1
    · cases h

/-- What is asked of the initialisation: only a step row is initialised as a step, and a step that is
created *safe* (`_safe = True`: the boot step) is not created by a step. -/
def InitKindS (k : Key) (creator : Option Key) : Init → Prop
  | .step i => i.safe = true → ∀ c, creator = some c → c.kind ≠ .step
  | _ => k.kind ≠ .step

theorem mem_cut_setRow {l : List Tri} {k : Key} {c : Option Key} {d : Bool} {t : Tri}
    (h : t ∈ cut k (setRow k c d l)) :
    (t.1 = k → t.2.1 = c) ∧ (t.2.1 = some k → c = some k) := by
  unfold cut at h
  obtain ⟨u, hu, rfl⟩ := List.mem_map.1 h
  by_cases hc : u.2.1 = some k ∧ u.1 ≠ k
  · rw [if_pos hc]
    exact ⟨fun h1 => absurd h1 hc.2, fun h2 => by cases h2⟩
  · rw [if_neg hc]
    rcases mem_setRow hu with ⟨rfl, _⟩ | ⟨_, hne⟩
    · exact ⟨fun _ => rfl, fun h2 => h2⟩
    · refine ⟨fun h1 => absurd h1 hne, fun h2 => ?_⟩
      exact absurd ⟨h2, hne⟩ hc

/-- **`Trellis.create` preserves the discipline**: fresh or recycled, the row of a step ends up flagged, or
(created safe, by a creator that is no step) correct by itself, without products. -/
theorem create_safe {s s' : KState} {k : Key} {creator : Option Key} {init : Init} (hkind : InitKindS k creator init)
    (hi : InitOK init) (hfo : Forest s) (h : s.create k creator init = .ok s') (hp : P F s) : P F s' := by
  obtain ⟨hp', hrow⟩ := create_debt h hp
  by_cases hs : k.kind = .step
  · cases init with
    | root => exact absurd hs hkind
    | tree => exact absurd hs hkind
    | file st => exact absurd hs hkind
    | step i =>
      cases hsafe : i.safe with
      | false =>
        refine hp'.dropFlagged fun n hn hk _ => ?_
        rw [(hrow i rfl n hn hk).1, hsafe]; rfl
      | true =>
        have hspec := SkStable.create_skel skStable_ok hi ((forest_iff s).1 hfo) h
        have hkc : ∀ c, creator = some c → c.kind ≠ .step := hkind hsafe
        have hcne : creator ≠ some k := fun hc => hkc k hc hs
        -- the rows of `k` have the new creator; nothing names `k` as its creator
        have key : (∀ n ∈ s'.nodes, n.key = k → n.creator = creator) ∧ (∀ p ∈ s'.nodes, p.creator ≠ some k) := by
          obtain ⟨_, _, h3⟩ := hspec
          rcases h3 with ⟨hfresh, hl⟩ | ⟨ck, hrow', hfits, hl⟩
          · constructor
            · intro n hn hk
              have := mem_skel_of_mem hn
              rw [hl] at this
              rcases List.mem_append.1 this with hx | hx
              · exact absurd ⟨n.tri, hx, hk⟩ hfresh
              · simp only [List.mem_singleton] at hx
                exact congrArg (fun t : Tri => t.2.1) hx
            · intro p hpm hpc
              have := mem_skel_of_mem hpm
              rw [hl] at this
              rcases List.mem_append.1 this with hx | hx
              · have hex := ((forest_iff s).1 hfo).exist p.tri hx k hpc
                exact hfresh hex
              · simp only [List.mem_singleton] at hx
                have : p.creator = creator := congrArg (fun t : Tri => t.2.1) hx
                rw [this] at hpc; exact hcne hpc
          · constructor
            · intro n hn hk
              have := mem_skel_of_mem hn
              rw [hl] at this
              exact (mem_cut_setRow this).1 hk
            · intro p hpm hpc
              have := mem_skel_of_mem hpm
              rw [hl] at this
              exact hcne ((mem_cut_setRow this).2 hpc)
        refine hp'.dropFresh ?_ (fun p hpm _ => key.2 p hpm)
        intro n hn hk _ _
        have hcr := key.1 n hn hk
        refine ⟨?_, by rw [(hrow i rfl n hn hk).2.1, hsafe], by rw [(hrow i rfl n hn hk).2.2, hsafe]⟩
        cases hc : creator with
        | none => exact stepCreator_none_of_creator (by rw [hcr, hc])
        | some c => exact stepCreator_none_of_kind (by rw [hcr, hc]) (hkc c hc)
  · exact hp'.dropNonStep hs

/-! ## `Trellis.delete_detached` -/

/-- Rows only disappear, and keep key and creator. -/
def SubC (s0 t : KState) : Prop := ∀ m ∈ t.nodes, ∃ m0 ∈ s0.nodes, m0.key = m.key ∧ m0.creator = m.creator

theorem SubC.refl (s : KState) : SubC s s := fun m hm => ⟨m, hm, rfl, rfl⟩

theorem passBody_safe {s0 : KState} {n : Node} (hn : n ∈ s0.cands)
    (b : KState × List Key) (r : ForInStep (KState × List Key))
    (hI : P F b.1 ∧ SubC s0 b.1) (h : passBody n b = .ok r) : P F r.value.1 ∧ SubC s0 r.value.1 := by
  obtain ⟨hp, hsub⟩ := hI
  unfold KState.cands at hn
  obtain ⟨hnm, hnc⟩ := List.mem_filter.1 hn
  simp only [decide_eq_true_eq, Bool.decide_and, Bool.and_eq_true, Bool.not_eq_eq_eq_not, Bool.not_true] at hnc
  have hnoprod : ∀ p ∈ s0.nodes, p.creator = some n.key → p.key = n.key := by
    intro p hpm hpc
    have := hnc.2.1
    rw [List.isEmpty_iff] at this
    by_cases hk : p.key = n.key
    · exact hk
    · have hmem : p ∈ s0.products n.key := by
        unfold KState.products
        exact List.mem_filter.2 ⟨hpm, by simp [hpc, hk]⟩
      rw [this] at hmem; cases hmem
  unfold passBody at h
  simp only at h
  have hp1 : P F (b.1.deleteDeps fun d => decide (d.snk = n.key)) := deleteDeps_safe _ _ hp
  have hsub1 : SubC s0 (b.1.deleteDeps fun d => decide (d.snk = n.key)) := by
    obtain ⟨hsr, _⟩ := Discipline.flagFold_spec (b.1.deps.filter fun d => decide (d.snk = n.key))
      ({ b.1 with deps := b.1.deps.filter fun d => !decide (d.snk = n.key) } : KState)
    intro m hm
    unfold KState.deleteDeps at hm
    obtain ⟨m1, hm1, hr⟩ := Discipline.forall₂_mem_right hsr.rows m hm
    obtain ⟨m0, hm0, hk', hc'⟩ := hsub m1 hm1
    exact ⟨m0, hm0, hk'.trans hr.1.symm, hc'.trans hr.2.2.1.1.symm⟩
  cases hb : (b.1.deleteDeps fun d => decide (d.snk = n.key)).beforeDelete n with
  | error e => simp [hb, bind, Except.bind] at h
  | ok st1 =>
    simp only [hb, bind, Except.bind] at h
    obtain ⟨hn1, _, _⟩ := beforeDelete_spec _ _ _ hb
    have hp2 : P F st1 := hp1.sameNodes hn1
    have hsub2 : SubC s0 st1 := by
      intro m hm; rw [hn1] at hm; exact hsub1 m hm
    have hp3 : P F ({ st1 with nodes := st1.nodes.filter (·.key ≠ n.key) } : KState) := by
      refine hp2.remove rfl ?_
      intro p hpm hpc
      obtain ⟨p0, hp0, hk0, hc0⟩ := hsub2 p hpm
      rw [← hk0]
      exact hnoprod p0 hp0 (by rw [hc0]; exact hpc)
    have hsub3 : SubC s0 ({ st1 with nodes := st1.nodes.filter (·.key ≠ n.key) } : KState) :=
      fun m hm => hsub2 m (List.mem_filter.1 hm).1
    cases hcr : n.creator with
    | none => simp only [hcr, pure, Except.pure, Except.ok.injEq] at h; subst h; exact ⟨hp3, hsub3⟩
    | some c => simp only [hcr, pure, Except.pure, Except.ok.injEq] at h; subst h; exact ⟨hp3, hsub3⟩

theorem deletePass_safe {s : KState} {r : KState × List Key × Bool} (hp : P F s) (h : s.deletePass = .ok r) :
    P F r.1 := by
  rw [deletePass_eq] at h
  refine bind_ok_gen h (fun a => P F a.1 ∧ SubC s a.1) (fun a ha => ?_) (fun r => P F r.1) ?_
  · refine forIn_except_inv s.cands passBody (fun b => P F b.1 ∧ SubC s b.1) (s, []) a ⟨hp, SubC.refl s⟩ ?_ ha
    intro n hn b r' hb hf
    exact passBody_safe hn b r' hb hf
  · intro a b ha hb
    simp only [pure, Except.pure, Except.ok.injEq] at hb
    subst hb; exact ha.1

theorem deleteDetachedBase_safe : Preserves (P F) (fun s => s.deleteDetachedBase) := by
  intro s s' hp h
  replace h : s.deleteDetachedBase = .ok s' := h
  rw [deleteDetachedBase_eq] at h
  refine bind_ok_gen h (fun a => P F a.1) (fun a ha => ?_) (fun t => P F t) ?_
  · refine forIn_except_inv _ baseBody (fun b => P F b.1) (s, []) a hp ?_ ha
    intro x _ b r' hb hf
    unfold baseBody at hf
    refine bind_ok_gen hf (fun a => P F a.1) (fun a ha' => deletePass_safe hb ha')
      (fun r => P F r.value.1) ?_
    intro a' r'' ha' hh
    obtain ⟨st', cs, some_⟩ := a'
    simp only at hh
    split at hh
    · simp only [pure, Except.pure, Except.ok.injEq] at hh; subst hh; exact ha'
    · simp only [pure, Except.pure, Except.ok.injEq] at hh; subst hh; exact ha'
  · intro a s2 ha hh
    refine bind_ok_gen hh (fun t => P F t) (fun a2 ha2 => ?_) (fun t => P F t) ?_
    · refine forIn_except_inv a.2 lostBody (fun t => P F t) a.1 a2 ha ?_ ha2
      intro c _ b r' hb hf
      unfold lostBody at hf
      split at hf
      · refine bind_ok_gen hf (fun t => P F t) (fun t ht => afterLostProduct_safe c b t hb ht)
          (fun r => P F r.value) ?_
        intro t r'' ht hh'
        simp only [pure, Except.pure, Except.ok.injEq] at hh'; subst hh'; exact ht
      · simp only [pure, Except.pure, Except.ok.injEq] at hf; subst hf; exact hb
    · intro a2 b2 ha2 hb2
      simp only [pure, Except.pure, Except.ok.injEq] at hb2; subst hb2; exact ha2

/-- **`Workflow.delete_detached` preserves the discipline.** -/
theorem deleteDetached_safe : Preserves (P F) (fun s => s.deleteDetached) := by
  intro s s' hp h
  replace h : s.deleteDetached = .ok s' := h
  rw [deleteDetached_eq] at h
  refine bind_ok_gen h (fun st => P F st) (fun st h1 => ?_) (fun t => P F t) ?_
  · refine forIn_except_inv _ treeOuter (fun u => P F u) s st hp ?_ h1
    intro t _ b r' hb hf
    unfold treeOuter at hf
    simp only at hf
    refine bind_ok_gen hf (fun a => P F a) (fun a ha => ?_) (fun r => P F r.value) ?_
    · refine forIn_except_inv _ treeInner (fun u => P F u) b a hb ?_ ha
      intro f _ b' r'' hb' hfb
      unfold treeInner at hfb
      split at hfb
      · refine bind_ok_gen hfb (fun u => P F u) (fun u hu => detach_safe f.key b' u hb' hu) (fun r => P F r.value) ?_
        intro u r3 hu hh
        simp only [pure, Except.pure, Except.ok.injEq] at hh; subst hh; exact hu
      · simp only [pure, Except.pure, Except.ok.injEq] at hfb; subst hfb; exact hb'
    · intro a r'' ha hh
      simp only [pure, Except.pure, Except.ok.injEq] at hh; subst hh; exact ha
  · intro st t hr hc'
    exact deleteDetachedBase_safe st t hr hc'

end

end StepupModel.K.SafeDisc
