import StepupModel.Lemmas.OwnershipBase
import StepupModel.Lemmas.SuccOutputs
/-!
# C08 ownership, clause (O5): an attached product is created by a step and built by that step only

`ProductsOwned` is the clause of `koracles.ownership_invariants` word for word: for every attached file row in a
product state (role OUTPUT or VOLATILE) with an existing creator: the creator is a step, and the list of the
sources of kind step of the edges into the file is `[creator]`.  It splits into three statements:

* `ProductByStep` (the creator is a step): after every history whose `amend` requests are not addressed to a
  static tree (`Ever.AmendsSteps`), from the invariant of `Lemmas/EverOutput.lean`;
* `ProducersAreCreator` (every step that has an edge into the file is its creator): after every history that
  satisfies the guard `SuccOut.HistOKS` of the I4 development, whose invariant `J` has exactly this clause
  ("the creator of the sink of an edge is the source of the edge or nobody", `Lemmas/SuccOutputsBase.lean`);
* `CreatorProduces` (the edge `creator -> file` exists, once): "once" holds after every history, unconditionally
  (`depsUnique_after_every_history`, `creatorProduces_of_exists`); "exists" is **not proved over histories here**; it is inductive
  together with the clause above only with the exemptions `J` needs (the row is rewritten before the edges into it
  are deleted in `Trellis.create`, the edge is deleted before the file is detached in `reset_for_rerun`).

`productsOwned_of_parts` assembles the oracle's clause from the three.  No property statements here.
-/
namespace StepupModel.K.Own
open StepupModel.K StepupModel.Lemmas StepupModel.K.Ever StepupModel.K.MetaAfter
set_option linter.unusedSimpArgs false
set_option linter.unusedVariables false

/-- The sources of kind step of the edges into `k`, in row order (`producers` of the oracle). -/
def producers (s : KState) (k : Key) : List Key :=
  ((s.deps.filter fun d => d.snk = k ∧ d.src.kind = .step).map (·.src))

/-- **(O5)** an attached product with an existing creator is created by a step, and its only step source is its
creator. -/
def ProductsOwned (s : KState) : Prop :=
  ∀ f ∈ s.nodes, f.key.kind = .file → f.detached = false → IsProduct f.fstate →
    ∀ c, f.creator = some c → s.has c = true → c.kind = .step ∧ producers s f.key = [c]

instance (s : KState) : Decidable (ProductsOwned s) := by unfold ProductsOwned; exact inferInstance

/-- The creator of an attached product is a step. -/
def ProductByStep (s : KState) : Prop :=
  ∀ f ∈ s.nodes, f.key.kind = .file → f.detached = false → IsProduct f.fstate → ∀ c, f.creator = some c → c.kind = .step

/-- A step with an edge into an attached product is its creator. -/
def ProducersAreCreator (s : KState) : Prop :=
  ∀ f ∈ s.nodes, f.key.kind = .file → f.detached = false → IsProduct f.fstate → ∀ c, f.creator = some c →
    ∀ d ∈ s.deps, d.snk = f.key → d.src.kind = .step → d.src = c

/-- The creator of an attached product has exactly one edge into it. -/
def CreatorProduces (s : KState) : Prop :=
  ∀ f ∈ s.nodes, f.key.kind = .file → f.detached = false → IsProduct f.fstate → ∀ c, f.creator = some c →
    (s.deps.filter fun d => d.snk = f.key ∧ d.src = c).length = 1

instance (s : KState) : Decidable (ProductByStep s) := by unfold ProductByStep; exact inferInstance
instance (s : KState) : Decidable (ProducersAreCreator s) := by unfold ProducersAreCreator; exact inferInstance
instance (s : KState) : Decidable (CreatorProduces s) := by unfold CreatorProduces; exact inferInstance

theorem filter_eq_of_imp {α : Type} (p q : α → Bool) (l : List α) (h : ∀ a ∈ l, p a = q a) : l.filter p = l.filter q := by
  induction l with
  | nil => rfl
  | cons a as ih =>
    simp only [List.filter_cons, h a List.mem_cons_self]
    rw [ih (fun b hb => h b (List.mem_cons_of_mem _ hb))]

theorem map_const_of_length_one {α β : Type} (g : α → β) (c : β) (l : List α) (hl : l.length = 1)
    (hc : ∀ a ∈ l, g a = c) : l.map g = [c] := by
  match l, hl with
  | [a], _ => simp [hc a List.mem_cons_self]

/-- The oracle's clause from its three parts. -/
theorem productsOwned_of_parts {s : KState} (h1 : ProductByStep s) (h2 : ProducersAreCreator s)
    (h3 : CreatorProduces s) : ProductsOwned s := by
  intro f hf hk hd hp c hc _
  have hcs := h1 f hf hk hd hp c hc
  refine ⟨hcs, ?_⟩
  unfold producers
  have heq : (s.deps.filter fun d => decide (d.snk = f.key ∧ d.src.kind = .step)) =
      s.deps.filter fun d => decide (d.snk = f.key ∧ d.src = c) := by
    apply filter_eq_of_imp
    intro d hd'
    by_cases hsnk : d.snk = f.key
    · by_cases hsrc : d.src = c
      · simp [hsnk, hsrc, hcs]
      · have : ¬ d.src.kind = .step := fun hk' => hsrc (h2 f hf hk hd hp c hc d hd' hsnk hk')
        simp [hsnk, hsrc, this]
    · simp [hsnk]
  rw [heq]
  refine map_const_of_length_one _ c _ (h3 f hf hk hd hp c hc) ?_
  intro d hd'
  have := (List.mem_filter.1 hd').2
  simp only [decide_eq_true_eq] at this
  exact this.2

/-- **The creator of a product is a step, after every history** whose `amend` requests are addressed to nodes that
are not static trees (attached or not, whether the creator still exists or not). -/
theorem productByStep_after_every_history (h : List (KConfig × Req)) (ha : AmendsSteps h) :
    ProductByStep (KState.init.run h) :=
  fun f hf hk _ hp c hc => (reachable_inv_steps h ha).own f hf hk trivial hp c hc

/-- **Every step that has an edge into a product is its creator, after every history** that satisfies the guard
of the I4 development (`SuccOut.HistOKS`; the clause is independent of the step states, the guard is the price of
reusing that invariant). -/
theorem producersAreCreator_after_every_history (h : List (KConfig × Req)) (hg : SuccOut.HistOKS KState.init h) :
    ProducersAreCreator (KState.init.run h) := by
  intro f hf hk _ _ c hc d hd hsnk _
  have hJ := SuccOut.reachable_JK h hg
  obtain ⟨f', hf', hown, _, _⟩ := hJ.1.1 d hd (hsnk ▸ hk) trivial
  have hfind : (KState.init.run h).find? d.snk = some f := hsnk ▸ find?_of_mem hJ.keys hf
  rw [hfind] at hf'
  cases hf'
  rcases hown with ho | ho
  · rw [ho] at hc; cases hc
  · rw [ho] at hc; exact Option.some.inj hc


/-! ## One dependency row per (source, sink): `UNIQUE(source, sink)`, unconditionally -/

/-- The pair of a dependency row. -/
def Dep.pair (d : Dep) : Key × Key := (d.src, d.snk)

/-- At most one dependency row per (source, sink). -/
def DepsUnique (s : KState) : Prop := (s.deps.map Dep.pair).Nodup

theorem stable_depsUnique : Stable DepsUnique := by
  refine
    { cache := ?_, detached := ?_, creator := ?_, handOverRow := ?_, fileWrite := ?_, fileInit := ?_,
      stepWrite := ?_, stepInit := ?_, setHash := ?_, deleteHash := ?_, bumpDefer := ?_, hold := ?_,
      release := ?_, recycled := ?_, addDep := ?_, filterDeps := ?_, markDyn := ?_, appendNode := ?_,
      removeNode := ?_, queueDelete := ?_, clearQueue := ?_ }
  · intro s p f hf hp; exact hp
  · intro s k d hp; exact hp
  · intro s k c d _ hp; exact hp
  · intro s k tk hp; exact hp
  · intro s k n n' st nh hf hw hp; exact hp
  · intro s k st _ _ hp; exact hp
  · intro s k n n' st d hf hw hp; exact hp
  · intro s k i hp; exact hp
  · intro s k h hp; exact hp
  · intro s k hp; exact hp
  · intro s k hp; exact hp
  · intro s k _ hp; exact hp
  · intro s k n _ _ hp; exact hp
  · intro s k need shell hp; exact hp
  · intro s src snk hno _ hp
    unfold DepsUnique at hp ⊢
    simp only [List.map_append, List.map_cons, List.map_nil]
    rw [List.nodup_append]
    refine ⟨hp, by simp, ?_⟩
    intro a ha b hb
    simp only [List.mem_singleton] at hb
    subst hb
    intro hab
    subst hab
    obtain ⟨d, hd, hdp⟩ := List.mem_map.1 ha
    have : s.hasDep src snk = true := by
      unfold KState.hasDep
      rw [List.any_eq_true]
      refine ⟨d, hd, ?_⟩
      simp only [Dep.pair, Prod.mk.injEq] at hdp
      simp [hdp.1, hdp.2]
    rw [hno] at this; cases this
  · intro s p hp
    unfold DepsUnique at hp ⊢
    exact List.Nodup.sublist (List.Sublist.map _ List.filter_sublist) hp
  · intro s src snk dyn hp
    unfold DepsUnique at hp ⊢
    have : (s.deps.map fun (d : Dep) => if d.src = src ∧ d.snk = snk then { d with dyn := dyn } else d).map Dep.pair
        = s.deps.map Dep.pair := by
      rw [List.map_map]
      apply List.map_congr_left
      intro d _
      simp only [Function.comp]
      split <;> rfl
    show (List.map Dep.pair (s.deps.map fun (d : Dep) => if d.src = src ∧ d.snk = snk then { d with dyn := dyn } else d)).Nodup
    rw [this]; exact hp
  · intro s k c _ _ hp; exact hp
  · intro s k _ hp; exact hp
  · intro s path h hp; exact hp
  · intro s hp; exact hp

/-- **At most one dependency row per (source, sink), after every history**, unconditionally. -/
theorem depsUnique_after_every_history (h : List (KConfig × Req)) : DepsUnique (KState.init.run h) :=
  reachable_stable stable_depsUnique (by unfold DepsUnique KState.init; simp) h

/-- Hence "the edge `creator -> file` exists, once" is "it exists". -/
theorem creatorProduces_of_exists {s : KState} (hu : DepsUnique s)
    (hex : ∀ f ∈ s.nodes, f.key.kind = .file → f.detached = false → IsProduct f.fstate → ∀ c, f.creator = some c →
      s.hasDep c f.key = true) : CreatorProduces s := by
  intro f hf hk hd hp c hc
  have h1 := hex f hf hk hd hp c hc
  unfold KState.hasDep at h1
  rw [List.any_eq_true] at h1
  obtain ⟨d, hd1, hd2⟩ := h1
  simp only [decide_eq_true_eq] at hd2
  -- the filtered list has pairwise different rows all carrying the same pair: length at most one
  have hsub : ((s.deps.filter fun d => decide (d.snk = f.key ∧ d.src = c)).map Dep.pair).Nodup :=
    List.Nodup.sublist (List.Sublist.map _ List.filter_sublist) hu
  have hall : ∀ x ∈ (s.deps.filter fun d => decide (d.snk = f.key ∧ d.src = c)).map Dep.pair, x = (c, f.key) := by
    intro x hx
    obtain ⟨e, he, rfl⟩ := List.mem_map.1 hx
    have := (List.mem_filter.1 he).2
    simp only [decide_eq_true_eq] at this
    simp [Dep.pair, this.1, this.2]
  have hmem : d ∈ s.deps.filter fun d => decide (d.snk = f.key ∧ d.src = c) :=
    List.mem_filter.2 ⟨hd1, by simp [hd2.1, hd2.2]⟩
  generalize (s.deps.filter fun d => decide (d.snk = f.key ∧ d.src = c)) = l at hsub hall hmem
  match l, hmem with
  | [a], _ => rfl
  | a :: b :: rest, _ =>
    exfalso
    simp only [List.map_cons, List.nodup_cons, List.mem_cons, not_or] at hsub
    have ha := hall (Dep.pair a) (by simp)
    have hb := hall (Dep.pair b) (by simp)
    exact hsub.1.1 (ha.trans hb.symm)

#print axioms depsUnique_after_every_history
#print axioms productByStep_after_every_history
#print axioms producersAreCreator_after_every_history
#print axioms productsOwned_of_parts

end StepupModel.K.Own
