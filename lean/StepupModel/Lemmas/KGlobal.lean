import StepupModel.K.Request
import StepupModel.Lemmas.Inv
import StepupModel.Lemmas.CleanupInv
/-! State/hash consistency is an invariant of every kernel request and of every history. -/
namespace StepupModel.K

theorem unitOut_ok {x : M KState} {res : KState × String} (h : unitOut x = .ok res) : x = .ok res.1 := by
  unfold unitOut at h
  simp only [bind, Except.bind, pure, Except.pure] at h
  cases hx : x with
  | error e => simp [hx] at h
  | ok a => simp only [hx, Except.ok.injEq] at h; subst h; rfl

/-- Projection of a tupled request body. -/
theorem pairOut_ok {α : Type} {x : M (KState × α)} {f : KState × α → String} {res : KState × String}
    (h : (x >>= fun a => pure (a.1, f a)) = .ok res) : ∃ a, x = .ok a ∧ a.1 = res.1 := by
  simp only [bind, Except.bind, pure, Except.pure] at h
  cases hx : x with
  | error e => simp [hx] at h
  | ok a => simp only [hx, Except.ok.injEq] at h; subst h; exact ⟨a, rfl, rfl⟩

theorem init_filesOK : FilesOK KState.init := by
  intro n hn
  simp [KState.init] at hn
  subst hn
  exact hashInv_noHash (Or.inl rfl)

/-- Every kernel request that is accepted maps a state/hash-consistent database to one. -/
theorem exec_filesOK (cfg : KConfig) (r : Req) (s : KState) (res : KState × String) (hp : FilesOK s)
    (h : s.exec cfg r = .ok res) : FilesOK res.1 := by
  cases r with
  | define c d =>
    simp only [KState.exec] at h
    refine bind_ok_gen h (fun a => FilesOK a.1) (fun a ha => defineStep_preserves cfg c d s a hp ha) (fun r => FilesOK r.1) ?_
    intro a b ha hb; obtain ⟨st, chk⟩ := a
    simp only [pure, Except.pure, Except.ok.injEq] at hb; subst hb; exact ha
  | amend k inp env out vol conc =>
    simp only [KState.exec] at h
    refine bind_ok_gen h (fun a => FilesOK a.1) (fun a ha => amendStep_preserves cfg k inp env out vol conc s a hp ha)
      (fun r => FilesOK r.1) ?_
    intro a b ha hb; obtain ⟨st, chk⟩ := a
    simp only [pure, Except.pure, Except.ok.injEq] at hb; subst hb; exact ha
  | static c ps =>
    simp only [KState.exec] at h
    refine bind_ok_gen h (fun a => FilesOK a.1) (fun a ha => declareStaticFiles_preserves cfg c ps s a hp ha)
      (fun r => FilesOK r.1) ?_
    intro a b ha hb; obtain ⟨st, chk⟩ := a
    simp only [pure, Except.pure, Except.ok.injEq] at hb; subst hb; exact ha
  | tree c p =>
    simp only [KState.exec] at h
    refine bind_ok_gen h (fun a => FilesOK a.1) (fun a ha => registerStaticTree_preserves cfg c p s a hp ha)
      (fun r => FilesOK r.1) ?_
    intro a b ha hb; obtain ⟨st, chk⟩ := a
    simp only [pure, Except.pure, Except.ok.injEq] at hb; subst hb; exact ha
  | declStatic c ts fs ps =>
    simp only [KState.exec] at h
    refine bind_ok_gen h (fun a => FilesOK a.1) (fun a ha => declareStaticRequest_preserves cfg c ts fs ps s a hp ha)
      (fun r => FilesOK r.1) ?_
    intro a b ha hb; obtain ⟨st, chk⟩ := a
    simp only [pure, Except.pure, Except.ok.injEq] at hb; subst hb; exact ha
  | nglob k p ms => exact registerNglob_preserves k p ms s _ hp (unitOut_ok h)
  | hashes u c => exact updateFileHashes_preserves u c s _ hp (unitOut_ok h)
  | pop c =>
    simp only [KState.exec] at h
    refine bind_ok_gen h (fun a => FilesOK a.1) (fun a ha => popNext_preserves cfg c s a.1 a.2 hp ha) (fun r => FilesOK r.1) ?_
    intro a b ha hb; obtain ⟨st, d⟩ := a
    simp only [pure, Except.pure, Except.ok.injEq] at hb; subst hb; exact ha
  | updateMeta => exact updateMeta_preserves cfg s _ hp (unitOut_ok h)
  | resetRerun k => exact resetForRerun_preserves k s _ hp (unitOut_ok h)
  | completed k nh wd =>
    simp only [KState.exec] at h
    refine bind_ok_gen h (fun a => FilesOK a.1) (fun a ha => markCompleted_preserves cfg k nh wd s a.1 a.2 hp ha)
      (fun r => FilesOK r.1) ?_
    intro a b ha hb; obtain ⟨st, d⟩ := a
    simp only [pure, Except.pure, Except.ok.injEq] at hb; subst hb; exact ha
  | setState k stt => exact setStepState_preserves k stt false s _ hp (unitOut_ok h)
  | deleteHash k =>
    have := unitOut_ok h
    simp only [pure, Except.pure, Except.ok.injEq] at this
    rw [← this]; exact filesOK_deleteHash s k hp
  | markPending k => exact markStepPending'_preserves k s _ hp (unitOut_ok h)
  | hold k => exact hold_preserves k s _ hp (unitOut_ok h)
  | release k => exact release_preserves k s _ hp (unitOut_ok h)
  | detach k => exact detach_preserves k s _ hp (unitOut_ok h)
  | revertOptional => exact revertOptional_preserves s _ hp (unitOut_ok h)
  | deleteDetached => exact deleteDetached_preserves s _ hp (unitOut_ok h)
  | clearQueue =>
    have := unitOut_ok h
    simp only [pure, Except.pure, Except.ok.injEq] at this
    rw [← this]; exact filesOK_of_nodes_eq rfl hp
  | resetInterrupted => exact resetInterrupted_preserves s _ hp (unitOut_ok h)
  | rescanEnv => exact rescanEnvVars_preserves cfg s _ hp (unitOut_ok h)
  | reconcile => exact reconcileTargets_preserves cfg s _ hp (unitOut_ok h)
  | checkConsistency => exact checkConsistency_preserves s _ hp (unitOut_ok h)

theorem step_filesOK (cfg : KConfig) (r : Req) (s : KState) (hp : FilesOK s) : FilesOK (s.step cfg r) := by
  unfold KState.step
  cases h : s.exec cfg r with
  | error e => exact hp
  | ok res => obtain ⟨s', out⟩ := res; exact exec_filesOK cfg r s (s', out) hp h

theorem run_filesOK (h : List (KConfig × Req)) (s : KState) (hp : FilesOK s) : FilesOK (s.run h) := by
  unfold KState.run
  induction h generalizing s with
  | nil => exact hp
  | cons x xs ih => simp only [List.foldl_cons]; exact ih _ (step_filesOK x.1 x.2 s hp)

end StepupModel.K
