import StepupModel.Lemmas.Stable
import StepupModel.Lemmas.ReachSkel
/-!
# Frame: the operations that never write `creator` or `detached`

`Lemmas/Stable.lean` lifts a predicate through every kernel request from 21 facts about the
primitive writes.  Five of those writes touch the `(key, creator, detached)` triple of a row or the
set of rows (`detached`, `creator`, `handOverRow`, `appendNode`, `removeNode`).  `FrameL` is the
structure without these five leaves, and the theorems of this file (those of `Lemmas/Stable.lean`
word for word, restricted to the operations that can be derived from the remaining 16 leaves) show
that every operation of the kernel model that is not built on one of the five keeps every such
predicate.  The instance at the end (`frameL_skel`) is the frame lemma for the creator forest:
these operations leave the list of `(key, creator, detached)` triples as it is.  No property
statements here.  (The body of `namespace FrameL` is re-synced with `Lemmas/Stable.lean` by
`notes/reach_regen.py` when the kernel model changes.)
-/
namespace StepupModel.K
open StepupModel.Lemmas
set_option linter.unusedSimpArgs false
set_option linter.unusedVariables false

/-- `(key, creator, detached)` of a row. -/
def Node.tri (n : Node) : Tri := (n.key, n.creator, n.detached)

/-- The creator forest of a state: the triples of its rows, in row order. -/
def KState.skel (s : KState) : List Tri := s.nodes.map Node.tri

/-- `StableG` of `Lemmas/Stable.lean` without the five leaves that write `creator`, `detached` or
the set of rows (and without a guard on `hold`). -/
structure FrameL (P : KState → Prop) : Prop where
  cache : ∀ (s : KState) (p : Node → Bool) (f : Node → Node), CacheOnly f → P s → P (s.modifyWhere p f)
  fileWrite : ∀ (s : KState) (k : Key) (n n' : Node) (st : FileState) (nh : Option (Option Nat)),
    s.find? k = some n → fileRowWrite n st nh = .ok n' → P s → P (s.modify k fun _ => n')
  fileInit : ∀ (s : KState) (k : Key) (st : FileState), NoHashState st →
    (st = .undeclared → s.isDetached k = true) → P s →
    P (s.modify k fun n => { n with fstate := st, fhash := none })
  stepWrite : ∀ (s : KState) (k : Key) (n n' : Node) (st : StepState) (d : Option Bool),
    s.find? k = some n → stepRowWrite n st d = .ok n' → P s → P (s.modify k fun _ => n')
  stepInit : ∀ (s : KState) (k : Key) (i : StepInit), P s → P (s.initStepRow k i)
  setHash : ∀ (s : KState) (k : Key) (h : Nat), P s → P (s.setHash k h)
  deleteHash : ∀ (s : KState) (k : Key), P s → P (s.deleteHash k)
  bumpDefer : ∀ (s : KState) (k : Key), P s → P (s.modify k fun n => { n with deferCount := n.deferCount + 1 })
  hold : ∀ (s : KState) (k : Key), P s → P (s.modify k fun n => { n with holding := n.holding + 1 })
  release : ∀ (s : KState) (k : Key) (n : Node), s.find? k = some n → n.holding ≠ 0 → P s →
    P (s.modify k fun n => { n with holding := n.holding - 1 })
  recycled : ∀ (s : KState) (k : Key) (need : Need) (shell : Bool), P s →
    P (s.modify k fun n => { n with need := need, shell := shell })
  addDep : ∀ (s : KState) (src snk : Key), s.hasDep src snk = false → depKindOk src.kind snk.kind = true → P s →
    P { s with deps := s.deps ++ [({ src := src, snk := snk } : Dep)] }
  filterDeps : ∀ (s : KState) (p : Dep → Bool), P s → P { s with deps := s.deps.filter fun d => !p d }
  markDyn : ∀ (s : KState) (src snk : Key) (dyn : Bool), P s →
    P { s with deps := s.deps.map fun (d : Dep) => if d.src = src ∧ d.snk = snk then { d with dyn := dyn } else d }
  queueDelete : ∀ (s : KState) (path : String) (h : Option Nat), P s → P (s.queueDelete path h)
  clearQueue : ∀ (s : KState), P s → P { s with toBeDeleted := [] }

namespace FrameL
variable {P : KState → Prop}

theorem modify_eq_modifyWhere (s : KState) (k : Key) (f : Node → Node) :
    s.modify k f = s.modifyWhere (fun n => decide (n.key = k)) f := by
  unfold KState.modify KState.modifyWhere
  congr 1
  apply List.map_congr_left
  intro n _
  by_cases h : n.key = k <;> simp [h]

theorem cacheAt (L : FrameL P) (s : KState) (k : Key) (f : Node → Node) (hf : CacheOnly f) (hp : P s) :
    P (s.modify k f) := by
  rw [modify_eq_modifyWhere]; exact L.cache _ _ _ hf hp

theorem flagReadySinks (L : FrameL P) (s : KState) (k : Key) (h : P s) : P (s.flagReadySinks k) := by
  unfold KState.flagReadySinks
  exact L.cache s _ _ (fun _ => rfl) h

theorem flagDepEndpoints (L : FrameL P) (s : KState) (a b : Key) (hp : P s) : P (s.flagDepEndpoints a b) := by
  unfold KState.flagDepEndpoints
  exact L.cache _ _ _ (fun _ => rfl) hp

theorem writeFile_preserves (L : FrameL P) (k : Key) (st : FileState) (nh : Option (Option Nat)) :
    Preserves P (fun s => s.writeFile k st nh) := by
  intro s s' hp h
  unfold KState.writeFile at h
  cases hf : s.find? k with
  | none => simp [hf, pure, Except.pure] at h; subst h; exact hp
  | some n =>
    simp only [hf, bind, Except.bind] at h
    cases hw : fileRowWrite n st nh with
    | error e => simp [hw] at h
    | ok n' =>
      simp only [hw, pure, Except.pure, Except.ok.injEq] at h
      have hmod : P (s.modify k fun _ => n') := L.fileWrite s k n n' st nh hf hw hp
      subst h
      split
      · exact L.flagReadySinks _ _ hmod
      · exact hmod

theorem setFileState_preserves (L : FrameL P) (k : Key) (st : FileState) :
    Preserves P (fun s => s.setFileState k st) := L.writeFile_preserves k st none

theorem writeStepState_preserves (L : FrameL P) (k : Key) (st : StepState) (d : Option Bool) :
    Preserves P (fun s => s.writeStepState k st d) := by
  intro s s' hp h
  unfold KState.writeStepState at h
  cases hf : s.find? k with
  | none => simp [hf, pure, Except.pure] at h; subst h; exact hp
  | some n =>
    simp only [hf, bind, Except.bind] at h
    cases hw : stepRowWrite n st d with
    | error e => simp [hw] at h
    | ok n' =>
      simp only [hw, pure, Except.pure, Except.ok.injEq] at h
      subst h
      exact L.stepWrite s k n n' st d hf hw hp

theorem setStepState_preserves (L : FrameL P) (k : Key) (st : StepState) (d : Bool) :
    Preserves P (fun s => s.setStepState k st d) := L.writeStepState_preserves k st (some d)

/-- `mark_step_pending` (with the `mark_file_outdated` / `mark_consuming_steps_pending` recursion)
preserves every stable predicate, for every fuel. -/
theorem markStepPending_preserves (L : FrameL P) (fuel : Nat) (k : Key) :
    Preserves P (fun s => StepupModel.K.markStepPending fuel s k) := by
  induction fuel generalizing k with
  | zero => intro s s' _ h; simp [StepupModel.K.markStepPending] at h
  | succ fuel ih =>
    intro s s' hp h
    unfold StepupModel.K.markStepPending at h
    cases hf : s.find? k with
    | none => simp [hf, pure, Except.pure] at h; subst h; exact hp
    | some n =>
      simp only [hf] at h
      split at h
      · simp only [pure, Except.pure, Except.ok.injEq] at h; subst h; exact hp
      · simp only [bind, Except.bind] at h
        cases hs : s.setStepState k StepState.pending with
        | error e => simp [hs] at h
        | ok s1 =>
          simp only [hs] at h
          have hp1 : P s1 := L.setStepState_preserves k .pending false s s1 hp hs
          split at h
          · -- fold over the sink files
            refine foldlM_preserves P _ (s1.sinksOf k) ?_ s1 s' hp1 h
            intro f st st' hst hstep
            cases hff : st.find? f with
            | none => simp [hff, pure, Except.pure] at hstep; subst hstep; exact hst
            | some fn =>
              simp only [hff] at hstep
              split at hstep
              · cases hso : st.setFileState f FileState.outdated with
                | error e => simp [hso, bind, Except.bind] at hstep
                | ok st1 =>
                  simp only [hso, bind, Except.bind] at hstep
                  have hst1 := L.setFileState_preserves f .outdated st st1 hst hso
                  exact foldlM_preserves P _ _ (fun t => ih t) st1 st' hst1 hstep
              · simp only [pure, Except.pure, Except.ok.injEq] at hstep; subst hstep; exact hst
          · simp only [pure, Except.pure, Except.ok.injEq] at h; subst h; exact hp1

theorem markStepPending'_preserves (L : FrameL P) (k : Key) : Preserves P (fun s => s.markStepPending k) := by
  intro s s' hp h
  exact L.markStepPending_preserves s.fuel k s s' hp h

theorem markConsumersPending_preserves (L : FrameL P) (f : Key) : Preserves P (fun s => s.markConsumersPending f) := by
  intro s s' hp h
  unfold KState.markConsumersPending at h
  exact foldlM_preserves P _ _ (fun t => L.markStepPending'_preserves t) s s' hp h

theorem markFileOutdated_preserves (L : FrameL P) (f : Key) : Preserves P (fun s => s.markFileOutdated f) := by
  intro s s' hp h
  unfold KState.markFileOutdated at h
  cases hf : s.find? f with
  | none => simp [hf, pure, Except.pure] at h; subst h; exact hp
  | some n =>
    simp only [hf] at h
    split at h
    · simp only [bind, Except.bind] at h
      cases hs : s.setFileState f FileState.outdated with
      | error e => simp [hs] at h
      | ok s1 =>
        simp only [hs] at h
        exact L.markConsumersPending_preserves f s1 s' (L.setFileState_preserves f .outdated s s1 hp hs) h
    · split at h
      · simp only [pure, Except.pure, Except.ok.injEq] at h; subst h; exact hp
      · cases h

theorem pendCreator_preserves (L : FrameL P) (f : Key) : Preserves P (fun s => s.pendCreator f) := by
  intro s s' hp h
  replace h : s.pendCreator f = .ok s' := h
  unfold KState.pendCreator at h
  cases hc : s.creatorStep f with
  | none => simp [hc, pure, Except.pure] at h; subst h; exact hp
  | some c => simp only [hc] at h; exact L.markStepPending'_preserves c s s' hp h

theorem handleUpdated_preserves (L : FrameL P) (f : Key) : Preserves P (fun s => s.handleUpdated f) := by
  intro s s' hp h
  replace h : s.handleUpdated f = .ok s' := h
  unfold KState.handleUpdated at h
  by_cases h1 : s.fileState? f = some .confirmed
  · rw [if_pos h1] at h; exact L.markConsumersPending_preserves f s s' hp h
  · rw [if_neg h1] at h
    by_cases h2 : s.fileState? f = some .planned ∨ s.fileState? f = some .outdated
    · rw [if_pos h2] at h; exact L.pendCreator_preserves f s s' hp h
    · rw [if_neg h2] at h
      simp only [pure, Except.pure, Except.ok.injEq] at h; subst h; exact hp

theorem handleDeleted_preserves (L : FrameL P) (f : Key) : Preserves P (fun s => s.handleDeleted f) := by
  intro s s' hp h
  replace h : s.handleDeleted f = .ok s' := h
  unfold KState.handleDeleted at h
  simp only [bind, Except.bind] at h
  by_cases h1 : s.fileState? f = some .planned
  · rw [if_pos h1] at h
    cases hc : s.pendCreator f with
    | error e => simp [hc] at h
    | ok s1 =>
      simp only [hc] at h
      exact L.markConsumersPending_preserves f s1 s' (L.pendCreator_preserves f s s1 hp hc) h
  · rw [if_neg h1] at h
    simp only [pure, Except.pure] at h
    exact L.markConsumersPending_preserves f s s' hp h

/-- **`update_file_hashes` preserves every stable predicate**, for every
cause, every set of paths and hashes, accepted or not. -/
theorem updateFileHashes_preserves (L : FrameL P) (updates : List (String × Option Nat)) (cause : Cause) :
    Preserves P (fun s => s.updateFileHashes updates cause) := by
  intro s s' hp h
  replace h : s.updateFileHashes updates cause = .ok s' := h
  unfold KState.updateFileHashes at h
  split at h
  · simp only [pure, Except.pure, Except.ok.injEq] at h; subst h; exact hp
  · simp only [bind, Except.bind] at h
    split at h
    · cases h
    · rename_i recs _
      split at h
      · cases h
      · rename_i s1 h1
        have hp1 := foldlM_preserves P _ recs
          (fun (r : HashRec) => L.writeFile_preserves r.key r.newState (some r.newHash)) s s1 hp h1
        split at h
        · cases h
        · rename_i s2 h2
          have hp2 := foldlM_preserves P _ _ (fun (r : HashRec) => L.handleUpdated_preserves r.key) s1 s2 hp1 h2
          split at h
          · cases h
          · rename_i s3 h3
            have hp3 := foldlM_preserves P _ _ (fun (r : HashRec) => L.handleDeleted_preserves r.key) s2 s3 hp2 h3
            exact foldlM_preserves P _ _ (fun (r : HashRec) => L.markConsumersPending_preserves r.key) s3 s' hp3 h

theorem deleteDeps (L : FrameL P) (s : KState) (p : Dep → Bool) (hp : P s) : P (s.deleteDeps p) := by
  unfold KState.deleteDeps
  generalize (s.deps.filter p) = gone
  have base : P ({ s with deps := s.deps.filter fun d => !p d } : KState) := L.filterDeps s p hp
  generalize ({ s with deps := s.deps.filter fun d => !p d } : KState) = s0 at base
  induction gone generalizing s0 with
  | nil => exact base
  | cons d ds ih =>
    simp only [List.foldl_cons]
    apply ih
    exact L.flagDepEndpoints _ _ _ base

theorem flagChecksWithProducts_preserves (L : FrameL P) (k : Key) : Preserves P (fun s => s.flagChecksWithProducts k) := by
  intro s s' hp h
  replace h : s.flagChecksWithProducts k = .ok s' := h
  unfold KState.flagChecksWithProducts at h
  split at h
  · cases h
  · simp only [pure, Except.pure, Except.ok.injEq] at h
    subst h
    exact L.cache _ _ _ (fun _ => rfl) hp

theorem flagCheckAfterSources_preserves (L : FrameL P) (k : Key) : Preserves P (fun s => s.flagCheckAfterSources k) := by
  intro s s' hp h
  replace h : s.flagCheckAfterSources k = .ok s' := h
  unfold KState.flagCheckAfterSources at h
  split at h
  · cases h
  · simp only [pure, Except.pure, Except.ok.injEq] at h
    subst h
    exact L.cache _ _ _ (fun _ => rfl) hp

theorem detachFlags_preserves (L : FrameL P) (k : Key) : Preserves P (fun s => s.detachFlags k) := by
  intro s s' hp h
  replace h : s.detachFlags k = .ok s' := h
  unfold KState.detachFlags at h
  split at h
  · exact preserves_bind (L.flagChecksWithProducts_preserves k) (L.flagCheckAfterSources_preserves k) s s' hp h
  · simp only [pure, Except.pure, Except.ok.injEq] at h; subst h; exact hp

theorem dropDynamicInputs (L : FrameL P) (s : KState) (k : Key) (hp : P s) : P (s.dropDynamicInputs k) := by
  unfold KState.dropDynamicInputs KState.flagDynamicSuppliers
  exact L.cacheAt _ _ _ (fun _ => rfl) (L.deleteDeps _ _ (L.cache _ _ _ (fun _ => rfl) hp))

theorem outdateBuilt_preserves (L : FrameL P) (k : Key) : Preserves P (fun s => s.outdateBuilt k) := by
  intro s s' hp h
  replace h : s.outdateBuilt k = .ok s' := h
  unfold KState.outdateBuilt at h
  exact foldlM_preserves P _ _ (fun (n : Node) => L.markFileOutdated_preserves n.key) s s' hp h

theorem outdateBuiltProducts_preserves (L : FrameL P) (k : Key) : Preserves P (fun s => s.outdateBuiltProducts k) := by
  intro s s' hp h
  replace h : s.outdateBuiltProducts k = .ok s' := h
  unfold KState.outdateBuiltProducts at h
  exact foldlM_preserves P _ _ (fun (f : Node) => L.setFileState_preserves f.key .outdated) s s' hp h

theorem rebuildOutdatedProducts_preserves (L : FrameL P) (k : Key) : Preserves P (fun s => s.rebuildOutdatedProducts k) := by
  intro s s' hp h
  replace h : s.rebuildOutdatedProducts k = .ok s' := h
  unfold KState.rebuildOutdatedProducts at h
  refine foldlM_preserves P _ _ (fun (f : Node) => ?_) s s' hp h
  intro st st' hst hh
  simp only at hh
  split at hh
  · exact preserves_bind (L.setFileState_preserves f.key .built) (L.markConsumersPending_preserves f.key) st st' hst hh
  · simp only [pure, Except.pure, Except.ok.injEq] at hh; subst hh; exact hst

theorem completeSuccess_preserves (L : FrameL P) (cfg : KConfig) (k : Key) (hh : Nat) : Preserves P (fun s => s.completeSuccess cfg k hh) := by
  intro s s' hp h
  replace h : s.completeSuccess cfg k hh = .ok s' := h
  unfold KState.completeSuccess at h
  refine bind_ok h (fun s1 h1 => L.setStepState_preserves k .succeeded false s s1 hp h1) ?_
  intro s1 s1' hp1 hh1
  refine bind_ok hh1 (fun s2 h2 => L.rebuildOutdatedProducts_preserves k s1 s2 hp1 h2) ?_
  exact preserves_pure _ (fun s hs => L.cacheAt _ _ _ (fun _ => rfl) (L.setHash s k hh hs))

theorem markDir (L : FrameL P) (s : KState) (d : String) (hp : P s) : P (s.markDirToBeDeleted d) := by
  unfold KState.markDirToBeDeleted
  split
  · exact hp
  · exact L.queueDelete _ _ _ hp

theorem revertOutput_preserves (L : FrameL P) (f : Key) : Preserves P (fun s => s.revertOutput f) := by
  intro s s' hp h
  replace h : s.revertOutput f = .ok s' := h
  unfold KState.revertOutput at h
  cases hf : s.find? f with
  | none => simp [hf, pure, Except.pure] at h; subst h; exact hp
  | some fn =>
    simp only [hf] at h
    split at h
    · split at h
      · exact L.writeFile_preserves f .planned (some none) _ s' (L.markDir _ _ (L.queueDelete _ _ _ hp)) h
      · simp only [pure, Except.pure, Except.ok.injEq] at h; subst h
        exact L.markDir _ _ (L.queueDelete _ _ _ hp)
    · simp only [pure, Except.pure, Except.ok.injEq] at h; subst h; exact hp

/-- `finalize.revert_optional_steps` preserves every stable predicate. -/
theorem revertStep_preserves (L : FrameL P) (n : Node) : Preserves P (fun s => s.revertStep n) := by
  intro s s' hp h
  replace h : s.revertStep n = .ok s' := h
  unfold KState.revertStep at h
  refine bind_ok h (fun a ha => ?_) ?_
  · unfold KState.pendIfNot at ha
    split at ha
    · exact L.writeStepState_preserves n.key .pending none s a hp ha
    · simp only [pure, Except.pure, Except.ok.injEq] at ha; subst ha; exact hp
  · intro a a' ha hh2
    exact foldlM_preserves P _ _ (fun f => L.revertOutput_preserves f) a a' ha hh2

theorem revertOptional_preserves (L : FrameL P) : Preserves P (fun s => s.revertOptional) := by
  intro s s' hp h
  replace h : s.revertOptional = .ok s' := h
  unfold KState.revertOptional at h
  exact foldlM_preserves P _ _ (fun (n : Node) => L.revertStep_preserves n) s s' hp h

/-- `startup.reset_interrupted_steps` preserves every stable predicate. -/
theorem resetInterrupted_preserves (L : FrameL P) : Preserves P (fun s => s.resetInterrupted) := by
  intro s s' hp h
  replace h : s.resetInterrupted = .ok s' := h
  unfold KState.resetInterrupted at h
  refine bind_ok h (fun s1 h1 => ?_) ?_
  · exact foldlM_preserves P _ _ (fun (n : Node) => L.writeStepState_preserves n.key .failed none) s s1 hp h1
  · intro s1 s1' hp1 hh1
    refine bind_ok hh1 (fun s2 h2 => ?_) ?_
    · exact foldlM_preserves P _ _ (fun (n : Node) => L.writeStepState_preserves n.key .pending none) s1 s2 hp1 h2
    · intro s2 s2' hp2 hh2
      exact foldlM_preserves P _ _ (fun (n : Node) => L.markStepPending'_preserves n.key) s2 s2' hp2 hh2

theorem rescanEnvVars_preserves (L : FrameL P) (cfg : KConfig) : Preserves P (fun s => s.rescanEnvVars cfg) := by
  intro s s' hp h
  replace h : s.rescanEnvVars cfg = .ok s' := h
  unfold KState.rescanEnvVars at h
  exact foldlM_preserves P _ _ (fun (n : Node) => L.markStepPending'_preserves n.key) s s' hp h

theorem checkConsistency_preserves (L : FrameL P) : Preserves P (fun s => s.checkConsistency) := by
  intro s s' hp h
  replace h : s.checkConsistency = .ok s' := h
  unfold KState.checkConsistency at h
  exact foldlM_preserves P (fun (st : KState) (n : Node) => st.markStepPending n.key) _
    (fun n => L.markStepPending'_preserves n.key) s s' hp h

theorem hold_preserves (L : FrameL P) (k : Key) (s s' : KState) (hp : P s)
    (h : s.hold k = .ok s') : P s' := by
  unfold KState.hold at h
  simp only [bind, Except.bind] at h
  have hp1 : P (s.modify k fun n => { n with holding := n.holding + 1 }) :=
    L.hold _ _ hp
  split at h
  · exact L.flagChecksWithProducts_preserves k _ s' hp1 h
  · simp only [pure, Except.pure, Except.ok.injEq] at h; subst h; exact hp1

theorem release_preserves (L : FrameL P) (k : Key) : Preserves P (fun s => s.release k) := by
  intro s s' hp h
  replace h : s.release k = .ok s' := h
  unfold KState.release at h
  cases hf : s.find? k with
  | none => simp [hf, graphErr] at h
  | some n =>
    simp only [hf, bind, Except.bind] at h
    split at h
    · cases h
    · rename_i hne
      have hp1 : P (s.modify k fun n => { n with holding := n.holding - 1 }) :=
        L.release s k n hf hne hp
      split at h
      · exact L.flagChecksWithProducts_preserves k _ s' hp1 h
      · simp only [pure, Except.pure, Except.ok.injEq] at h; subst h; exact hp1

theorem updateMetaSafe_preserves (L : FrameL P) : Preserves P (fun s => s.updateMetaSafe) := by
  intro s s' hp h
  replace h : s.updateMetaSafe = .ok s' := h
  unfold KState.updateMetaSafe at h
  simp only [bind, Except.bind] at h
  split at h
  · simp only [pure, Except.pure, Except.ok.injEq] at h; subst h; exact hp
  · split at h
    · cases h
    · simp only [pure, Except.pure, Except.ok.injEq] at h
      subst h
      refine L.cache _ _ _ (fun _ => rfl) (L.cache _ _ _ ?_ hp)
      intro n
      dsimp only
      split <;> rfl

theorem applyAfterUpdates (L : FrameL P) (s : KState) (u : List (Key × Need × Nat)) (hp : P s) :
    P (s.applyAfterUpdates u) := by
  unfold KState.applyAfterUpdates
  refine L.cache _ _ _ ?_ hp
  intro n
  dsimp only
  split <;> rfl

theorem afterLoop_preserves (L : FrameL P) (cfg : KConfig) (fuel : Nat) (s s' : KState) (work : List Key) (first : Bool)
    (hp : P s) (h : KState.afterLoop cfg fuel s work first = some s') : P s' := by
  induction fuel generalizing s work first with
  | zero =>
    unfold KState.afterLoop at h
    split at h
    · simp only [Option.some.injEq] at h; subst h; exact hp
    · cases h
  | succ fuel ih =>
    unfold KState.afterLoop at h
    split at h
    · simp only [Option.some.injEq] at h; subst h; exact hp
    · exact ih _ _ _ (L.applyAfterUpdates s _ hp) h

theorem updateMetaAfter_preserves (L : FrameL P) (cfg : KConfig) : Preserves P (fun s => s.updateMetaAfter cfg) := by
  intro s s' hp h
  replace h : s.updateMetaAfter cfg = .ok s' := h
  unfold KState.updateMetaAfter at h
  split at h
  · simp only [pure, Except.pure, Except.ok.injEq] at h; subst h; exact hp
  · dsimp only at h
    split at h
    · rename_i st hst
      simp only [pure, Except.pure, Except.ok.injEq] at h
      subst h
      exact L.cache _ _ _ (fun _ => rfl) (L.afterLoop_preserves cfg _ s st _ _ hp hst)
    · cases h

theorem updateMetaReady (L : FrameL P) (s : KState) (hp : P s) : P s.updateMetaReady := by
  unfold KState.updateMetaReady
  exact L.cache _ _ _ (fun _ => rfl) hp

theorem updateMeta_preserves (L : FrameL P) (cfg : KConfig) : Preserves P (fun s => s.updateMeta cfg) := by
  intro s s' hp h
  replace h : s.updateMeta cfg = .ok s' := h
  unfold KState.updateMeta at h
  refine bind_ok h (fun s1 h1 => L.updateMetaSafe_preserves s s1 hp h1) ?_
  intro s1 s1' hp1 hh1
  refine bind_ok hh1 (fun s2 h2 => L.updateMetaAfter_preserves cfg s1 s2 hp1 h2) ?_
  exact preserves_pure _ (fun s hs => L.updateMetaReady s hs)

/-- `pop_next_job` preserves every stable predicate. -/
theorem popNext_preserves (L : FrameL P) (cfg : KConfig) (choice : Option Key) (s s' : KState) (d : Dispatch)
    (hp : P s) (h : s.popNext cfg choice = .ok (s', d)) : P s' := by
  unfold KState.popNext at h
  simp only [bind, Except.bind] at h
  cases hu : s.updateMeta cfg with
  | error e => simp [hu] at h
  | ok su =>
    simp only [hu] at h
    have hpu := L.updateMeta_preserves cfg s su hp hu
    cases choice with
    | none =>
      simp only at h
      split at h
      · simp only [pure, Except.pure, Except.ok.injEq, Prod.mk.injEq] at h
        obtain ⟨rfl, _⟩ := h; exact hpu
      · cases h
    | some k =>
      simp only at h
      split at h
      · cases h
      · rename_i n hn
        split at h
        · cases h
        · split at h
          · cases h
          · cases hj : su.deriveJob k with
            | error e => simp [hj] at h
            | ok run =>
              simp only [hj] at h
              cases hs : su.setStepState k (if n.hasHash = true then StepState.checking else StepState.running) with
              | error e => simp [hs] at h
              | ok s2 =>
                simp only [hs, pure, Except.pure, Except.ok.injEq, Prod.mk.injEq] at h
                obtain ⟨rfl, _⟩ := h
                exact L.setStepState_preserves k _ false su s2 hpu hs

theorem reconcileTarget_preserves (L : FrameL P) (t : String) : Preserves P (fun s => s.reconcileTarget t) := by
  intro s s' hp h
  replace h : s.reconcileTarget t = .ok s' := h
  unfold KState.reconcileTarget at h
  cases hf : s.find? (fileKey t) with
  | none => simp [hf, pure, Except.pure] at h; subst h; exact hp
  | some f =>
    simp only [hf] at h
    split at h
    · simp only [pure, Except.pure, Except.ok.injEq] at h; subst h; exact hp
    · split at h
      · split at h
        · simp [graphErr] at h
        · simp only [pure, Except.pure, Except.ok.injEq] at h; subst h; exact hp
      · split at h
        · simp only [pure, Except.pure, Except.ok.injEq] at h; subst h
          exact L.cacheAt _ _ _ (fun _ => rfl) hp
        · simp only [pure, Except.pure, Except.ok.injEq] at h; subst h; exact hp

theorem reconcileTargets_preserves (L : FrameL P) (cfg : KConfig) : Preserves P (fun s => s.reconcileTargets cfg) := by
  intro s s' hp h
  replace h : s.reconcileTargets cfg = .ok s' := h
  unfold KState.reconcileTargets at h
  dsimp only at h
  refine bind_ok h (fun s1 h1 => ?_) ?_
  · have hp0 : P (s.modifyWhere (fun n => n.key.kind = .step ∧ n.impliedNeed = .target)
        fun n => { n with checkAfter := true }) := L.cache _ _ _ (fun _ => rfl) hp
    exact foldlM_preserves P (fun st t => st.reconcileTarget t) _ (fun t => L.reconcileTarget_preserves t) _ s1 hp0 h1
  · refine preserves_pure _ (fun s hs => ?_)
    unfold KState.reconcileTargetDirs
    exact L.cache _ _ _ (fun _ => rfl) hs

theorem afterLostProduct_preserves (L : FrameL P) (k : Key) : Preserves P (fun s => s.afterLostProduct k) := by
  intro s s' hp h
  replace h : s.afterLostProduct k = .ok s' := h
  unfold KState.afterLostProduct at h
  split at h
  · simp only [pure, Except.pure, Except.ok.injEq] at h; subst h; exact L.deleteHash _ _ hp
  · simp only [pure, Except.pure, Except.ok.injEq] at h; subst h; exact hp
  · cases h
  · cases h

theorem lostProduct_preserves (L : FrameL P) (old : Option Key) : Preserves P (fun s => s.lostProduct old) := by
  intro s s' hp h
  replace h : s.lostProduct old = .ok s' := h
  unfold KState.lostProduct at h
  cases old with
  | none => simp only [pure, Except.pure, Except.ok.injEq] at h; subst h; exact hp
  | some oc =>
    simp only at h
    split at h
    · cases h
    · exact L.afterLostProduct_preserves oc s s' hp h

theorem flagIfStep_preserves (L : FrameL P) (k : Key) : Preserves P (fun s => s.flagIfStep k) := by
  intro s s' hp h
  replace h : s.flagIfStep k = .ok s' := h
  unfold KState.flagIfStep at h
  split at h
  · exact L.flagChecksWithProducts_preserves k s s' hp h
  · simp only [pure, Except.pure, Except.ok.injEq] at h; subst h; exact hp

theorem writeInitialFile_preserves (L : FrameL P) (k : Key) (state : FileState) (existed : Bool)
    (hfresh : existed = false → NoHashState state) :
    Preserves P (fun s => s.writeInitialFile k state existed) := by
  intro s s' hp h
  replace h : s.writeInitialFile k state existed = .ok s' := h
  unfold KState.writeInitialFile at h
  split at h
  · exact L.setFileState_preserves k state s s' hp h
  · rename_i hex
    split at h
    · cases h
    · rename_i hund
      simp only [pure, Except.pure, Except.ok.injEq] at h
      subst h
      refine L.flagReadySinks _ _ (L.fileInit s k state (hfresh (by simpa using hex)) ?_ hp)
      intro hu
      cases hd : s.isDetached k with
      | true => rfl
      | false => exact absurd ⟨hu, by simp [hd]⟩ hund

theorem initFileRow_preserves (L : FrameL P) (k : Key) (st : FileState) (existed : Bool) (hst : NoHashState st) :
    Preserves P (fun s => s.initFileRow k st existed) := by
  intro s s' hp h
  replace h : s.initFileRow k st existed = .ok s' := h
  unfold KState.initFileRow at h
  refine bind_ok h (fun s1 h1 => ?_) ?_
  · refine L.writeInitialFile_preserves k _ existed ?_ s s1 hp h1
    intro hex
    subst hex
    rw [keptState_fresh]
    exact hst
  · intro s1 s1' hp1 hh1
    split at hh1
    · exact L.markFileOutdated_preserves k s1 s1' hp1 hh1
    · simp only [pure, Except.pure, Except.ok.injEq] at hh1; subst hh1; exact hp1

theorem initRow_preserves (L : FrameL P) (k : Key) (init : Init) (existed : Bool) (hi : InitOK init) :
    Preserves P (fun s => s.initRow k init existed) := by
  intro s s' hp h
  replace h : s.initRow k init existed = .ok s' := h
  unfold KState.initRow at h
  cases init with
  | root => simp only [pure, Except.pure, Except.ok.injEq] at h; subst h; exact hp
  | tree => simp only [pure, Except.pure, Except.ok.injEq] at h; subst h; exact hp
  | file st => exact L.initFileRow_preserves k st existed hi s s' hp h
  | step i => simp only [pure, Except.pure, Except.ok.injEq] at h; subst h; exact L.stepInit _ _ _ hp

theorem volatileSinkCheck_preserves (_L : FrameL P) (p : String) (st : FileState) :
    Preserves P (fun s => s.volatileSinkCheck p st) := by
  intro s s' hp h
  replace h : s.volatileSinkCheck p st = .ok s' := h
  unfold KState.volatileSinkCheck at h
  split at h
  · simp [graphErr] at h
  · simp only [pure, Except.pure, Except.ok.injEq] at h; subst h; exact hp

theorem insertDep_preserves (L : FrameL P) (a b : Key) : Preserves P (fun s => s.insertDep a b) := by
  intro s s' hp h
  replace h : s.insertDep a b = .ok s' := h
  unfold KState.insertDep at h
  simp only [bind, Except.bind, pure, Except.pure] at h
  split at h
  · cases h
  · rename_i hdup
    split at h
    · cases h
    · rename_i hkind
      simp only [Except.ok.injEq] at h
      subst h
      exact L.flagDepEndpoints _ a b (L.addDep s a b (by simpa using hdup) (by simpa using hkind) hp)

theorem insertNewEdges_preserves (L : FrameL P) (step : Key) (infos : List Supply) :
    Preserves P (fun s => s.insertNewEdges step infos) := by
  intro s s' hp h
  replace h : s.insertNewEdges step infos = .ok s' := h
  unfold KState.insertNewEdges at h
  exact foldlM_preserves P (fun (st : KState) (i : Supply) => st.insertDep i.file step) _
    (fun i => L.insertDep_preserves i.file step) s s' hp h

theorem addSourceChecked_preserves (L : FrameL P) (a b : Key) : Preserves P (fun s => s.addSourceChecked a b) := by
  intro s s' hp h
  replace h : s.addSourceChecked a b = .ok s' := h
  unfold KState.addSourceChecked at h
  split at h
  · simp [bind, Except.bind, throw, throwThe, MonadExceptOf.throw] at h
  · simp only [pure, Except.pure, bind, Except.bind] at h
    exact L.insertDep_preserves b a s s' hp h

theorem setStepExtras (L : FrameL P) (s : KState) (sk : Key) (d : StepDecl) (hp : P s) : P (s.setStepExtras sk d) :=
  L.cacheAt _ _ _ (fun _ => rfl) hp

theorem afterRecycle_preserves (L : FrameL P) (sk : Key) (d : StepDecl) (n : Node) :
    Preserves P (fun s => s.afterRecycle sk d n) := by
  intro s s' hp h
  replace h : s.afterRecycle sk d n = .ok s' := h
  unfold KState.afterRecycle at h
  have hp2 : P (s.modify sk fun n => { n with need := d.need, shell := d.shell }) :=
    L.recycled _ _ _ _ hp
  split at h
  · exact L.markStepPending'_preserves sk _ s' hp2 h
  · simp only [pure, Except.pure, Except.ok.injEq] at h; subst h; exact hp2

theorem setDynamic (L : FrameL P) (s : KState) (a b : Key) (d : Bool) (hp : P s) : P (s.setDynamic a b d) := by
  unfold KState.setDynamic
  refine L.cacheAt _ _ _ (fun n => ?_) (L.markDyn s a b d hp)
  split <;> rfl

theorem markDynamic (L : FrameL P) (s : KState) (edges : List (Key × Key)) (hp : P s) : P (s.markDynamic edges) := by
  unfold KState.markDynamic
  induction edges generalizing s with
  | nil => exact hp
  | cons e es ih => simp only [List.foldl_cons]; exact ih _ (L.setDynamic s _ _ _ hp)

theorem amendEnv (L : FrameL P) (s : KState) (cfg : KConfig) (step : Key) (env : List String) (hp : P s) :
    P (s.amendEnv cfg step env) := by
  unfold KState.amendEnv
  refine L.cacheAt _ _ _ (fun n => ?_) hp
  induction env generalizing n with
  | nil => rfl
  | cons x xs ih =>
    simp only [List.foldl_cons]
    split
    · exact ih _
    · exact (ih _).trans rfl

theorem registerNglob_preserves (L : FrameL P) (step : Key) (pattern : String) (found : List String) :
    Preserves P (fun s => s.registerNglob step pattern found) := by
  intro s s' hp h
  replace h : s.registerNglob step pattern found = .ok s' := h
  unfold KState.registerNglob at h
  refine bind_ok_gen h (fun _ => True) (fun _ _ => trivial) P ?_
  intro _ r _ hh
  simp only [pure, Except.pure, Except.ok.injEq] at hh
  subst hh
  exact L.cacheAt _ _ _ (fun _ => rfl) hp

theorem registerNglobs_preserves (L : FrameL P) (creator : Key) (patterns : List (String × List String)) :
    Preserves P (fun s => s.registerNglobs creator patterns) := by
  intro s s' hp h
  replace h : s.registerNglobs creator patterns = .ok s' := h
  unfold KState.registerNglobs at h
  exact foldlM_preserves P (fun (st : KState) (pm : String × List String) => st.registerNglob creator pm.1 pm.2)
    patterns (fun pm => L.registerNglob_preserves creator pm.1 pm.2) s s' hp h

theorem beforeDelete_preserves (L : FrameL P) (n : Node) : Preserves P (fun s => s.beforeDelete n) := by
  intro s s' hp h
  replace h : s.beforeDelete n = .ok s' := h
  unfold KState.beforeDelete at h
  cases hk : n.key.kind with
  | root => simp [hk] at h
  | st => simp only [hk, pure, Except.pure, Except.ok.injEq] at h; subst h; exact hp
  | step =>
    simp only [hk, pure, Except.pure, Except.ok.injEq] at h; subst h
    exact L.markDir _ _ hp
  | file =>
    simp only [hk, pure, Except.pure, Except.ok.injEq] at h; subst h
    apply L.markDir
    split
    · exact L.queueDelete _ _ _ hp
    · split
      · exact L.queueDelete _ _ _ hp
      · exact hp
    · split
      · exact L.queueDelete _ _ _ hp
      · exact hp
    · exact hp

theorem lostBody_preserves (L : FrameL P) (c : Key) (st : KState) (r : ForInStep KState) (hp : P st)
    (h : lostBody c st = .ok r) : P r.value := by
  unfold lostBody at h
  split at h
  · refine bind_ok_gen h P (fun a ha => L.afterLostProduct_preserves c st a hp ha) (fun r => P r.value) ?_
    intro a r' ha hh
    simp only [pure, Except.pure, Except.ok.injEq] at hh; subst hh; exact ha
  · simp only [pure, Except.pure, Except.ok.injEq] at h; subst h; exact hp

end FrameL

/-! ## The frame lemma for the creator forest -/

theorem skel_modifyWhere (s : KState) (p : Node → Bool) (f : Node → Node) (hf : ∀ n, (f n).tri = n.tri) :
    (s.modifyWhere p f).skel = s.skel := by
  unfold KState.modifyWhere KState.skel
  simp only [List.map_map]
  apply List.map_congr_left
  intro n _
  simp only [Function.comp]
  split
  · exact hf n
  · rfl

theorem skel_modify (s : KState) (k : Key) (f : Node → Node) (hf : ∀ n ∈ s.nodes, n.key = k → (f n).tri = n.tri) :
    (s.modify k f).skel = s.skel := by
  unfold KState.modify KState.skel
  simp only [List.map_map]
  apply List.map_congr_left
  intro n hn
  simp only [Function.comp]
  split
  · rename_i h; exact hf n hn h
  · rfl

theorem fileRowWrite_tri (n n' : Node) (st : FileState) (nh : Option (Option Nat))
    (h : fileRowWrite n st nh = .ok n') : n'.tri = n.tri := by
  unfold fileRowWrite at h
  dsimp only at h
  split at h
  · cases h
  · split at h
    · cases h
    · simp only [pure, Except.pure, Except.ok.injEq] at h
      subst h; rfl

theorem stepRowWrite_tri (n n' : Node) (st : StepState) (d : Option Bool)
    (h : stepRowWrite n st d = .ok n') : n'.tri = n.tri := by
  unfold stepRowWrite at h
  dsimp only at h
  split at h
  · cases h
  · simp only [pure, Except.pure, Except.ok.injEq] at h
    subst h; rfl

theorem tri_of_hard {f : Node → Node} (hf : CacheOnly f) (n : Node) : (f n).tri = n.tri := by
  have := hf n
  simp only [Node.hard, Prod.mk.injEq] at this
  obtain ⟨h1, h2, h3, _⟩ := this
  unfold Node.tri
  rw [h1, h2, h3]

theorem skel_keys (s : KState) : s.skel.map (·.1) = s.nodes.map (·.key) := by
  unfold KState.skel
  rw [List.map_map]
  rfl

theorem nodes_uniq (s : KState) (h : Sk.Nodup s.skel) {m n : Node} (hm : m ∈ s.nodes) (hn : n ∈ s.nodes)
    (hk : m.key = n.key) : m = n := by
  unfold Sk.Nodup at h
  rw [skel_keys] at h
  exact nodup_map_inj (fun (x : Node) => x.key) s.nodes h m n hm hn hk

theorem skel_modify' {X : List Tri} (s : KState) (k : Key) (f : Node → Node)
    (hf : ∀ n ∈ s.nodes, n.key = k → (f n).tri = n.tri)
    (hp : s.skel = X) : (s.modify k f).skel = X := (skel_modify s k f hf).trans hp

/-- **The frame lemma**: "the creator forest is `X`" (one row per key) survives every write that is
not one of the five skeleton writes. -/
theorem frameL_skel (X : List Tri) (hX : Sk.Nodup X) : FrameL (fun s => s.skel = X) where
  cache s p f hf hp := (skel_modifyWhere s p f (tri_of_hard hf)).trans hp
  fileWrite s k n n' st nh hf hw hp := by
    refine skel_modify' s k _ (fun m hmem hm => ?_) hp
    have hn := find?_mem s k n hf
    have hmn : m = n := nodes_uniq s (hp ▸ hX) hmem hn.1 (hm.trans hn.2.symm)
    subst hmn
    exact fileRowWrite_tri _ n' st nh hw
  fileInit s k st _ _ hp := skel_modify' s k _ (fun _ _ _ => rfl) hp
  stepWrite s k n n' st d hf hw hp := by
    refine skel_modify' s k _ (fun m hmem hm => ?_) hp
    have hn := find?_mem s k n hf
    have hmn : m = n := nodes_uniq s (hp ▸ hX) hmem hn.1 (hm.trans hn.2.symm)
    subst hmn
    exact stepRowWrite_tri _ n' st d hw
  stepInit s k i hp := by
    unfold KState.initStepRow
    exact skel_modify' s k _ (fun _ _ _ => rfl) hp
  setHash s k h hp := by
    unfold KState.setHash
    exact skel_modify' s k _ (fun _ _ _ => rfl) hp
  deleteHash s k hp := by
    unfold KState.deleteHash
    refine skel_modify' s k _ (fun n _ _ => ?_) hp
    split <;> rfl
  bumpDefer s k hp := skel_modify' s k _ (fun _ _ _ => rfl) hp
  hold s k hp := skel_modify' s k _ (fun _ _ _ => rfl) hp
  release s k _ _ _ hp := skel_modify' s k _ (fun _ _ _ => rfl) hp
  recycled s k need shell hp := skel_modify' s k _ (fun _ _ _ => rfl) hp
  addDep _ _ _ _ _ hp := hp
  filterDeps _ _ hp := hp
  markDyn _ _ _ _ hp := hp
  queueDelete _ _ _ hp := hp
  clearQueue _ hp := hp

end StepupModel.K
