import StepupModel.Lemmas.DisciplineCreate
/-!
# The flag discipline: `Node.reattach` (of a step) and `Step.after_recycle`

`Step.reattach` makes the step and its recursive products visible again and flags the step subtree
(`_flag_checks_with_products`) only: the producers of the inputs of the reattached steps are *not*
flagged, and need not be (`Lemmas/DisciplineReveal.lean`).
-/
namespace StepupModel.K.Discipline
open StepupModel.K.MetaAfter StepupModel.Lemmas StepupModel.K.Sk
set_option linter.unusedSimpArgs false
set_option linter.unusedVariables false

theorem filter_not_false {α : Type} (l : List α) : (l.filter fun _ => !false) = l := by
  induction l with
  | nil => rfl
  | cons a l ih =>
    simp only [Bool.not_false] at ih ⊢
    simp only [List.filter_cons, if_true, ih]

theorem skel_of_soft {s s' : KState} (h : SoftRel s s') : s'.skel = s.skel := by
  unfold KState.skel
  have : ∀ {l l' : List Node}, All₂ SoftRow l l' → l'.map Node.tri = l.map Node.tri := by
    intro l l' hr
    induction hr with
    | nil => rfl
    | cons h t ih =>
      simp only [List.map_cons, ih]
      congr 1
      unfold Node.tri
      rw [h.1, h.2.1, h.2.2.1.1]
  exact this h.rows

theorem ur_foldl_setDetachedRow (X : Key → Prop) (d : Bool) (L : List Key) (hL : ∀ x ∈ L, X x) :
    ∀ s : KState, All₂ (UR X) s.nodes (L.foldl (fun s x => s.setDetachedRow x d) s).nodes ∧
      (L.foldl (fun s x => s.setDetachedRow x d) s).deps = s.deps := by
  induction L with
  | nil => intro s; exact ⟨forall₂_refl (UR.refl X) _, rfl⟩
  | cons x L ih =>
    intro s
    simp only [List.foldl_cons]
    obtain ⟨h1, h2⟩ := ih (fun y hy => hL y (List.mem_cons_of_mem _ hy)) (s.setDetachedRow x d)
    exact ⟨ur_trans (ur_setDetachedRow X s x d (hL x List.mem_cons_self)) h1, h2.trans (deps_setDetachedRow s x d)⟩

/-- A product chain in the skeleton after `setRow k` is `k` itself or a product chain of the old one. -/
theorem desc_setRow {l : List Tri} {k : Key} {c : Option Key} {d : Bool} {x : Key} (h : Desc (setRow k c d l) k x) :
    x = k ∨ Desc l k x := by
  induction h with
  | direct x d' hm hne => exact .inr (Desc.direct x d' (mem_setRow_ne hm hne) hne)
  | trans x c' d' hm hc hne ih =>
    by_cases hx : x = k
    · exact .inl hx
    · have hm' := mem_setRow_ne hm hx
      rcases ih with rfl | ih
      · exact .inr (Desc.direct x d' hm' hne)
      · exact .inr (Desc.trans x c' d' hm' ih hne)

/-- Under `Struct`, the steps among the recursive products of a step are in its flagged subtree. -/
theorem desc_steps_in_subtree {s s3 : KState} {k : Key} {newc : Option Key} {d : Bool} {ks : List Key}
    (hS : Struct s) (hkroot : k ≠ rootKey)
    (hrows3 : ∀ t ∈ setRow k newc d s.skel, ∃ n3 ∈ s3.nodes, n3.key = t.1 ∧ n3.creator = t.2.1)
    (hkin : k ∈ ks) (hclosed : StepClosed s3 ks) :
    ∀ x, Desc (setRow k newc d s.skel) k x → x.kind = .step → x ∈ ks := by
  intro x hx
  induction hx with
  | direct x d' hm hne =>
    intro hxs
    obtain ⟨n3, hn3, hk3, hc3⟩ := hrows3 _ hm
    have := hclosed n3 hn3 k hkin ⟨hk3 ▸ hxs, hc3, hk3 ▸ hne⟩
    rw [hk3] at this; exact this
  | trans x c d' hm hc hne ih =>
    intro hxs
    by_cases hxk : x = k
    · rw [hxk]; exact hkin
    · obtain ⟨m, hm', he⟩ := mem_skel (mem_setRow_ne hm hxk)
      have hmk : m.key = x := congrArg (·.1) he
      have hmc : m.creator = some c := congrArg (·.2.1) he
      have hck : c.kind = .step := by
        rcases hS.kinds m hm' (hmk ▸ hxs) c hmc with h | h
        · exact h
        · exfalso
          subst h
          obtain ⟨c', d'', hrow, hne', _⟩ := hc.row
          obtain ⟨r, hr, hre⟩ := mem_skel (mem_setRow_ne hrow (fun e => hkroot e.symm))
          have := hS.root r hr (congrArg (·.1) hre)
          have hrc : r.creator = some c' := congrArg (·.2.1) hre
          rw [this] at hrc
          exact hne' (by simpa using hrc)
      obtain ⟨n3, hn3, hk3, hc3⟩ := hrows3 _ hm
      have := hclosed n3 hn3 c (ih hck) ⟨hk3 ▸ hxs, hc3, hk3 ▸ hne⟩
      rw [hk3] at this; exact this

/-- **`Node.reattach` of a step keeps the debt.** -/
theorem reattach_wd {F : Key → Prop} {s s' : KState} {cfg : KConfig} {k c : Key} (hS : Struct s) (hFo : Forest s)
    (hkstep : k.kind = .step) (h : s.reattach k c = .ok s') (hc : WD F s cfg) : WD F s' cfg := by
  have hk := hS.keys
  have hok : Sk.OK s.skel := (forest_iff s).1 hFo
  unfold KState.reattach at h
  cases hf : s.find? k with
  | none => simp [hf] at h
  | some n =>
    simp only [hf] at h
    split at h
    · cases h
    · rename_i hdet
      have hdet' : n.detached = true := by simpa using hdet
      split at h
      · cases h
      · unfold KState.reattachCore at h
        simp only [bind, Except.bind] at h
        cases h1 : s.setCreator k (some c) (s.isDetached c) with
        | error e => simp [h1] at h
        | ok s1 =>
          simp only [h1] at h
          cases h2 : s1.lostProduct n.creator with
          | error e => simp [h2] at h
          | ok s2 =>
            simp only [h2] at h
            unfold KState.flagIfStep at h
            rw [if_pos hkstep] at h
            -- the revealed keys
            let X : Key → Prop := fun x => x = k ∨ x ∈ s2.descendants k
            obtain ⟨r1, d1⟩ := ur_setCreator (X := X) (.inl rfl) h1
            have r2 := lostProduct_rel h2
            obtain ⟨r3, d3⟩ := ur_foldl_setDetachedRow X (s.isDetached c) (s2.descendants k) (fun x hx => .inr hx) s2
            have r4 := flagChecksWithProducts_rel h
            have hrows : All₂ (UR X) s.nodes s'.nodes := by
              unfold KState.setDetachedRec at r4
              exact ur_trans (ur_trans (ur_trans r1 (ur_of_soft r2)) r3) (ur_of_soft r4)
            have hdeps : s'.deps = s.deps := by
              unfold KState.setDetachedRec at r4
              rw [r4.deps, d3, r2.deps, d1]
            obtain ⟨hsk1, hallow⟩ := skel_setCreator h1
            have hsk2 : s2.skel = setRow k (some c) (s.isDetached c) s.skel := by rw [skel_of_soft r2, hsk1]
            have hkroot : k ≠ rootKey := by
              intro he; rw [he] at hkstep; cases hkstep
            have hnatt : ¬ Att s.skel k := by
              intro ha
              have := (att_iff_of_mem hok.nodup (find?_row hf)).1 ha
              rw [hdet'] at this; cases this
            have hidden : ∀ c', X c' → ∀ m, s.find? c' = some m → m.detached = true := by
              intro c' hx m hm
              rcases hx with rfl | hx
              · rw [hf] at hm; cases hm; exact hdet'
              · have hd := (mem_descendants s2 k c').1 hx
                rw [hsk2] at hd
                rcases desc_setRow hd with rfl | hd'
                · rw [hf] at hm; cases hm; exact hdet'
                · have hna := desc_not_att hok.nodup hok.root hok.loc hnatt hd'
                  cases hx' : m.detached with
                  | true => rfl
                  | false =>
                    exfalso
                    exact hna ⟨_, find?_row hm, rfl, hx'⟩
            have hrev : Reveal X (fun _ => false) s s' :=
              reveal_of_rows hrows (by rw [hdeps, filter_not_false]) (fun _ _ hr => by cases hr) hidden
            have hw := wd_reveal (cfg := cfg) hrev hc
            refine wd_drop ?_ hw
            -- every attached step in the debt is in the flagged subtree
            intro n' hn' hs' _ hdebt
            unfold KState.flagChecksWithProducts at h
            cases hks : (s2.setDetachedRec k (s.isDetached c)).stepSubtree k with
            | none => simp [hks] at h
            | some ks =>
              simp only [hks, pure, Except.pure, Except.ok.injEq] at h
              rw [← h] at hn'
              obtain ⟨n3, hn3, hk3, _, _, hsel⟩ := flagPass_rows hn' (fun _ => rfl) (fun _ => rfl) (fun _ => rfl)
              apply hsel
              rw [List.contains_iff_mem, ← hk3]
              -- rows of the state that is flagged carry the keys and creators of the new skeleton
              have hsk3 : (s2.setDetachedRec k (s.isDetached c)).skel =
                  setD (fun x => (s2.descendants k).contains x) (s.isDetached c) s2.skel := skel_setDetachedRec s2 k _
              have hrows3 : ∀ t ∈ setRow k (some c) (s.isDetached c) s.skel,
                  ∃ n3 ∈ (s2.setDetachedRec k (s.isDetached c)).nodes, n3.key = t.1 ∧ n3.creator = t.2.1 := by
                intro t ht
                rw [← hsk2] at ht
                obtain ⟨d', hd'⟩ := mem_setD (D := fun x => (s2.descendants k).contains x) (d := s.isDetached c) ht
                rw [← hsk3] at hd'
                obtain ⟨m, hm, he⟩ := mem_skel hd'
                exact ⟨m, hm, congrArg (·.1) he, congrArg (·.2.1) he⟩
              have hk3row : ∃ nk, (s2.setDetachedRec k (s.isDetached c)).find? k = some nk := by
                have : (k, some c, s.isDetached c) ∈ setRow k (some c) (s.isDetached c) s.skel := by
                  unfold setRow
                  exact List.mem_map.2 ⟨_, find?_row hf, by simp⟩
                obtain ⟨m, hm, hmk, _⟩ := hrows3 _ this
                cases hfind : (s2.setDetachedRec k (s.isDetached c)).find? k with
                | some nk => exact ⟨nk, rfl⟩
                | none =>
                  exfalso
                  unfold KState.find? at hfind
                  have := List.find?_eq_none.1 hfind m hm
                  simp only [decide_eq_true_eq] at this
                  exact this hmk
              obtain ⟨nk, hnk⟩ := hk3row
              obtain ⟨hkin, hclosed⟩ := stepSubtree_spec hks hnk hkstep
              have hsteps := desc_steps_in_subtree hS hkroot hrows3 hkin hclosed
              have inX : ∀ x, X x → x.kind = .step → x ∈ ks := by
                intro x hx hxs
                rcases hx with rfl | hx
                · exact hkin
                · have hd := (mem_descendants s2 k x).1 hx
                  rw [hsk2] at hd
                  exact hsteps x hd hxs
              rcases hdebt with hx | ⟨x, hx, dp, hdm, hsrc, hsnk⟩
              · exact inX _ hx hs'
              · -- `x` is a file among the revealed keys, owned by the step `n'`
                have hxf : x.kind = .file := by
                  have := hS.dkinds dp hdm
                  rw [hsrc, hs', hsnk] at this
                  unfold depKindOk at this
                  cases hxk : x.kind <;> simp [hxk] at this
                  rfl
                rcases hx with rfl | hx
                · rw [hkstep] at hxf; cases hxf
                · have hd := (mem_descendants s2 k x).1 hx
                  rw [hsk2] at hd
                  obtain ⟨c', d', hrow, hne, hcc⟩ := hd.row
                  have hxk : x ≠ k := by intro he; rw [he, hkstep] at hxf; cases hxf
                  obtain ⟨m, hm, he⟩ := mem_skel (mem_setRow_ne hrow hxk)
                  have hmk : m.key = x := congrArg (·.1) he
                  have hmc : m.creator = some c' := congrArg (·.2.1) he
                  have hfm : s.find? x = some m := by
                    have := find?_of_mem hk hm
                    rw [hmk] at this; exact this
                  have hcP : c' = n'.key := by
                    have := (hS.own dp hdm (by rw [hsrc]; exact hs') m (by rw [hsnk]; exact hfm)).1 c' hmc
                    rw [this, hsrc]
                  rw [← hcP]
                  rcases hcc with rfl | hcc
                  · exact hkin
                  · exact hsteps c' hcc (by rw [hcP]; exact hs')

end StepupModel.K.Discipline
