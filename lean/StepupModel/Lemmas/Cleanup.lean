import StepupModel.K.Workflow
import StepupModel.Lemmas.ForIn
/-!
# Helper lemmas about the cleanup part of the kernel model
(`queueDelete`, `beforeDelete`, `deletePass`, `deleteDetachedBase`, `deleteDetached`,
`revertOptional`).  No property statements here.
-/
namespace StepupModel.K
open StepupModel.Lemmas

/-- An entry of `to_be_deleted` that stands for a directory: key with trailing slash, no hash. -/
def IsDirEntry (e : String × Option Nat) : Prop := ∃ d : String, e = (d ++ "/", none)

/-- The columns of a row that cleanup decisions read (everything but scheduling flags and the
stored step hash). -/
abbrev Core := Key × Option Key × Bool × FileState × Option Nat

def Node.core (n : Node) : Core := (n.key, n.creator, n.detached, n.fstate, n.fhash)

def KState.cores (s : KState) : List Core := s.nodes.map Node.core

@[simp] theorem Node.core_key (n : Node) : n.core.1 = n.key := rfl
@[simp] theorem Node.core_creator (n : Node) : n.core.2.1 = n.creator := rfl
@[simp] theorem Node.core_detached (n : Node) : n.core.2.2.1 = n.detached := rfl
@[simp] theorem Node.core_fstate (n : Node) : n.core.2.2.2.1 = n.fstate := rfl
@[simp] theorem Node.core_fhash (n : Node) : n.core.2.2.2.2 = n.fhash := rfl

/-- The entry that `File.before_delete` (or `revert_optional_steps`) queues for a file row with
cleanup columns `c`: only for VOLATILE / BUILT / OUTDATED rows; without a hash exactly for
VOLATILE; otherwise with the recorded hash of the row. -/
def FileEntryOf (c : Core) (e : String × Option Nat) : Prop :=
  c.1.kind = .file ∧ e.1 = c.1.label ∧
    (c.2.2.2.1 = .volatile ∨ c.2.2.2.1 = .built ∨ c.2.2.2.1 = .outdated) ∧
    (e.2 = none ↔ c.2.2.2.1 = .volatile) ∧ (∀ h, e.2 = some h → c.2.2.2.2 = some h)

/-- Paths that deleting the row with cleanup columns `c` must put into the queue: the path of the
file itself when the row has a usable record (`FileEntryOf`), and the key of its parent directory. -/
def MustQueue (c : Core) (p : String) : Prop :=
  (∃ e, FileEntryOf c e ∧ e.1 = p) ∨
  (c.1.kind = .file ∧ ¬ (parentDir c.1.label = "" ∨ parentDir c.1.label = ".") ∧ p = parentDir c.1.label ++ "/")

theorem mem_queueDelete (s : KState) (p : String) (h : Option Nat) (e : String × Option Nat)
    (he : e ∈ (s.queueDelete p h).toBeDeleted) : e ∈ s.toBeDeleted ∨ e = (p, h) := by
  unfold KState.queueDelete at he
  simp only [List.mem_append, List.mem_filter, List.mem_singleton] at he
  rcases he with ⟨h1, _⟩ | h2
  · exact Or.inl h1
  · exact Or.inr h2

theorem queueDelete_keeps_paths (s : KState) (p : String) (h : Option Nat) (e : String × Option Nat)
    (he : e ∈ s.toBeDeleted) : ∃ e' ∈ (s.queueDelete p h).toBeDeleted, e'.1 = e.1 := by
  unfold KState.queueDelete
  by_cases hp : e.1 = p
  · exact ⟨(p, h), by simp, hp.symm⟩
  · exact ⟨e, by simp [he, hp], rfl⟩

theorem mem_queueDelete_self (s : KState) (p : String) (h : Option Nat) :
    (p, h) ∈ (s.queueDelete p h).toBeDeleted := by
  unfold KState.queueDelete; simp

@[simp] theorem queueDelete_nodes (s : KState) (p : String) (h : Option Nat) :
    (s.queueDelete p h).nodes = s.nodes := rfl
@[simp] theorem queueDelete_deps (s : KState) (p : String) (h : Option Nat) :
    (s.queueDelete p h).deps = s.deps := rfl

theorem mem_markDir (s : KState) (d : String) (e : String × Option Nat)
    (he : e ∈ (s.markDirToBeDeleted d).toBeDeleted) : e ∈ s.toBeDeleted ∨ IsDirEntry e := by
  unfold KState.markDirToBeDeleted at he
  split at he
  · exact Or.inl he
  · rcases mem_queueDelete _ _ _ _ he with h1 | h2
    · exact Or.inl h1
    · exact Or.inr ⟨d, h2⟩

theorem markDir_keeps_paths (s : KState) (d : String) (e : String × Option Nat)
    (he : e ∈ s.toBeDeleted) : ∃ e' ∈ (s.markDirToBeDeleted d).toBeDeleted, e'.1 = e.1 := by
  unfold KState.markDirToBeDeleted
  split
  · exact ⟨e, he, rfl⟩
  · exact queueDelete_keeps_paths _ _ _ _ he

theorem markDir_self (s : KState) (d : String) (h : ¬ (d = "" ∨ d = ".")) :
    (d ++ "/", none) ∈ (s.markDirToBeDeleted d).toBeDeleted := by
  unfold KState.markDirToBeDeleted
  rw [if_neg h]
  exact mem_queueDelete_self _ _ _

@[simp] theorem markDir_nodes (s : KState) (d : String) : (s.markDirToBeDeleted d).nodes = s.nodes := by
  unfold KState.markDirToBeDeleted; split <;> rfl
@[simp] theorem markDir_deps (s : KState) (d : String) : (s.markDirToBeDeleted d).deps = s.deps := by
  unfold KState.markDirToBeDeleted; split <;> rfl

theorem queue_then_mark (s : KState) (p d : String) (h : Option Nat) :
    ∃ e' ∈ ((s.queueDelete p h).markDirToBeDeleted d).toBeDeleted, e'.1 = p := by
  obtain ⟨e2, he2, h2⟩ := markDir_keeps_paths (s.queueDelete p h) d (p, h) (mem_queueDelete_self s p h)
  exact ⟨e2, he2, h2⟩

/-- `File.before_delete` / `Step.before_delete`: rows and edges untouched; the queue grows by
directory entries and at most one file entry, which is the one of the deleted row; the path of a
VOLATILE / BUILT / OUTDATED row with a usable record is queued. -/
theorem beforeDelete_spec (s s' : KState) (n : Node) (h : s.beforeDelete n = .ok s') :
    s'.nodes = s.nodes ∧ s'.deps = s.deps ∧
      (∀ e ∈ s'.toBeDeleted, e ∈ s.toBeDeleted ∨ IsDirEntry e ∨ FileEntryOf n.core e) ∧
      (∀ e ∈ s.toBeDeleted, ∃ e' ∈ s'.toBeDeleted, e'.1 = e.1) ∧
      (∀ p, MustQueue n.core p → ∃ e' ∈ s'.toBeDeleted, e'.1 = p) := by
  unfold KState.beforeDelete at h
  cases hk : n.key.kind with
  | root => simp [hk] at h
  | st =>
    simp [hk, pure, Except.pure] at h; subst h
    exact ⟨rfl, rfl, fun e he => Or.inl he, fun e he => ⟨e, he, rfl⟩,
      fun p hp => by
        rcases hp with ⟨e, he, _⟩ | ⟨hkf, _, _⟩
        · exact absurd he.1 (by simp [hk])
        · exact absurd hkf (by simp [hk])⟩
  | step =>
    simp only [hk, pure, Except.pure, Except.ok.injEq] at h; subst h
    refine ⟨by simp, by simp, fun e he => ?_, fun e he => markDir_keeps_paths _ _ _ he,
      fun p hp => by
        rcases hp with ⟨e, he, _⟩ | ⟨hkf, _, _⟩
        · exact absurd he.1 (by simp [hk])
        · exact absurd hkf (by simp [hk])⟩
    rcases mem_markDir _ _ _ he with h1 | h2
    · exact Or.inl h1
    · exact Or.inr (Or.inl h2)
  | file =>
    simp only [hk, pure, Except.pure, Except.ok.injEq] at h; subst h
    -- the branches that queue nothing but the parent directory
    have plain : ∀ (_ : ¬ ∃ e, FileEntryOf n.core e),
        (s.markDirToBeDeleted (parentDir n.key.label)).nodes = s.nodes ∧
        (s.markDirToBeDeleted (parentDir n.key.label)).deps = s.deps ∧
        (∀ e ∈ (s.markDirToBeDeleted (parentDir n.key.label)).toBeDeleted,
          e ∈ s.toBeDeleted ∨ IsDirEntry e ∨ FileEntryOf n.core e) ∧
        (∀ e ∈ s.toBeDeleted, ∃ e' ∈ (s.markDirToBeDeleted (parentDir n.key.label)).toBeDeleted, e'.1 = e.1) ∧
        (∀ p, MustQueue n.core p → ∃ e' ∈ (s.markDirToBeDeleted (parentDir n.key.label)).toBeDeleted, e'.1 = p) := by
      intro hno
      refine ⟨by simp, by simp, fun e he => ?_, fun e he => markDir_keeps_paths _ _ _ he, fun p hp => ?_⟩
      · rcases mem_markDir _ _ _ he with h1 | h2
        · exact Or.inl h1
        · exact Or.inr (Or.inl h2)
      · rcases hp with ⟨e, he, _⟩ | ⟨_, hnd, hp⟩
        · exact absurd ⟨e, he⟩ hno
        · exact ⟨_, markDir_self s _ hnd, hp.symm⟩
    -- the branches that queue the file with record `r`
    have queued : ∀ (r : Option Nat) (_ : FileEntryOf n.core (n.key.label, r)),
        ((s.queueDelete n.key.label r).markDirToBeDeleted (parentDir n.key.label)).nodes = s.nodes ∧
        ((s.queueDelete n.key.label r).markDirToBeDeleted (parentDir n.key.label)).deps = s.deps ∧
        (∀ e ∈ ((s.queueDelete n.key.label r).markDirToBeDeleted (parentDir n.key.label)).toBeDeleted,
          e ∈ s.toBeDeleted ∨ IsDirEntry e ∨ FileEntryOf n.core e) ∧
        (∀ e ∈ s.toBeDeleted, ∃ e' ∈ ((s.queueDelete n.key.label r).markDirToBeDeleted (parentDir n.key.label)).toBeDeleted, e'.1 = e.1) ∧
        (∀ p, MustQueue n.core p → ∃ e' ∈ ((s.queueDelete n.key.label r).markDirToBeDeleted (parentDir n.key.label)).toBeDeleted, e'.1 = p) := by
      intro r hr
      refine ⟨by simp, by simp, fun e he => ?_, fun e he => ?_, fun p hp => ?_⟩
      · rcases mem_markDir _ _ _ he with h1 | h2
        · rcases mem_queueDelete _ _ _ _ h1 with h3 | h4
          · exact Or.inl h3
          · exact Or.inr (Or.inr (h4 ▸ hr))
        · exact Or.inr (Or.inl h2)
      · obtain ⟨e1, he1, h1⟩ := queueDelete_keeps_paths s n.key.label r e he
        obtain ⟨e2, he2, h2⟩ := markDir_keeps_paths _ (parentDir n.key.label) e1 he1
        exact ⟨e2, he2, h2.trans h1⟩
      · rcases hp with ⟨e, he, hep⟩ | ⟨_, hnd, hp⟩
        · obtain ⟨e2, he2, h2⟩ := queue_then_mark s n.key.label (parentDir n.key.label) r
          exact ⟨e2, he2, h2.trans (he.2.1.symm.trans hep)⟩
        · exact ⟨_, markDir_self _ _ hnd, hp.symm⟩
    cases hst : n.fstate with
    | volatile =>
      exact queued none ⟨hk, rfl, Or.inl hst, by simp [hst], by simp⟩
    | built =>
      cases hh : n.fhash with
      | none =>
        refine plain ?_
        rintro ⟨e, _, _, _, h4, h5⟩
        simp only [Node.core_fstate, Node.core_fhash] at h4 h5
        cases he2 : e.2 with
        | none => simp [he2, hst] at h4
        | some v => have := h5 v he2; simp [hh] at this
      | some v =>
        exact queued (some v) ⟨hk, rfl, Or.inr (Or.inl hst), by simp [hst], by simp [hh]⟩
    | outdated =>
      cases hh : n.fhash with
      | none =>
        refine plain ?_
        rintro ⟨e, _, _, _, h4, h5⟩
        simp only [Node.core_fstate, Node.core_fhash] at h4 h5
        cases he2 : e.2 with
        | none => simp [he2, hst] at h4
        | some v => have := h5 v he2; simp [hh] at this
      | some v =>
        exact queued (some v) ⟨hk, rfl, Or.inr (Or.inr hst), by simp [hst], by simp [hh]⟩
    | undeclared | unconfirmed | missing | confirmed | planned =>
      refine plain ?_
      rintro ⟨e, _, _, h3, _, _⟩
      simp [hst] at h3

theorem cores_modifyWhere (s : KState) (p : Node → Bool) (f : Node → Node) (hf : ∀ n, (f n).core = n.core) :
    (s.modifyWhere p f).cores = s.cores := by
  unfold KState.modifyWhere KState.cores
  simp only [List.map_map]
  apply List.map_congr_left
  intro n _
  simp only [Function.comp]
  split <;> simp [hf]

theorem cores_modify (s : KState) (k : Key) (f : Node → Node) (hf : ∀ n, (f n).core = n.core) :
    (s.modify k f).cores = s.cores := by
  unfold KState.modify KState.cores
  simp only [List.map_map]
  apply List.map_congr_left
  intro n _
  simp only [Function.comp]
  split <;> simp [hf]

theorem flagDepEndpoints_spec (s : KState) (a b : Key) :
    (s.flagDepEndpoints a b).cores = s.cores ∧ (s.flagDepEndpoints a b).deps = s.deps ∧
      (s.flagDepEndpoints a b).toBeDeleted = s.toBeDeleted := by
  refine ⟨?_, rfl, rfl⟩
  unfold KState.flagDepEndpoints
  exact cores_modifyWhere _ _ _ (fun n => rfl)

theorem foldl_flag_spec (l : List Dep) (s : KState) :
    (l.foldl (fun s d => s.flagDepEndpoints d.src d.snk) s).cores = s.cores ∧
    (l.foldl (fun s d => s.flagDepEndpoints d.src d.snk) s).deps = s.deps ∧
    (l.foldl (fun s d => s.flagDepEndpoints d.src d.snk) s).toBeDeleted = s.toBeDeleted := by
  induction l generalizing s with
  | nil => exact ⟨rfl, rfl, rfl⟩
  | cons d ds ih =>
    simp only [List.foldl_cons]
    obtain ⟨h1, h2, h3⟩ := ih (s.flagDepEndpoints d.src d.snk)
    obtain ⟨g1, g2, g3⟩ := flagDepEndpoints_spec s d.src d.snk
    exact ⟨h1.trans g1, h2.trans g2, h3.trans g3⟩

theorem deleteDeps_spec (s : KState) (p : Dep → Bool) :
    (s.deleteDeps p).cores = s.cores ∧ (s.deleteDeps p).deps = s.deps.filter (fun d => !p d) ∧
      (s.deleteDeps p).toBeDeleted = s.toBeDeleted := by
  unfold KState.deleteDeps
  simp only
  obtain ⟨h1, h2, h3⟩ := foldl_flag_spec (s.deps.filter p)
    { nodes := s.nodes, deps := s.deps.filter fun d => !p d, toBeDeleted := s.toBeDeleted }
  exact ⟨h1, h2, h3⟩


/-- "Detached, no products, no outgoing dependency", read off the cleanup columns. -/
def isLeaf (cs : List Core) (deps : List Dep) (c : Core) : Bool :=
  decide (c.2.2.1 = true ∧ (cs.all (fun m => !(decide (m.2.1 = some c.1 ∧ m.1 ≠ c.1)))) = true ∧
    (!deps.any (fun d => d.src = c.1)) = true)

theorem products_isEmpty (s : KState) (k : Key) :
    (s.products k).isEmpty = s.cores.all (fun m => !(decide (m.2.1 = some k ∧ m.1 ≠ k))) := by
  unfold KState.products KState.cores
  rw [List.all_map]
  induction s.nodes with
  | nil => rfl
  | cons a as ih =>
    simp only [List.filter_cons, List.all_cons, Function.comp, Node.core]
    by_cases h : a.creator = some k ∧ a.key ≠ k
    · simp [h]
    · simp only [h, decide_false, Bool.false_eq_true, if_false, Bool.not_false, Bool.true_and]
      exact ih

/-- The candidates of one pass of `Trellis.delete_detached`. -/
def KState.cands (s : KState) : List Node := s.nodes.filter fun n =>
    n.detached ∧ (s.products n.key).isEmpty ∧ !(s.deps.any fun d => d.src = n.key)

theorem cands_eq (s : KState) : s.cands = s.nodes.filter (fun n => isLeaf s.cores s.deps n.core) := by
  unfold KState.cands
  apply List.filter_congr
  intro n _
  rw [products_isEmpty]
  rfl

def passBody (n : Node) (b : KState × List Key) : M (ForInStep (KState × List Key)) :=
  let st := b.1.deleteDeps fun d => d.snk = n.key
  do
    let st ← st.beforeDelete n
    let st : KState := { st with nodes := st.nodes.filter (·.key ≠ n.key) }
    let creators := b.2.filter (· ≠ n.key)
    match n.creator with
    | some c => pure (ForInStep.yield (st, (creators.filter (· ≠ c)) ++ [c]))
    | none => pure (ForInStep.yield (st, creators))

theorem deletePass_eq (s : KState) : s.deletePass = (do
    let r ← forIn s.cands (s, ([] : List Key)) passBody
    pure (r.1, r.2, !s.cands.isEmpty)) := rfl

theorem filter_cores (l : List Node) (k : Key) :
    (l.filter (·.key ≠ k)).map Node.core = (l.map Node.core).filter (fun c => c.1 ≠ k) := by
  rw [List.filter_map]
  rfl

/-- One deletion of `Trellis.delete_detached`. -/
theorem passBody_spec (n : Node) (b : KState × List Key) (r : ForInStep (KState × List Key))
    (h : passBody n b = .ok r) :
    ∃ st' cs', r = .yield (st', cs') ∧
      st'.cores = b.1.cores.filter (fun c => c.1 ≠ n.key) ∧
      st'.deps = b.1.deps.filter (fun d => !decide (d.snk = n.key)) ∧
      (∀ e ∈ st'.toBeDeleted, e ∈ b.1.toBeDeleted ∨ IsDirEntry e ∨ FileEntryOf n.core e) ∧
      (∀ e ∈ b.1.toBeDeleted, ∃ e' ∈ st'.toBeDeleted, e'.1 = e.1) ∧
      (∀ p, MustQueue n.core p → ∃ e' ∈ st'.toBeDeleted, e'.1 = p) ∧
      (∀ x, x ∈ cs' ↔ (x ∈ b.2 ∧ x ≠ n.key) ∨ n.creator = some x) := by
  unfold passBody at h
  simp only at h
  cases hb : (b.1.deleteDeps fun d => decide (d.snk = n.key)).beforeDelete n with
  | error e => simp [hb, bind, Except.bind] at h
  | ok st1 =>
    obtain ⟨hc, hd, hq⟩ := deleteDeps_spec b.1 (fun d => decide (d.snk = n.key))
    obtain ⟨hn1, hd1, hq1, hk1, hf1⟩ := beforeDelete_spec _ _ _ hb
    simp only [hb, bind, Except.bind] at h
    have hcores : ({ st1 with nodes := st1.nodes.filter (·.key ≠ n.key) } : KState).cores =
        b.1.cores.filter (fun c => c.1 ≠ n.key) := by
      show (st1.nodes.filter (·.key ≠ n.key)).map Node.core = _
      rw [filter_cores, hn1]
      show (KState.cores _).filter _ = _
      rw [hc]
    have hqueue : ∀ e ∈ st1.toBeDeleted, e ∈ b.1.toBeDeleted ∨ IsDirEntry e ∨ FileEntryOf n.core e := by
      intro e he
      rcases hq1 e he with h1 | h2
      · rw [hq] at h1; exact Or.inl h1
      · exact Or.inr h2
    have hkeep : ∀ e ∈ b.1.toBeDeleted, ∃ e' ∈ st1.toBeDeleted, e'.1 = e.1 := by
      intro e he
      exact hk1 e (by rw [hq]; exact he)
    cases hcr : n.creator with
    | none =>
      simp only [hcr, pure, Except.pure, Except.ok.injEq] at h
      refine ⟨_, _, h.symm, hcores, by simp [hd1, hd], hqueue, hkeep, hf1, ?_⟩
      intro x; simp
    | some c =>
      simp only [hcr, pure, Except.pure, Except.ok.injEq] at h
      refine ⟨_, _, h.symm, hcores, by simp [hd1, hd], hqueue, hkeep, hf1, ?_⟩
      intro x
      simp only [List.mem_append, List.mem_filter, List.mem_singleton, Option.some.injEq, decide_eq_true_eq]
      constructor
      · rintro (⟨⟨h1, h2⟩, _⟩ | h3)
        · exact Or.inl ⟨h1, by simpa using h2⟩
        · exact Or.inr h3.symm
      · rintro (⟨h1, h2⟩ | h3)
        · by_cases hx : x = c
          · exact Or.inr hx
          · exact Or.inl ⟨⟨h1, by simpa using h2⟩, by simpa using hx⟩
        · exact Or.inr h3.symm


/-- What one pass of the deletion loop does, in terms of its candidates. -/
structure PassSpec (s s' : KState) (pre : List Node) (cs : List Key) : Prop where
  cores : s'.cores = s.cores.filter (fun c => pre.all (fun a => c.1 ≠ a.key))
  deps : s'.deps = s.deps.filter (fun d => pre.all (fun a => d.snk ≠ a.key))
  queue : ∀ e ∈ s'.toBeDeleted, e ∈ s.toBeDeleted ∨ IsDirEntry e ∨ ∃ a ∈ pre, FileEntryOf a.core e
  keep : ∀ e ∈ s.toBeDeleted, ∃ e' ∈ s'.toBeDeleted, e'.1 = e.1
  complete : ∀ a ∈ pre, ∀ p, MustQueue a.core p → ∃ e' ∈ s'.toBeDeleted, e'.1 = p
  creators_sound : ∀ x ∈ cs, ∃ a ∈ pre, a.creator = some x
  creators_complete : ∀ a ∈ pre, ∀ x, a.creator = some x → (∀ a' ∈ pre, a'.key ≠ x) → x ∈ cs

theorem deletePass_spec (s s' : KState) (cs : List Key) (b : Bool) (h : s.deletePass = .ok (s', cs, b)) :
    b = !s.cands.isEmpty ∧ PassSpec s s' s.cands cs := by
  rw [deletePass_eq] at h
  cases hl : forIn s.cands (s, ([] : List Key)) passBody with
  | error e => simp [hl, bind, Except.bind] at h
  | ok r =>
    simp only [hl, bind, Except.bind, pure, Except.pure, Except.ok.injEq, Prod.mk.injEq] at h
    obtain ⟨h1, h2, h3⟩ := h
    subst h1 h2 h3
    refine ⟨rfl, ?_⟩
    refine forIn_except_inv_prefix s.cands passBody (fun pre b => PassSpec s b.1 pre b.2) (s, []) r ?_ ?_ hl
    · exact
        { cores := (List.filter_eq_self.2 (fun _ _ => rfl)).symm
          deps := (List.filter_eq_self.2 (fun _ _ => rfl)).symm
          queue := fun e he => Or.inl he
          keep := fun e he => ⟨e, he, rfl⟩
          complete := fun a ha => by simp at ha
          creators_sound := fun x hx => by simp at hx
          creators_complete := fun a ha => by simp at ha }
    · intro pre a post b r' _ hI hf
      obtain ⟨st', cs', hr, hc, hd, hq, hk, hcm, hcs⟩ := passBody_spec a b r' hf
      refine ⟨(st', cs'), hr, ?_⟩
      exact
        { cores := by
            show st'.cores = _
            rw [hc, hI.cores, List.filter_filter]
            apply List.filter_congr
            intro c _
            simp [List.all_append, Bool.and_comm]
          deps := by
            show st'.deps = _
            rw [hd, hI.deps, List.filter_filter]
            apply List.filter_congr
            intro d _
            simp [List.all_append, Bool.and_comm]
          queue := by
            intro e he
            rcases hq e he with h1 | h2 | h3
            · rcases hI.queue e h1 with g1 | g2 | ⟨a', ha', g3⟩
              · exact Or.inl g1
              · exact Or.inr (Or.inl g2)
              · exact Or.inr (Or.inr ⟨a', by simp [ha'], g3⟩)
            · exact Or.inr (Or.inl h2)
            · exact Or.inr (Or.inr ⟨a, by simp, h3⟩)
          keep := by
            intro e he
            obtain ⟨e1, he1, h1⟩ := hI.keep e he
            obtain ⟨e2, he2, h2⟩ := hk e1 he1
            exact ⟨e2, he2, h2.trans h1⟩
          complete := by
            intro a' ha' e he
            simp only [List.mem_append, List.mem_singleton] at ha'
            rcases ha' with ha' | rfl
            · obtain ⟨e1, he1, h1⟩ := hI.complete a' ha' e he
              obtain ⟨e2, he2, h2⟩ := hk e1 he1
              exact ⟨e2, he2, h2.trans h1⟩
            · exact hcm e he
          creators_sound := by
            intro x hx
            rcases (hcs x).1 hx with ⟨h1, _⟩ | h2
            · obtain ⟨a', ha', g⟩ := hI.creators_sound x h1
              exact ⟨a', by simp [ha'], g⟩
            · exact ⟨a, by simp, h2⟩
          creators_complete := by
            intro a' ha' x hx hnot
            simp only [List.mem_append, List.mem_singleton] at ha'
            rcases ha' with ha' | rfl
            · refine (hcs x).2 (Or.inl ⟨?_, ?_⟩)
              · exact hI.creators_complete a' ha' x hx (fun a'' ha'' => hnot a'' (by simp [ha'']))
              · exact fun hxa => hnot a (by simp) hxa.symm
            · exact (hcs x).2 (Or.inr hx) }



def KState.hasKey (s : KState) (k : Key) : Prop := ∃ c ∈ s.cores, c.1 = k

theorem has_iff (s : KState) (k : Key) : s.has k = true ↔ s.hasKey k := by
  unfold KState.has KState.find? KState.hasKey KState.cores
  rw [List.find?_isSome]
  constructor
  · rintro ⟨n, hn, hk⟩
    exact ⟨n.core, List.mem_map.2 ⟨n, hn, rfl⟩, by simpa using hk⟩
  · rintro ⟨c, hc, hk⟩
    obtain ⟨n, hn, rfl⟩ := List.mem_map.1 hc
    exact ⟨n, hn, by simpa using hk⟩

/-- Keys are unique (they are in the database: `UNIQUE(kind, label)`). -/
def KeysNodup (s : KState) : Prop := (s.cores.map (·.1)).Nodup

theorem nodup_map_inj {α β : Type} (f : α → β) (l : List α) (hn : (l.map f).Nodup) (a b : α)
    (ha : a ∈ l) (hb : b ∈ l) (h : f a = f b) : a = b := by
  induction l with
  | nil => cases ha
  | cons x xs ih =>
    simp only [List.map_cons, List.nodup_cons, List.mem_map, not_exists, not_and] at hn
    simp only [List.mem_cons] at ha hb
    rcases ha with rfl | ha <;> rcases hb with rfl | hb
    · rfl
    · exact absurd h.symm (hn.1 b hb)
    · exact absurd h (hn.1 a ha)
    · exact ih hn.2 ha hb

theorem core_unique (s : KState) (hn : KeysNodup s) (c c' : Core) (hc : c ∈ s.cores) (hc' : c' ∈ s.cores)
    (hk : c.1 = c'.1) : c = c' :=
  nodup_map_inj (fun (x : Core) => x.1) s.cores hn c c' hc hc' hk

def baseBody (_x : Nat) (b : KState × List Key) : M (ForInStep (KState × List Key)) := do
  let r ← b.1.deletePass
  match r with
  | (st', cs, some_) =>
    let creators := b.2.filter fun c => st'.has c ∨ cs.contains c
    let creators := creators.filter (fun c => !cs.contains c) ++ cs
    if !some_ then pure (.done (st', creators)) else pure (.yield (st', creators))

def lostBody (c : Key) (st : KState) : M (ForInStep KState) :=
  if st.has c then do
    let st ← st.afterLostProduct c
    pure (.yield st)
  else pure (.yield st)

theorem deleteDetachedBase_eq (s : KState) : s.deleteDetachedBase =
    (forIn (List.range (s.nodes.length + 1)) (s, ([] : List Key)) baseBody >>= fun r =>
      (forIn r.2 r.1 lostBody >>= fun r2 => pure r2)) := rfl

theorem all_ne_contains (l : List Node) (k : Key) :
    l.all (fun a => decide (k ≠ a.key)) = !(l.map (·.key)).contains k := by
  induction l with
  | nil => rfl
  | cons a as ih =>
    simp only [List.all_cons, List.map_cons, List.contains_cons, Bool.not_or, ih]
    congr 1
    by_cases h : k = a.key <;> simp [h]

/-- No candidate for deletion is left. -/
def NoLeaf (s : KState) : Prop := ∀ c ∈ s.cores, isLeaf s.cores s.deps c = false

theorem noLeaf_of_cands_nil (s : KState) (h : s.cands = []) : NoLeaf s := by
  intro c hc
  obtain ⟨n, hn, rfl⟩ := List.mem_map.1 hc
  rw [cands_eq] at h
  have := List.filter_eq_nil_iff.1 h n hn
  simpa using this

theorem mem_cands_products (s : KState) (a : Node) (ha : a ∈ s.cands) :
    ∀ m ∈ s.cores, ¬ (m.2.1 = some a.key ∧ m.1 ≠ a.key) := by
  rw [cands_eq, List.mem_filter] at ha
  obtain ⟨_, hl⟩ := ha
  unfold isLeaf at hl
  simp only [decide_eq_true_eq] at hl
  intro m hm
  have := List.all_eq_true.1 hl.2.1 m hm
  intro hc
  simp only [Node.core_key, Bool.not_eq_true'] at this
  exact (decide_eq_false_iff_not.1 this) hc

theorem mem_cands (s : KState) (a : Node) (ha : a ∈ s.cands) :
    a ∈ s.nodes ∧ a.core ∈ s.cores ∧ a.detached = true ∧ (∀ d ∈ s.deps, d.src ≠ a.key) := by
  rw [cands_eq, List.mem_filter] at ha
  obtain ⟨hm, hl⟩ := ha
  unfold isLeaf at hl
  simp only [decide_eq_true_eq] at hl
  refine ⟨hm, List.mem_map.2 ⟨a, hm, rfl⟩, hl.1, ?_⟩
  intro d hd hsrc
  have := hl.2.2
  simp only [Bool.not_eq_true', List.any_eq_false] at this
  exact this d hd (decide_eq_true hsrc)

/-- A node that the deletion loop must reach: every row with this key is detached, and all its
products and all its dependency sinks are themselves deletable.  (Well-founded: no attached node
and no cycle of creator and dependency edges is reachable from it.) -/
inductive Deletable (s : KState) : Key → Prop
  | mk (k : Key) (hdet : ∀ c ∈ s.cores, c.1 = k → c.2.2.1 = true)
      (hp : ∀ c ∈ s.cores, c.2.1 = some k → c.1 ≠ k → Deletable s c.1)
      (hs : ∀ d ∈ s.deps, d.src = k → Deletable s d.snk) : Deletable s k

/-- Every dependency edge ends in an existing node (foreign key of the `dependency` table). -/
def SinksExist (s : KState) : Prop := ∀ d ∈ s.deps, s.hasKey d.snk

/-- Invariant of the deletion loop, relative to the state `s0` it started from: `D` are the keys
deleted so far, `cs` the remembered creators. -/
structure BaseInv (s0 st : KState) (cs D : List Key) : Prop where
  cores : st.cores = s0.cores.filter (fun c => !D.contains c.1)
  deps : st.deps = s0.deps.filter (fun d => !D.contains d.snk)
  src_alive : ∀ d ∈ st.deps, ¬ d.src ∈ D
  leafs : ∀ k ∈ D, ∃ c ∈ s0.cores, c.1 = k ∧ c.2.2.1 = true
  queue : ∀ e ∈ st.toBeDeleted, e ∈ s0.toBeDeleted ∨ IsDirEntry e ∨
    ∃ c ∈ s0.cores, c.1 ∈ D ∧ c.2.2.1 = true ∧ FileEntryOf c e
  keep : ∀ e ∈ s0.toBeDeleted, ∃ e' ∈ st.toBeDeleted, e'.1 = e.1
  complete : KeysNodup s0 → ∀ c ∈ s0.cores, c.1 ∈ D → ∀ p, MustQueue c p → ∃ e' ∈ st.toBeDeleted, e'.1 = p
  creators : KeysNodup s0 → ∀ c ∈ s0.cores, c.1 ∈ D → ∀ x, c.2.1 = some x → st.hasKey x → x ∈ cs
  deletable : KeysNodup s0 → ∀ k ∈ D, Deletable s0 k

theorem baseInv_init (s : KState) : BaseInv s s [] [] where
  cores := (List.filter_eq_self.2 (fun _ _ => rfl)).symm
  deps := (List.filter_eq_self.2 (fun _ _ => rfl)).symm
  src_alive := fun _ _ h => by simp at h
  leafs := fun _ h => by simp at h
  queue := fun e he => Or.inl he
  keep := fun e he => ⟨e, he, rfl⟩
  complete := fun _ _ _ h => by simp at h
  creators := fun _ _ _ h => by simp at h
  deletable := fun _ _ h => by simp at h

theorem baseInv_sub (s0 st : KState) (cs D : List Key) (h : BaseInv s0 st cs D) :
    ∀ c ∈ st.cores, c ∈ s0.cores := by
  intro c hc
  rw [h.cores] at hc
  exact (List.mem_filter.1 hc).1

def mergeCreators (st' : KState) (cs csp : List Key) : List Key :=
  ((cs.filter fun c => st'.has c ∨ csp.contains c).filter (fun c => !csp.contains c)) ++ csp

theorem mem_mergeCreators (st' : KState) (cs csp : List Key) (x : Key) :
    x ∈ mergeCreators st' cs csp ↔ x ∈ csp ∨ (x ∈ cs ∧ st'.hasKey x) := by
  unfold mergeCreators
  simp only [List.mem_append, List.mem_filter, Bool.decide_or, Bool.decide_eq_true, Bool.or_eq_true,
    Bool.not_eq_true', List.contains_eq_mem, decide_eq_true_eq, decide_eq_false_iff_not, has_iff]
  constructor
  · rintro (⟨⟨h1, h2⟩, h3⟩ | h4)
    · rcases h2 with h2 | h2
      · exact Or.inr ⟨h1, h2⟩
      · exact absurd h2 h3
    · exact Or.inl h4
  · rintro (h1 | ⟨h2, h3⟩)
    · exact Or.inr h1
    · by_cases hx : x ∈ csp
      · exact Or.inr hx
      · exact Or.inl ⟨⟨h2, Or.inl h3⟩, hx⟩

theorem baseInv_step (s0 st st' : KState) (cs D csp : List Key) (b : Bool) (h : BaseInv s0 st cs D)
    (hp : st.deletePass = .ok (st', csp, b)) :
    b = !st.cands.isEmpty ∧
    BaseInv s0 st' (mergeCreators st' cs csp) (D ++ st.cands.map (·.key)) := by
  obtain ⟨hb, ps⟩ := deletePass_spec st st' csp b hp
  refine ⟨hb, ?_⟩
  have hsub' : ∀ c ∈ st'.cores, c ∈ st.cores := by
    intro c hc; rw [ps.cores] at hc; exact (List.mem_filter.1 hc).1
  have hkey' : ∀ x, st'.hasKey x → st.hasKey x ∧ x ∉ st.cands.map (·.key) := by
    rintro x ⟨c, hc, rfl⟩
    rw [ps.cores, List.mem_filter, all_ne_contains] at hc
    refine ⟨⟨c, hc.1, rfl⟩, ?_⟩
    simpa using hc.2
  exact
    { cores := by
        rw [ps.cores, h.cores, List.filter_filter]
        apply List.filter_congr
        intro c _
        rw [all_ne_contains]
        simp [Bool.and_comm]
      deps := by
        rw [ps.deps, h.deps, List.filter_filter]
        apply List.filter_congr
        intro d _
        rw [all_ne_contains]
        simp [Bool.and_comm]
      src_alive := by
        intro d hd
        have hd0 : d ∈ st.deps := by rw [ps.deps] at hd; exact (List.mem_filter.1 hd).1
        simp only [List.mem_append, List.mem_map, not_or, not_exists, not_and]
        refine ⟨h.src_alive d hd0, ?_⟩
        intro a ha hk
        exact (mem_cands st a ha).2.2.2 d hd0 hk.symm
      leafs := by
        intro k hk
        simp only [List.mem_append, List.mem_map] at hk
        rcases hk with hk | ⟨a, ha, rfl⟩
        · exact h.leafs k hk
        · obtain ⟨_, hc, hdet, _⟩ := mem_cands st a ha
          exact ⟨a.core, baseInv_sub s0 st cs D h _ hc, rfl, hdet⟩
      queue := by
        intro e he
        rcases ps.queue e he with h1 | h2 | ⟨a, ha, h3⟩
        · rcases h.queue e h1 with g1 | g2 | ⟨c, hc, hcD, hdet, g3⟩
          · exact Or.inl g1
          · exact Or.inr (Or.inl g2)
          · exact Or.inr (Or.inr ⟨c, hc, by simp [hcD], hdet, g3⟩)
        · exact Or.inr (Or.inl h2)
        · obtain ⟨_, hc, hdet, _⟩ := mem_cands st a ha
          refine Or.inr (Or.inr ⟨a.core, baseInv_sub s0 st cs D h _ hc, ?_, hdet, h3⟩)
          simp only [List.mem_append, List.mem_map]
          exact Or.inr ⟨a, ha, rfl⟩
      keep := by
        intro e he
        obtain ⟨e1, he1, h1⟩ := h.keep e he
        obtain ⟨e2, he2, h2⟩ := ps.keep e1 he1
        exact ⟨e2, he2, h2.trans h1⟩
      complete := by
        intro hnd c hc hcD e hfe
        simp only [List.mem_append, List.mem_map] at hcD
        rcases hcD with hcD | ⟨a, ha, hak⟩
        · obtain ⟨e1, he1, h1⟩ := h.complete hnd c hc hcD e hfe
          obtain ⟨e2, he2, h2⟩ := ps.keep e1 he1
          exact ⟨e2, he2, h2.trans h1⟩
        · obtain ⟨_, hac, _, _⟩ := mem_cands st a ha
          have : a.core = c := core_unique s0 hnd _ _ (baseInv_sub s0 st cs D h _ hac) hc hak
          exact ps.complete a ha e (this ▸ hfe)
      creators := by
        intro hnd c hc hcD x hx hxk
        obtain ⟨hxst, hxn⟩ := hkey' x hxk
        rw [mem_mergeCreators]
        simp only [List.mem_append, List.mem_map] at hcD
        rcases hcD with hcD | ⟨a, ha, hak⟩
        · exact Or.inr ⟨h.creators hnd c hc hcD x hx hxst, hxk⟩
        · obtain ⟨_, hac, _, _⟩ := mem_cands st a ha
          have hca : a.core = c := core_unique s0 hnd _ _ (baseInv_sub s0 st cs D h _ hac) hc hak
          refine Or.inl (ps.creators_complete a ha x ?_ ?_)
          · rw [← hx, ← hca]; rfl
          · intro a' ha' hk
            exact hxn (List.mem_map.2 ⟨a', ha', hk⟩)
      deletable := by
        intro hnd k hk
        simp only [List.mem_append, List.mem_map] at hk
        rcases hk with hk | ⟨a, ha, rfl⟩
        · exact h.deletable hnd k hk
        · obtain ⟨_, hac, hdet, hnodep⟩ := mem_cands st a ha
          have hac0 := baseInv_sub s0 st cs D h _ hac
          refine Deletable.mk a.key ?_ ?_ ?_
          · intro c hc hck
            have : c = a.core := core_unique s0 hnd _ _ hc hac0 hck
            rw [this]; exact hdet
          · intro c hc hcr hne
            -- a product of `a` in `s0` is no longer in `st`, hence deleted earlier
            have hnot : c ∉ st.cores := fun hcs => mem_cands_products st a ha c hcs ⟨hcr, hne⟩
            have hcD : c.1 ∈ D := by
              rw [h.cores, List.mem_filter] at hnot
              have : ¬ ((!D.contains c.1) = true) := fun hh => hnot ⟨hc, hh⟩
              simpa using this
            exact h.deletable hnd c.1 hcD
          · intro d hd hsrc
            have hnot : d ∉ st.deps := fun hds => hnodep d hds hsrc
            have hdD : d.snk ∈ D := by
              rw [h.deps, List.mem_filter] at hnot
              have : ¬ ((!D.contains d.snk) = true) := fun hh => hnot ⟨hd, hh⟩
              simpa using this
            exact h.deletable hnd d.snk hdD }


theorem cores_length (s : KState) : s.cores.length = s.nodes.length := by
  unfold KState.cores; simp

theorem pass_shrinks (st st' : KState) (csp : List Key) (ps : PassSpec st st' st.cands csp)
    (hne : st.cands ≠ []) : st'.cores.length < st.cores.length := by
  rw [ps.cores]
  apply List.length_filter_lt_length_iff_exists.2
  obtain ⟨a, ha⟩ := List.exists_mem_of_ne_nil _ hne
  obtain ⟨_, hc, _, _⟩ := mem_cands st a ha
  refine ⟨a.core, hc, ?_⟩
  rw [all_ne_contains]
  simp only [Node.core_key, Bool.not_eq_true, Bool.not_eq_false', List.contains_eq_mem, decide_eq_true_eq]
  exact List.mem_map.2 ⟨a, ha, rfl⟩

theorem pass_nil (st st' : KState) (csp : List Key) (ps : PassSpec st st' st.cands csp)
    (hnil : st.cands = []) : st'.cores = st.cores ∧ st'.deps = st.deps := by
  refine ⟨?_, ?_⟩
  · rw [ps.cores, hnil]; exact List.filter_eq_self.2 (fun _ _ => rfl)
  · rw [ps.deps, hnil]; exact List.filter_eq_self.2 (fun _ _ => rfl)

theorem baseBody_spec (x : Nat) (b : KState × List Key) (r : ForInStep (KState × List Key))
    (h : baseBody x b = .ok r) :
    ∃ st' csp bb, b.1.deletePass = .ok (st', csp, bb) ∧
      ((bb = false ∧ r = .done (st', mergeCreators st' b.2 csp)) ∨
       (bb = true ∧ r = .yield (st', mergeCreators st' b.2 csp))) := by
  unfold baseBody at h
  cases hp : b.1.deletePass with
  | error e => simp [hp, bind, Except.bind] at h
  | ok res =>
    obtain ⟨st', csp, bb⟩ := res
    refine ⟨st', csp, bb, rfl, ?_⟩
    simp only [hp, bind, Except.bind] at h
    cases bb with
    | false =>
      simp only [Bool.not_false, if_true, pure, Except.pure, Except.ok.injEq] at h
      exact Or.inl ⟨rfl, h.symm⟩
    | true =>
      simp only [Bool.not_true, Bool.false_eq_true, if_false, pure, Except.pure, Except.ok.injEq] at h
      exact Or.inr ⟨rfl, h.symm⟩

/-- The deletion loop of `Trellis.delete_detached` ends through its `break`: with no candidate
left, never by running out of its `#nodes + 1` passes. -/
theorem baseLoop_spec (s : KState) (r : KState × List Key)
    (h : forIn (List.range (s.nodes.length + 1)) (s, ([] : List Key)) baseBody = .ok r) :
    ∃ D, BaseInv s r.1 r.2 D ∧ NoLeaf r.1 := by
  have := forIn_except_inv_idx (List.range (s.nodes.length + 1)) baseBody
    (fun k b => ∃ D, BaseInv s b.1 b.2 D ∧ b.1.cores.length + k ≤ s.cores.length)
    (fun b => ∃ D, BaseInv s b.1 b.2 D ∧ NoLeaf b.1) 0 (s, []) r
    ⟨[], baseInv_init s, by simp⟩ ?_ ?_ h
  · rcases this with hq | ⟨D, _, hlen⟩
    · exact hq
    · exfalso
      simp only [List.length_range, Nat.zero_add, cores_length] at hlen
      omega
  · intro k a b b' ⟨D, hI, hlen⟩ hf
    obtain ⟨st', csp, bb, hp, hr⟩ := baseBody_spec a b _ hf
    obtain ⟨hb, hI'⟩ := baseInv_step s b.1 st' b.2 D csp bb hI hp
    obtain ⟨_, ps⟩ := deletePass_spec b.1 st' csp bb hp
    rcases hr with ⟨_, hr⟩ | ⟨hbt, hr⟩
    · cases hr
    · simp only [ForInStep.yield.injEq] at hr
      subst hr
      refine ⟨_, hI', ?_⟩
      have hne : b.1.cands ≠ [] := by
        intro hnil; rw [hnil] at hb; simp [hbt] at hb
      have := pass_shrinks b.1 st' csp ps hne
      show st'.cores.length + (k + 1) ≤ s.cores.length
      omega
  · intro k a b b' ⟨D, hI, _⟩ hf
    obtain ⟨st', csp, bb, hp, hr⟩ := baseBody_spec a b _ hf
    obtain ⟨hb, hI'⟩ := baseInv_step s b.1 st' b.2 D csp bb hI hp
    obtain ⟨_, ps⟩ := deletePass_spec b.1 st' csp bb hp
    rcases hr with ⟨hbf, hr⟩ | ⟨_, hr⟩
    · simp only [ForInStep.done.injEq] at hr
      subst hr
      refine ⟨_, hI', ?_⟩
      have hnil : b.1.cands = [] := by
        rw [hbf] at hb
        cases hc : b.1.cands with
        | nil => rfl
        | cons x xs => rw [hc] at hb; simp at hb
      obtain ⟨h1, h2⟩ := pass_nil b.1 st' csp ps hnil
      have := noLeaf_of_cands_nil b.1 hnil
      intro c hc
      show isLeaf st'.cores st'.deps c = false
      rw [h1, h2]
      exact this c (h1 ▸ hc)
    · cases hr


theorem deleteHash_spec (s : KState) (k : Key) :
    (s.deleteHash k).cores = s.cores ∧ (s.deleteHash k).deps = s.deps ∧
    (s.deleteHash k).toBeDeleted = s.toBeDeleted ∧
    (∀ n' ∈ (s.deleteHash k).nodes, ∃ m ∈ s.nodes, m.key = n'.key ∧
      (m.key = k → n'.shash = none) ∧ (m.key ≠ k → n' = m)) := by
  refine ⟨?_, rfl, rfl, ?_⟩
  · unfold KState.deleteHash
    apply cores_modify
    intro n; split <;> rfl
  · intro n' hn'
    unfold KState.deleteHash KState.modify at hn'
    simp only [List.mem_map] at hn'
    obtain ⟨m, hm, rfl⟩ := hn'
    refine ⟨m, hm, ?_, ?_, ?_⟩
    · split
      · split <;> rfl
      · rfl
    · intro hk
      simp only [hk, if_true]
      split
      · rfl
      · rename_i hs
        cases hsh : m.shash with
        | none => rfl
        | some v => simp [hsh] at hs
    · intro hk
      simp [hk]

theorem lostBody_spec (c : Key) (st : KState) (r : ForInStep KState) (h : lostBody c st = .ok r) :
    ∃ st', r = .yield st' ∧ st'.cores = st.cores ∧ st'.deps = st.deps ∧ st'.toBeDeleted = st.toBeDeleted ∧
      (∀ n' ∈ st'.nodes, ∃ m ∈ st.nodes, m.key = n'.key ∧
        (m.key = c → c.kind = .step → n'.shash = none) ∧ (m.shash = none → n'.shash = none)) := by
  unfold lostBody at h
  by_cases hh : st.has c = true
  · simp only [hh, if_true] at h
    unfold KState.afterLostProduct at h
    cases hk : c.kind with
    | step =>
      simp only [hk, bind, Except.bind, pure, Except.pure, Except.ok.injEq] at h
      obtain ⟨h1, h2, h3, h4⟩ := deleteHash_spec st c
      refine ⟨_, h.symm, h1, h2, h3, ?_⟩
      intro n' hn'
      obtain ⟨m, hm, hk', ha, hb⟩ := h4 n' hn'
      refine ⟨m, hm, hk', fun hmc _ => ha hmc, ?_⟩
      intro hms
      by_cases hmc : m.key = c
      · exact ha hmc
      · rw [hb hmc]; exact hms
    | st =>
      simp only [hk, bind, Except.bind, pure, Except.pure, Except.ok.injEq] at h
      refine ⟨_, h.symm, rfl, rfl, rfl, ?_⟩
      intro n' hn'
      exact ⟨n', hn', rfl, fun _ hc => by simp at hc, id⟩
    | file => simp [hk, bind, Except.bind] at h
    | root => simp [hk, bind, Except.bind] at h
  · have hh' : st.has c = false := by simpa using hh
    simp only [hh', Bool.false_eq_true, if_false, pure, Except.pure, Except.ok.injEq] at h
    refine ⟨_, h.symm, rfl, rfl, rfl, ?_⟩
    intro n' hn'
    refine ⟨n', hn', rfl, ?_, id⟩
    intro hk _
    exfalso
    apply hh
    rw [has_iff]
    exact ⟨n'.core, List.mem_map.2 ⟨n', hn', rfl⟩, hk⟩

theorem lostLoop_spec (cs : List Key) (st r : KState) (h : forIn cs st lostBody = .ok r) :
    r.cores = st.cores ∧ r.deps = st.deps ∧ r.toBeDeleted = st.toBeDeleted ∧
      (∀ n ∈ r.nodes, n.key ∈ cs → n.key.kind = .step → n.shash = none) := by
  have := forIn_except_inv_prefix cs lostBody
    (fun pre b => b.cores = st.cores ∧ b.deps = st.deps ∧ b.toBeDeleted = st.toBeDeleted ∧
      (∀ n ∈ b.nodes, n.key ∈ pre → n.key.kind = .step → n.shash = none)) st r
    ⟨rfl, rfl, rfl, fun _ _ h => by simp at h⟩ ?_ h
  · exact this
  · intro pre a post b r' _ ⟨i1, i2, i3, i4⟩ hf
    obtain ⟨st', hr, h1, h2, h3, h4⟩ := lostBody_spec a b r' hf
    refine ⟨st', hr, h1.trans i1, h2.trans i2, h3.trans i3, ?_⟩
    intro n' hn' hmem hkind
    obtain ⟨m, hm, hk, ha, hb⟩ := h4 n' hn'
    simp only [List.mem_append, List.mem_singleton] at hmem
    rcases hmem with hp | hp
    · exact hb (i4 m hm (hk ▸ hp) (hk ▸ hkind))
    · exact ha (hk.trans hp) (hp ▸ hkind)

/-- What `Trellis.delete_detached` leaves, relative to the state it started from; `D` are the
keys of the deleted rows. -/
structure BaseSpec (s s' : KState) (D : List Key) : Prop where
  cores : s'.cores = s.cores.filter (fun c => !D.contains c.1)
  deps : s'.deps = s.deps.filter (fun d => !D.contains d.snk)
  src_alive : ∀ d ∈ s'.deps, ¬ d.src ∈ D
  leafs : ∀ k ∈ D, ∃ c ∈ s.cores, c.1 = k ∧ c.2.2.1 = true
  queue : ∀ e ∈ s'.toBeDeleted, e ∈ s.toBeDeleted ∨ IsDirEntry e ∨
    ∃ c ∈ s.cores, c.1 ∈ D ∧ c.2.2.1 = true ∧ FileEntryOf c e
  keep : ∀ e ∈ s.toBeDeleted, ∃ e' ∈ s'.toBeDeleted, e'.1 = e.1
  complete : KeysNodup s → ∀ c ∈ s.cores, c.1 ∈ D → ∀ p, MustQueue c p → ∃ e' ∈ s'.toBeDeleted, e'.1 = p
  noLeaf : NoLeaf s'
  lost : KeysNodup s → ∀ c ∈ s.cores, c.1 ∈ D → ∀ x, c.2.1 = some x → x.kind = .step →
    ∀ n ∈ s'.nodes, n.key = x → n.shash = none
  deletable : KeysNodup s → ∀ k ∈ D, Deletable s k

theorem deleteDetachedBase_spec (s s' : KState) (h : s.deleteDetachedBase = .ok s') :
    ∃ D, BaseSpec s s' D := by
  rw [deleteDetachedBase_eq] at h
  cases h1 : forIn (List.range (s.nodes.length + 1)) (s, ([] : List Key)) baseBody with
  | error e => simp [h1, bind, Except.bind] at h
  | ok r =>
    simp only [h1, bind, Except.bind] at h
    cases h2 : forIn r.2 r.1 lostBody with
    | error e => simp [h2] at h
    | ok r2 =>
      simp only [h2, pure, Except.pure, Except.ok.injEq] at h
      subst h
      obtain ⟨D, hI, hnl⟩ := baseLoop_spec s r h1
      obtain ⟨g1, g2, g3, g4⟩ := lostLoop_spec r.2 r.1 r2 h2
      refine ⟨D, ?_⟩
      exact
        { cores := g1.trans hI.cores
          deps := g2.trans hI.deps
          src_alive := fun d hd => hI.src_alive d (g2 ▸ hd)
          leafs := hI.leafs
          queue := fun e he => hI.queue e (g3 ▸ he)
          keep := fun e he => by
            obtain ⟨e', he', h'⟩ := hI.keep e he
            exact ⟨e', g3 ▸ he', h'⟩
          complete := fun hnd c hc hcD e hfe => by
            obtain ⟨e', he', h'⟩ := hI.complete hnd c hc hcD e hfe
            exact ⟨e', g3 ▸ he', h'⟩
          noLeaf := by
            intro c hc
            show isLeaf r2.cores r2.deps c = false
            rw [g1, g2]
            exact hnl c (g1 ▸ hc)
          lost := by
            intro hnd c hc hcD x hx hkind n hn hnx
            have hxk : r.1.hasKey x := by
              refine ⟨n.core, ?_, hnx⟩
              rw [← g1]
              exact List.mem_map.2 ⟨n, hn, rfl⟩
            have := hI.creators hnd c hc hcD x hx hxk
            exact g4 n hn (hnx ▸ this) (hnx ▸ hkind)
          deletable := hI.deletable }


theorem deletable_removed (s s' : KState) (D : List Key) (hspec : BaseSpec s s' D) (hcl : SinksExist s)
    (k : Key) (hk : Deletable s k) : ¬ s'.hasKey k := by
  induction hk with
  | mk k hdet hp hs ihp ihs =>
    rintro ⟨c, hc, hck⟩
    have hcs : c ∈ s.cores := by
      rw [hspec.cores] at hc; exact (List.mem_filter.1 hc).1
    have hnl := hspec.noLeaf c hc
    unfold isLeaf at hnl
    simp only [decide_eq_false_iff_not, not_and] at hnl
    have hd : c.2.2.1 = true := hdet c hcs hck
    by_cases hall : (s'.cores.all fun m => !decide (m.2.1 = some c.1 ∧ m.1 ≠ c.1)) = true
    · have hany := hnl hd hall
      simp only [Bool.not_eq_true', Bool.not_eq_false, List.any_eq_true, decide_eq_true_eq] at hany
      obtain ⟨d, hd', hsrc⟩ := hany
      have hds : d ∈ s.deps := by rw [hspec.deps] at hd'; exact (List.mem_filter.1 hd').1
      have hsnkD : ¬ d.snk ∈ D := by
        rw [hspec.deps] at hd'
        have := (List.mem_filter.1 hd').2
        simpa using this
      obtain ⟨c2, hc2, hc2k⟩ := hcl d hds
      refine ihs d hds (hsrc.trans hck) ⟨c2, ?_, hc2k⟩
      rw [hspec.cores, List.mem_filter]
      refine ⟨hc2, ?_⟩
      simp only [Bool.not_eq_true', List.contains_eq_mem, decide_eq_false_iff_not]
      rw [hc2k]; exact hsnkD
    · have hall' : (s'.cores.any fun m => decide (m.2.1 = some c.1 ∧ m.1 ≠ c.1)) = true := by
        cases hany : (s'.cores.any fun m => decide (m.2.1 = some c.1 ∧ m.1 ≠ c.1)) with
        | true => rfl
        | false =>
          exfalso; apply hall
          rw [List.all_eq_true]
          intro m hm
          have h0 := List.any_eq_false.1 hany m hm
          have h1 : ¬ (m.2.1 = some c.1 ∧ m.1 ≠ c.1) := by
            intro hc'; exact h0 (decide_eq_true hc')
          simp only [Bool.not_eq_true', decide_eq_false_iff_not]
          exact h1
      simp only [List.any_eq_true, decide_eq_true_eq] at hall'
      obtain ⟨m, hm, hmc⟩ := hall'
      have hms : m ∈ s.cores := by
        rw [hspec.cores] at hm; exact (List.mem_filter.1 hm).1
      exact ihp m hms (hck ▸ hmc.1) (hck ▸ hmc.2) ⟨m, hm, rfl⟩


/-- Identity, state and recorded hash of a row. -/
def Node.fview (n : Node) : Key × FileState × Option Nat := (n.key, n.fstate, n.fhash)
def KState.fviews (s : KState) : List (Key × FileState × Option Nat) := s.nodes.map Node.fview

/-- `s'` has the same file rows (state, hash) and the same deletion queue as `s`. -/
def Quiet (s s' : KState) : Prop := s'.fviews = s.fviews ∧ s'.toBeDeleted = s.toBeDeleted

theorem Quiet.refl (s : KState) : Quiet s s := ⟨rfl, rfl⟩
theorem Quiet.trans {a b c : KState} (h1 : Quiet a b) (h2 : Quiet b c) : Quiet a c :=
  ⟨h2.1.trans h1.1, h2.2.trans h1.2⟩

theorem quiet_modifyWhere (s : KState) (p : Node → Bool) (f : Node → Node) (hf : ∀ n, (f n).fview = n.fview) :
    Quiet s (s.modifyWhere p f) := by
  refine ⟨?_, rfl⟩
  unfold KState.modifyWhere KState.fviews
  simp only [List.map_map]
  apply List.map_congr_left
  intro n _
  simp only [Function.comp]
  split <;> simp [hf]

theorem quiet_modify (s : KState) (k : Key) (f : Node → Node) (hf : ∀ n, (f n).fview = n.fview) :
    Quiet s (s.modify k f) := by
  refine ⟨?_, rfl⟩
  unfold KState.modify KState.fviews
  simp only [List.map_map]
  apply List.map_congr_left
  intro n _
  simp only [Function.comp]
  split <;> simp [hf]

theorem quiet_flagReadySinks (s : KState) (k : Key) : Quiet s (s.flagReadySinks k) := by
  unfold KState.flagReadySinks
  exact quiet_modifyWhere _ _ _ (fun n => rfl)

theorem quiet_setDetachedRow (s : KState) (k : Key) (d : Bool) : Quiet s (s.setDetachedRow k d) := by
  unfold KState.setDetachedRow
  split
  · exact Quiet.refl s
  · simp only
    split
    · exact (quiet_modify s k (fun n => { n with detached := d }) (fun n => rfl)).trans (quiet_flagReadySinks _ k)
    · exact quiet_modify s k (fun n => { n with detached := d }) (fun n => rfl)

theorem quiet_foldl_setDetachedRow (l : List Key) (s : KState) (d : Bool) :
    Quiet s (l.foldl (fun s x => s.setDetachedRow x d) s) := by
  induction l generalizing s with
  | nil => exact Quiet.refl s
  | cons a as ih => exact (quiet_setDetachedRow s a d).trans (ih _)

theorem quiet_setDetachedRec (s : KState) (k : Key) (d : Bool) : Quiet s (s.setDetachedRec k d) := by
  unfold KState.setDetachedRec
  exact quiet_foldl_setDetachedRow _ s d

theorem quiet_setCreator (s s' : KState) (k : Key) (c : Option Key) (d : Bool)
    (h : s.setCreator k c d = .ok s') : Quiet s s' := by
  unfold KState.setCreator at h
  split at h
  · simp only [pure, Except.pure, Except.ok.injEq] at h
    subst h
    exact (quiet_modify s k (fun n => { n with creator := c }) (fun n => rfl)).trans (quiet_setDetachedRow _ k d)
  · simp [throw, throwThe, MonadExceptOf.throw] at h

theorem quiet_flagChecksWithProducts (s s' : KState) (k : Key) (h : s.flagChecksWithProducts k = .ok s') :
    Quiet s s' := by
  unfold KState.flagChecksWithProducts at h
  split at h
  · simp [throw, throwThe, MonadExceptOf.throw] at h
  · simp only [pure, Except.pure, Except.ok.injEq] at h
    exact h ▸ quiet_modifyWhere _ _ _ (fun n => rfl)

theorem quiet_flagCheckAfterSources (s s' : KState) (k : Key) (h : s.flagCheckAfterSources k = .ok s') :
    Quiet s s' := by
  unfold KState.flagCheckAfterSources at h
  split at h
  · simp [throw, throwThe, MonadExceptOf.throw] at h
  · simp only [pure, Except.pure, Except.ok.injEq] at h
    exact h ▸ quiet_modifyWhere _ _ _ (fun n => rfl)

theorem quiet_detachCore (s s' : KState) (k : Key) (n : Node) (h : s.detachCore k n = .ok s') :
    Quiet s s' := by
  unfold KState.detachCore at h
  split at h
  · cases hsc : s.setCreator k none true with
    | error e => simp [hsc, bind, Except.bind] at h
    | ok s2 =>
      simp only [hsc, bind, Except.bind, pure, Except.pure, Except.ok.injEq] at h
      have q := quiet_setCreator _ _ _ _ _ hsc
      subst h
      split
      · exact q.trans (quiet_setDetachedRec _ _ _)
      · exact q
  · simp only [pure, Except.pure, Except.ok.injEq] at h
    exact h ▸ Quiet.refl s

theorem quiet_detachFlags (s s' : KState) (k : Key) (h : s.detachFlags k = .ok s') : Quiet s s' := by
  unfold KState.detachFlags at h
  split at h
  · cases hfc : s.flagChecksWithProducts k with
    | error e => simp [hfc, bind, Except.bind] at h
    | ok s2 =>
      simp only [hfc, bind, Except.bind] at h
      exact (quiet_flagChecksWithProducts _ _ _ hfc).trans (quiet_flagCheckAfterSources _ _ _ h)
  · simp only [pure, Except.pure, Except.ok.injEq] at h
    exact h ▸ Quiet.refl s

/-- `Node.detach` changes neither the state nor the hash of any file row, and queues nothing. -/
theorem quiet_detach (s s' : KState) (k : Key) (h : s.detach k = .ok s') : Quiet s s' := by
  unfold KState.detach at h
  cases hf : s.find? k with
  | none => simp [hf, throw, throwThe, MonadExceptOf.throw] at h
  | some n =>
    simp only [hf, bind, Except.bind] at h
    cases hc : s.detachCore k n with
    | error e => simp [hc] at h
    | ok s1 =>
      simp only [hc] at h
      exact (quiet_detachCore _ _ _ _ hc).trans (quiet_detachFlags _ _ _ h)

def treeInner (f : Node) (st : KState) : M (ForInStep KState) :=
  if !((st.sinksOf f.key).any fun k => !(st.isDetached k)) then do
    let st ← st.detach f.key
    pure (ForInStep.yield st)
  else pure (ForInStep.yield st)

def treeOuter (t : Node) (st : KState) : M (ForInStep KState) :=
  let files := (st.products t.key).mergeSort fun a b => decide (b.key.label ≤ a.key.label)
  do
    let r ← forIn files st treeInner
    pure (ForInStep.yield r)

theorem deleteDetached_eq (s : KState) : s.deleteDetached =
    (forIn (s.nodes.filter fun n => n.key.kind = .st ∧ !n.detached) s treeOuter >>= fun st =>
      st.deleteDetachedBase) := rfl

theorem treeInner_quiet (f : Node) (st : KState) (r : ForInStep KState) (h : treeInner f st = .ok r) :
    Quiet st r.value := by
  unfold treeInner at h
  split at h
  · cases hd : st.detach f.key with
    | error e => simp [hd, bind, Except.bind] at h
    | ok s1 =>
      simp only [hd, bind, Except.bind, pure, Except.pure, Except.ok.injEq] at h
      subst h
      exact quiet_detach _ _ _ hd
  · simp only [pure, Except.pure, Except.ok.injEq] at h
    subst h
    exact Quiet.refl st

theorem treeOuter_quiet (t : Node) (st : KState) (r : ForInStep KState) (h : treeOuter t st = .ok r) :
    Quiet st r.value := by
  unfold treeOuter at h
  simp only at h
  cases hl : forIn ((st.products t.key).mergeSort fun a b => decide (b.key.label ≤ a.key.label)) st treeInner with
  | error e => simp [hl, bind, Except.bind] at h
  | ok r1 =>
    simp only [hl, bind, Except.bind, pure, Except.pure, Except.ok.injEq] at h
    subst h
    refine forIn_except_inv _ treeInner (fun b => Quiet st b) st r1 (Quiet.refl st) ?_ hl
    intro a _ b r' hb hf
    exact hb.trans (treeInner_quiet a b r' hf)

/-- `Workflow.delete_detached` = quiet detaching of unused static-tree files, then the loop. -/
theorem deleteDetached_split (s s' : KState) (h : s.deleteDetached = .ok s') :
    ∃ st, Quiet s st ∧ st.deleteDetachedBase = .ok s' := by
  rw [deleteDetached_eq] at h
  generalize (s.nodes.filter fun n => n.key.kind = .st ∧ !n.detached) = L at h
  cases hl : forIn L s treeOuter with
  | error e => simp [hl, bind, Except.bind] at h
  | ok st =>
    simp only [hl, bind, Except.bind] at h
    refine ⟨st, ?_, h⟩
    refine forIn_except_inv _ treeOuter (fun b => Quiet s b) s st (Quiet.refl s) ?_ hl
    intro a _ b r' hb hf
    exact hb.trans (treeOuter_quiet a b r' hf)


/-- The selection of `revert_optional_steps`: attached steps whose implied need is OPTIONAL. -/
def KState.optionalSteps (s : KState) : List Node :=
  s.nodes.filter fun n => n.key.kind = .step ∧ !n.detached ∧ n.impliedNeed = .optional

theorem mem_optionalSteps (s : KState) (o : Node) (h : o ∈ s.optionalSteps) :
    o ∈ s.nodes ∧ o.key.kind = .step ∧ o.detached = false ∧ o.impliedNeed = .optional := by
  unfold KState.optionalSteps at h
  rw [List.mem_filter, decide_eq_true_eq] at h
  exact ⟨h.1, h.2.1, by simpa using h.2.2.1, h.2.2.2⟩

theorem revertOptional_eq (s : KState) : s.revertOptional =
    s.optionalSteps.foldlM (fun st n => st.revertStep n) s := rfl

theorem foldlM_inv_mem {α : Type} (P : KState → Prop) (f : KState → α → M KState) (l : List α)
    (hf : ∀ x ∈ l, ∀ s s', P s → f s x = .ok s' → P s') (s s' : KState) (hp : P s)
    (h : l.foldlM f s = .ok s') : P s' := by
  induction l generalizing s with
  | nil => simp [List.foldlM, pure, Except.pure] at h; subst h; exact hp
  | cons x xs ih =>
    simp only [List.foldlM_cons, bind, Except.bind] at h
    cases hx : f s x with
    | error e => simp [hx] at h
    | ok s1 =>
      simp only [hx] at h
      exact ih (fun y hy => hf y (by simp [hy])) s1 (hf x (by simp) s s1 hp hx) h

theorem mem_fviews (s : KState) (n : Node) (h : n ∈ s.nodes) : n.fview ∈ s.fviews :=
  List.mem_map.2 ⟨n, h, rfl⟩

theorem find?_mem (s : KState) (k : Key) (n : Node) (h : s.find? k = some n) : n ∈ s.nodes ∧ n.key = k := by
  unfold KState.find? at h
  exact ⟨List.mem_of_find?_eq_some h, by simpa using List.find?_some h⟩

/-- `UPDATE file SET state = ?, hash = ?` on one key: every row afterwards is either in the new
state or an unchanged row (up to flags); nothing else moves. -/
theorem writeFile_spec (s s' : KState) (k : Key) (new : FileState) (nh : Option (Option Nat))
    (h : s.writeFile k new nh = .ok s') :
    s'.toBeDeleted = s.toBeDeleted ∧ s'.deps = s.deps ∧
      (∀ n' ∈ s'.nodes, n'.fstate = new ∨ n'.fview ∈ s.fviews) := by
  unfold KState.writeFile at h
  cases hf : s.find? k with
  | none =>
    simp only [hf, pure, Except.pure, Except.ok.injEq] at h
    subst h
    exact ⟨rfl, rfl, fun n' hn' => Or.inr (mem_fviews _ _ hn')⟩
  | some n =>
    simp only [hf, bind, Except.bind] at h
    cases hw : fileRowWrite n new nh with
    | error e => simp [hw] at h
    | ok n1 =>
      simp only [hw, pure, Except.pure, Except.ok.injEq] at h
      have hn1 : n1.fstate = new := by
        unfold fileRowWrite at hw
        simp only at hw
        split at hw
        · cases hw
        · split at hw
          · cases hw
          · simp only [pure, Except.pure, Except.ok.injEq] at hw
            rw [← hw]
      have base : ∀ n' ∈ (s.modify k fun _ => n1).nodes, n'.fstate = new ∨ n'.fview ∈ s.fviews := by
        intro n' hn'
        unfold KState.modify at hn'
        simp only [List.mem_map] at hn'
        obtain ⟨m, hm, rfl⟩ := hn'
        split
        · exact Or.inl hn1
        · exact Or.inr (mem_fviews _ _ hm)
      subst h
      split
      · refine ⟨rfl, rfl, ?_⟩
        intro n' hn'
        have q := quiet_flagReadySinks (s.modify k fun _ => n1) k
        have : n'.fview ∈ (s.modify k fun _ => n1).fviews := q.1 ▸ mem_fviews _ _ hn'
        obtain ⟨m, hm, hmv⟩ := List.mem_map.1 this
        rcases base m hm with h1 | h2
        · left
          have : n'.fstate = m.fstate := by
            have := congrArg (fun v => v.2.1) hmv
            exact this.symm
          rw [this]; exact h1
        · right; rw [← hmv]; exact h2
      · exact ⟨rfl, rfl, base⟩

theorem writeStepState_spec (s s' : KState) (k : Key) (new : StepState) (d : Option Bool)
    (h : s.writeStepState k new d = .ok s') :
    s'.toBeDeleted = s.toBeDeleted ∧ s'.deps = s.deps ∧ (∀ n' ∈ s'.nodes, n'.fview ∈ s.fviews) := by
  unfold KState.writeStepState at h
  cases hf : s.find? k with
  | none =>
    simp only [hf, pure, Except.pure, Except.ok.injEq] at h
    subst h
    exact ⟨rfl, rfl, fun n' hn' => mem_fviews _ _ hn'⟩
  | some n =>
    simp only [hf, bind, Except.bind] at h
    cases hw : stepRowWrite n new d with
    | error e => simp [hw] at h
    | ok n1 =>
      simp only [hw, pure, Except.pure, Except.ok.injEq] at h
      subst h
      have hv : n1.fview = n.fview := by
        unfold stepRowWrite at hw
        simp only at hw
        split at hw
        · cases hw
        · simp only [pure, Except.pure, Except.ok.injEq] at hw
          rw [← hw]; rfl
      refine ⟨rfl, rfl, ?_⟩
      intro n' hn'
      unfold KState.modify at hn'
      simp only [List.mem_map] at hn'
      obtain ⟨m, hm, rfl⟩ := hn'
      split
      · rw [hv]; exact mem_fviews _ _ (find?_mem s k n hf).1
      · exact mem_fviews _ _ hm

/-- Rows of `st` are rows of `s` (identity, state, hash), or have been reset to PLANNED. -/
def RSub (s st : KState) : Prop := ∀ n' ∈ st.nodes, n'.fstate = .planned ∨ n'.fview ∈ s.fviews

theorem RSub.refl (s : KState) : RSub s s := fun _ hn' => Or.inr (mem_fviews _ _ hn')

theorem RSub.step (s st st' : KState) (h : RSub s st)
    (h' : ∀ n' ∈ st'.nodes, n'.fstate = .planned ∨ n'.fview ∈ st.fviews) : RSub s st' := by
  intro n' hn'
  rcases h' n' hn' with h1 | h2
  · exact Or.inl h1
  · obtain ⟨m, hm, hmv⟩ := List.mem_map.1 h2
    rcases h m hm with g1 | g2
    · left
      have := congrArg (fun v => v.2.1) hmv
      exact this.symm.trans g1
    · right; rw [← hmv]; exact g2

/-- What `revert_optional_steps` queues for the file row `n`. -/
def RevertEntryOf (n : Node) (e : String × Option Nat) : Prop :=
  n.key.kind = .file ∧ e.1 = n.key.label ∧
    (n.fstate = .volatile ∨ n.fstate = .built ∨ n.fstate = .outdated) ∧
    e.2 = (if n.fstate = .volatile then none else n.fhash)

/-- Invariant of the loops of `revert_optional_steps` relative to the state `s` it started from. -/
structure RevInv (s st : KState) : Prop where
  rsub : RSub s st
  deps : st.deps = s.deps
  queue : ∀ e ∈ st.toBeDeleted, e ∈ s.toBeDeleted ∨ IsDirEntry e ∨
    ∃ n ∈ s.nodes, RevertEntryOf n e ∧
      ∃ o ∈ s.nodes, o.key.kind = .step ∧ o.detached = false ∧ o.impliedNeed = .optional ∧
        ∃ d ∈ s.deps, d.src = o.key ∧ d.snk = n.key

theorem revertOutput_spec (s : KState) (o : Node) (ho : o ∈ s.nodes) (hk : o.key.kind = .step)
    (hd : o.detached = false) (hn : o.impliedNeed = .optional)
    (f : Key) (st : KState) (hf : f ∈ s.sinksOf o.key) (hI : RevInv s st) (r : KState)
    (h : st.revertOutput f = .ok r) : RevInv s r := by
  unfold KState.revertOutput at h
  cases hfind : st.find? f with
  | none =>
    simp only [hfind, pure, Except.pure, Except.ok.injEq] at h
    subst h; exact hI
  | some fn =>
    simp only [hfind] at h
    obtain ⟨hmem, hkey⟩ := find?_mem st f fn hfind
    by_cases hc : fn.key.kind = .file ∧ (fn.fstate = .volatile ∨ fn.fstate = .built ∨ fn.fstate = .outdated)
    · simp only [hc, and_self, if_true] at h
      -- the row is a row of `s`
      have hv : fn.fview ∈ s.fviews := by
        rcases hI.rsub fn hmem with h1 | h2
        · rcases hc.2 with g | g | g <;> simp [h1] at g
        · exact h2
      obtain ⟨n, hns, hnv⟩ := List.mem_map.1 hv
      have hnk : n.key = fn.key := congrArg (fun v => v.1) hnv
      have hnst : n.fstate = fn.fstate := congrArg (fun v => v.2.1) hnv
      have hnh : n.fhash = fn.fhash := congrArg (fun v => v.2.2) hnv
      have hdep : ∃ d ∈ s.deps, d.src = o.key ∧ d.snk = n.key := by
        unfold KState.sinksOf at hf
        simp only [List.mem_map, List.mem_filter, decide_eq_true_eq] at hf
        obtain ⟨d, ⟨hd1, hd2⟩, hd3⟩ := hf
        exact ⟨d, hd1, hd2, by rw [hd3, hnk, hkey]⟩
      have hentry : RevertEntryOf n (f.label, if fn.fstate = .volatile then none else fn.fhash) :=
        ⟨hnk ▸ hc.1, by rw [hnk, hkey], hnst ▸ hc.2, by rw [hnst, hnh]⟩
      have hq : ∀ e ∈ ((st.queueDelete f.label (if fn.fstate = .volatile then none else fn.fhash)).markDirToBeDeleted
            (parentDir f.label)).toBeDeleted,
          e ∈ s.toBeDeleted ∨ IsDirEntry e ∨
            ∃ n ∈ s.nodes, RevertEntryOf n e ∧
              ∃ o ∈ s.nodes, o.key.kind = .step ∧ o.detached = false ∧ o.impliedNeed = .optional ∧
                ∃ d ∈ s.deps, d.src = o.key ∧ d.snk = n.key := by
        intro e he
        rcases mem_markDir _ _ _ he with h1 | h2
        · rcases mem_queueDelete _ _ _ _ h1 with h3 | h4
          · exact hI.queue e h3
          · exact Or.inr (Or.inr ⟨n, hns, h4 ▸ hentry, o, ho, hk, hd, hn, hdep⟩)
        · exact Or.inr (Or.inl h2)
      by_cases hvol : fn.fstate = .volatile
      · simp only [hvol, ne_eq, not_true_eq_false, if_false, pure, Except.pure, Except.ok.injEq] at h
        subst h
        exact
          { rsub := by
              intro n' hn'
              have : n' ∈ st.nodes := by simpa using hn'
              exact hI.rsub n' this
            deps := by simpa using hI.deps
            queue := by
              intro e he
              simp only [hvol, if_true] at hq
              exact hq e he }
      · simp only [ne_eq, hvol, not_false_eq_true, if_true, if_false] at h
        obtain ⟨w1, w2, w3⟩ := writeFile_spec _ _ _ _ _ h
        exact
          { rsub := by
              refine RSub.step s st r hI.rsub ?_
              intro n' hn'
              rcases w3 n' hn' with g1 | g2
              · exact Or.inl g1
              · right
                unfold KState.fviews at g2 ⊢
                simpa using g2
            deps := by rw [w2]; simpa using hI.deps
            queue := by
              intro e he
              simp only [hvol, if_false] at hq
              exact hq e (w1 ▸ he) }
    · simp only [hc, if_false, pure, Except.pure, Except.ok.injEq] at h
      subst h; exact hI

theorem revertStep_spec (s : KState) (o : Node) (ho : o ∈ s.nodes) (hk : o.key.kind = .step)
    (hd : o.detached = false) (hn : o.impliedNeed = .optional) (st : KState) (hI : RevInv s st)
    (r : KState) (h : st.revertStep o = .ok r) : RevInv s r := by
  unfold KState.revertStep at h
  cases hp : st.pendIfNot o with
  | error e => simp [hp, bind, Except.bind] at h
  | ok s1 =>
    simp only [hp, bind, Except.bind] at h
    have hI1 : RevInv s s1 := by
      unfold KState.pendIfNot at hp
      split at hp
      · obtain ⟨w1, w2, w3⟩ := writeStepState_spec _ _ _ _ _ hp
        exact
          { rsub := RSub.step s st s1 hI.rsub (fun n' hn' => Or.inr (w3 n' hn'))
            deps := w2.trans hI.deps
            queue := fun e he => hI.queue e (w1 ▸ he) }
      · simp only [pure, Except.pure, Except.ok.injEq] at hp
        exact hp ▸ hI
    refine foldlM_inv_mem (RevInv s) (fun st f => st.revertOutput f) (s1.sinksOf o.key) ?_ s1 r hI1 h
    intro f hf b b' hb hfb
    have hf' : f ∈ s.sinksOf o.key := by
      unfold KState.sinksOf at hf ⊢
      rw [hI1.deps] at hf; exact hf
    exact revertOutput_spec s o ho hk hd hn f b hf' hb b' hfb

/-- `revert_optional_steps`: what it queues. -/
theorem revertOptional_spec (s s' : KState) (h : s.revertOptional = .ok s') : RevInv s s' := by
  rw [revertOptional_eq] at h
  refine foldlM_inv_mem (RevInv s) (fun st n => st.revertStep n) s.optionalSteps ?_ s s'
    ⟨RSub.refl s, rfl, fun e he => Or.inl he⟩ h
  intro o ho b b' hb hf
  have ho := mem_optionalSteps s o ho
  exact revertStep_spec s o ho.1 ho.2.1 ho.2.2.1 ho.2.2.2 b hb b' hf

end StepupModel.K
