import StepupModel.Lemmas.SuccOutputs
import StepupModel.Lemmas.SuccOutputsWitness
/-!
# I4: the four side conditions of the guard are exactly what the witnesses violate

In each witness state of `Lemmas/SuccOutputsWitness.lean` the invariant `Inv4` holds (so every request that
satisfies `ReqOKS` keeps I4 there, by `exec_JK`), and the offending request is one that `ReqOKS` refuses.  No property statements here.
-/
namespace StepupModel.K.SuccOut
open StepupModel.K.MetaAfter StepupModel.K.Discipline StepupModel.Lemmas StepupModel.K.Ever
set_option linter.unusedSimpArgs false
set_option linter.unusedVariables false

def wEdge : Dep := { src := stepKey "A", snk := fileKey "o" }

theorem inv4_of_one_edge (s : KState) (f : Node) (hd : s.deps = [wEdge]) (hf : s.find? (fileKey "o") = some f)
    (hc : f.creator = some (stepKey "A")) (hp : IsProduct f.fstate) (hs : Succ s (stepKey "A") → Done f.fstate)
    (hk : (s.nodes.map (·.key)).Nodup) : Inv4 s := by
  refine ⟨⟨fun d hdm _ _ => ?_, fun _ h => h.elim⟩, (keysNodup_iff s).2 hk⟩
  rw [hd, List.mem_singleton] at hdm
  subst hdm
  exact ⟨f, hf, .inr hc, hp, fun _ _ h => hs h⟩

def wRowPlanned : Node := { key := fileKey "o", creator := some (stepKey "A"), fstate := .planned }
def wRowBuilt : Node := { key := fileKey "o", creator := some (stepKey "A"), fstate := .built, fhash := some 5 }

theorem find_wState1 : wState1.find? (fileKey "o") = some wRowPlanned := by rfl
theorem find_wState2 : wState2.find? (fileKey "o") = some wRowPlanned := by rfl
theorem find_wState3 : wState3.find? (fileKey "o") = some wRowBuilt := by rfl

theorem inv4_wState1 : Inv4 wState1 :=
  inv4_of_one_edge wState1 wRowPlanned rfl find_wState1 rfl (by decide) (fun h => by have := h.2; revert this; decide) (by decide)

theorem inv4_wState2 : Inv4 wState2 :=
  inv4_of_one_edge wState2 wRowPlanned rfl find_wState2 rfl (by decide) (fun h => by have := h.2; revert this; decide) (by decide)

theorem inv4_wState3 : Inv4 wState3 :=
  inv4_of_one_edge wState3 wRowBuilt rfl find_wState3 rfl (by decide) (fun _ => .inl rfl) (by decide)

/-- The guard refuses the raw `set_state(SUCCEEDED)` of the first witness. -/
theorem guard_refuses_set_state : ¬ ReqOKS wState1 (.setState (stepKey "A") .succeeded) := by
  intro h
  have := h rfl wEdge (by decide) rfl wRowPlanned find_wState1 rfl
  rcases this with h | h <;> cases h

/-- The guard refuses the `completed` with a PLANNED output of the second witness. -/
theorem guard_refuses_completed : ¬ ReqOKS wState2 (.completed (stepKey "A") (some 7) false) := by
  intro h
  exact h wEdge (by decide) rfl wRowPlanned find_wState2 rfl rfl

theorem succ_wState3 : Succ wState3 (stepKey "A") := ⟨rfl, by decide⟩

/-- The guard refuses the `amend` of the SUCCEEDED step of the third witness. -/
theorem guard_refuses_amend : ¬ ReqOKS wState3 (.amend (stepKey "A") [] [] ["o2"] [] []) := fun h => h succ_wState3

/-- The guard refuses the `reset_for_rerun` of the SUCCEEDED step of the fourth witness. -/
theorem guard_refuses_reset : ¬ ReqOKS wState4 (.resetRerun (stepKey "A")) := fun h => h succ_wState3

end StepupModel.K.SuccOut
