import StepupModel.P.Rpc
/-!
# Lemmas about the RPC model (C16)

Framing: `pump` of a buffer extended by more bytes continues where it stopped (`pump_append`), so
feeding chunk by chunk equals parsing the concatenation (`runChunks_eq`); an encoded message parses
back to its normal form, a bad header to the error, a strict prefix of a message to "wait".
Server: every primitive of the connection machine moves received calls between the four classes
(in flight, queued, replied, dropped) without creating or losing one (`Same`), keeps `Live`
and `Idle`; together this is the invariant `Inv`, preserved by every event.
-/
namespace StepupModel.P.Rpc
open StepupModel.Generated.Rpc

/-! ## Framing -/

theorem be_length (k n : Nat) : (be k n).length = k := by
  induction k generalizing n with
  | zero => simp [be]
  | succ k ih => simp [be, ih]

theorem fromBE_snoc (l : Bytes) (b : Nat) : fromBE (l ++ [b]) = fromBE l * 256 + b := by
  simp [fromBE, List.foldl_append]

theorem fromBE_be (k n : Nat) (h : n < 256 ^ k) : fromBE (be k n) = n := by
  induction k generalizing n with
  | zero => simp at h; subst h; rfl
  | succ k ih =>
    have h' : n / 256 < 256 ^ k := by
      apply Nat.div_lt_of_lt_mul; rw [Nat.pow_succ] at h; omega
    rw [be, fromBE_snoc, ih _ h']; omega

theorem pump_of_need {buf : Bytes} (h : parseOne buf = .need) : pump buf = ([], .buf buf) := by
  rw [pump]; split <;> simp_all

theorem pump_of_bad {buf : Bytes} (h : parseOne buf = .bad) : pump buf = ([], .bad) := by
  rw [pump]; split <;> simp_all

theorem pump_of_msg {buf : Bytes} {m : Msg} {rest : Bytes} (h : parseOne buf = .msg m rest) :
    pump buf = (m :: (pump rest).1, (pump rest).2) := by
  rw [pump]; split <;> simp_all

theorem hH : headerSize = fieldSize + fieldSize := by decide
theorem hMax : maxBodySize < 256 ^ fieldSize := by decide

theorem parseOne_append_msg {buf x : Bytes} {m : Msg} {rest : Bytes} (h : parseOne buf = .msg m rest) :
    parseOne (buf ++ x) = .msg m (rest ++ x) := by
  have h1 := hH
  unfold parseOne at h ⊢
  split at h
  · cases h
  · rename_i hlen
    simp only at h
    split at h
    · cases h
    · rename_i hbad
      split at h
      · cases h
      · rename_i hlen2
        have e1 : ((buf ++ x).drop fieldSize).take fieldSize = (buf.drop fieldSize).take fieldSize := by
          rw [List.drop_append_of_le_length (by omega), List.take_append_of_le_length (by simp; omega)]
        have hl : ¬ (buf ++ x).length < headerSize := by simp; omega
        simp only [hl, if_false, e1, hbad]
        have hl2 : ¬ (buf ++ x).length < headerSize + fromBE (List.take fieldSize (List.drop fieldSize buf)) := by
          simp; omega
        simp only [hl2, if_false]
        cases h
        congr 1
        · congr 1
          · rw [List.take_append_of_le_length (by omega)]
          · split
            · rfl
            · rw [List.drop_append_of_le_length (by omega), List.take_append_of_le_length (by simp; omega)]
        · rw [List.drop_append_of_le_length (by omega)]

theorem parseOne_append_bad {buf x : Bytes} (h : parseOne buf = .bad) : parseOne (buf ++ x) = .bad := by
  have h1 := hH
  unfold parseOne at h ⊢
  split at h
  · cases h
  · rename_i hlen
    simp only at h
    split at h
    · rename_i hbad
      have e1 : ((buf ++ x).drop fieldSize).take fieldSize = (buf.drop fieldSize).take fieldSize := by
        rw [List.drop_append_of_le_length (by omega), List.take_append_of_le_length (by simp; omega)]
      have hl : ¬ (buf ++ x).length < headerSize := by simp; omega
      simp only [hl, if_false, e1, hbad, if_true]
    · split at h <;> cases h


/-- Continuing a pumped buffer with more bytes. -/
def resume (r : List Msg × Dec) (x : Bytes) : List Msg × Dec :=
  match r.2 with
  | .bad => (r.1, .bad)
  | .buf b => (r.1 ++ (pump (b ++ x)).1, (pump (b ++ x)).2)

theorem pump_append (buf x : Bytes) : pump (buf ++ x) = resume (pump buf) x := by
  induction h : buf.length using Nat.strongRecOn generalizing buf with
  | _ n ih =>
    cases hp : parseOne buf with
    | need => rw [pump_of_need hp]; simp [resume]
    | bad => rw [pump_of_bad hp, pump_of_bad (parseOne_append_bad hp)]; simp [resume]
    | msg m rest =>
      rw [pump_of_msg hp, pump_of_msg (parseOne_append_msg hp)]
      have hlt := parseOne_msg_shrinks hp
      rw [ih rest.length (by omega) rest rfl]
      simp only [resume]
      split <;> simp_all

theorem pump_stuck {buf : Bytes} {ms : List Msg} {r : Bytes} (h : pump buf = (ms, .buf r)) :
    parseOne r = .need := by
  induction hn : buf.length using Nat.strongRecOn generalizing buf ms with
  | _ n ih =>
    cases hp : parseOne buf with
    | need => rw [pump_of_need hp] at h; cases h; exact hp
    | bad => rw [pump_of_bad hp] at h; cases h
    | msg m rest =>
      rw [pump_of_msg hp] at h
      have hlt := parseOne_msg_shrinks hp
      cases h2 : pump rest with
      | mk ms' t =>
        rw [h2] at h; simp at h
        exact ih rest.length (by omega) (by rw [h2, h.2]) rfl

theorem runChunks_bad (cs : List Bytes) : runChunks .bad cs = ([], .bad) := by
  induction cs with
  | nil => rfl
  | cons c cs ih => simp [runChunks, feed, ih]

theorem runChunks_stuck (b : Bytes) (cs : List Bytes) (hb : parseOne b = .need) :
    runChunks (.buf b) cs = pump (b ++ cs.flatten) := by
  induction cs generalizing b with
  | nil => simp [runChunks, pump_of_need hb]
  | cons c cs ih =>
    simp only [runChunks, feed, List.flatten_cons]
    rw [← List.append_assoc, pump_append (b ++ c)]
    cases hp : pump (b ++ c) with
    | mk ms t =>
      cases t with
      | bad => simp [resume, runChunks_bad]
      | buf r => simp only [resume]; rw [ih r (pump_stuck hp)]

theorem parseOne_nil : parseOne [] = .need := by decide

theorem runChunks_eq (cs : List Bytes) : runChunks (.buf []) cs = pump cs.flatten := by
  simpa using runChunks_stuck [] cs parseOne_nil


theorem encodeMessage_length (m : Msg) : (encodeMessage m).length = headerSize + (m.body.getD []).length := by
  simp [encodeMessage, be_length, hH]; omega

/-- The fields of a buffer that starts with a whole header. -/
theorem header_fields (i s : Nat) (y : Bytes) :
    (be fieldSize i ++ (be fieldSize s ++ y)).take fieldSize = be fieldSize i ∧
    ((be fieldSize i ++ (be fieldSize s ++ y)).drop fieldSize).take fieldSize = be fieldSize s ∧
    (be fieldSize i ++ (be fieldSize s ++ y)).drop headerSize = y := by
  refine ⟨List.take_left' (be_length _ _), ?_, ?_⟩
  · rw [List.drop_left' (be_length _ _), List.take_left' (be_length _ _)]
  · rw [hH, ← List.drop_drop, List.drop_left' (be_length _ _), List.drop_left' (be_length _ _)]

theorem parseOne_encode (m : Msg) (x : Bytes) (h : m.WF) :
    parseOne (encodeMessage m ++ x) = .msg m.norm x := by
  obtain ⟨hid, hlen⟩ := h
  have hs : (m.body.getD []).length < 256 ^ fieldSize := Nat.lt_of_le_of_lt hlen hMax
  have hshape : encodeMessage m ++ x =
      be fieldSize m.id ++ (be fieldSize (m.body.getD []).length ++ (m.body.getD [] ++ x)) := by
    simp [encodeMessage]
  obtain ⟨f1, f2, f3⟩ := header_fields m.id (m.body.getD []).length (m.body.getD [] ++ x)
  have hl : (encodeMessage m ++ x).length = headerSize + (m.body.getD []).length + x.length := by
    simp [encodeMessage_length]
  unfold parseOne
  rw [if_neg (by omega)]
  simp only
  rw [hshape, f1, f2, f3, fromBE_be _ _ hid, fromBE_be _ _ hs, if_neg (by omega), ← hshape, if_neg (by omega)]
  congr 1
  · simp only [Msg.norm]
    congr 1
    cases hb : m.body with
    | none => simp
    | some b =>
      cases b with
      | nil => simp
      | cons a t => simp
  · have : headerSize + (m.body.getD []).length = (encodeMessage m).length := by rw [encodeMessage_length]
    rw [this]; exact List.drop_left' rfl

theorem pump_nil : pump [] = ([], .buf []) := pump_of_need (by decide)

theorem pump_encodes (msgs : List Msg) (x : Bytes) (h : ∀ m ∈ msgs, m.WF) :
    pump ((msgs.map encodeMessage).flatten ++ x) = (msgs.map Msg.norm ++ (pump x).1, (pump x).2) := by
  induction msgs with
  | nil => simp
  | cons m ms ih =>
    simp only [List.map_cons, List.flatten_cons, List.append_assoc]
    rw [pump_of_msg (parseOne_encode m _ (h m (by simp))), ih (fun m' hm' => h m' (by simp [hm']))]
    simp

/-- A header whose size field exceeds the limit. -/
def BadHeader (hdr : Bytes) : Prop :=
  hdr.length = headerSize ∧ maxBodySize < fromBE ((hdr.drop fieldSize).take fieldSize)

theorem parseOne_badHeader (hdr rest : Bytes) (h : BadHeader hdr) : parseOne (hdr ++ rest) = .bad := by
  have h1 := hH
  obtain ⟨hl, hb⟩ := h
  unfold parseOne
  rw [if_neg (by simp; omega)]
  simp only
  rw [List.drop_append_of_le_length (by omega), List.take_append_of_le_length (by simp; omega), if_pos hb]

/-- A strict prefix of an encoded message is neither a message nor an error: the reader waits. -/
theorem parseOne_truncated (m : Msg) (t : Bytes) (h : m.WF) (hp : t <+: encodeMessage m)
    (hlt : t.length < (encodeMessage m).length) : parseOne t = .need := by
  have h1 := hH
  obtain ⟨hid, hlen⟩ := h
  have hs : (m.body.getD []).length < 256 ^ fieldSize := Nat.lt_of_le_of_lt hlen hMax
  obtain ⟨s, hs2⟩ := hp
  rw [encodeMessage_length] at hlt
  unfold parseOne
  by_cases hl : t.length < headerSize
  · rw [if_pos hl]
  · rw [if_neg hl]
    simp only
    have e : (t.drop fieldSize).take fieldSize = be fieldSize (m.body.getD []).length := by
      have := (header_fields m.id (m.body.getD []).length (m.body.getD [])).2.1
      have hshape : encodeMessage m = be fieldSize m.id ++ (be fieldSize (m.body.getD []).length ++ m.body.getD []) := rfl
      rw [← hshape, ← hs2, List.drop_append_of_le_length (by omega),
        List.take_append_of_le_length (by simp; omega)] at this
      exact this
    rw [e, fromBE_be _ _ hs, if_neg (by omega), if_pos (by omega)]

/-! ## The server connection -/

/-- Where the received calls are: in flight, reply queued, replied, or dropped. -/
def Conn.calls (c : Conn) : List Call :=
  c.inflight ++ (c.queue.map (·.call) ++ (c.sent.map (·.call) ++ c.dropped))

/-- `c'` accounts for the same received calls as `c` (they may have moved between the classes). -/
structure Same (c c' : Conn) : Prop where
  recvd : c'.recvd = c.recvd
  invoked : c'.invoked = c.invoked
  calls : ∀ x, c'.calls.count x = c.calls.count x

theorem Same.rfl' (c : Conn) : Same c c := ⟨rfl, rfl, fun _ => rfl⟩
theorem Same.trans {a b c : Conn} (h1 : Same a b) (h2 : Same b c) : Same a c :=
  ⟨h2.recvd.trans h1.recvd, h2.invoked.trans h1.invoked, fun x => (h2.calls x).trans (h1.calls x)⟩

macro "count_calls" : tactic =>
  `(tactic| (simp only [Conn.calls, List.count_append, List.map_append, List.map_cons, List.map_nil,
      List.count_cons, List.count_nil, List.append_assoc] <;> omega))

theorem same_failConn (c : Conn) (f : Failure) : Same c (failConn c f) := by
  refine ⟨rfl, rfl, fun x => ?_⟩
  simp only [failConn]; count_calls

theorem same_endSend (c : Conn) : Same c (endSend c) := by
  refine ⟨rfl, rfl, fun x => ?_⟩
  simp only [endSend]; count_calls

theorem same_sendLoop (n : Nat) (c : Conn) : Same c (sendLoop n c) := by
  induction n generalizing c with
  | zero => exact Same.rfl' c
  | succ n ih =>
    unfold sendLoop
    split
    · exact Same.rfl' c
    · split
      · split
        · exact ⟨rfl, rfl, fun _ => rfl⟩
        · exact Same.rfl' c
      · rename_i d q hq
        have hc : ∀ x, c.calls.count x = List.count x (c.inflight ++ (d.call :: q.map (·.call) ++ (c.sent.map (·.call) ++ c.dropped))) := by
          intro x; simp only [Conn.calls, hq, List.map_cons]
        split
        · split
          · refine Same.trans ?_ (same_failConn _ _)
            refine ⟨rfl, rfl, fun x => ?_⟩
            rw [hc]; count_calls
          · refine Same.trans ?_ (same_endSend _)
            refine ⟨rfl, rfl, fun x => ?_⟩
            rw [hc]; count_calls
        · simp only
          split
          · split
            · refine ⟨rfl, rfl, fun x => ?_⟩
              rw [hc]; count_calls
            · refine Same.trans ?_ (same_failConn _ _)
              refine ⟨rfl, rfl, fun x => ?_⟩
              rw [hc]; count_calls
          · split
            · refine ⟨rfl, rfl, fun x => ?_⟩
              rw [hc]; count_calls
            · refine Same.trans ?_ (ih _)
              refine ⟨rfl, rfl, fun x => ?_⟩
              rw [hc]; count_calls


/-- As long as the stop event is not set nothing failed, both loops run and nothing was dropped. -/
def Live (c : Conn) : Prop :=
  c.stopped = false → c.failed = none ∧ c.sendAlive = true ∧ c.recvAlive = true ∧ c.dropped = []

/-- The send loop only leaves replies in the queue while it waits for the writer to drain. -/
def Idle (c : Conn) : Prop :=
  (c.sendBlocked = false → c.queue = []) ∧ (c.sendBlocked = true → c.sendAlive = true)

theorem live_sendLoop (n : Nat) (c : Conn) (h : Live c) : Live (sendLoop n c) := by
  induction n generalizing c with
  | zero => exact h
  | succ n ih =>
    unfold sendLoop
    repeat' split
    all_goals first | exact h | (apply ih; simp_all [Live]) | simp_all [Live, failConn, endSend]

theorem idle_sendLoop (n : Nat) (c : Conn) (hf : c.queue.length < n)
    (h1 : c.sendAlive = false → c.queue = []) (h2 : c.sendBlocked = true → c.sendAlive = true) :
    Idle (sendLoop n c) := by
  induction n generalizing c with
  | zero => omega
  | succ n ih =>
    unfold sendLoop
    repeat' split
    all_goals first
      | (apply ih <;> simp_all <;> omega)
      | (simp_all [Idle, failConn, endSend]; done)
      | (refine ⟨fun hb => ?_, h2⟩
         rename_i hor
         simp only [Bool.or_eq_true, Bool.not_eq_true'] at hor
         rcases hor with h | h
         · exact h1 h
         · rw [hb] at h; cases h)

/-! ## The invariant -/

theorem callDecision_invoke {table : List (Name × Bool)} {name : Name} {b : Bool} :
    callDecision table name b = .invoke ↔ table.lookup name = some true ∧ b = true := by
  unfold callDecision
  cases h : table.lookup name with
  | none => simp
  | some f => cases f <;> cases b <;> simp

/-- The invariant of the connection machine. -/
structure Inv (cfg : Cfg) (c : Conn) : Prop where
  acct : ∀ x, c.calls.count x = c.recvd.count x
  seqs : c.recvd.map (·.seq) = List.range c.recvd.length
  allowed : ∀ p ∈ c.invoked, cfg.table.lookup p.2 = some true
  live : Live c
  idle : Idle c

theorem inv_init (cfg : Cfg) : Inv cfg {} where
  acct := fun _ => rfl
  seqs := rfl
  allowed := fun _ h => by cases h
  live := by intro _; exact ⟨rfl, rfl, rfl, rfl⟩
  idle := ⟨fun _ => rfl, fun h => by cases h⟩

/-- A step that touches neither the received calls nor where they are accounted. -/
theorem inv_flags {cfg : Cfg} {c c' : Conn} (h : Inv cfg c) (hr : c'.recvd = c.recvd)
    (hi : c'.invoked = c.invoked) (hc : c'.calls = c.calls) (l : Live c') (i : Idle c') : Inv cfg c' :=
  ⟨fun x => by rw [hc, hr, h.acct], by rw [hr]; exact h.seqs, by rw [hi]; exact h.allowed, l, i⟩

theorem inv_of_same {cfg : Cfg} {c c' : Conn} (h : Inv cfg c) (s : Same c c') (l : Live c') (i : Idle c') :
    Inv cfg c' :=
  ⟨fun x => by rw [s.calls, s.recvd, h.acct], by rw [s.recvd]; exact h.seqs,
   by rw [s.invoked]; exact h.allowed, l, i⟩

theorem idle_alive {c : Conn} (h : Idle c) : c.sendAlive = false → c.queue = [] := by
  intro ha
  apply h.1
  cases hb : c.sendBlocked with
  | false => rfl
  | true => rw [h.2 hb] at ha; cases ha

theorem same_runSend (c : Conn) : Same c (runSend c) := same_sendLoop _ c
theorem live_runSend (c : Conn) (h : Live c) : Live (runSend c) := live_sendLoop _ c h
theorem idle_runSend (c : Conn) (h1 : c.sendAlive = false → c.queue = [])
    (h2 : c.sendBlocked = true → c.sendAlive = true) : Idle (runSend c) :=
  idle_sendLoop _ c (Nat.lt_succ_self _) h1 h2

theorem inv_failConn {cfg : Cfg} {c : Conn} (h : Inv cfg c) (f : Failure) : Inv cfg (failConn c f) :=
  inv_of_same h (same_failConn c f) (by simp [Live, failConn]) (by simp [Idle, failConn])

theorem inv_endSend {cfg : Cfg} {c : Conn} (h : Inv cfg c) : Inv cfg (endSend c) :=
  inv_of_same h (same_endSend c) (by simp [Live, endSend]) (by simp [Idle, endSend])

theorem inv_stopNow {cfg : Cfg} {c : Conn} (h : Inv cfg c) : Inv cfg (stopNow c) := by
  unfold stopNow
  have h0 : Inv cfg { c with stopped := true, recvAlive := false } :=
    inv_flags h rfl rfl rfl (by simp [Live]) (by simpa [Idle] using h.idle)
  exact inv_of_same h0 (same_runSend _) (live_runSend _ h0.live) (idle_runSend _ (idle_alive h0.idle) h0.idle.2)

/-- `complete` adds exactly one occurrence of the call to the accounted classes. -/
theorem grow_complete (c : Conn) (call : Call) (o : Outcome) :
    (complete c call o).recvd = c.recvd ∧ (complete c call o).invoked = c.invoked ∧
    ∀ x, (complete c call o).calls.count x = c.calls.count x + [call].count x := by
  unfold complete
  split
  · have s := same_runSend { c with queue := c.queue ++ [⟨call, o⟩] }
    refine ⟨s.recvd, s.invoked, fun x => ?_⟩
    rw [s.calls]; count_calls
  · refine ⟨rfl, rfl, fun x => ?_⟩
    count_calls

theorem live_complete {c : Conn} (h : Live c) (call : Call) (o : Outcome) : Live (complete c call o) := by
  unfold complete
  split
  · exact live_runSend _ h
  · rename_i ha
    intro hs
    have := (h hs).2.1
    simp_all

theorem idle_complete {c : Conn} (h : Idle c) (call : Call) (o : Outcome) : Idle (complete c call o) := by
  unfold complete
  split
  · rename_i ha
    exact idle_runSend _ (by simp [ha]) h.2
  · exact h

/-- One message of the receive loop. -/
theorem inv_stepFrame {cfg : Cfg} {c : Conn} (h : Inv cfg c) (f : Frame) : Inv cfg (stepFrame cfg c f) := by
  unfold stepFrame
  split
  · exact h
  · cases f with
    | close id => exact inv_stopNow h
    | notCall id => exact inv_failConn h _
    | call id name bindOk =>
      simp only
      have hseq : ((c.recvd ++ [(⟨c.recvd.length, id⟩ : Call)]).map (·.seq)) =
          List.range (c.recvd ++ [(⟨c.recvd.length, id⟩ : Call)]).length := by
        simp [h.seqs, List.range_succ]
      cases hd : callDecision cfg.table name bindOk with
      | invoke =>
        refine ⟨fun x => ?_, hseq, ?_, h.live, h.idle⟩
        · have := h.acct x
          simp only [Conn.calls, List.count_append, List.count_cons, List.count_nil] at this ⊢
          omega
        · intro p hp
          simp only [List.mem_append, List.mem_singleton] at hp
          rcases hp with hp | rfl
          · exact h.allowed p hp
          · exact (callDecision_invoke.mp hd).1
      | unknown | notAllowed | badArgs =>
        simp only
        obtain ⟨g1, g2, g3⟩ := grow_complete { c with recvd := c.recvd ++ [⟨c.recvd.length, id⟩] }
          ⟨c.recvd.length, id⟩ (.rejected _)
        refine ⟨fun x => ?_, by rw [g1]; exact hseq, by rw [g2]; exact h.allowed,
          live_complete (by simpa [Live] using h.live) _ _, idle_complete (by simpa [Idle] using h.idle) _ _⟩
        rw [g3, g1]
        have := h.acct x
        simp only [Conn.calls, List.count_append, List.count_cons, List.count_nil] at this ⊢
        omega

theorem inv_foldFrames {cfg : Cfg} (fs : List Frame) {c : Conn} (h : Inv cfg c) :
    Inv cfg (fs.foldl (stepFrame cfg) c) := by
  induction fs generalizing c with
  | nil => exact h
  | cons f fs ih => exact ih (inv_stepFrame h f)

theorem inv_settleRecv {cfg : Cfg} {c : Conn} (h : Inv cfg c) : Inv cfg (settleRecv c) := by
  unfold settleRecv
  split
  · rename_i hs
    exact inv_flags h rfl rfl rfl (by simp [Live, hs]) (by simpa [Idle] using h.idle)
  · exact h

theorem inv_stepCore {cfg : Cfg} {c : Conn} (h : Inv cfg c) (e : Ev) : Inv cfg (stepCore cfg c e) := by
  cases e with
  | frame f => exact inv_stepFrame h f
  | badHeader => simp only [stepCore]; split; exact inv_failConn h _; exact h
  | bytes b =>
    simp only [stepCore]
    split
    · exact h
    · have h0 : Inv cfg { c with dec := (feed c.dec b).2 } :=
        inv_flags h rfl rfl rfl (by simpa [Live] using h.live) (by simpa [Idle] using h.idle)
      have h1 := inv_foldFrames ((feed c.dec b).1.map cfg.frameOf) h0
      split
      · exact inv_failConn h1 _
      · exact h1
  | eof => simp only [stepCore]; split; exact inv_stopNow h; exact h
  | stop => simp only [stepCore]; split; exact h; exact inv_stopNow h
  | complete k o =>
    simp only [stepCore]
    split
    · exact h
    · rename_i call name hk
      split
      · rename_i hin
        obtain ⟨g1, g2, g3⟩ := grow_complete { c with inflight := c.inflight.erase call } call o
        refine ⟨fun x => ?_, by rw [g1]; exact h.seqs, by rw [g2]; exact h.allowed,
          live_complete (by simpa [Live] using h.live) _ _, idle_complete (by simpa [Idle] using h.idle) _ _⟩
        rw [g3, g1]
        have := h.acct x
        simp only [Conn.calls, List.count_append, List.count_cons, List.count_nil] at this ⊢
        by_cases hx : x = call
        · subst hx
          have hpos : 0 < List.count x c.inflight := List.count_pos_iff.mpr hin
          rw [List.count_erase_self]; simp; omega
        · rw [List.count_erase_of_ne hx]
          have : ¬ (call == x) = true := by simpa using fun e => hx e.symm
          simp [this]; omega
      · exact h
  | tick => exact h
  | pause => simp only [stepCore]; exact inv_flags h rfl rfl rfl (by simpa [Live] using h.live) (by simpa [Idle] using h.idle)
  | resume =>
    simp only [stepCore]
    have h0 : Inv cfg { c with paused := false } :=
      inv_flags h rfl rfl rfl (by simpa [Live] using h.live) (by simpa [Idle] using h.idle)
    split
    · split
      · exact inv_failConn h0 _
      · rename_i hb hf
        have hb' : c.sendBlocked = true := by simpa using hb
        have ha := h.idle.2 hb'
        have s := same_runSend { c with paused := false, sendBlocked := false }
        refine ⟨fun x => ?_, ?_, ?_, live_runSend _ (by simpa [Live] using h.live),
          idle_runSend _ (by simp [ha]) (by simp)⟩
        · rw [s.calls, s.recvd]; exact h.acct x
        · rw [s.recvd]; exact h.seqs
        · rw [s.invoked]; exact h.allowed
    · exact h0
  | lose =>
    simp only [stepCore]
    have h0 : Inv cfg { c with lost := true } :=
      inv_flags h rfl rfl rfl (by simpa [Live] using h.live) (by simpa [Idle] using h.idle)
    split
    · split
      · exact inv_failConn h0 _
      · exact inv_endSend h0
    · exact h0

theorem inv_step {cfg : Cfg} {c : Conn} (h : Inv cfg c) (e : Ev) : Inv cfg (step cfg c e) :=
  inv_settleRecv (inv_stepCore h e)

theorem inv_run {cfg : Cfg} (evs : List Ev) {c : Conn} (h : Inv cfg c) : Inv cfg (run cfg c evs) := by
  unfold run
  induction evs generalizing c with
  | nil => exact h
  | cons e es ih => exact ih (inv_step h e)


/-! ## Consequences of the invariant; single replies; the client -/

theorem lookup_mem {α β : Type} [BEq α] [LawfulBEq α] {l : List (α × β)} {k : α} {v : β}
    (h : l.lookup k = some v) : (k, v) ∈ l := by
  induction l with
  | nil => simp at h
  | cons p l ih =>
    obtain ⟨a, b⟩ := p
    rw [List.lookup_cons] at h
    split at h
    · rename_i hk
      have : k = a := by simpa using hk
      cases h; subst this; simp
    · exact List.mem_cons_of_mem _ (ih h)

theorem nodup_recvd {cfg : Cfg} {c : Conn} (h : Inv cfg c) : c.recvd.Nodup := by
  have : (c.recvd.map (·.seq)).Nodup := by rw [h.seqs]; exact List.nodup_range
  exact List.Pairwise.of_map (·.seq) (fun a b hne heq => hne (congrArg _ heq)) this

theorem calls_perm {cfg : Cfg} {c : Conn} (h : Inv cfg c) : c.calls.Perm c.recvd :=
  List.perm_iff_count.mpr h.acct

theorem count_recvd_le {cfg : Cfg} {c : Conn} (h : Inv cfg c) (x : Call) : c.recvd.count x ≤ 1 :=
  List.nodup_iff_count.mp (nodup_recvd h) x

theorem sent_nodup {cfg : Cfg} {c : Conn} (h : Inv cfg c) : (c.sent.map (·.call)).Nodup := by
  rw [List.nodup_iff_count]
  intro x
  have h1 := h.acct x
  have h2 := count_recvd_le h x
  simp only [Conn.calls, List.count_append] at h1
  omega

theorem sent_mem_recvd {cfg : Cfg} {c : Conn} (h : Inv cfg c) (x : Call) (hx : x ∈ c.sent.map (·.call)) :
    x ∈ c.recvd := by
  have h1 := h.acct x
  have : 0 < List.count x (c.sent.map (·.call)) := List.count_pos_iff.mpr hx
  simp only [Conn.calls, List.count_append] at h1
  exact List.count_pos_iff.mp (by omega)

/-- While the stop event is not set, with nothing in flight and the writer drained,
the replies are exactly the received calls. -/
theorem sent_perm_of_live {cfg : Cfg} {c : Conn} (h : Inv cfg c) (hs : c.stopped = false)
    (hi : c.inflight = []) (hb : c.sendBlocked = false) : (c.sent.map (·.call)).Perm c.recvd := by
  apply List.perm_iff_count.mpr
  intro x
  have h1 := h.acct x
  have hq := h.idle.1 hb
  have hd := (h.live hs).2.2.2
  simp only [Conn.calls, List.count_append, hi, hq, hd, List.map_nil, List.count_nil] at h1
  omega

theorem sendLoop_nil (n : Nat) (c : Conn) (hq : c.queue = []) :
    (sendLoop n c).sent = c.sent ∧ (sendLoop n c).invoked = c.invoked := by
  cases n with
  | zero => exact ⟨rfl, rfl⟩
  | succ n =>
    unfold sendLoop
    split
    · exact ⟨rfl, rfl⟩
    · rw [hq]; simp only; split <;> exact ⟨rfl, rfl⟩

/-- A completed call on a connection whose send loop is idle and whose writer works is written at
once, with the id it was received with and the kind of its outcome. -/
theorem complete_writes (c : Conn) (call : Call) (o : Outcome) (ha : c.sendAlive = true)
    (hb : c.sendBlocked = false) (hq : c.queue = []) (hl : c.lost = false) :
    (complete c call o).sent = c.sent ++ [⟨call, o.kind⟩] := by
  unfold complete runSend
  simp only [ha, if_true, hq, List.nil_append, List.length_singleton]
  unfold sendLoop
  simp only [hb, hl, Bool.not_true, Bool.or_self, Bool.false_eq_true, if_false]
  cases o <;> (try simp only) <;> split <;>
    first | rfl | (simp [failConn]; done) | exact (sendLoop_nil _ _ rfl).1

theorem stepFrame_rejected (cfg : Cfg) (c : Conn) (id : Nat) (name : Name) (b : Bool)
    (hd : callDecision cfg.table name b ≠ .invoke) (hr : c.recvAlive = true) (ha : c.sendAlive = true)
    (hb : c.sendBlocked = false) (hq : c.queue = []) (hl : c.lost = false) :
    (stepFrame cfg c (.call id name b)).sent = c.sent ++ [⟨⟨c.recvd.length, id⟩, .failure false none⟩] ∧
    (stepFrame cfg c (.call id name b)).invoked = c.invoked := by
  unfold stepFrame
  simp only [hr, Bool.not_true, Bool.false_eq_true, if_false]
  cases hdec : callDecision cfg.table name b with
  | invoke => exact absurd hdec hd
  | unknown | notAllowed | badArgs =>
    refine ⟨complete_writes _ _ _ ha hb hq hl, ?_⟩
    exact (grow_complete _ _ _).2.1

/-! ## The client -/

/-- Call ids in the pending table are distinct and were issued by the counter. -/
def CInv (c : Client) : Prop := (c.pending.map (·.1)).Nodup ∧ ∀ p ∈ c.pending, p.1 ≤ c.counter

theorem cinv_failAll {c : Client} (b : Bool) : CInv (c.failAll b) := by
  simp [CInv, Client.failAll]

theorem cinv_cstep {c : Client} (h : CInv c) (e : CEv) : CInv (cstep c e) := by
  obtain ⟨h1, h2⟩ := h
  cases e with
  | call caller =>
    simp only [cstep]
    split
    · refine ⟨?_, ?_⟩
      · simp only [List.map_append, List.map_cons, List.map_nil]
        rw [List.nodup_append]
        refine ⟨h1, by simp, ?_⟩
        intro a ha b hb
        simp only [List.mem_singleton] at hb
        obtain ⟨p, hp, rfl⟩ := List.mem_map.mp ha
        have := h2 p hp
        omega
      · intro p hp
        simp only [List.mem_append, List.mem_singleton] at hp
        rcases hp with hp | rfl
        · have := h2 p hp; simp only; omega
        · simp
    · exact ⟨h1, h2⟩
  | reply id body =>
    simp only [cstep]
    split
    · exact ⟨h1, h2⟩
    · split
      · refine ⟨?_, fun p hp => h2 p (List.mem_filter.mp hp).1⟩
        exact (List.filter_sublist.map _).nodup h1
      · exact cinv_failAll _
  | badHeader => simp only [cstep]; split; exact cinv_failAll _; exact ⟨h1, h2⟩
  | eof => simp only [cstep]; split; exact cinv_failAll _; exact ⟨h1, h2⟩
  | bytes b => exact ⟨h1, h2⟩

theorem cinv_fold {c : Client} (h : CInv c) (evs : List CEv) : CInv (evs.foldl cstep c) := by
  induction evs generalizing c with
  | nil => exact h
  | cons e es ih => exact ih (cinv_cstep h e)

theorem cinv_cstepB {c : Client} (h : CInv c) (e : CEv) : CInv (cstepB c e) := by
  cases e with
  | bytes b =>
    simp only [cstepB]
    split
    · exact h
    · have h0 : CInv { c with dec := (feed c.dec b).2 } := h
      have h1 : CInv ((feed c.dec b).1.foldl (fun c m => cstep c (.reply m.id m.body)) { c with dec := (feed c.dec b).2 }) := by
        generalize (feed c.dec b).1 = ms
        generalize ({ c with dec := (feed c.dec b).2 } : Client) = c0 at h0
        induction ms generalizing c0 with
        | nil => exact h0
        | cons m ms ih => exact ih _ (cinv_cstep h0 _)
      split
      · exact cinv_cstep h1 _
      · exact h1
  | call _ => exact cinv_cstep h _
  | reply _ _ => exact cinv_cstep h _
  | badHeader => exact cinv_cstep h _
  | eof => exact cinv_cstep h _

theorem cinv_crun (evs : List CEv) : CInv (crun {} evs) := by
  unfold crun
  have h0 : CInv ({} : Client) := by simp [CInv]
  generalize ({} : Client) = c at h0
  induction evs generalizing c with
  | nil => exact h0
  | cons e es ih => exact ih _ (cinv_cstepB h0 e)


/-! ## Scripts without faults keep the connection live -/

/-- Events after which the connection is certainly still live: calls arriving, handlers completing
with a picklable result or an exception, the writer pausing and draining. -/
def Ev.benign : Ev → Bool
  | .frame (.call _ _ _) => true
  | .complete _ o => o != .unpicklable
  | .pause => true
  | .resume => true
  | .tick => true
  | _ => false

/-- Nothing that could set the stop event is pending. -/
def Calm (c : Conn) : Prop :=
  c.stopped = false ∧ c.lost = false ∧ c.failAfterDrain = false ∧ ∀ d ∈ c.queue, d.out ≠ .unpicklable

theorem calm_sendLoop (n : Nat) (c : Conn) (h : Calm c) : Calm (sendLoop n c) := by
  induction n generalizing c with
  | zero => exact h
  | succ n ih =>
    obtain ⟨h1, h2, h3, h4⟩ := h
    unfold sendLoop
    split
    · exact ⟨h1, h2, h3, h4⟩
    · split
      · simp only [h1, Bool.false_eq_true, if_false]; exact ⟨h1, h2, h3, h4⟩
      · rename_i d q hq
        have hd : d.out ≠ .unpicklable := h4 d (by rw [hq]; simp)
        have hq' : ∀ d' ∈ q, d'.out ≠ .unpicklable := fun d' hd' => h4 d' (by rw [hq]; simp [hd'])
        split
        · rename_i hl; rw [h2] at hl; cases hl
        · cases hdo : d.out with
          | unpicklable => exact absurd hdo hd
          | result | bigResult | cancelledInside | usage _ | internal _ | rejected _ =>
            simp only
            split
            · exact ⟨h1, h2, h3, hq'⟩
            · exact ih _ ⟨h1, h2, h3, hq'⟩

theorem calm_complete {c : Conn} (h : Calm c) (call : Call) (o : Outcome) (ho : o ≠ .unpicklable) :
    Calm (complete c call o) := by
  obtain ⟨h1, h2, h3, h4⟩ := h
  unfold complete
  split
  · refine calm_sendLoop _ _ ⟨h1, h2, h3, ?_⟩
    intro d hd
    simp only [List.mem_append, List.mem_singleton] at hd
    rcases hd with hd | rfl
    · exact h4 d hd
    · exact ho
  · exact ⟨h1, h2, h3, h4⟩

theorem calm_step {cfg : Cfg} {c : Conn} (h : Calm c) (e : Ev) (he : e.benign = true) : Calm (step cfg c e) := by
  have hs : ∀ c', Calm c' → Calm (settleRecv c') := by
    intro c' h'
    unfold settleRecv
    rw [h'.1]; exact h'
  apply hs
  obtain ⟨h1, h2, h3, h4⟩ := h
  cases e with
  | frame f =>
    cases f with
    | call id name b =>
      simp only [stepCore, stepFrame]
      split
      · exact ⟨h1, h2, h3, h4⟩
      · cases hd : callDecision cfg.table name b with
        | invoke => exact ⟨h1, h2, h3, h4⟩
        | unknown | notAllowed | badArgs =>
          exact calm_complete (c := { c with recvd := c.recvd ++ [⟨c.recvd.length, id⟩] }) ⟨h1, h2, h3, h4⟩
            ⟨c.recvd.length, id⟩ (.rejected _) (by simp)
    | notCall id => simp [Ev.benign] at he
    | close id => simp [Ev.benign] at he
  | complete k o =>
    have ho : o ≠ .unpicklable := by simpa [Ev.benign] using he
    simp only [stepCore]
    split
    · exact ⟨h1, h2, h3, h4⟩
    · split
      · refine calm_complete (c := _) ?_ _ _ ho
        exact ⟨h1, h2, h3, h4⟩
      · exact ⟨h1, h2, h3, h4⟩
  | tick => exact ⟨h1, h2, h3, h4⟩
  | pause => exact ⟨h1, h2, h3, h4⟩
  | resume =>
    simp only [stepCore]
    split
    · split
      · rename_i hf; rw [h3] at hf; cases hf
      · exact calm_sendLoop _ _ ⟨h1, h2, h3, h4⟩
    · exact ⟨h1, h2, h3, h4⟩
  | bytes _ => simp [Ev.benign] at he
  | badHeader => simp [Ev.benign] at he
  | eof => simp [Ev.benign] at he
  | stop => simp [Ev.benign] at he
  | lose => simp [Ev.benign] at he

theorem calm_run {cfg : Cfg} (evs : List Ev) {c : Conn} (h : Calm c) (he : ∀ e ∈ evs, e.benign = true) :
    Calm (run cfg c evs) := by
  unfold run
  induction evs generalizing c with
  | nil => exact h
  | cons e es ih =>
    exact ih (calm_step h e (he e (by simp))) (fun e' he' => he e' (by simp [he']))


/-! ## A failing call does not disturb the others -/

/-- Without an unpicklable result in the queue the send loop never cancels a handler. -/
theorem sendLoop_keeps_inflight (n : Nat) (c : Conn) (h : ∀ d ∈ c.queue, d.out ≠ .unpicklable) :
    (sendLoop n c).inflight = c.inflight ∧ (sendLoop n c).cancelled = c.cancelled := by
  induction n generalizing c with
  | zero => exact ⟨rfl, rfl⟩
  | succ n ih =>
    unfold sendLoop
    split
    · exact ⟨rfl, rfl⟩
    · split
      · split <;> exact ⟨rfl, rfl⟩
      · rename_i d q hq
        have hd : d.out ≠ .unpicklable := h d (by rw [hq]; simp)
        have hq' : ∀ d' ∈ q, d'.out ≠ .unpicklable := fun d' hd' => h d' (by rw [hq]; simp [hd'])
        cases hdo : d.out with
        | unpicklable => exact absurd hdo hd
        | result | bigResult | cancelledInside | usage _ | internal _ | rejected _ =>
          split
          · exact ⟨rfl, rfl⟩
          · simp only
            split
            · exact ⟨rfl, rfl⟩
            · exact ih _ hq'

theorem complete_keeps_inflight {c : Conn} (hi : Idle c) (call : Call) (o : Outcome) (ho : o ≠ .unpicklable) :
    (complete c call o).inflight = c.inflight ∧ (complete c call o).cancelled = c.cancelled := by
  unfold complete
  split
  · unfold runSend
    cases hb : c.sendBlocked with
    | true =>
      unfold sendLoop
      simp
    | false =>
      have hq := hi.1 hb
      refine sendLoop_keeps_inflight _ _ ?_
      intro d hd
      simp only [hq, List.nil_append, List.mem_singleton] at hd
      subst hd
      exact ho
  · exact ⟨rfl, rfl⟩

theorem settleRecv_inflight (c : Conn) :
    (settleRecv c).inflight = c.inflight ∧ (settleRecv c).cancelled = c.cancelled := by
  unfold settleRecv; split <;> exact ⟨rfl, rfl⟩

/-- A handler that ends with a result or an exception leaves every other handler running. -/
theorem step_complete_keeps_others {cfg : Cfg} {c : Conn} (h : Inv cfg c) (k : Nat) (o : Outcome)
    (ho : o ≠ .unpicklable) (x : Call) (hx : x ∈ c.inflight) (hne : c.invoked[k]?.map (·.1) ≠ some x) :
    x ∈ (step cfg c (.complete k o)).inflight ∧ (step cfg c (.complete k o)).cancelled = c.cancelled := by
  unfold step
  rw [(settleRecv_inflight _).1, (settleRecv_inflight _).2]
  simp only [stepCore]
  split
  · exact ⟨hx, rfl⟩
  · rename_i call name hk
    split
    · have hi : Idle { c with inflight := c.inflight.erase call } := by simpa [Idle] using h.idle
      obtain ⟨e1, e2⟩ := complete_keeps_inflight hi call o ho
      rw [e1, e2]
      refine ⟨?_, rfl⟩
      have : x ≠ call := by
        intro e; subst e; rw [hk] at hne; simp at hne
      exact (List.mem_erase_of_ne this).mpr hx
    · exact ⟨hx, rfl⟩


/-! ## Vanished peers and handlers cancelled from inside never make `serve()` raise -/

/-- Events that are not a protocol violation of the peer or an unpicklable result: calls, the close
request, EOF/reset, `stop()`, handlers ending with a result or any exception (also a
`CancelledError` from inside), the writer pausing, draining or being lost with any error. -/
def Ev.harmless : Ev → Bool
  | .frame (.call _ _ _) => true
  | .frame (.close _) => true
  | .eof => true
  | .stop => true
  | .complete _ o => o != .unpicklable
  | .pause => true
  | .resume => true
  | .lose _ _ => true
  | .tick => true
  | _ => false

/-- `serve()` is not going to raise and no handler was cancelled. -/
def Quiet (c : Conn) : Prop :=
  c.failed = none ∧ c.cancelled = [] ∧ c.failAfterDrain = false ∧ ∀ d ∈ c.queue, d.out ≠ .unpicklable

theorem quiet_endSend {c : Conn} (h : Quiet c) : Quiet (endSend c) := by
  obtain ⟨h1, h2, h3, _⟩ := h
  exact ⟨h1, h2, h3, fun _ hd => by simp [endSend] at hd⟩

theorem quiet_sendLoop (n : Nat) (c : Conn) (h : Quiet c) : Quiet (sendLoop n c) := by
  induction n generalizing c with
  | zero => exact h
  | succ n ih =>
    obtain ⟨h1, h2, h3, h4⟩ := h
    unfold sendLoop
    split
    · exact ⟨h1, h2, h3, h4⟩
    · split
      · split <;> exact ⟨h1, h2, h3, h4⟩
      · rename_i d q hq
        have hd : d.out ≠ .unpicklable := h4 d (by rw [hq]; simp)
        have hq' : ∀ d' ∈ q, d'.out ≠ .unpicklable := fun d' hd' => h4 d' (by rw [hq]; simp [hd'])
        cases hdo : d.out with
        | unpicklable => exact absurd hdo hd
        | result | bigResult | cancelledInside | usage _ | internal _ | rejected _ =>
          split
          · exact quiet_endSend (c := { c with queue := q, dropped := c.dropped ++ [d.call] }) ⟨h1, h2, h3, hq'⟩
          · simp only
            split
            · exact ⟨h1, h2, h3, hq'⟩
            · exact ih _ ⟨h1, h2, h3, hq'⟩

theorem quiet_complete {c : Conn} (h : Quiet c) (call : Call) (o : Outcome) (ho : o ≠ .unpicklable) :
    Quiet (complete c call o) := by
  obtain ⟨h1, h2, h3, h4⟩ := h
  unfold complete
  split
  · refine quiet_sendLoop _ _ ⟨h1, h2, h3, ?_⟩
    intro d hd
    simp only [List.mem_append, List.mem_singleton] at hd
    rcases hd with hd | rfl
    · exact h4 d hd
    · exact ho
  · exact ⟨h1, h2, h3, h4⟩

theorem quiet_stopNow {c : Conn} (h : Quiet c) : Quiet (stopNow c) :=
  quiet_sendLoop _ _ h

theorem quiet_step {cfg : Cfg} {c : Conn} (h : Quiet c) (e : Ev) (he : e.harmless = true) : Quiet (step cfg c e) := by
  have hs : ∀ c', Quiet c' → Quiet (settleRecv c') := by
    intro c' h'
    unfold settleRecv
    split
    · exact h'
    · exact h'
  apply hs
  obtain ⟨h1, h2, h3, h4⟩ := h
  cases e with
  | frame f =>
    cases f with
    | call id name b =>
      simp only [stepCore, stepFrame]
      split
      · exact ⟨h1, h2, h3, h4⟩
      · cases hd : callDecision cfg.table name b with
        | invoke => exact ⟨h1, h2, h3, h4⟩
        | unknown | notAllowed | badArgs =>
          exact quiet_complete (c := { c with recvd := c.recvd ++ [⟨c.recvd.length, id⟩] }) ⟨h1, h2, h3, h4⟩
            ⟨c.recvd.length, id⟩ (.rejected _) (by simp)
    | notCall id => simp [Ev.harmless] at he
    | close id =>
      simp only [stepCore, stepFrame]
      split
      · exact ⟨h1, h2, h3, h4⟩
      · exact quiet_stopNow ⟨h1, h2, h3, h4⟩
  | complete k o =>
    have ho : o ≠ .unpicklable := by simpa [Ev.harmless] using he
    simp only [stepCore]
    split
    · exact ⟨h1, h2, h3, h4⟩
    · split
      · refine quiet_complete (c := _) ?_ _ _ ho
        exact ⟨h1, h2, h3, h4⟩
      · exact ⟨h1, h2, h3, h4⟩
  | tick => exact ⟨h1, h2, h3, h4⟩
  | pause => exact ⟨h1, h2, h3, h4⟩
  | resume =>
    simp only [stepCore]
    split
    · split
      · rename_i hf; rw [h3] at hf; cases hf
      · exact quiet_sendLoop _ _ ⟨h1, h2, h3, h4⟩
    · exact ⟨h1, h2, h3, h4⟩
  | lose k s =>
    simp only [stepCore]
    split
    · split
      · rename_i hf; rw [h3] at hf; cases hf
      · exact quiet_endSend (c := { c with lost := true }) ⟨h1, h2, h3, h4⟩
    · exact ⟨h1, h2, h3, h4⟩
  | eof =>
    simp only [stepCore]
    split
    · exact quiet_stopNow ⟨h1, h2, h3, h4⟩
    · exact ⟨h1, h2, h3, h4⟩
  | stop =>
    simp only [stepCore]
    split
    · exact ⟨h1, h2, h3, h4⟩
    · exact quiet_stopNow ⟨h1, h2, h3, h4⟩
  | bytes _ => simp [Ev.harmless] at he
  | badHeader => simp [Ev.harmless] at he

theorem quiet_run {cfg : Cfg} (evs : List Ev) {c : Conn} (h : Quiet c) (he : ∀ e ∈ evs, e.harmless = true) :
    Quiet (run cfg c evs) := by
  unfold run
  induction evs generalizing c with
  | nil => exact h
  | cons e es ih =>
    exact ih (quiet_step h e (he e (by simp))) (fun e' he' => he e' (by simp [he']))

theorem settleRecv_sent (c : Conn) : (settleRecv c).sent = c.sent := by
  unfold settleRecv; split <;> rfl

/-- The reply written when the handler of the `k`-th invoked call ends, on an idle working writer. -/
theorem step_complete_writes {cfg : Cfg} {c : Conn} (h : Inv cfg c) (k : Nat) (o : Outcome) (call : Call)
    (name : Name) (hk : c.invoked[k]? = some (call, name)) (hin : call ∈ c.inflight)
    (ha : c.sendAlive = true) (hb : c.sendBlocked = false) (hl : c.lost = false) :
    (step cfg c (.complete k o)).sent = c.sent ++ [⟨call, o.kind⟩] := by
  unfold step
  rw [settleRecv_sent]
  simp only [stepCore, hk, hin, if_true]
  exact complete_writes _ call o ha hb (h.idle.1 hb) hl


/-! ## Received calls stay received -/

/-- Received calls are never forgotten. -/
theorem recvd_mono_sendLoop (n : Nat) (c : Conn) : (sendLoop n c).recvd = c.recvd := (same_sendLoop n c).recvd

theorem recvd_mono_step (cfg : Cfg) (c : Conn) (e : Ev) (x : Call) (hx : x ∈ c.recvd) : x ∈ (step cfg c e).recvd := by
  have hsr : ∀ c', (settleRecv c').recvd = c'.recvd := by intro c'; unfold settleRecv; split <;> rfl
  have hcomp : ∀ c' call o, (complete c' call o).recvd = c'.recvd := fun c' call o => (grow_complete c' call o).1
  have hstop : ∀ c', (stopNow c').recvd = c'.recvd := fun c' => (same_runSend _).recvd
  have hframe : ∀ c' f, x ∈ c'.recvd → x ∈ (stepFrame cfg c' f).recvd := by
    intro c' f h
    unfold stepFrame
    split
    · exact h
    · cases f with
      | close id => simp only; rw [hstop]; exact h
      | notCall id => exact h
      | call id name b =>
        simp only
        cases callDecision cfg.table name b with
        | invoke => simp [h]
        | unknown | notAllowed | badArgs => simp only; rw [hcomp]; simp [h]
  unfold step
  rw [hsr]
  cases e with
  | frame f => exact hframe c f hx
  | badHeader => simp only [stepCore]; split <;> exact hx
  | bytes b =>
    simp only [stepCore]
    split
    · exact hx
    · have : ∀ (fs : List Frame) (c0 : Conn), x ∈ c0.recvd → x ∈ (fs.foldl (stepFrame cfg) c0).recvd := by
        intro fs
        induction fs with
        | nil => intro c0 h; exact h
        | cons f fs ih => intro c0 h; exact ih _ (hframe c0 f h)
      have h1 := this ((feed c.dec b).1.map cfg.frameOf) { c with dec := (feed c.dec b).2 } hx
      split
      · exact h1
      · exact h1
  | eof => simp only [stepCore]; split; rw [hstop]; exact hx; exact hx
  | stop => simp only [stepCore]; split; exact hx; rw [hstop]; exact hx
  | complete k o =>
    simp only [stepCore]
    split
    · exact hx
    · split
      · rw [hcomp]; exact hx
      · exact hx
  | tick => exact hx
  | pause => exact hx
  | resume =>
    simp only [stepCore]
    split
    · split
      · exact hx
      · rw [(same_runSend _).recvd]; exact hx
    · exact hx
  | lose k s =>
    simp only [stepCore]
    split
    · split <;> exact hx
    · exact hx

theorem recvd_mono_run (cfg : Cfg) (evs : List Ev) (c : Conn) (x : Call) (hx : x ∈ c.recvd) :
    x ∈ (run cfg c evs).recvd := by
  unfold run
  induction evs generalizing c with
  | nil => exact hx
  | cons e es ih => exact ih _ (recvd_mono_step cfg c e x hx)


end StepupModel.P.Rpc
