import StepupModel.P.NGlob
/-! Helper lemmas for C17 (statements of the property live in `Props/C17.lean`). -/
namespace StepupModel.P.NGlob

/-! ### Results: `extend`, `reduce`, `eqv`, `files` -/

def keys (r : Results) : List Key := r.map Prod.fst

/-- What a Python dictionary of non-empty sets guarantees. -/
def WF (r : Results) : Prop := (keys r).Nodup ∧ ∀ kp ∈ r, kp.2 ≠ []

/-- Every stored path sits under the key the matcher gives it. -/
def Consistent (m : Str → Option Key) (r : Results) : Prop := ∀ k q, q ∈ r.get k → m q = some k

theorem get_nil (k : Key) : Results.get [] k = [] := rfl

theorem get_cons (k' : Key) (ps : List Str) (rest : Results) (k : Key) :
    Results.get ((k', ps) :: rest) k = if k' = k then ps else Results.get rest k := rfl

theorem get_eq_nil_of_not_mem {r : Results} {k : Key} (h : k ∉ keys r) : r.get k = [] := by
  induction r with
  | nil => rfl
  | cons kp rest ih =>
    obtain ⟨k', ps⟩ := kp
    simp only [keys, List.map_cons, List.mem_cons, not_or] at h
    rw [get_cons, if_neg (fun e => h.1 e.symm)]
    exact ih h.2

theorem mem_keys_of_mem_get {r : Results} {k : Key} {q : Str} (h : q ∈ r.get k) : k ∈ keys r := by
  apply Classical.byContradiction
  intro hk
  rw [get_eq_nil_of_not_mem hk] at h
  simp at h

theorem mem_get_iff {r : Results} (hn : (keys r).Nodup) (k : Key) (q : Str) :
    q ∈ r.get k ↔ ∃ ps, (k, ps) ∈ r ∧ q ∈ ps := by
  induction r with
  | nil => simp [get_nil]
  | cons kp rest ih =>
    obtain ⟨k', ps'⟩ := kp
    simp only [keys, List.map_cons, List.nodup_cons] at hn
    rw [get_cons]
    by_cases hk : k' = k
    · subst hk
      simp only [if_true, List.mem_cons, Prod.mk.injEq, true_and]
      constructor
      · intro h; exact ⟨ps', Or.inl rfl, h⟩
      · rintro ⟨ps, h | h, hq⟩
        · rw [← h]; exact hq
        · exact absurd (List.mem_map_of_mem (f := Prod.fst) h) hn.1
    · rw [if_neg hk, ih hn.2]
      constructor
      · rintro ⟨ps, h, hq⟩; exact ⟨ps, List.mem_cons_of_mem _ h, hq⟩
      · rintro ⟨ps, h, hq⟩
        rcases List.mem_cons.mp h with h | h
        · simp only [Prod.mk.injEq] at h; exact absurd h.1.symm hk
        · exact ⟨ps, h, hq⟩

/-! #### insertPath -/

theorem mem_get_insertPath (k : Key) (p : Str) (r : Results) (k' : Key) (q : Str) :
    q ∈ (insertPath k p r).get k' ↔ q ∈ r.get k' ∨ (k' = k ∧ q = p) := by
  induction r with
  | nil =>
    simp only [insertPath, get_cons, get_nil]
    by_cases hk : k = k'
    · subst hk; simp
    · rw [if_neg hk]; simp; intro h; exact absurd h.symm hk
  | cons kp rest ih =>
    obtain ⟨k0, ps⟩ := kp
    simp only [insertPath]
    by_cases h0 : k0 = k
    · subst h0
      rw [if_pos rfl, get_cons, get_cons]
      by_cases hk : k0 = k'
      · subst hk
        simp only [if_true, true_and]
        by_cases hc : ps.contains p = true
        · rw [if_pos hc]
          have : p ∈ ps := by simpa using hc
          constructor
          · intro h; exact Or.inl h
          · rintro (h | h)
            · exact h
            · rw [h]; exact this
        · rw [if_neg hc]; simp
      · rw [if_neg hk, if_neg hk]
        constructor
        · intro h; exact Or.inl h
        · rintro (h | ⟨h, _⟩)
          · exact h
          · exact absurd h.symm hk
    · rw [if_neg h0, get_cons, get_cons]
      by_cases hk : k0 = k'
      · subst hk
        simp only [if_true]
        constructor
        · intro h; exact Or.inl h
        · rintro (h | ⟨h, _⟩)
          · exact h
          · exact absurd h h0
      · rw [if_neg hk, if_neg hk]; exact ih

theorem keys_insertPath (k : Key) (p : Str) (r : Results) :
    keys (insertPath k p r) = if k ∈ keys r then keys r else keys r ++ [k] := by
  induction r with
  | nil => simp [insertPath, keys]
  | cons kp rest ih =>
    obtain ⟨k0, ps⟩ := kp
    simp only [insertPath]
    by_cases h0 : k0 = k
    · subst h0; simp [keys]
    · rw [if_neg h0]
      simp only [keys, List.map_cons, List.mem_cons] at ih ⊢
      rw [ih]
      have : ¬ k = k0 := fun e => h0 e.symm
      by_cases hm : k ∈ List.map Prod.fst rest
      · simp [hm]
      · simp [hm, this]

theorem wf_insertPath {k : Key} {p : Str} {r : Results} (h : WF r) : WF (insertPath k p r) := by
  constructor
  · rw [keys_insertPath]
    split
    · exact h.1
    · next hk =>
      rw [List.nodup_append]
      refine ⟨h.1, by simp, ?_⟩
      intro a ha b hb
      simp at hb; subst hb
      intro e; subst e; exact hk ha
  · have h2 := h.2
    clear h
    induction r with
    | nil => intro kp hkp; simp [insertPath] at hkp; subst hkp; simp
    | cons kp0 rest ih =>
      obtain ⟨k0, ps⟩ := kp0
      intro kp hkp
      simp only [insertPath] at hkp
      split at hkp
      · rcases List.mem_cons.mp hkp with e | e
        · subst e
          simp only
          split
          · exact h2 _ (List.mem_cons_self)
          · simp
        · exact h2 _ (List.mem_cons_of_mem _ e)
      · rcases List.mem_cons.mp hkp with e | e
        · subst e; exact h2 _ (List.mem_cons_self)
        · exact ih (fun x hx => h2 x (List.mem_cons_of_mem _ hx)) kp e

/-! #### removePath -/

theorem mem_get_removePath {r : Results} (hn : (keys r).Nodup) (k : Key) (p : Str) (k' : Key) (q : Str) :
    q ∈ (removePath k p r).get k' ↔ q ∈ r.get k' ∧ ¬ (k' = k ∧ q = p) := by
  induction r with
  | nil => simp [removePath, get_nil]
  | cons kp rest ih =>
    obtain ⟨k0, ps⟩ := kp
    simp only [keys, List.map_cons, List.nodup_cons] at hn
    simp only [removePath]
    by_cases h0 : k0 = k
    · subst h0
      rw [if_pos rfl]
      have hrest : Results.get rest k0 = [] := get_eq_nil_of_not_mem hn.1
      by_cases hf : ps.filter (· != p) = []
      · simp only [hf, if_true]
        rw [get_cons]
        by_cases hk : k0 = k'
        · subst hk
          rw [if_pos rfl, hrest]
          simp only [List.not_mem_nil, true_and, false_iff, not_and, Classical.not_not]
          intro hq
          have := List.filter_eq_nil_iff.mp hf q hq
          simpa using this
        · rw [if_neg hk]
          constructor
          · intro h; exact ⟨h, fun ⟨e, _⟩ => hk e.symm⟩
          · exact fun h => h.1
      · simp only [hf, if_false]
        rw [get_cons, get_cons]
        by_cases hk : k0 = k'
        · subst hk
          simp only [if_true, true_and, List.mem_filter, bne_iff_ne, ne_eq]
        · rw [if_neg hk, if_neg hk]
          constructor
          · intro h; exact ⟨h, fun ⟨e, _⟩ => hk e.symm⟩
          · exact fun h => h.1
    · rw [if_neg h0, get_cons, get_cons]
      by_cases hk : k0 = k'
      · subst hk
        simp only [if_true]
        constructor
        · intro h; exact ⟨h, fun ⟨e, _⟩ => h0 e⟩
        · exact fun h => h.1
      · rw [if_neg hk, if_neg hk]; exact ih hn.2

theorem keys_removePath_sublist (k : Key) (p : Str) (r : Results) :
    (keys (removePath k p r)).Sublist (keys r) := by
  induction r with
  | nil => simp [removePath, keys]
  | cons kp rest ih =>
    obtain ⟨k0, ps⟩ := kp
    simp only [removePath]
    split
    · split
      · simp [keys]
      · simp [keys]
    · simp only [keys, List.map_cons] at ih ⊢
      exact List.Sublist.cons_cons _ ih

theorem wf_removePath {k : Key} {p : Str} {r : Results} (h : WF r) : WF (removePath k p r) := by
  refine ⟨(keys_removePath_sublist k p r).nodup h.1, ?_⟩
  have h2 := h.2
  clear h
  induction r with
  | nil => simp [removePath]
  | cons kp0 rest ih =>
    obtain ⟨k0, ps⟩ := kp0
    intro kp hkp
    simp only [removePath] at hkp
    split at hkp
    · split at hkp
      · exact h2 _ (List.mem_cons_of_mem _ hkp)
      · next hne =>
        rcases List.mem_cons.mp hkp with e | e
        · subst e; exact hne
        · exact h2 _ (List.mem_cons_of_mem _ e)
    · rcases List.mem_cons.mp hkp with e | e
      · subst e; exact h2 _ (List.mem_cons_self)
      · exact ih (fun x hx => h2 x (List.mem_cons_of_mem _ hx)) kp e

/-! #### extend / reduce -/

def stepExt (m : Str → Option Key) (r : Results) (p : Str) : Results :=
  match m p with | some k => insertPath k p r | none => r

def stepRed (m : Str → Option Key) (r : Results) (p : Str) : Results :=
  match m p with | some k => removePath k p r | none => r

theorem extend_eq (m : Str → Option Key) (r : Results) (ps : List Str) :
    extend m r ps = ps.foldl (stepExt m) r := rfl

theorem reduce_eq (m : Str → Option Key) (r : Results) (ps : List Str) :
    reduce m r ps = ps.foldl (stepRed m) r := rfl

theorem wf_stepExt {m : Str → Option Key} {r : Results} (p : Str) (h : WF r) : WF (stepExt m r p) := by
  unfold stepExt; split
  · exact wf_insertPath h
  · exact h

theorem wf_stepRed {m : Str → Option Key} {r : Results} (p : Str) (h : WF r) : WF (stepRed m r p) := by
  unfold stepRed; split
  · exact wf_removePath h
  · exact h

theorem wf_extend {m : Str → Option Key} {r : Results} (ps : List Str) (h : WF r) : WF (extend m r ps) := by
  rw [extend_eq]
  induction ps generalizing r with
  | nil => exact h
  | cons p ps ih => exact ih (wf_stepExt p h)

theorem wf_reduce {m : Str → Option Key} {r : Results} (ps : List Str) (h : WF r) : WF (reduce m r ps) := by
  rw [reduce_eq]
  induction ps generalizing r with
  | nil => exact h
  | cons p ps ih => exact ih (wf_stepRed p h)

theorem wf_nil : WF [] := ⟨by simp [keys], by simp⟩

theorem mem_get_extend (m : Str → Option Key) (r : Results) (ps : List Str) (k : Key) (q : Str) :
    q ∈ (extend m r ps).get k ↔ q ∈ r.get k ∨ (q ∈ ps ∧ m q = some k) := by
  rw [extend_eq]
  induction ps generalizing r with
  | nil => simp
  | cons p ps ih =>
    rw [List.foldl_cons, ih]
    have hstep : q ∈ (stepExt m r p).get k ↔ q ∈ r.get k ∨ (q = p ∧ m q = some k) := by
      unfold stepExt
      cases hm : m p with
      | none =>
        simp only
        constructor
        · exact Or.inl
        · rintro (h | ⟨rfl, h⟩)
          · exact h
          · rw [hm] at h; cases h
      | some k0 =>
        simp only
        rw [mem_get_insertPath]
        constructor
        · rintro (h | ⟨rfl, rfl⟩)
          · exact Or.inl h
          · exact Or.inr ⟨rfl, hm⟩
        · rintro (h | ⟨rfl, h⟩)
          · exact Or.inl h
          · rw [hm] at h; cases h; exact Or.inr ⟨rfl, rfl⟩
    rw [hstep]
    simp only [List.mem_cons]
    constructor
    · rintro ((h | h) | h)
      · exact Or.inl h
      · exact Or.inr ⟨Or.inl h.1, h.2⟩
      · exact Or.inr ⟨Or.inr h.1, h.2⟩
    · rintro (h | ⟨h | h, h2⟩)
      · exact Or.inl (Or.inl h)
      · exact Or.inl (Or.inr ⟨h, h2⟩)
      · exact Or.inr ⟨h, h2⟩

theorem consistent_extend {m : Str → Option Key} {r : Results} (ps : List Str) (h : Consistent m r) :
    Consistent m (extend m r ps) := by
  intro k q hq
  rcases (mem_get_extend m r ps k q).mp hq with h1 | h1
  · exact h k q h1
  · exact h1.2

theorem consistent_nil (m : Str → Option Key) : Consistent m [] := by
  intro k q hq; simp [get_nil] at hq

theorem mem_get_stepRed {m : Str → Option Key} {r : Results} (hw : WF r) (hc : Consistent m r) (p : Str)
    (k : Key) (q : Str) : q ∈ (stepRed m r p).get k ↔ q ∈ r.get k ∧ q ≠ p := by
  unfold stepRed
  cases hm : m p with
  | none =>
    simp only
    constructor
    · intro h
      refine ⟨h, ?_⟩
      rintro rfl
      rw [hc k q h] at hm; cases hm
    · exact fun h => h.1
  | some k0 =>
    simp only
    rw [mem_get_removePath hw.1]
    constructor
    · rintro ⟨h, hn⟩
      refine ⟨h, ?_⟩
      rintro rfl
      have := hc k q h
      rw [hm] at this; cases this
      exact hn ⟨rfl, rfl⟩
    · rintro ⟨h, hn⟩
      exact ⟨h, fun ⟨_, e⟩ => hn e⟩

theorem mem_get_reduce {m : Str → Option Key} {r : Results} (hw : WF r) (hc : Consistent m r)
    (ps : List Str) (k : Key) (q : Str) :
    q ∈ (reduce m r ps).get k ↔ q ∈ r.get k ∧ q ∉ ps := by
  rw [reduce_eq]
  induction ps generalizing r with
  | nil => simp
  | cons p ps ih =>
    rw [List.foldl_cons]
    have hc' : Consistent m (stepRed m r p) := by
      intro k' q' hq'
      exact hc k' q' ((mem_get_stepRed hw hc p k' q').mp hq').1
    rw [ih (wf_stepRed p hw) hc', mem_get_stepRed hw hc]
    simp only [List.mem_cons, not_or]
    constructor
    · rintro ⟨⟨h1, h2⟩, h3⟩; exact ⟨h1, h2, h3⟩
    · rintro ⟨h1, h2, h3⟩; exact ⟨⟨h1, h2⟩, h3⟩

/-! #### `eqv` is extensional equality on well-formed results -/

theorem get_of_mem {r : Results} (hn : (keys r).Nodup) {k : Key} {ps : List Str} (h : (k, ps) ∈ r) :
    r.get k = ps := by
  induction r with
  | nil => simp at h
  | cons kp rest ih =>
    obtain ⟨k0, ps0⟩ := kp
    simp only [keys, List.map_cons, List.nodup_cons] at hn
    rw [get_cons]
    rcases List.mem_cons.mp h with e | e
    · simp only [Prod.mk.injEq] at e
      rw [if_pos e.1.symm, e.2]
    · have : k0 ≠ k := by
        rintro rfl
        exact hn.1 (List.mem_map_of_mem (f := Prod.fst) e)
      rw [if_neg this]; exact ih hn.2 e

theorem subResults_iff {a b : Results} (ha : (keys a).Nodup) :
    subResults a b = true ↔ ∀ k q, q ∈ a.get k → q ∈ b.get k := by
  simp only [subResults, List.all_eq_true, List.contains_eq_mem, decide_eq_true_eq, Prod.forall]
  constructor
  · intro h k q hq
    obtain ⟨ps, hps, hq'⟩ := (mem_get_iff ha k q).mp hq
    exact h k ps hps q hq'
  · intro h k ps hps q hq
    exact h k q ((mem_get_iff ha k q).mpr ⟨ps, hps, hq⟩)

theorem keysIn_of_sub {a b : Results} (ha : WF a) (h : ∀ k q, q ∈ a.get k → q ∈ b.get k) :
    keysIn a b = true := by
  simp only [keysIn, List.all_eq_true, List.any_eq_true, beq_iff_eq, Prod.forall, Prod.exists]
  intro k ps hps
  have hne := ha.2 _ hps
  obtain ⟨q, hq⟩ := List.exists_mem_of_ne_nil _ hne
  have hq' : q ∈ a.get k := by rw [get_of_mem ha.1 hps]; exact hq
  have hk := mem_keys_of_mem_get (h k q hq')
  simp only [keys, List.mem_map, Prod.exists] at hk
  obtain ⟨k1, ps1, h1, h2⟩ := hk
  exact ⟨k1, ps1, h1, h2⟩

theorem eqv_iff {a b : Results} (ha : WF a) (hb : WF b) :
    eqv a b = true ↔ ∀ k q, q ∈ a.get k ↔ q ∈ b.get k := by
  simp only [eqv, Bool.and_eq_true]
  constructor
  · rintro ⟨⟨⟨h1, h2⟩, _⟩, _⟩ k q
    exact ⟨(subResults_iff ha.1).mp h1 k q, (subResults_iff hb.1).mp h2 k q⟩
  · intro h
    have h1 : ∀ k q, q ∈ a.get k → q ∈ b.get k := fun k q => (h k q).mp
    have h2 : ∀ k q, q ∈ b.get k → q ∈ a.get k := fun k q => (h k q).mpr
    exact ⟨⟨⟨(subResults_iff ha.1).mpr h1, (subResults_iff hb.1).mpr h2⟩, keysIn_of_sub ha h1⟩,
      keysIn_of_sub hb h2⟩

/-! #### files -/

theorem mem_insertSorted (x y : Str) (l : List Str) : x ∈ insertSorted y l ↔ x = y ∨ x ∈ l := by
  induction l with
  | nil => simp [insertSorted]
  | cons z zs ih =>
    simp only [insertSorted]
    split
    · simp
    · split
      · next h => subst h; simp
      · simp only [List.mem_cons, ih]
        constructor
        · rintro (h | h | h)
          · exact Or.inr (Or.inl h)
          · exact Or.inl h
          · exact Or.inr (Or.inr h)
        · rintro (h | h | h)
          · exact Or.inr (Or.inl h)
          · exact Or.inl h
          · exact Or.inr (Or.inr h)

theorem mem_sortDedup (x : Str) (l : List Str) : x ∈ sortDedup l ↔ x ∈ l := by
  induction l with
  | nil => simp [sortDedup]
  | cons y ys ih =>
    simp only [sortDedup, List.foldr_cons] at ih ⊢
    rw [mem_insertSorted, ih]; simp

theorem mem_files {r : Results} (hn : (keys r).Nodup) (q : Str) : q ∈ files r ↔ ∃ k, q ∈ r.get k := by
  simp only [files, mem_sortDedup, List.mem_flatMap, Prod.exists]
  constructor
  · rintro ⟨k, ps, h, hq⟩; exact ⟨k, (mem_get_iff hn k q).mpr ⟨ps, h, hq⟩⟩
  · rintro ⟨k, hq⟩
    obtain ⟨ps, h, hq'⟩ := (mem_get_iff hn k q).mp hq
    exact ⟨k, ps, h, hq'⟩


/-! ### Declarative meaning of the regular-expression fragment -/

def AllIn (cs : CSet) (s : Str) : Prop := ∀ c ∈ s, cs.mem c = true

def AtomLang : Atom → Str → Prop
  | .lit t, s => s = t
  | .one cs, s => ∃ c, s = [c] ∧ cs.mem c = true
  | .star cs, s => AllIn cs s
  | .plus cs, s => s ≠ [] ∧ AllIn cs s
  | .dirs, s => s = [] ∨ ∃ u, s = u ++ [47] ∧ AllIn .dot u
  | .optSlash, s => s = [] ∨ s = [47]

def AtomsLang : List Atom → Str → Prop
  | [], s => s = []
  | a :: as, s => ∃ u v, s = u ++ v ∧ AtomLang a u ∧ AtomsLang as v

theorem allIn_nil (cs : CSet) : AllIn cs [] := by intro c h; simp at h

theorem allIn_cons {cs : CSet} {c : Nat} {s : Str} (hc : cs.mem c = true) (hs : AllIn cs s) :
    AllIn cs (c :: s) := by
  intro x hx
  rcases List.mem_cons.mp hx with rfl | h
  · exact hc
  · exact hs x h

theorem starK_sound {α : Type} (cs : CSet) (k : Str → Option α) (inp : Str) (e : α)
    (h : starK cs k inp = some e) : ∃ u v, inp = u ++ v ∧ AllIn cs u ∧ k v = some e := by
  induction inp with
  | nil => exact ⟨[], [], rfl, allIn_nil cs, h⟩
  | cons c t ih =>
    simp only [starK] at h
    split at h
    · next hc =>
      split at h
      · next e' he' =>
        cases h
        obtain ⟨u, v, hu, ha, hk⟩ := ih he'
        exact ⟨c :: u, v, by rw [hu]; rfl, allIn_cons hc ha, hk⟩
      · exact ⟨[], c :: t, rfl, allIn_nil cs, h⟩
    · exact ⟨[], c :: t, rfl, allIn_nil cs, h⟩

theorem starK_of_k {α : Type} (cs : CSet) (k : Str → Option α) (v : Str) (h : (k v).isSome = true) :
    (starK cs k v).isSome = true := by
  cases v with
  | nil => exact h
  | cons c t =>
    simp only [starK]
    split
    · split
      · rfl
      · exact h
    · exact h

theorem starK_complete {α : Type} (cs : CSet) (k : Str → Option α) (u v : Str) (hu : AllIn cs u)
    (h : (k v).isSome = true) : (starK cs k (u ++ v)).isSome = true := by
  induction u with
  | nil => exact starK_of_k cs k v h
  | cons c t ih =>
    have hc : cs.mem c = true := hu c (by simp)
    have ht : AllIn cs t := fun x hx => hu x (by simp [hx])
    simp only [List.cons_append, starK, hc, if_true]
    have := ih ht
    split
    · rfl
    · next hn => rw [hn] at this; cases this

theorem matchAtoms_sound {α : Type} (as : List Atom) (k : Str → Option α) (inp : Str) (e : α)
    (h : matchAtoms as k inp = some e) : ∃ u v, inp = u ++ v ∧ AtomsLang as u ∧ k v = some e := by
  induction as generalizing k inp with
  | nil => exact ⟨[], inp, rfl, rfl, h⟩
  | cons a as ih =>
    cases a with
    | lit s =>
      simp only [matchAtoms] at h
      split at h
      · next hp =>
        obtain ⟨t, rfl⟩ := List.isPrefixOf_iff_prefix.mp hp
        simp only [List.drop_left'] at h
        obtain ⟨u, v, rfl, hu, hk⟩ := ih k t h
        exact ⟨s ++ u, v, by simp, ⟨s, u, rfl, rfl, hu⟩, hk⟩
      · cases h
    | one cs =>
      cases inp with
      | nil => simp [matchAtoms] at h
      | cons c t =>
        simp only [matchAtoms] at h
        split at h
        · next hc =>
          obtain ⟨u, v, rfl, hu, hk⟩ := ih k t h
          exact ⟨c :: u, v, rfl, ⟨[c], u, rfl, ⟨c, rfl, hc⟩, hu⟩, hk⟩
        · cases h
    | star cs =>
      simp only [matchAtoms] at h
      obtain ⟨u, v, rfl, hu, hk⟩ := starK_sound cs _ inp e h
      obtain ⟨u', v', rfl, hu', hk'⟩ := ih k v hk
      exact ⟨u ++ u', v', by simp, ⟨u, u', rfl, hu, hu'⟩, hk'⟩
    | plus cs =>
      cases inp with
      | nil => simp [matchAtoms] at h
      | cons c t =>
        simp only [matchAtoms] at h
        split at h
        · next hc =>
          obtain ⟨u, v, rfl, hu, hk⟩ := starK_sound cs _ t e h
          obtain ⟨u', v', rfl, hu', hk'⟩ := ih k v hk
          exact ⟨(c :: u) ++ u', v', by simp, ⟨c :: u, u', rfl, ⟨by simp, allIn_cons hc hu⟩, hu'⟩, hk'⟩
        · cases h
    | dirs =>
      simp only [matchAtoms] at h
      split at h
      · next e' he' =>
        cases h
        obtain ⟨u, v, rfl, hu, hk⟩ := starK_sound .dot _ inp e he'
        split at hk
        · next t =>
          obtain ⟨u', v', rfl, hu', hk'⟩ := ih k t hk
          exact ⟨(u ++ [47]) ++ u', v', by simp, ⟨u ++ [47], u', rfl, Or.inr ⟨u, rfl, hu⟩, hu'⟩, hk'⟩
        · cases hk
      · obtain ⟨u, v, rfl, hu, hk⟩ := ih k inp h
        exact ⟨u, v, rfl, ⟨[], u, rfl, Or.inl rfl, hu⟩, hk⟩
    | optSlash =>
      simp only [matchAtoms] at h
      split at h
      · next t =>
        split at h
        · next e' he' =>
          cases h
          obtain ⟨u, v, rfl, hu, hk⟩ := ih k t he'
          exact ⟨47 :: u, v, rfl, ⟨[47], u, rfl, Or.inr rfl, hu⟩, hk⟩
        · obtain ⟨u, v, hu0, hu, hk⟩ := ih k (47 :: t) h
          exact ⟨u, v, hu0, ⟨[], u, rfl, Or.inl rfl, hu⟩, hk⟩
      · obtain ⟨u, v, rfl, hu, hk⟩ := ih k inp h
        exact ⟨u, v, rfl, ⟨[], u, rfl, Or.inl rfl, hu⟩, hk⟩

theorem matchAtoms_complete {α : Type} (as : List Atom) (k : Str → Option α) (u v : Str)
    (hu : AtomsLang as u) (h : (k v).isSome = true) : (matchAtoms as k (u ++ v)).isSome = true := by
  induction as generalizing k u with
  | nil => cases hu; exact h
  | cons a as ih =>
    obtain ⟨u1, u2, rfl, h1, h2⟩ := hu
    have hrest := ih k u2 h2 h
    cases a with
    | lit s =>
      have h1' : u1 = s := h1
      subst h1'
      simp only [matchAtoms, List.append_assoc]
      have : u1.isPrefixOf (u1 ++ (u2 ++ v)) = true := List.isPrefixOf_iff_prefix.mpr ⟨_, rfl⟩
      rw [if_pos this, List.drop_left]; exact hrest
    | one cs =>
      obtain ⟨c, rfl, hc⟩ := h1
      simp only [List.cons_append, List.nil_append, matchAtoms, hc, if_true]; exact hrest
    | star cs =>
      simp only [matchAtoms, List.append_assoc]
      exact starK_complete cs _ u1 (u2 ++ v) h1 hrest
    | plus cs =>
      obtain ⟨hne, hall⟩ := h1
      cases u1 with
      | nil => exact absurd rfl hne
      | cons c t =>
        have hc : cs.mem c = true := hall c (by simp)
        have ht : AllIn cs t := fun x hx => hall x (by simp [hx])
        simp only [List.cons_append, List.append_assoc, matchAtoms, hc, if_true]
        exact starK_complete cs _ t (u2 ++ v) ht hrest
    | dirs =>
      simp only [matchAtoms, List.append_assoc]
      rcases h1 with rfl | ⟨w, rfl, hw⟩
      · split
        · rfl
        · simpa using hrest
      · have h3 : ∀ K : Str → Option α, (K (47 :: (u2 ++ v))).isSome = true →
            starK .dot K (w ++ 47 :: (u2 ++ v)) ≠ none := by
          intro K hK hn
          have := starK_complete .dot K w _ hw hK
          rw [hn] at this; cases this
        simp only [List.append_assoc, List.cons_append, List.nil_append]
        split
        · rfl
        · next hn => exact absurd hn (h3 _ (by simpa using hrest))
    | optSlash =>
      rcases h1 with rfl | rfl
      · simp only [List.nil_append]
        generalize u2 ++ v = x at hrest ⊢
        simp only [matchAtoms]
        split
        · split
          · rfl
          · exact hrest
        · exact hrest
      · simp only [List.cons_append, List.nil_append, matchAtoms]
        split
        · rfl
        · next hn => rw [hn] at hrest; cases hrest

/-- The atoms accept exactly their declarative language. -/
theorem matchAtoms_full_iff (as : List Atom) (s : Str) :
    (matchAtoms as (fun r => if r = [] then some () else none) s).isSome = true ↔ AtomsLang as s := by
  constructor
  · intro h
    obtain ⟨e, he⟩ := Option.isSome_iff_exists.mp h
    obtain ⟨u, v, rfl, hu, hk⟩ := matchAtoms_sound as _ s e he
    split at hk
    · next hv => subst hv; simpa using hu
    · cases hk
  · intro h
    have := matchAtoms_complete as (fun r => if r = [] then some () else none) s [] h (by simp)
    simpa using this


/-! ### Items: groups and back-references -/

def Item.groupName? : Item → Option Str
  | .group n _ => some n
  | _ => none

/-- The name of a group or back-reference. -/
def Item.name? : Item → Option Str
  | .group n _ => some n
  | .bref n => some n
  | _ => none

def groupNames (re : List Item) : List Str := re.filterMap Item.groupName?

/-- What one item matched, given the final bindings: a group or back-reference named `n`
matched exactly the text bound to `n`. -/
def ItemOK (env : Env) : Item → Str → Prop
  | .atom a, s => AtomLang a s
  | .group n body, s => AtomsLang body s ∧ env.get n = some s
  | .bref n, s => env.get n = some s

/-- One segment per item, each accepted by its item under the final bindings. -/
def SegsOK (env : Env) : List Item → List Str → Prop
  | [], [] => True
  | it :: its, s :: ss => ItemOK env it s ∧ SegsOK env its ss
  | _, _ => False

theorem env_get_cons (m v : Str) (rest : Env) (n : Str) :
    Env.get ((m, v) :: rest) n = if m = n then some v else Env.get rest n := rfl

theorem atomsLang_single {a : Atom} {s : Str} (h : AtomsLang [a] s) : AtomLang a s := by
  obtain ⟨u, v, rfl, hu, hv⟩ := h
  cases hv; simpa using hu

theorem groupNames_cons (x : Item) (l : List Item) :
    groupNames (x :: l) = (match x.groupName? with | some n => [n] | none => []) ++ groupNames l := by
  unfold groupNames
  rw [List.filterMap_cons]
  cases x.groupName? <;> rfl

theorem matchItems_sound (items : List Item) (env0 : Env) (inp : Str) (env : Env)
    (h : matchItems items env0 inp = some env) (hn : (groupNames items).Nodup)
    (hfresh : ∀ n ∈ groupNames items, env0.get n = none) :
    ∃ segs, segs.flatten = inp ∧ SegsOK env items segs ∧
      ∀ n v, env0.get n = some v → env.get n = some v := by
  induction items generalizing env0 inp with
  | nil =>
    simp only [matchItems] at h
    split at h
    · next hi => cases h; exact ⟨[], by simp [hi], trivial, fun _ _ h => h⟩
    · cases h
  | cons it rest ih =>
    cases it with
    | atom a =>
      simp only [matchItems] at h
      obtain ⟨u, v, rfl, hu, hk⟩ := matchAtoms_sound [a] _ inp env h
      have hgn : groupNames (Item.atom a :: rest) = groupNames rest := by
        rw [groupNames_cons]; rfl
      rw [hgn] at hn hfresh
      obtain ⟨segs, hs, hf, hp⟩ := ih env0 v hk hn hfresh
      exact ⟨u :: segs, by simp [hs], ⟨(atomsLang_single hu), hf⟩, hp⟩
    | group n body =>
      simp only [matchItems] at h
      obtain ⟨u, v, rfl, hu, hk⟩ := matchAtoms_sound body _ inp env h
      have htake : (u ++ v).take ((u ++ v).length - v.length) = u := by simp
      rw [htake] at hk
      have hgn : groupNames (Item.group n body :: rest) = n :: groupNames rest := by
        rw [groupNames_cons]; rfl
      rw [hgn] at hn hfresh
      have hn' := List.nodup_cons.mp hn
      have hfresh' : ∀ n' ∈ groupNames rest, Env.get ((n, u) :: env0) n' = none := by
        intro n' hn''
        rw [env_get_cons]
        have : n ≠ n' := by rintro rfl; exact hn'.1 hn''
        rw [if_neg this]
        exact hfresh n' (List.mem_cons_of_mem _ hn'')
      obtain ⟨segs, hs, hf, hp⟩ := ih ((n, u) :: env0) v hk hn'.2 hfresh'
      have hbound : env.get n = some u := hp n u (by rw [env_get_cons, if_pos rfl])
      refine ⟨u :: segs, by simp [hs], ⟨⟨hu, hbound⟩, hf⟩, ?_⟩
      intro n' v' hv'
      apply hp
      rw [env_get_cons]
      have : n ≠ n' := by
        rintro rfl
        rw [hfresh n (List.mem_cons_self)] at hv'; cases hv'
      rw [if_neg this]; exact hv'
    | bref n =>
      simp only [matchItems] at h
      have hgn : groupNames (Item.bref n :: rest) = groupNames rest := by
        rw [groupNames_cons]; rfl
      rw [hgn] at hn hfresh
      split at h
      · next val hval =>
        split at h
        · next hp =>
          obtain ⟨t, rfl⟩ := List.isPrefixOf_iff_prefix.mp hp
          rw [List.drop_left] at h
          obtain ⟨segs, hs, hf, hp'⟩ := ih env0 t h hn hfresh
          exact ⟨val :: segs, by simp [hs], ⟨(hp' n val hval), hf⟩, hp'⟩
        · cases h
      · cases h

/-! ### The compiler never emits two groups with one name -/

def GInv (parts : List Item) (enc : List Str) : Prop :=
  (groupNames parts).Nodup ∧ ∀ n ∈ groupNames parts, n ∈ enc

theorem groupNames_append (a b : List Item) : groupNames (a ++ b) = groupNames a ++ groupNames b := by
  simp [groupNames, List.filterMap_append]

theorem ginv_append_atom {parts : List Item} {enc : List Str} (a : Atom) (h : GInv parts enc) :
    GInv (parts ++ [.atom a]) enc := by
  unfold GInv at *
  rw [groupNames_append]
  have : groupNames [Item.atom a] = [] := rfl
  rw [this, List.append_nil]; exact h

theorem ginv_append_bref {parts : List Item} {enc : List Str} (n : Str) (h : GInv parts enc) :
    GInv (parts ++ [.bref n]) enc := by
  unfold GInv at *
  rw [groupNames_append]
  have : groupNames [Item.bref n] = [] := rfl
  rw [this, List.append_nil]; exact h

theorem ginv_dropLast {parts : List Item} {enc : List Str} (h : GInv parts enc) :
    GInv parts.dropLast enc := by
  have hs : (groupNames parts.dropLast).Sublist (groupNames parts) :=
    List.Sublist.filterMap _ (List.dropLast_sublist parts)
  exact ⟨hs.nodup h.1, fun n hn => h.2 n (hs.subset hn)⟩

theorem ginv_putPart {parts : List Item} {enc : List Str} (b : Bool) (a : Atom) (h : GInv parts enc) :
    GInv (putPart b parts (.atom a)) enc := by
  unfold putPart
  split
  · exact ginv_append_atom a (ginv_dropLast h)
  · exact ginv_append_atom a h

theorem ginv_append_group {parts : List Item} {enc : List Str} (n : Str) (body : List Atom)
    (hn : n ∉ enc) (h : GInv parts enc) : GInv (parts ++ [.group n body]) (n :: enc) := by
  unfold GInv at *
  rw [groupNames_append]
  have : groupNames [Item.group n body] = [n] := rfl
  rw [this]
  constructor
  · rw [List.nodup_append]
    refine ⟨h.1, by simp, ?_⟩
    intro a ha b hb
    simp at hb; subst hb
    rintro rfl
    exact hn (h.2 _ ha)
  · intro m hm
    rcases List.mem_append.mp hm with hm | hm
    · exact List.mem_cons_of_mem _ (h.2 m hm)
    · simp at hm; subst hm; exact List.mem_cons_self

theorem compileStep_ginv (subs : Subs) (st st' : CState) (tok : Tok)
    (h : compileStep subs st tok = .ok st') (hi : GInv st.parts st.enc) : GInv st'.parts st'.enc := by
  cases tok with
  | lit s => simp only [compileStep] at h; cases h; exact ginv_append_atom _ hi
  | qm => simp only [compileStep] at h; cases h; exact ginv_append_atom _ hi
  | star =>
    simp only [compileStep] at h
    split at h
    · cases h; exact hi
    · cases h; exact ginv_append_atom _ hi
  | dstar =>
    simp only [compileStep] at h
    split at h
    · cases h; exact hi
    · cases h; exact ginv_putPart _ _ hi
  | dstarSlash =>
    simp only [compileStep] at h
    split at h
    · cases h; exact hi
    · cases h; exact ginv_putPart _ _ hi
  | cls b => simp only [compileStep] at h; cases h; exact ginv_append_atom _ hi
  | named n =>
    simp only [compileStep] at h
    split at h
    · cases h
    · split at h
      · cases h; exact ginv_append_bref _ hi
      · next hc =>
        split at h
        · cases h
        · next body _ =>
          cases h
          have : n ∉ st.enc := by simpa using hc
          exact ginv_append_group n body this hi

theorem compileLoop_nodup (subs : Subs) (toks : List Tok) (st st' : CState)
    (h : compileLoop subs toks st = .ok st') (hi : GInv st.parts st.enc) : (groupNames st'.parts).Nodup := by
  induction toks generalizing st with
  | nil => simp only [compileLoop] at h; cases h; exact hi.1
  | cons tok rest ih =>
    simp only [compileLoop] at h
    split at h
    · cases h
    · next st1 h1 => exact ih st1 h (compileStep_ginv subs st st1 tok h1 hi)

theorem groupName_enclosedFix (x : Item) : (enclosedFix x).groupName? = x.groupName? := by
  cases x with
  | atom a => cases a <;> rfl
  | group n body => simp only [enclosedFix]; split <;> rfl
  | bref n => rfl

theorem groupNames_enclosedPass (b : Bool) (l : List Item) :
    groupNames (enclosedPass b l) = groupNames l := by
  induction l generalizing b with
  | nil => rfl
  | cons x t ih =>
    cases t with
    | nil => rfl
    | cons y rest =>
      simp only [enclosedPass]
      have hx : (if (b && startsSlash y) = true then enclosedFix x else x).groupName? = x.groupName? := by
        split
        · exact groupName_enclosedFix x
        · rfl
      rw [groupNames_cons, groupNames_cons x, ih, hx]

theorem groupNames_trailingPass (l : List Item) : groupNames (trailingPass l) = groupNames l := by
  unfold trailingPass
  split
  · rfl
  · next last prevs hrev =>
    have hl : l = prevs.reverse ++ [last] := List.reverse_eq_cons_iff.mp hrev
    split
    · next n b =>
      split
      · rw [hl, groupNames_append, groupNames_append]; rfl
      · rfl
    · rw [hl, groupNames_append, groupNames_append]; rfl
    · rfl

theorem compileToks_nodup {toks : List Tok} {subs : Subs} {re : List Item}
    (h : compileToks toks subs = .ok re) : (groupNames re).Nodup := by
  unfold compileToks at h
  split at h
  · cases h
  · next st hp =>
    cases h
    rw [groupNames_trailingPass, groupNames_enclosedPass]
    exact compileLoop_nodup subs toks ⟨[], none, []⟩ st hp ⟨by simp [groupNames], by simp [groupNames]⟩

theorem compileRegex_nodup {pattern : Str} {subs : Subs} {re : List Item}
    (h : compileRegex pattern subs = .ok re) : (groupNames re).Nodup := by
  unfold compileRegex at h
  split at h
  · cases h
  · exact compileToks_nodup h


/-! ### The modelled `iglob` only yields existing paths, except the base of a trailing `**` -/

theorem iglobR_cons (t : Tree) (base : Str) (revDir : List Str) (b : Bool) :
    iglobR t (base :: revDir) b = (dirsOf t revDir).flatMap fun d => globIn t d base b := by
  cases revDir <;> rfl

theorem isDirQ_iff (t : Tree) (p : Path) : isDirQ t p = true ↔ p ≠ [] ∧ (p, true) ∈ t := by
  simp [isDirQ]

theorem existsQ_iff (t : Tree) (p : Path) :
    existsQ t p = true ↔ p ≠ [] ∧ ((p, true) ∈ t ∨ (p, false) ∈ t) := by
  simp [existsQ]

theorem render_mem_treePaths {t : Tree} {x : GPath} (h : x ∈ t) : render x ∈ treePaths t :=
  List.mem_map_of_mem h

theorem mark_mem {t : Tree} {p : Path} {isd : Bool} (h : (p, isd) ∈ t) (hp : p ≠ []) :
    mark t (p, false) ∈ t := by
  unfold mark
  split
  · next hd => exact ((isDirQ_iff t p).mp hd).2
  · next hd =>
    cases isd with
    | false => exact h
    | true => exact absurd ((isDirQ_iff t p).mpr ⟨hp, h⟩) hd

theorem mark_dir {t : Tree} {d : Path} (h : isDirQ t d = true) (s : Bool) : mark t (d, s) ∈ t := by
  unfold mark
  rw [if_pos h]
  exact ((isDirQ_iff t d).mp h).2

theorem mem_listdir {t : Tree} {d : Path} {b : Bool} {n : Str} (h : n ∈ listdir t d b) :
    ∃ isd, (d ++ [n], isd) ∈ t := by
  simp only [listdir, List.mem_filterMap, Prod.exists] at h
  obtain ⟨p, isd, hm, hc⟩ := h
  split at hc
  · next hcond =>
    simp only [Bool.and_eq_true, decide_eq_true_eq] at hcond
    obtain ⟨⟨_, hlen⟩, hpre⟩ := hcond
    obtain ⟨r, rfl⟩ := List.isPrefixOf_iff_prefix.mp hpre
    simp only [List.length_append] at hlen
    have hr : r.length = 1 := by omega
    match r, hr with
    | [x], _ =>
      simp at hc
      subst hc
      exact ⟨isd, hm⟩
  · cases hc

theorem mem_rlist {t : Tree} {d : Path} {b : Bool} {p : Path} (h : p ∈ rlist t d b) :
    p ≠ [] ∧ ∃ isd, (p, isd) ∈ t := by
  simp only [rlist, List.mem_filterMap, Prod.exists] at h
  obtain ⟨p', isd, hm, hc⟩ := h
  split at hc
  · next hcond =>
    simp only [Bool.and_eq_true, decide_eq_true_eq] at hcond
    cases hc
    refine ⟨?_, isd, hm⟩
    intro e; subst e
    simp at hcond
  · cases hc

/-- Everything `glob_in_dir` yields exists, except the base `d` of `_glob2`. -/
theorem globIn_sound {t : Tree} {d : Path} {base : Str} {b : Bool} {x : GPath}
    (h : x ∈ globIn t d base b) (hbase : base = [42, 42] → d ≠ [] → isDirQ t d = true)
    (hx : x.1 ≠ []) : render (mark t x) ∈ treePaths t := by
  unfold globIn at h
  split at h
  · next hb =>
    rcases List.mem_cons.mp h with rfl | h
    · exact render_mem_treePaths (mark_dir (hbase hb hx) true)
    · obtain ⟨p, hp, rfl⟩ := List.mem_map.mp h
      obtain ⟨hne, isd, hm⟩ := mem_rlist hp
      exact render_mem_treePaths (mark_mem hm hne)
  · split at h
    · obtain ⟨n, hn, rfl⟩ := List.mem_map.mp h
      obtain ⟨isd, hm⟩ := mem_listdir (List.mem_filter.mp hn).1
      exact render_mem_treePaths (mark_mem hm (by simp))
    · split at h
      · split at h
        · next hd =>
          simp at h; subst h
          exact render_mem_treePaths (mark_dir hd true)
        · simp at h
      · split at h
        · next he =>
          simp at h; subst h
          obtain ⟨hne, hm | hm⟩ := (existsQ_iff t _).mp he
          · exact render_mem_treePaths (mark_mem hm hne)
          · exact render_mem_treePaths (mark_mem hm hne)
        · simp at h

/-- A yielded empty path is the base of `_glob2` on the root. -/
theorem globIn_nil {t : Tree} {d : Path} {base : Str} {b : Bool} {x : GPath}
    (h : x ∈ globIn t d base b) (hx : x.1 = []) : d = [] ∧ base = [42, 42] := by
  unfold globIn at h
  split at h
  · next hb =>
    rcases List.mem_cons.mp h with rfl | h
    · exact ⟨hx, hb⟩
    · obtain ⟨p, hp, rfl⟩ := List.mem_map.mp h
      exact absurd hx (mem_rlist hp).1
  · split at h
    · obtain ⟨n, hn, rfl⟩ := List.mem_map.mp h
      simp at hx
    · split at h
      · split at h
        · next hd =>
          simp at h; subst h
          exact absurd hx ((isDirQ_iff t d).mp hd).1
        · simp at h
      · split at h
        · simp at h; subst h; simp at hx
        · simp at h

/-- Only the head of what `glob_in_dir` yields can be the empty path. -/
theorem globIn_tail {t : Tree} {d : Path} {base : Str} {b : Bool} :
    ∀ y ∈ (globIn t d base b).tail, y.1 ≠ [] := by
  intro y hy
  unfold globIn at hy
  split at hy
  · simp only [List.tail_cons] at hy
    obtain ⟨p, hp, rfl⟩ := List.mem_map.mp hy
    exact (mem_rlist hp).1
  · intro hy0
    have hmem : y ∈ globIn t d base b := by
      unfold globIn
      rw [if_neg (by assumption)]
      exact List.mem_of_mem_tail hy
    exact absurd (globIn_nil hmem hy0).2 (by assumption)

def TailNonempty {α : Type} (f : α → Path) (l : List α) : Prop := ∀ y ∈ l.tail, f y ≠ []

theorem flatMap_tailNonempty {t : Tree} {base : Str} {b : Bool} (dirs : List Path)
    (hd : TailNonempty id dirs) :
    TailNonempty Prod.fst (dirs.flatMap fun d => globIn t d base b) := by
  cases dirs with
  | nil => intro y hy; simp at hy
  | cons d0 ds =>
    have hrest : ∀ y ∈ ds.flatMap (fun d => globIn t d base b), y.1 ≠ [] := by
      intro y hy hy0
      obtain ⟨d, hdm, hyd⟩ := List.mem_flatMap.mp hy
      have := (globIn_nil hyd hy0).1
      exact hd d (by simpa using hdm) this
    intro y hy
    rw [List.flatMap_cons] at hy
    cases hg : globIn t d0 base b with
    | nil => rw [hg] at hy; simp only [List.nil_append] at hy; exact hrest y (List.mem_of_mem_tail hy)
    | cons g0 gs =>
      rw [hg] at hy
      simp only [List.cons_append, List.tail_cons] at hy
      rcases List.mem_append.mp hy with h | h
      · have : y ∈ (globIn t d0 base b).tail := by rw [hg]; exact h
        exact globIn_tail y this
      · exact hrest y h

theorem dirsOf_tailNonempty (t : Tree) (revDir : List Str)
    (ih : ∀ b, TailNonempty Prod.fst (iglobR t revDir b)) : TailNonempty id (dirsOf t revDir) := by
  unfold dirsOf
  split
  · intro y hy; simp at hy
  · split
    · intro y hy
      rw [← List.map_tail] at hy
      obtain ⟨x, hx, rfl⟩ := List.mem_map.mp hy
      exact ih true x hx
    · intro y hy; simp at hy

theorem iglobR_tailNonempty (t : Tree) (rc : List Str) (b : Bool) :
    TailNonempty Prod.fst (iglobR t rc b) := by
  induction rc generalizing b with
  | nil => intro y hy; simp [iglobR] at hy
  | cons base revDir ih =>
    rw [iglobR_cons]
    exact flatMap_tailNonempty _ (dirsOf_tailNonempty t revDir ih)

/-- The empty path is only yielded when every component is `**`. -/
theorem iglobR_nil_all_rec (t : Tree) (rc : List Str) (b : Bool) (x : GPath)
    (h : x ∈ iglobR t rc b) (hx : x.1 = []) : ∀ c ∈ rc, c = [42, 42] := by
  induction rc generalizing b x with
  | nil => simp [iglobR] at h
  | cons base revDir ih =>
    rw [iglobR_cons] at h
    obtain ⟨d, hd, hxd⟩ := List.mem_flatMap.mp h
    obtain ⟨hd0, hb⟩ := globIn_nil hxd hx
    subst hd0
    intro c hc
    rcases List.mem_cons.mp hc with rfl | hc
    · exact hb
    · unfold dirsOf at hd
      split at hd
      · simp at hc
      · split at hd
        · obtain ⟨y, hy, hy0⟩ := List.mem_map.mp hd
          exact ih true y hy hy0 c hc
        · simp at hd

/-! #### `split("/")` and `"/".join` -/

theorem joinSlash_cons_cons (x y : Str) (rest : List Str) :
    joinSlash (x :: y :: rest) = x ++ 47 :: joinSlash (y :: rest) := rfl

theorem splitSlashAux_ne_nil (s acc : Str) : splitSlashAux s acc ≠ [] := by
  induction s generalizing acc with
  | nil => simp [splitSlashAux]
  | cons c t ih =>
    simp only [splitSlashAux]
    split
    · simp
    · exact ih _

theorem joinSlash_splitSlashAux (s acc : Str) :
    joinSlash (splitSlashAux s acc) = acc.reverse ++ s := by
  induction s generalizing acc with
  | nil => simp [splitSlashAux, joinSlash]
  | cons c t ih =>
    simp only [splitSlashAux]
    split
    · next hc =>
      subst hc
      cases hs : splitSlashAux t [] with
      | nil => exact absurd hs (splitSlashAux_ne_nil t [])
      | cons y rest =>
        rw [joinSlash_cons_cons, ← hs, ih]; simp
    · rw [ih]; simp

theorem joinSlash_splitSlash (s : Str) : joinSlash (splitSlash s) = s := by
  simp [splitSlash, joinSlash_splitSlashAux]

theorem take2_of_head_rec {g : Str} {rest : List Str} (h : splitSlash g = [42, 42] :: rest) :
    g.take 2 = [42, 42] := by
  have := joinSlash_splitSlash g
  rw [h] at this
  cases rest with
  | nil => rw [← this]; rfl
  | cons y ys => rw [← this, joinSlash_cons_cons]; rfl

/-- After the leading empty result is skipped no empty path remains. -/
theorem iglob_ne_nil (t : Tree) (g : Str) (x : GPath) (h : x ∈ iglob t g) : x.1 ≠ [] := by
  intro hx
  unfold iglob at h
  simp only at h
  have htail := iglobR_tailNonempty t (splitSlash g).reverse false
  split at h
  · split at h
    · next y ys hr =>
      rw [hr] at htail
      split at h
      · exact htail x (by simpa using h) hx
      · next hne =>
        rw [hr] at h
        rcases List.mem_cons.mp h with rfl | h
        · apply hne; simp [render, hx]
        · exact htail x (by simpa using h) hx
    · simp at h
  · next htake =>
    have hall := iglobR_nil_all_rec t _ false x h hx
    cases hs : splitSlash g with
    | nil => exact absurd hs (splitSlashAux_ne_nil g [])
    | cons c rest =>
      have hc : c = [42, 42] := hall c (by rw [hs]; simp)
      subst hc
      exact htake (take2_of_head_rec hs)

theorem mem_iglob_subset (t : Tree) (g : Str) (x : GPath) (h : x ∈ iglob t g) :
    x ∈ iglobR t (splitSlash g).reverse false := by
  unfold iglob at h
  simp only at h
  split at h
  · split at h
    · next y ys hr =>
      rw [hr]
      split at h
      · exact List.mem_cons_of_mem _ h
      · rw [hr] at h; exact h
    · simp at h
  · exact h

theorem globPaths_sound (t : Tree) (g : Str) (hb : TrailingBasesAreDirs t g) (q : Str)
    (h : q ∈ globPaths t g) : q ∈ treePaths t := by
  simp only [globPaths, List.mem_map] at h
  obtain ⟨x, hx, rfl⟩ := h
  have hne := iglob_ne_nil t g x hx
  have hr := mem_iglob_subset t g x hx
  cases hs : (splitSlash g).reverse with
  | nil => rw [hs] at hr; simp [iglobR] at hr
  | cons base revDir =>
    rw [hs, iglobR_cons] at hr
    obtain ⟨d, hd, hxd⟩ := List.mem_flatMap.mp hr
    refine globIn_sound hxd ?_ hne
    intro hbase hdne
    apply hb
    · have : splitSlash g = revDir.reverse ++ [base] := List.reverse_eq_cons_iff.mp hs
      simp [endsRecursive, this, hbase]
    · simp only [baseDirs, hs]; exact hd
    · exact hdne

end StepupModel.P.NGlob
