import StepupModel.P.NGlob
/-! Helper lemmas for C17 (statements of the property live in `Props/C17.lean`). -/
namespace StepupModel.P.NGlob

/-! ### Results: `extend`, `reduce`, `eqv`, `files` -/

def keys (r : Results) : List Key := r.map Prod.fst

/-- What a Python dictionary of non-empty sets guarantees. -/
def WF (r : Results) : Prop := (keys r).Nodup ∧ ∀ kp ∈ r, kp.2 ≠ []

/-- Every stored path sits under the key the matcher gives it. -/
def Consistent (m : Str → Option Key) (r : Results) : Prop := ∀ k q, q ∈ r.get k → m q = some k

theorem get_nil (k : Key) : Results.get [] k = [] := rfl

theorem get_cons (k' : Key) (ps : List Str) (rest : Results) (k : Key) :
    Results.get ((k', ps) :: rest) k = if k' = k then ps else Results.get rest k := rfl

theorem get_eq_nil_of_not_mem {r : Results} {k : Key} (h : k ∉ keys r) : r.get k = [] := by
  induction r with
  | nil => rfl
  | cons kp rest ih =>
    obtain ⟨k', ps⟩ := kp
    simp only [keys, List.map_cons, List.mem_cons, not_or] at h
    rw [get_cons, if_neg (fun e => h.1 e.symm)]
    exact ih h.2

theorem mem_keys_of_mem_get {r : Results} {k : Key} {q : Str} (h : q ∈ r.get k) : k ∈ keys r := by
  apply Classical.byContradiction
  intro hk
  rw [get_eq_nil_of_not_mem hk] at h
  simp at h

theorem mem_get_iff {r : Results} (hn : (keys r).Nodup) (k : Key) (q : Str) :
    q ∈ r.get k ↔ ∃ ps, (k, ps) ∈ r ∧ q ∈ ps := by
  induction r with
  | nil => simp [get_nil]
  | cons kp rest ih =>
    obtain ⟨k', ps'⟩ := kp
    simp only [keys, List.map_cons, List.nodup_cons] at hn
    rw [get_cons]
    by_cases hk : k' = k
    · subst hk
      simp only [if_true, List.mem_cons, Prod.mk.injEq, true_and]
      constructor
      · intro h; exact ⟨ps', Or.inl rfl, h⟩
      · rintro ⟨ps, h | h, hq⟩
        · rw [← h]; exact hq
        · exact absurd (List.mem_map_of_mem (f := Prod.fst) h) hn.1
    · rw [if_neg hk, ih hn.2]
      constructor
      · rintro ⟨ps, h, hq⟩; exact ⟨ps, List.mem_cons_of_mem _ h, hq⟩
      · rintro ⟨ps, h, hq⟩
        rcases List.mem_cons.mp h with h | h
        · simp only [Prod.mk.injEq] at h; exact absurd h.1.symm hk
        · exact ⟨ps, h, hq⟩

/-! #### insertPath -/

theorem mem_get_insertPath (k : Key) (p : Str) (r : Results) (k' : Key) (q : Str) :
    q ∈ (insertPath k p r).get k' ↔ q ∈ r.get k' ∨ (k' = k ∧ q = p) := by
  induction r with
  | nil =>
    simp only [insertPath, get_cons, get_nil]
    by_cases hk : k = k'
    · subst hk; simp
    · rw [if_neg hk]; simp; intro h; exact absurd h.symm hk
  | cons kp rest ih =>
    obtain ⟨k0, ps⟩ := kp
    simp only [insertPath]
    by_cases h0 : k0 = k
    · subst h0
      rw [if_pos rfl, get_cons, get_cons]
      by_cases hk : k0 = k'
      · subst hk
        simp only [if_true, true_and]
        by_cases hc : ps.contains p = true
        · rw [if_pos hc]
          have : p ∈ ps := by simpa using hc
          constructor
          · intro h; exact Or.inl h
          · rintro (h | h)
            · exact h
            · rw [h]; exact this
        · rw [if_neg hc]; simp
      · rw [if_neg hk, if_neg hk]
        constructor
        · intro h; exact Or.inl h
        · rintro (h | ⟨h, _⟩)
          · exact h
          · exact absurd h.symm hk
    · rw [if_neg h0, get_cons, get_cons]
      by_cases hk : k0 = k'
      · subst hk
        simp only [if_true]
        constructor
        · intro h; exact Or.inl h
        · rintro (h | ⟨h, _⟩)
          · exact h
          · exact absurd h h0
      · rw [if_neg hk, if_neg hk]; exact ih

theorem keys_insertPath (k : Key) (p : Str) (r : Results) :
    keys (insertPath k p r) = if k ∈ keys r then keys r else keys r ++ [k] := by
  induction r with
  | nil => simp [insertPath, keys]
  | cons kp rest ih =>
    obtain ⟨k0, ps⟩ := kp
    simp only [insertPath]
    by_cases h0 : k0 = k
    · subst h0; simp [keys]
    · rw [if_neg h0]
      simp only [keys, List.map_cons, List.mem_cons] at ih ⊢
      rw [ih]
      have : ¬ k = k0 := fun e => h0 e.symm
      by_cases hm : k ∈ List.map Prod.fst rest
      · simp [hm]
      · simp [hm, this]

theorem wf_insertPath {k : Key} {p : Str} {r : Results} (h : WF r) : WF (insertPath k p r) := by
  constructor
  · rw [keys_insertPath]
    split
    · exact h.1
    · next hk =>
      rw [List.nodup_append]
      refine ⟨h.1, by simp, ?_⟩
      intro a ha b hb
      simp at hb; subst hb
      intro e; subst e; exact hk ha
  · have h2 := h.2
    clear h
    induction r with
    | nil => intro kp hkp; simp [insertPath] at hkp; subst hkp; simp
    | cons kp0 rest ih =>
      obtain ⟨k0, ps⟩ := kp0
      intro kp hkp
      simp only [insertPath] at hkp
      split at hkp
      · rcases List.mem_cons.mp hkp with e | e
        · subst e
          simp only
          split
          · exact h2 _ (List.mem_cons_self)
          · simp
        · exact h2 _ (List.mem_cons_of_mem _ e)
      · rcases List.mem_cons.mp hkp with e | e
        · subst e; exact h2 _ (List.mem_cons_self)
        · exact ih (fun x hx => h2 x (List.mem_cons_of_mem _ hx)) kp e

/-! #### removePath -/

theorem mem_get_removePath {r : Results} (hn : (keys r).Nodup) (k : Key) (p : Str) (k' : Key) (q : Str) :
    q ∈ (removePath k p r).get k' ↔ q ∈ r.get k' ∧ ¬ (k' = k ∧ q = p) := by
  induction r with
  | nil => simp [removePath, get_nil]
  | cons kp rest ih =>
    obtain ⟨k0, ps⟩ := kp
    simp only [keys, List.map_cons, List.nodup_cons] at hn
    simp only [removePath]
    by_cases h0 : k0 = k
    · subst h0
      rw [if_pos rfl]
      have hrest : Results.get rest k0 = [] := get_eq_nil_of_not_mem hn.1
      by_cases hf : ps.filter (· != p) = []
      · simp only [hf, if_true]
        rw [get_cons]
        by_cases hk : k0 = k'
        · subst hk
          rw [if_pos rfl, hrest]
          simp only [List.not_mem_nil, true_and, false_iff, not_and, Classical.not_not]
          intro hq
          have := List.filter_eq_nil_iff.mp hf q hq
          simpa using this
        · rw [if_neg hk]
          constructor
          · intro h; exact ⟨h, fun ⟨e, _⟩ => hk e.symm⟩
          · exact fun h => h.1
      · simp only [hf, if_false]
        rw [get_cons, get_cons]
        by_cases hk : k0 = k'
        · subst hk
          simp only [if_true, true_and, List.mem_filter, bne_iff_ne, ne_eq]
        · rw [if_neg hk, if_neg hk]
          constructor
          · intro h; exact ⟨h, fun ⟨e, _⟩ => hk e.symm⟩
          · exact fun h => h.1
    · rw [if_neg h0, get_cons, get_cons]
      by_cases hk : k0 = k'
      · subst hk
        simp only [if_true]
        constructor
        · intro h; exact ⟨h, fun ⟨e, _⟩ => h0 e⟩
        · exact fun h => h.1
      · rw [if_neg hk, if_neg hk]; exact ih hn.2

theorem keys_removePath_sublist (k : Key) (p : Str) (r : Results) :
    (keys (removePath k p r)).Sublist (keys r) := by
  induction r with
  | nil => simp [removePath, keys]
  | cons kp rest ih =>
    obtain ⟨k0, ps⟩ := kp
    simp only [removePath]
    split
    · split
      · simp [keys]
      · simp [keys]
    · simp only [keys, List.map_cons] at ih ⊢
      exact List.Sublist.cons_cons _ ih

theorem wf_removePath {k : Key} {p : Str} {r : Results} (h : WF r) : WF (removePath k p r) := by
  refine ⟨(keys_removePath_sublist k p r).nodup h.1, ?_⟩
  have h2 := h.2
  clear h
  induction r with
  | nil => simp [removePath]
  | cons kp0 rest ih =>
    obtain ⟨k0, ps⟩ := kp0
    intro kp hkp
    simp only [removePath] at hkp
    split at hkp
    · split at hkp
      · exact h2 _ (List.mem_cons_of_mem _ hkp)
      · next hne =>
        rcases List.mem_cons.mp hkp with e | e
        · subst e; exact hne
        · exact h2 _ (List.mem_cons_of_mem _ e)
    · rcases List.mem_cons.mp hkp with e | e
      · subst e; exact h2 _ (List.mem_cons_self)
      · exact ih (fun x hx => h2 x (List.mem_cons_of_mem _ hx)) kp e

/-! #### extend / reduce -/

def stepExt (m : Str → Option Key) (r : Results) (p : Str) : Results :=
  match m p with | some k => insertPath k p r | none => r

def stepRed (m : Str → Option Key) (r : Results) (p : Str) : Results :=
  match m p with | some k => removePath k p r | none => r

theorem extend_eq (m : Str → Option Key) (r : Results) (ps : List Str) :
    extend m r ps = ps.foldl (stepExt m) r := rfl

theorem reduce_eq (m : Str → Option Key) (r : Results) (ps : List Str) :
    reduce m r ps = ps.foldl (stepRed m) r := rfl

theorem wf_stepExt {m : Str → Option Key} {r : Results} (p : Str) (h : WF r) : WF (stepExt m r p) := by
  unfold stepExt; split
  · exact wf_insertPath h
  · exact h

theorem wf_stepRed {m : Str → Option Key} {r : Results} (p : Str) (h : WF r) : WF (stepRed m r p) := by
  unfold stepRed; split
  · exact wf_removePath h
  · exact h

theorem wf_extend {m : Str → Option Key} {r : Results} (ps : List Str) (h : WF r) : WF (extend m r ps) := by
  rw [extend_eq]
  induction ps generalizing r with
  | nil => exact h
  | cons p ps ih => exact ih (wf_stepExt p h)

theorem wf_reduce {m : Str → Option Key} {r : Results} (ps : List Str) (h : WF r) : WF (reduce m r ps) := by
  rw [reduce_eq]
  induction ps generalizing r with
  | nil => exact h
  | cons p ps ih => exact ih (wf_stepRed p h)

theorem wf_nil : WF [] := ⟨by simp [keys], by simp⟩

theorem mem_get_extend (m : Str → Option Key) (r : Results) (ps : List Str) (k : Key) (q : Str) :
    q ∈ (extend m r ps).get k ↔ q ∈ r.get k ∨ (q ∈ ps ∧ m q = some k) := by
  rw [extend_eq]
  induction ps generalizing r with
  | nil => simp
  | cons p ps ih =>
    rw [List.foldl_cons, ih]
    have hstep : q ∈ (stepExt m r p).get k ↔ q ∈ r.get k ∨ (q = p ∧ m q = some k) := by
      unfold stepExt
      cases hm : m p with
      | none =>
        simp only
        constructor
        · exact Or.inl
        · rintro (h | ⟨rfl, h⟩)
          · exact h
          · rw [hm] at h; cases h
      | some k0 =>
        simp only
        rw [mem_get_insertPath]
        constructor
        · rintro (h | ⟨rfl, rfl⟩)
          · exact Or.inl h
          · exact Or.inr ⟨rfl, hm⟩
        · rintro (h | ⟨rfl, h⟩)
          · exact Or.inl h
          · rw [hm] at h; cases h; exact Or.inr ⟨rfl, rfl⟩
    rw [hstep]
    simp only [List.mem_cons]
    constructor
    · rintro ((h | h) | h)
      · exact Or.inl h
      · exact Or.inr ⟨Or.inl h.1, h.2⟩
      · exact Or.inr ⟨Or.inr h.1, h.2⟩
    · rintro (h | ⟨h | h, h2⟩)
      · exact Or.inl (Or.inl h)
      · exact Or.inl (Or.inr ⟨h, h2⟩)
      · exact Or.inr ⟨h, h2⟩

theorem consistent_extend {m : Str → Option Key} {r : Results} (ps : List Str) (h : Consistent m r) :
    Consistent m (extend m r ps) := by
  intro k q hq
  rcases (mem_get_extend m r ps k q).mp hq with h1 | h1
  · exact h k q h1
  · exact h1.2

theorem consistent_nil (m : Str → Option Key) : Consistent m [] := by
  intro k q hq; simp [get_nil] at hq

theorem mem_get_stepRed {m : Str → Option Key} {r : Results} (hw : WF r) (hc : Consistent m r) (p : Str)
    (k : Key) (q : Str) : q ∈ (stepRed m r p).get k ↔ q ∈ r.get k ∧ q ≠ p := by
  unfold stepRed
  cases hm : m p with
  | none =>
    simp only
    constructor
    · intro h
      refine ⟨h, ?_⟩
      rintro rfl
      rw [hc k q h] at hm; cases hm
    · exact fun h => h.1
  | some k0 =>
    simp only
    rw [mem_get_removePath hw.1]
    constructor
    · rintro ⟨h, hn⟩
      refine ⟨h, ?_⟩
      rintro rfl
      have := hc k q h
      rw [hm] at this; cases this
      exact hn ⟨rfl, rfl⟩
    · rintro ⟨h, hn⟩
      exact ⟨h, fun ⟨_, e⟩ => hn e⟩

theorem mem_get_reduce {m : Str → Option Key} {r : Results} (hw : WF r) (hc : Consistent m r)
    (ps : List Str) (k : Key) (q : Str) :
    q ∈ (reduce m r ps).get k ↔ q ∈ r.get k ∧ q ∉ ps := by
  rw [reduce_eq]
  induction ps generalizing r with
  | nil => simp
  | cons p ps ih =>
    rw [List.foldl_cons]
    have hc' : Consistent m (stepRed m r p) := by
      intro k' q' hq'
      exact hc k' q' ((mem_get_stepRed hw hc p k' q').mp hq').1
    rw [ih (wf_stepRed p hw) hc', mem_get_stepRed hw hc]
    simp only [List.mem_cons, not_or]
    constructor
    · rintro ⟨⟨h1, h2⟩, h3⟩; exact ⟨h1, h2, h3⟩
    · rintro ⟨h1, h2, h3⟩; exact ⟨⟨h1, h2⟩, h3⟩

/-! #### `eqv` is extensional equality on well-formed results -/

theorem get_of_mem {r : Results} (hn : (keys r).Nodup) {k : Key} {ps : List Str} (h : (k, ps) ∈ r) :
    r.get k = ps := by
  induction r with
  | nil => simp at h
  | cons kp rest ih =>
    obtain ⟨k0, ps0⟩ := kp
    simp only [keys, List.map_cons, List.nodup_cons] at hn
    rw [get_cons]
    rcases List.mem_cons.mp h with e | e
    · simp only [Prod.mk.injEq] at e
      rw [if_pos e.1.symm, e.2]
    · have : k0 ≠ k := by
        rintro rfl
        exact hn.1 (List.mem_map_of_mem (f := Prod.fst) e)
      rw [if_neg this]; exact ih hn.2 e

theorem subResults_iff {a b : Results} (ha : (keys a).Nodup) :
    subResults a b = true ↔ ∀ k q, q ∈ a.get k → q ∈ b.get k := by
  simp only [subResults, List.all_eq_true, List.contains_eq_mem, decide_eq_true_eq, Prod.forall]
  constructor
  · intro h k q hq
    obtain ⟨ps, hps, hq'⟩ := (mem_get_iff ha k q).mp hq
    exact h k ps hps q hq'
  · intro h k ps hps q hq
    exact h k q ((mem_get_iff ha k q).mpr ⟨ps, hps, hq⟩)

theorem keysIn_of_sub {a b : Results} (ha : WF a) (h : ∀ k q, q ∈ a.get k → q ∈ b.get k) :
    keysIn a b = true := by
  simp only [keysIn, List.all_eq_true, List.any_eq_true, beq_iff_eq, Prod.forall, Prod.exists]
  intro k ps hps
  have hne := ha.2 _ hps
  obtain ⟨q, hq⟩ := List.exists_mem_of_ne_nil _ hne
  have hq' : q ∈ a.get k := by rw [get_of_mem ha.1 hps]; exact hq
  have hk := mem_keys_of_mem_get (h k q hq')
  simp only [keys, List.mem_map, Prod.exists] at hk
  obtain ⟨k1, ps1, h1, h2⟩ := hk
  exact ⟨k1, ps1, h1, h2⟩

theorem eqv_iff {a b : Results} (ha : WF a) (hb : WF b) :
    eqv a b = true ↔ ∀ k q, q ∈ a.get k ↔ q ∈ b.get k := by
  simp only [eqv, Bool.and_eq_true]
  constructor
  · rintro ⟨⟨⟨h1, h2⟩, _⟩, _⟩ k q
    exact ⟨(subResults_iff ha.1).mp h1 k q, (subResults_iff hb.1).mp h2 k q⟩
  · intro h
    have h1 : ∀ k q, q ∈ a.get k → q ∈ b.get k := fun k q => (h k q).mp
    have h2 : ∀ k q, q ∈ b.get k → q ∈ a.get k := fun k q => (h k q).mpr
    exact ⟨⟨⟨(subResults_iff ha.1).mpr h1, (subResults_iff hb.1).mpr h2⟩, keysIn_of_sub ha h1⟩,
      keysIn_of_sub hb h2⟩

/-! #### files -/

theorem mem_insertSorted (x y : Str) (l : List Str) : x ∈ insertSorted y l ↔ x = y ∨ x ∈ l := by
  induction l with
  | nil => simp [insertSorted]
  | cons z zs ih =>
    simp only [insertSorted]
    split
    · simp
    · split
      · next h => subst h; simp
      · simp only [List.mem_cons, ih]
        constructor
        · rintro (h | h | h)
          · exact Or.inr (Or.inl h)
          · exact Or.inl h
          · exact Or.inr (Or.inr h)
        · rintro (h | h | h)
          · exact Or.inr (Or.inl h)
          · exact Or.inl h
          · exact Or.inr (Or.inr h)

theorem mem_sortDedup (x : Str) (l : List Str) : x ∈ sortDedup l ↔ x ∈ l := by
  induction l with
  | nil => simp [sortDedup]
  | cons y ys ih =>
    simp only [sortDedup, List.foldr_cons] at ih ⊢
    rw [mem_insertSorted, ih]; simp

theorem mem_files {r : Results} (hn : (keys r).Nodup) (q : Str) : q ∈ files r ↔ ∃ k, q ∈ r.get k := by
  simp only [files, mem_sortDedup, List.mem_flatMap, Prod.exists]
  constructor
  · rintro ⟨k, ps, h, hq⟩; exact ⟨k, (mem_get_iff hn k q).mpr ⟨ps, h, hq⟩⟩
  · rintro ⟨k, hq⟩
    obtain ⟨ps, h, hq'⟩ := (mem_get_iff hn k q).mp hq
    exact ⟨k, ps, h, hq'⟩


/-! ### Declarative meaning of the regular-expression fragment -/

def AllIn (cs : CSet) (s : Str) : Prop := ∀ c ∈ s, cs.mem c = true

def AtomLang : Atom → Str → Prop
  | .lit t, s => s = t
  | .one cs, s => ∃ c, s = [c] ∧ cs.mem c = true
  | .star cs, s => AllIn cs s
  | .plus cs, s => s ≠ [] ∧ AllIn cs s
  | .dirs, s => s = [] ∨ ∃ u, s = u ++ [47] ∧ AllIn .dot u
  | .optSlash, s => s = [] ∨ s = [47]

def AtomsLang : List Atom → Str → Prop
  | [], s => s = []
  | a :: as, s => ∃ u v, s = u ++ v ∧ AtomLang a u ∧ AtomsLang as v

theorem allIn_nil (cs : CSet) : AllIn cs [] := by intro c h; simp at h

theorem allIn_cons {cs : CSet} {c : Nat} {s : Str} (hc : cs.mem c = true) (hs : AllIn cs s) :
    AllIn cs (c :: s) := by
  intro x hx
  rcases List.mem_cons.mp hx with rfl | h
  · exact hc
  · exact hs x h

theorem starK_sound {α : Type} (cs : CSet) (k : Str → Option α) (inp : Str) (e : α)
    (h : starK cs k inp = some e) : ∃ u v, inp = u ++ v ∧ AllIn cs u ∧ k v = some e := by
  induction inp with
  | nil => exact ⟨[], [], rfl, allIn_nil cs, h⟩
  | cons c t ih =>
    simp only [starK] at h
    split at h
    · next hc =>
      split at h
      · next e' he' =>
        cases h
        obtain ⟨u, v, hu, ha, hk⟩ := ih he'
        exact ⟨c :: u, v, by rw [hu]; rfl, allIn_cons hc ha, hk⟩
      · exact ⟨[], c :: t, rfl, allIn_nil cs, h⟩
    · exact ⟨[], c :: t, rfl, allIn_nil cs, h⟩

theorem starK_of_k {α : Type} (cs : CSet) (k : Str → Option α) (v : Str) (h : (k v).isSome = true) :
    (starK cs k v).isSome = true := by
  cases v with
  | nil => exact h
  | cons c t =>
    simp only [starK]
    split
    · split
      · rfl
      · exact h
    · exact h

theorem starK_complete {α : Type} (cs : CSet) (k : Str → Option α) (u v : Str) (hu : AllIn cs u)
    (h : (k v).isSome = true) : (starK cs k (u ++ v)).isSome = true := by
  induction u with
  | nil => exact starK_of_k cs k v h
  | cons c t ih =>
    have hc : cs.mem c = true := hu c (by simp)
    have ht : AllIn cs t := fun x hx => hu x (by simp [hx])
    simp only [List.cons_append, starK, hc, if_true]
    have := ih ht
    split
    · rfl
    · next hn => rw [hn] at this; cases this

theorem matchAtoms_sound {α : Type} (as : List Atom) (k : Str → Option α) (inp : Str) (e : α)
    (h : matchAtoms as k inp = some e) : ∃ u v, inp = u ++ v ∧ AtomsLang as u ∧ k v = some e := by
  induction as generalizing k inp with
  | nil => exact ⟨[], inp, rfl, rfl, h⟩
  | cons a as ih =>
    cases a with
    | lit s =>
      simp only [matchAtoms] at h
      split at h
      · next hp =>
        obtain ⟨t, rfl⟩ := List.isPrefixOf_iff_prefix.mp hp
        simp only [List.drop_left'] at h
        obtain ⟨u, v, rfl, hu, hk⟩ := ih k t h
        exact ⟨s ++ u, v, by simp, ⟨s, u, rfl, rfl, hu⟩, hk⟩
      · cases h
    | one cs =>
      cases inp with
      | nil => simp [matchAtoms] at h
      | cons c t =>
        simp only [matchAtoms] at h
        split at h
        · next hc =>
          obtain ⟨u, v, rfl, hu, hk⟩ := ih k t h
          exact ⟨c :: u, v, rfl, ⟨[c], u, rfl, ⟨c, rfl, hc⟩, hu⟩, hk⟩
        · cases h
    | star cs =>
      simp only [matchAtoms] at h
      obtain ⟨u, v, rfl, hu, hk⟩ := starK_sound cs _ inp e h
      obtain ⟨u', v', rfl, hu', hk'⟩ := ih k v hk
      exact ⟨u ++ u', v', by simp, ⟨u, u', rfl, hu, hu'⟩, hk'⟩
    | plus cs =>
      cases inp with
      | nil => simp [matchAtoms] at h
      | cons c t =>
        simp only [matchAtoms] at h
        split at h
        · next hc =>
          obtain ⟨u, v, rfl, hu, hk⟩ := starK_sound cs _ t e h
          obtain ⟨u', v', rfl, hu', hk'⟩ := ih k v hk
          exact ⟨(c :: u) ++ u', v', by simp, ⟨c :: u, u', rfl, ⟨by simp, allIn_cons hc hu⟩, hu'⟩, hk'⟩
        · cases h
    | dirs =>
      simp only [matchAtoms] at h
      split at h
      · next e' he' =>
        cases h
        obtain ⟨u, v, rfl, hu, hk⟩ := starK_sound .dot _ inp e he'
        split at hk
        · next t =>
          obtain ⟨u', v', rfl, hu', hk'⟩ := ih k t hk
          exact ⟨(u ++ [47]) ++ u', v', by simp, ⟨u ++ [47], u', rfl, Or.inr ⟨u, rfl, hu⟩, hu'⟩, hk'⟩
        · cases hk
      · obtain ⟨u, v, rfl, hu, hk⟩ := ih k inp h
        exact ⟨u, v, rfl, ⟨[], u, rfl, Or.inl rfl, hu⟩, hk⟩
    | optSlash =>
      simp only [matchAtoms] at h
      split at h
      · next t =>
        split at h
        · next e' he' =>
          cases h
          obtain ⟨u, v, rfl, hu, hk⟩ := ih k t he'
          exact ⟨47 :: u, v, rfl, ⟨[47], u, rfl, Or.inr rfl, hu⟩, hk⟩
        · obtain ⟨u, v, hu0, hu, hk⟩ := ih k (47 :: t) h
          exact ⟨u, v, hu0, ⟨[], u, rfl, Or.inl rfl, hu⟩, hk⟩
      · obtain ⟨u, v, rfl, hu, hk⟩ := ih k inp h
        exact ⟨u, v, rfl, ⟨[], u, rfl, Or.inl rfl, hu⟩, hk⟩

theorem matchAtoms_complete {α : Type} (as : List Atom) (k : Str → Option α) (u v : Str)
    (hu : AtomsLang as u) (h : (k v).isSome = true) : (matchAtoms as k (u ++ v)).isSome = true := by
  induction as generalizing k u with
  | nil => cases hu; exact h
  | cons a as ih =>
    obtain ⟨u1, u2, rfl, h1, h2⟩ := hu
    have hrest := ih k u2 h2 h
    cases a with
    | lit s =>
      have h1' : u1 = s := h1
      subst h1'
      simp only [matchAtoms, List.append_assoc]
      have : u1.isPrefixOf (u1 ++ (u2 ++ v)) = true := List.isPrefixOf_iff_prefix.mpr ⟨_, rfl⟩
      rw [if_pos this, List.drop_left]; exact hrest
    | one cs =>
      obtain ⟨c, rfl, hc⟩ := h1
      simp only [List.cons_append, List.nil_append, matchAtoms, hc, if_true]; exact hrest
    | star cs =>
      simp only [matchAtoms, List.append_assoc]
      exact starK_complete cs _ u1 (u2 ++ v) h1 hrest
    | plus cs =>
      obtain ⟨hne, hall⟩ := h1
      cases u1 with
      | nil => exact absurd rfl hne
      | cons c t =>
        have hc : cs.mem c = true := hall c (by simp)
        have ht : AllIn cs t := fun x hx => hall x (by simp [hx])
        simp only [List.cons_append, List.append_assoc, matchAtoms, hc, if_true]
        exact starK_complete cs _ t (u2 ++ v) ht hrest
    | dirs =>
      simp only [matchAtoms, List.append_assoc]
      rcases h1 with rfl | ⟨w, rfl, hw⟩
      · split
        · rfl
        · simpa using hrest
      · have h3 : ∀ K : Str → Option α, (K (47 :: (u2 ++ v))).isSome = true →
            starK .dot K (w ++ 47 :: (u2 ++ v)) ≠ none := by
          intro K hK hn
          have := starK_complete .dot K w _ hw hK
          rw [hn] at this; cases this
        simp only [List.append_assoc, List.cons_append, List.nil_append]
        split
        · rfl
        · next hn => exact absurd hn (h3 _ (by simpa using hrest))
    | optSlash =>
      rcases h1 with rfl | rfl
      · simp only [List.nil_append]
        generalize u2 ++ v = x at hrest ⊢
        simp only [matchAtoms]
        split
        · split
          · rfl
          · exact hrest
        · exact hrest
      · simp only [List.cons_append, List.nil_append, matchAtoms]
        split
        · rfl
        · next hn => rw [hn] at hrest; cases hrest

/-- The atoms accept exactly their declarative language. -/
theorem matchAtoms_full_iff (as : List Atom) (s : Str) :
    (matchAtoms as (fun r => if r = [] then some () else none) s).isSome = true ↔ AtomsLang as s := by
  constructor
  · intro h
    obtain ⟨e, he⟩ := Option.isSome_iff_exists.mp h
    obtain ⟨u, v, rfl, hu, hk⟩ := matchAtoms_sound as _ s e he
    split at hk
    · next hv => subst hv; simpa using hu
    · cases hk
  · intro h
    have := matchAtoms_complete as (fun r => if r = [] then some () else none) s [] h (by simp)
    simpa using this


/-! ### Items: groups and back-references -/

def Item.groupName? : Item → Option Str
  | .group n _ => some n
  | _ => none

/-- The name of a group or back-reference. -/
def Item.name? : Item → Option Str
  | .group n _ => some n
  | .bref n => some n
  | _ => none

def groupNames (re : List Item) : List Str := re.filterMap Item.groupName?

/-- What one item matched, given the final bindings: a group or back-reference named `n`
matched exactly the text bound to `n`. -/
def ItemOK (env : Env) : Item → Str → Prop
  | .atom a, s => AtomLang a s
  | .group n body, s => AtomsLang body s ∧ env.get n = some s
  | .bref n, s => env.get n = some s

/-- One segment per item, each accepted by its item under the final bindings. -/
def SegsOK (env : Env) : List Item → List Str → Prop
  | [], [] => True
  | it :: its, s :: ss => ItemOK env it s ∧ SegsOK env its ss
  | _, _ => False

theorem env_get_cons (m v : Str) (rest : Env) (n : Str) :
    Env.get ((m, v) :: rest) n = if m = n then some v else Env.get rest n := rfl

theorem atomsLang_single {a : Atom} {s : Str} (h : AtomsLang [a] s) : AtomLang a s := by
  obtain ⟨u, v, rfl, hu, hv⟩ := h
  cases hv; simpa using hu

theorem groupNames_cons (x : Item) (l : List Item) :
    groupNames (x :: l) = (match x.groupName? with | some n => [n] | none => []) ++ groupNames l := by
  unfold groupNames
  rw [List.filterMap_cons]
  cases x.groupName? <;> rfl

theorem matchItems_sound (items : List Item) (env0 : Env) (inp : Str) (env : Env)
    (h : matchItems items env0 inp = some env) (hn : (groupNames items).Nodup)
    (hfresh : ∀ n ∈ groupNames items, env0.get n = none) :
    ∃ segs, segs.flatten = inp ∧ SegsOK env items segs ∧
      ∀ n v, env0.get n = some v → env.get n = some v := by
  induction items generalizing env0 inp with
  | nil =>
    simp only [matchItems] at h
    split at h
    · next hi => cases h; exact ⟨[], by simp [hi], trivial, fun _ _ h => h⟩
    · cases h
  | cons it rest ih =>
    cases it with
    | atom a =>
      simp only [matchItems] at h
      obtain ⟨u, v, rfl, hu, hk⟩ := matchAtoms_sound [a] _ inp env h
      have hgn : groupNames (Item.atom a :: rest) = groupNames rest := by
        rw [groupNames_cons]; rfl
      rw [hgn] at hn hfresh
      obtain ⟨segs, hs, hf, hp⟩ := ih env0 v hk hn hfresh
      exact ⟨u :: segs, by simp [hs], ⟨(atomsLang_single hu), hf⟩, hp⟩
    | group n body =>
      simp only [matchItems] at h
      obtain ⟨u, v, rfl, hu, hk⟩ := matchAtoms_sound body _ inp env h
      have htake : (u ++ v).take ((u ++ v).length - v.length) = u := by simp
      rw [htake] at hk
      have hgn : groupNames (Item.group n body :: rest) = n :: groupNames rest := by
        rw [groupNames_cons]; rfl
      rw [hgn] at hn hfresh
      have hn' := List.nodup_cons.mp hn
      have hfresh' : ∀ n' ∈ groupNames rest, Env.get ((n, u) :: env0) n' = none := by
        intro n' hn''
        rw [env_get_cons]
        have : n ≠ n' := by rintro rfl; exact hn'.1 hn''
        rw [if_neg this]
        exact hfresh n' (List.mem_cons_of_mem _ hn'')
      obtain ⟨segs, hs, hf, hp⟩ := ih ((n, u) :: env0) v hk hn'.2 hfresh'
      have hbound : env.get n = some u := hp n u (by rw [env_get_cons, if_pos rfl])
      refine ⟨u :: segs, by simp [hs], ⟨⟨hu, hbound⟩, hf⟩, ?_⟩
      intro n' v' hv'
      apply hp
      rw [env_get_cons]
      have : n ≠ n' := by
        rintro rfl
        rw [hfresh n (List.mem_cons_self)] at hv'; cases hv'
      rw [if_neg this]; exact hv'
    | bref n =>
      simp only [matchItems] at h
      have hgn : groupNames (Item.bref n :: rest) = groupNames rest := by
        rw [groupNames_cons]; rfl
      rw [hgn] at hn hfresh
      split at h
      · next val hval =>
        split at h
        · next hp =>
          obtain ⟨t, rfl⟩ := List.isPrefixOf_iff_prefix.mp hp
          rw [List.drop_left] at h
          obtain ⟨segs, hs, hf, hp'⟩ := ih env0 t h hn hfresh
          exact ⟨val :: segs, by simp [hs], ⟨(hp' n val hval), hf⟩, hp'⟩
        · cases h
      · cases h

/-! ### The compiler never emits two groups with one name -/

def GInv (parts : List Item) (enc : List Str) : Prop :=
  (groupNames parts).Nodup ∧ ∀ n ∈ groupNames parts, n ∈ enc

theorem groupNames_append (a b : List Item) : groupNames (a ++ b) = groupNames a ++ groupNames b := by
  simp [groupNames, List.filterMap_append]

theorem ginv_append_atom {parts : List Item} {enc : List Str} (a : Atom) (h : GInv parts enc) :
    GInv (parts ++ [.atom a]) enc := by
  unfold GInv at *
  rw [groupNames_append]
  have : groupNames [Item.atom a] = [] := rfl
  rw [this, List.append_nil]; exact h

theorem ginv_append_bref {parts : List Item} {enc : List Str} (n : Str) (h : GInv parts enc) :
    GInv (parts ++ [.bref n]) enc := by
  unfold GInv at *
  rw [groupNames_append]
  have : groupNames [Item.bref n] = [] := rfl
  rw [this, List.append_nil]; exact h

theorem ginv_dropLast {parts : List Item} {enc : List Str} (h : GInv parts enc) :
    GInv parts.dropLast enc := by
  have hs : (groupNames parts.dropLast).Sublist (groupNames parts) :=
    List.Sublist.filterMap _ (List.dropLast_sublist parts)
  exact ⟨hs.nodup h.1, fun n hn => h.2 n (hs.subset hn)⟩

theorem ginv_putPart {parts : List Item} {enc : List Str} (b : Bool) (a : Atom) (h : GInv parts enc) :
    GInv (putPart b parts (.atom a)) enc := by
  unfold putPart
  split
  · exact ginv_append_atom a (ginv_dropLast h)
  · exact ginv_append_atom a h

theorem ginv_append_group {parts : List Item} {enc : List Str} (n : Str) (body : List Atom)
    (hn : n ∉ enc) (h : GInv parts enc) : GInv (parts ++ [.group n body]) (n :: enc) := by
  unfold GInv at *
  rw [groupNames_append]
  have : groupNames [Item.group n body] = [n] := rfl
  rw [this]
  constructor
  · rw [List.nodup_append]
    refine ⟨h.1, by simp, ?_⟩
    intro a ha b hb
    simp at hb; subst hb
    rintro rfl
    exact hn (h.2 _ ha)
  · intro m hm
    rcases List.mem_append.mp hm with hm | hm
    · exact List.mem_cons_of_mem _ (h.2 m hm)
    · simp at hm; subst hm; exact List.mem_cons_self

theorem compileStep_ginv (subs : Subs) (st st' : CState) (tok : Tok)
    (h : compileStep subs st tok = .ok st') (hi : GInv st.parts st.enc) : GInv st'.parts st'.enc := by
  cases tok with
  | lit s => simp only [compileStep] at h; cases h; exact ginv_append_atom _ hi
  | qm => simp only [compileStep] at h; cases h; exact ginv_append_atom _ hi
  | star =>
    simp only [compileStep] at h
    split at h
    · cases h; exact hi
    · cases h; exact ginv_append_atom _ hi
  | dstar =>
    simp only [compileStep] at h
    split at h
    · cases h; exact hi
    · cases h; exact ginv_putPart _ _ hi
  | dstarSlash =>
    simp only [compileStep] at h
    split at h
    · cases h; exact hi
    · cases h; exact ginv_putPart _ _ hi
  | cls b => simp only [compileStep] at h; cases h; exact ginv_append_atom _ hi
  | named n =>
    simp only [compileStep] at h
    split at h
    · cases h
    · split at h
      · cases h; exact ginv_append_bref _ hi
      · next hc =>
        split at h
        · cases h
        · next body _ =>
          cases h
          have : n ∉ st.enc := by simpa using hc
          exact ginv_append_group n body this hi

theorem compileLoop_nodup (subs : Subs) (toks : List Tok) (st st' : CState)
    (h : compileLoop subs toks st = .ok st') (hi : GInv st.parts st.enc) : (groupNames st'.parts).Nodup := by
  induction toks generalizing st with
  | nil => simp only [compileLoop] at h; cases h; exact hi.1
  | cons tok rest ih =>
    simp only [compileLoop] at h
    split at h
    · cases h
    · next st1 h1 => exact ih st1 h (compileStep_ginv subs st st1 tok h1 hi)

theorem groupName_enclosedFix (x : Item) : (enclosedFix x).groupName? = x.groupName? := by
  cases x with
  | atom a => cases a <;> rfl
  | group n body => simp only [enclosedFix]; split <;> rfl
  | bref n => rfl

theorem groupNames_enclosedPass (b : Bool) (l : List Item) :
    groupNames (enclosedPass b l) = groupNames l := by
  induction l generalizing b with
  | nil => rfl
  | cons x t ih =>
    cases t with
    | nil => rfl
    | cons y rest =>
      simp only [enclosedPass]
      have hx : (if (b && startsSlash y) = true then enclosedFix x else x).groupName? = x.groupName? := by
        split
        · exact groupName_enclosedFix x
        · rfl
      rw [groupNames_cons, groupNames_cons x, ih, hx]

theorem groupNames_trailingPass (l : List Item) : groupNames (trailingPass l) = groupNames l := by
  unfold trailingPass
  split
  · rfl
  · next last prevs hrev =>
    have hl : l = prevs.reverse ++ [last] := List.reverse_eq_cons_iff.mp hrev
    split
    · next n b =>
      split
      · rw [hl, groupNames_append, groupNames_append]; rfl
      · rfl
    · rw [hl, groupNames_append, groupNames_append]; rfl
    · rfl

theorem compileToks_nodup {toks : List Tok} {subs : Subs} {re : List Item}
    (h : compileToks toks subs = .ok re) : (groupNames re).Nodup := by
  unfold compileToks at h
  split at h
  · cases h
  · next st hp =>
    cases h
    rw [groupNames_trailingPass, groupNames_enclosedPass]
    exact compileLoop_nodup subs toks ⟨[], none, []⟩ st hp ⟨by simp [groupNames], by simp [groupNames]⟩

theorem compileRegex_nodup {pattern : Str} {subs : Subs} {re : List Item}
    (h : compileRegex pattern subs = .ok re) : (groupNames re).Nodup := by
  unfold compileRegex at h
  split at h
  · cases h
  · exact compileToks_nodup h


/-! ### The modelled `iglob` only yields existing paths, except the base of a trailing `**` -/

theorem iglobR_cons (t : Tree) (base : Str) (revDir : List Str) (b : Bool) :
    iglobR t (base :: revDir) b = (dirsOf t revDir).flatMap fun d => globIn t d base b := by
  cases revDir <;> rfl

theorem isDirQ_iff (t : Tree) (p : Path) : isDirQ t p = true ↔ p ≠ [] ∧ (p, true) ∈ t := by
  simp [isDirQ]

theorem existsQ_iff (t : Tree) (p : Path) :
    existsQ t p = true ↔ p ≠ [] ∧ ((p, true) ∈ t ∨ (p, false) ∈ t) := by
  simp [existsQ]

theorem render_mem_treePaths {t : Tree} {x : GPath} (h : x ∈ t) : render x ∈ treePaths t :=
  List.mem_map_of_mem h

theorem mem_listdir {t : Tree} {d : Path} {b : Bool} {n : Str} (h : n ∈ listdir t d b) :
    ∃ isd, (d ++ [n], isd) ∈ t := by
  simp only [listdir, List.mem_filterMap, Prod.exists] at h
  obtain ⟨p, isd, hm, hc⟩ := h
  split at hc
  · next hcond =>
    simp only [Bool.and_eq_true, decide_eq_true_eq] at hcond
    obtain ⟨⟨_, hlen⟩, hpre⟩ := hcond
    obtain ⟨r, rfl⟩ := List.isPrefixOf_iff_prefix.mp hpre
    simp only [List.length_append] at hlen
    have hr : r.length = 1 := by omega
    match r, hr with
    | [x], _ =>
      simp at hc
      subst hc
      exact ⟨isd, hm⟩
  · cases hc

theorem mem_rlist {t : Tree} {d : Path} {b : Bool} {p : Path} (h : p ∈ rlist t d b) :
    p ≠ [] ∧ ∃ isd, (p, isd) ∈ t := by
  simp only [rlist, List.mem_filterMap, Prod.exists] at h
  obtain ⟨p', isd, hm, hc⟩ := h
  split at hc
  · next hcond =>
    simp only [Bool.and_eq_true, decide_eq_true_eq] at hcond
    cases hc
    refine ⟨?_, isd, hm⟩
    intro e; subst e
    simp at hcond
  · cases hc

/-- A yielded empty path is the base of `_glob2` on the root. -/
theorem globIn_nil {t : Tree} {d : Path} {base : Str} {b : Bool} {x : GPath}
    (h : x ∈ globIn t d base b) (hx : x.1 = []) : d = [] ∧ base = [42, 42] := by
  unfold globIn at h
  split at h
  · next hb =>
    rcases List.mem_cons.mp h with rfl | h
    · exact ⟨hx, hb⟩
    · obtain ⟨p, hp, rfl⟩ := List.mem_map.mp h
      exact absurd hx (mem_rlist hp).1
  · split at h
    · obtain ⟨n, hn, rfl⟩ := List.mem_map.mp h
      simp at hx
    · split at h
      · split at h
        · next hd =>
          simp at h; subst h
          exact absurd hx ((isDirQ_iff t d).mp hd).1
        · simp at h
      · split at h
        · simp at h; subst h; simp at hx
        · simp at h

/-- Only the head of what `glob_in_dir` yields can be the empty path. -/
theorem globIn_tail {t : Tree} {d : Path} {base : Str} {b : Bool} :
    ∀ y ∈ (globIn t d base b).tail, y.1 ≠ [] := by
  intro y hy
  unfold globIn at hy
  split at hy
  · simp only [List.tail_cons] at hy
    obtain ⟨p, hp, rfl⟩ := List.mem_map.mp hy
    exact (mem_rlist hp).1
  · intro hy0
    have hmem : y ∈ globIn t d base b := by
      unfold globIn
      rw [if_neg (by assumption)]
      exact List.mem_of_mem_tail hy
    exact absurd (globIn_nil hmem hy0).2 (by assumption)

def TailNonempty {α : Type} (f : α → Path) (l : List α) : Prop := ∀ y ∈ l.tail, f y ≠ []

theorem flatMap_tailNonempty {t : Tree} {base : Str} {b : Bool} (dirs : List Path)
    (hd : TailNonempty id dirs) :
    TailNonempty Prod.fst (dirs.flatMap fun d => globIn t d base b) := by
  cases dirs with
  | nil => intro y hy; simp at hy
  | cons d0 ds =>
    have hrest : ∀ y ∈ ds.flatMap (fun d => globIn t d base b), y.1 ≠ [] := by
      intro y hy hy0
      obtain ⟨d, hdm, hyd⟩ := List.mem_flatMap.mp hy
      have := (globIn_nil hyd hy0).1
      exact hd d (by simpa using hdm) this
    intro y hy
    rw [List.flatMap_cons] at hy
    cases hg : globIn t d0 base b with
    | nil => rw [hg] at hy; simp only [List.nil_append] at hy; exact hrest y (List.mem_of_mem_tail hy)
    | cons g0 gs =>
      rw [hg] at hy
      simp only [List.cons_append, List.tail_cons] at hy
      rcases List.mem_append.mp hy with h | h
      · have : y ∈ (globIn t d0 base b).tail := by rw [hg]; exact h
        exact globIn_tail y this
      · exact hrest y h

theorem dirsOf_tailNonempty (t : Tree) (revDir : List Str)
    (ih : ∀ b, TailNonempty Prod.fst (iglobR t revDir b)) : TailNonempty id (dirsOf t revDir) := by
  unfold dirsOf
  split
  · intro y hy; simp at hy
  · split
    · intro y hy
      rw [← List.map_tail] at hy
      obtain ⟨x, hx, rfl⟩ := List.mem_map.mp hy
      exact ih true x hx
    · intro y hy; simp at hy

theorem iglobR_tailNonempty (t : Tree) (rc : List Str) (b : Bool) :
    TailNonempty Prod.fst (iglobR t rc b) := by
  induction rc generalizing b with
  | nil => intro y hy; simp [iglobR] at hy
  | cons base revDir ih =>
    rw [iglobR_cons]
    exact flatMap_tailNonempty _ (dirsOf_tailNonempty t revDir ih)

/-- The empty path is only yielded when every component is `**`. -/
theorem iglobR_nil_all_rec (t : Tree) (rc : List Str) (b : Bool) (x : GPath)
    (h : x ∈ iglobR t rc b) (hx : x.1 = []) : ∀ c ∈ rc, c = [42, 42] := by
  induction rc generalizing b x with
  | nil => simp [iglobR] at h
  | cons base revDir ih =>
    rw [iglobR_cons] at h
    obtain ⟨d, hd, hxd⟩ := List.mem_flatMap.mp h
    obtain ⟨hd0, hb⟩ := globIn_nil hxd hx
    subst hd0
    intro c hc
    rcases List.mem_cons.mp hc with rfl | hc
    · exact hb
    · unfold dirsOf at hd
      split at hd
      · simp at hc
      · split at hd
        · obtain ⟨y, hy, hy0⟩ := List.mem_map.mp hd
          exact ih true y hy hy0 c hc
        · simp at hd

/-! #### `split("/")` and `"/".join` -/

theorem joinSlash_cons_cons (x y : Str) (rest : List Str) :
    joinSlash (x :: y :: rest) = x ++ 47 :: joinSlash (y :: rest) := rfl

theorem splitSlashAux_ne_nil (s acc : Str) : splitSlashAux s acc ≠ [] := by
  induction s generalizing acc with
  | nil => simp [splitSlashAux]
  | cons c t ih =>
    simp only [splitSlashAux]
    split
    · simp
    · exact ih _

theorem joinSlash_splitSlashAux (s acc : Str) :
    joinSlash (splitSlashAux s acc) = acc.reverse ++ s := by
  induction s generalizing acc with
  | nil => simp [splitSlashAux, joinSlash]
  | cons c t ih =>
    simp only [splitSlashAux]
    split
    · next hc =>
      subst hc
      cases hs : splitSlashAux t [] with
      | nil => exact absurd hs (splitSlashAux_ne_nil t [])
      | cons y rest =>
        rw [joinSlash_cons_cons, ← hs, ih]; simp
    · rw [ih]; simp

theorem joinSlash_splitSlash (s : Str) : joinSlash (splitSlash s) = s := by
  simp [splitSlash, joinSlash_splitSlashAux]

theorem take2_of_head_rec {g : Str} {rest : List Str} (h : splitSlash g = [42, 42] :: rest) :
    g.take 2 = [42, 42] := by
  have := joinSlash_splitSlash g
  rw [h] at this
  cases rest with
  | nil => rw [← this]; rfl
  | cons y ys => rw [← this, joinSlash_cons_cons]; rfl

/-- After the leading empty result is skipped no empty path remains. -/
theorem iglob_ne_nil (t : Tree) (g : Str) (x : GPath) (h : x ∈ iglob t g) : x.1 ≠ [] := by
  intro hx
  unfold iglob at h
  simp only at h
  have htail := iglobR_tailNonempty t (splitSlash g).reverse false
  split at h
  · split at h
    · next y ys hr =>
      rw [hr] at htail
      split at h
      · exact htail x (by simpa using h) hx
      · next hne =>
        rw [hr] at h
        rcases List.mem_cons.mp h with rfl | h
        · apply hne; simp [render, hx]
        · exact htail x (by simpa using h) hx
    · simp at h
  · next htake =>
    have hall := iglobR_nil_all_rec t _ false x h hx
    cases hs : splitSlash g with
    | nil => exact absurd hs (splitSlashAux_ne_nil g [])
    | cons c rest =>
      have hc : c = [42, 42] := hall c (by rw [hs]; simp)
      subst hc
      exact htake (take2_of_head_rec hs)

theorem mem_iglob_subset (t : Tree) (g : Str) (x : GPath) (h : x ∈ iglob t g) :
    x ∈ iglobR t (splitSlash g).reverse false := by
  unfold iglob at h
  simp only at h
  split at h
  · split at h
    · next y ys hr =>
      rw [hr]
      split at h
      · exact List.mem_cons_of_mem _ h
      · rw [hr] at h; exact h
    · simp at h
  · exact h


/-! ### Anonymous versus named single-component wildcards -/

/-- Forget the name `n`: a group `n` around a bare single-component wildcard becomes the wildcard. -/
def anon (n : Str) : Item → Item
  | .group m b =>
    if m = n ∧ b = [.star .notSlash] then .atom (.star .notSlash)
    else if m = n ∧ b = [.plus .notSlash] then .atom (.plus .notSlash)
    else .group m b
  | x => x

theorem anon_atom (n : Str) (a : Atom) : anon n (.atom a) = .atom a := rfl
theorem anon_bref (n m : Str) : anon n (.bref m) = .bref m := rfl

theorem anon_group_ne {n m : Str} (h : m ≠ n) (b : List Atom) : anon n (.group m b) = .group m b := by
  simp [anon, h]

theorem startsSlash_anon (n : Str) (x : Item) : startsSlash (anon n x) = startsSlash x := by
  cases x with
  | atom a => rfl
  | bref m => rfl
  | group m b =>
    simp only [anon]
    split
    · rfl
    · split <;> rfl

theorem endsSlash_anon (n : Str) (x : Item) : endsSlash (anon n x) = endsSlash x := by
  cases x with
  | atom a => rfl
  | bref m => rfl
  | group m b =>
    simp only [anon]
    split
    · rfl
    · split <;> rfl

theorem enclosedFix_anon (n : Str) (x : Item) : enclosedFix (anon n x) = anon n (enclosedFix x) := by
  cases x with
  | atom a => cases a <;> rfl
  | bref m => rfl
  | group m b =>
    by_cases h1 : m = n ∧ b = [.star .notSlash]
    · obtain ⟨rfl, rfl⟩ := h1
      simp [anon, enclosedFix]
    · by_cases h2 : m = n ∧ b = [.plus .notSlash]
      · obtain ⟨rfl, rfl⟩ := h2
        simp [anon, enclosedFix]
      · have e : anon n (.group m b) = .group m b := by simp [anon, h1, h2]
        rw [e]
        simp only [enclosedFix]
        split
        · next hb =>
          subst hb
          have hm : m ≠ n := fun e => h1 ⟨e, rfl⟩
          simp [anon, hm]
        · simp [anon, h1, h2]

theorem enclosedPass_anon (n : Str) (b : Bool) (l : List Item) :
    enclosedPass b (l.map (anon n)) = (enclosedPass b l).map (anon n) := by
  induction l generalizing b with
  | nil => rfl
  | cons x t ih =>
    cases t with
    | nil => rfl
    | cons y rest =>
      have hih := ih (endsSlash x)
      simp only [List.map_cons] at hih
      simp only [List.map_cons, enclosedPass]
      rw [startsSlash_anon, endsSlash_anon, hih]
      split
      · rw [enclosedFix_anon]
      · rfl


theorem trailingPass_concat (prevs : List Item) (last : Item) :
    trailingPass (prevs ++ [last]) =
      match last with
      | .group n b =>
        if b = [.star .notSlash] then prevs ++ [.group n [trailBody prevs.reverse], .atom .optSlash]
        else prevs ++ [last]
      | .atom (.star .notSlash) => prevs ++ [.atom (trailBody prevs.reverse), .atom .optSlash]
      | _ => prevs ++ [last] := by
  unfold trailingPass
  have hr : (prevs ++ [last]).reverse = last :: prevs.reverse := by simp
  rw [hr]
  simp only [List.reverse_reverse]
  cases last with
  | atom a =>
    cases a with
    | star cs => cases cs <;> simp
    | _ => simp
  | bref m => simp
  | group m b => simp only

theorem trailBody_anon (n : Str) (prevs : List Item) :
    trailBody ((prevs.map (anon n)).reverse) = trailBody prevs.reverse := by
  rw [← List.map_reverse]
  cases prevs.reverse with
  | nil => rfl
  | cons p ps =>
    show trailBody (anon n p :: ps.map (anon n)) = trailBody (p :: ps)
    unfold trailBody
    simp only [List.head?_cons, Option.map_some, Option.getD_some, endsSlash_anon]
    rfl

theorem trailingPass_nil : trailingPass [] = [] := rfl

theorem trailingPass_anon (n : Str) (l : List Item) :
    trailingPass (l.map (anon n)) = (trailingPass l).map (anon n) := by
  cases hr : l.reverse with
  | nil =>
    have : l = [] := by simpa using hr
    subst this; rfl
  | cons last rp =>
    have hl : l = rp.reverse ++ [last] := List.reverse_eq_cons_iff.mp hr
    generalize rp.reverse = prevs at hl
    subst hl
    rw [List.map_append, List.map_cons, List.map_nil, trailingPass_concat, trailingPass_concat, trailBody_anon]
    cases last with
    | atom a =>
      cases a with
      | star cs => cases cs <;> simp [anon]
      | _ => simp [anon]
    | bref m => simp [anon]
    | group m b =>
      by_cases h1 : m = n ∧ b = [.star .notSlash]
      · obtain ⟨rfl, rfl⟩ := h1
        simp only [anon, and_self, if_true, List.map_append, List.map_cons, List.map_nil]
        unfold trailBody
        split <;> simp
      · by_cases h2 : m = n ∧ b = [.plus .notSlash]
        · obtain ⟨rfl, rfl⟩ := h2
          have e : anon m (.group m [.plus .notSlash]) = .atom (.plus .notSlash) := by simp [anon]
          simp [e]
        · have e : anon n (.group m b) = .group m b := by simp [anon, h1, h2]
          rw [e]
          simp only
          split
          · next hb =>
            subst hb
            have hm : m ≠ n := fun e => h1 ⟨e, rfl⟩
            simp [anon, hm]
          · simp [e]


/-! #### The loop on two token lists that differ in one `*` / `${*n}` -/

def starLike : Tok → Bool
  | .star | .dstar | .dstarSlash => true
  | _ => false

/-- `enc` and `enc'` agree on every name other than `n`. -/
def EncRel (n : Str) (e e' : List Str) : Prop := ∀ m, m ≠ n → (e.contains m = e'.contains m)

/-- The state of the anonymous run is the state of the named run with the group `n` forgotten. -/
def StRel (n : Str) (S S' : CState) : Prop := S.parts = S'.parts.map (anon n) ∧ EncRel n S.enc S'.enc

theorem map_putPart {α β : Type} (f : α → β) (b : Bool) (l : List α) (x : α) :
    (putPart b l x).map f = putPart b (l.map f) (f x) := by
  unfold putPart
  split <;> simp [List.map_dropLast]

theorem compileStep_last {subs : Subs} {st st' : CState} {tok : Tok}
    (h : compileStep subs st tok = .ok st') : st'.last = some tok := by
  cases tok with
  | lit s => simp only [compileStep] at h; cases h; rfl
  | qm => simp only [compileStep] at h; cases h; rfl
  | star => simp only [compileStep] at h; split at h <;> (cases h; rfl)
  | dstar => simp only [compileStep] at h; split at h <;> (cases h; rfl)
  | dstarSlash => simp only [compileStep] at h; split at h <;> (cases h; rfl)
  | cls b => simp only [compileStep] at h; cases h; rfl
  | named n =>
    simp only [compileStep] at h
    split at h
    · cases h
    · split at h
      · cases h; rfl
      · split at h
        · cases h
        · cases h; rfl

/-- One step on related states: both fail alike, or both succeed with related states. -/
theorem step_sim (subs : Subs) (n : Str) (S S' : CState) (tok : Tok) (hrel : StRel n S S')
    (hlast : S.last = S'.last ∨ starLike tok = false) (htok : tok ≠ .named n) :
    (∃ T T', compileStep subs S tok = .ok T ∧ compileStep subs S' tok = .ok T' ∧ StRel n T T') ∨
    (∃ e, compileStep subs S tok = .error e ∧ compileStep subs S' tok = .error e) := by
  obtain ⟨hp, he⟩ := hrel
  cases tok with
  | lit s =>
    exact Or.inl ⟨_, _, rfl, rfl, by simp [hp, anon], he⟩
  | qm =>
    exact Or.inl ⟨_, _, rfl, rfl, by simp [hp, anon], he⟩
  | cls b =>
    exact Or.inl ⟨_, _, rfl, rfl, by simp [hp, anon], he⟩
  | star =>
    have hl : S.last = S'.last := by rcases hlast with h | h; exact h; cases h
    simp only [compileStep, hl]
    split
    · exact Or.inl ⟨_, _, rfl, rfl, hp, he⟩
    · exact Or.inl ⟨_, _, rfl, rfl, by simp [hp, anon], he⟩
  | dstar =>
    have hl : S.last = S'.last := by rcases hlast with h | h; exact h; cases h
    simp only [compileStep, hl]
    split
    · exact Or.inl ⟨_, _, rfl, rfl, hp, he⟩
    · refine Or.inl ⟨_, _, rfl, rfl, ?_, he⟩
      simp only [map_putPart, hp, anon]
  | dstarSlash =>
    have hl : S.last = S'.last := by rcases hlast with h | h; exact h; cases h
    simp only [compileStep, hl]
    split
    · exact Or.inl ⟨_, _, rfl, rfl, hp, he⟩
    · refine Or.inl ⟨_, _, rfl, rfl, ?_, he⟩
      simp only [map_putPart, hp, anon]
  | named m =>
    have hm : m ≠ n := fun e => htok (by rw [e])
    simp only [compileStep]
    by_cases h0 : m = []
    · simp only [h0, if_true]; exact Or.inr ⟨_, rfl, rfl⟩
    · simp only [h0, if_false]
      rw [he m hm]
      split
      · exact Or.inl ⟨_, _, rfl, rfl, by simp [hp, anon], he⟩
      · cases compileSub (subs.getD m) with
        | error e => exact Or.inr ⟨e, rfl, rfl⟩
        | ok body =>
          refine Or.inl ⟨_, _, rfl, rfl, ?_, ?_⟩
          · simp [hp, anon_group_ne hm]
          · intro k hk
            simp only [List.contains_cons]
            rw [he k hk]

/-- The loop on related states, over tokens that do not mention `n`. -/
theorem loop_sim (subs : Subs) (n : Str) (toks : List Tok) (hfree : Tok.named n ∉ toks) (S S' : CState)
    (hrel : StRel n S S') (hlast : S.last = S'.last ∨ ∀ t, toks.head? = some t → starLike t = false) :
    (∃ T T', compileLoop subs toks S = .ok T ∧ compileLoop subs toks S' = .ok T' ∧
      T.parts = T'.parts.map (anon n)) ∨
    (∃ e, compileLoop subs toks S = .error e ∧ compileLoop subs toks S' = .error e) := by
  induction toks generalizing S S' with
  | nil => exact Or.inl ⟨S, S', rfl, rfl, hrel.1⟩
  | cons tok rest ih =>
    have htok : tok ≠ .named n := fun e => hfree (by rw [e]; exact List.mem_cons_self)
    have hfree' : Tok.named n ∉ rest := fun h => hfree (List.mem_cons_of_mem _ h)
    have hl : S.last = S'.last ∨ starLike tok = false := by
      rcases hlast with h | h
      · exact Or.inl h
      · exact Or.inr (h tok rfl)
    rcases step_sim subs n S S' tok hrel hl htok with ⟨T, T', h1, h2, hr⟩ | ⟨e, h1, h2⟩
    · simp only [compileLoop, h1, h2]
      apply ih hfree' T T' hr
      left
      rw [compileStep_last h1, compileStep_last h2]
    · simp only [compileLoop, h1, h2]
      exact Or.inr ⟨e, rfl, rfl⟩


theorem compileLoop_append (subs : Subs) (tp rest : List Tok) (st : CState) :
    compileLoop subs (tp ++ rest) st =
      match compileLoop subs tp st with
      | .error e => .error e
      | .ok st' => compileLoop subs rest st' := by
  induction tp generalizing st with
  | nil => rfl
  | cons tok tp ih =>
    simp only [List.cons_append, compileLoop]
    cases compileStep subs st tok with
    | error e => rfl
    | ok st1 => exact ih st1

theorem compileLoop_last {subs : Subs} {tp : List Tok} {st st' : CState}
    (h : compileLoop subs tp st = .ok st') :
    (tp = [] ∧ st' = st) ∨ ∃ t, tp.getLast? = some t ∧ st'.last = some t := by
  induction tp generalizing st with
  | nil => simp only [compileLoop] at h; cases h; exact Or.inl ⟨rfl, rfl⟩
  | cons tok rest ih =>
    simp only [compileLoop] at h
    split at h
    · cases h
    · next st1 h1 =>
      right
      rcases ih h with ⟨rfl, rfl⟩ | ⟨t, ht, hl⟩
      · exact ⟨tok, rfl, compileStep_last h1⟩
      · refine ⟨t, ?_, hl⟩
        cases rest with
        | nil => simp at ht
        | cons r rs => rw [List.getLast?_cons_cons]; exact ht

theorem compileLoop_ginv {subs : Subs} {toks : List Tok} {st st' : CState}
    (h : compileLoop subs toks st = .ok st') (hi : GInv st.parts st.enc) : GInv st'.parts st'.enc := by
  induction toks generalizing st with
  | nil => simp only [compileLoop] at h; cases h; exact hi
  | cons tok rest ih =>
    simp only [compileLoop] at h
    split at h
    · cases h
    · next st1 h1 => exact ih h (compileStep_ginv subs st st1 tok h1 hi)

theorem mem_putPart {α : Type} {b : Bool} {l : List α} {x y : α} (h : y ∈ putPart b l x) :
    y ∈ l ∨ y = x := by
  unfold putPart at h
  split at h
  · rcases List.mem_append.mp h with h | h
    · exact Or.inl (List.dropLast_subset l h)
    · simp at h; exact Or.inr h
  · rcases List.mem_append.mp h with h | h
    · exact Or.inl h
    · simp at h; exact Or.inr h

/-- New names in `enc` and new back-references come from named tokens. -/
theorem compileStep_trace {subs : Subs} {st st' : CState} {tok : Tok} (h : compileStep subs st tok = .ok st')
    (m : Str) :
    (m ∈ st'.enc → m ∈ st.enc ∨ tok = .named m) ∧
    (Item.bref m ∈ st'.parts → Item.bref m ∈ st.parts ∨ tok = .named m) := by
  cases tok with
  | lit s => simp only [compileStep] at h; cases h; simp
  | qm => simp only [compileStep] at h; cases h; simp
  | cls b => simp only [compileStep] at h; cases h; simp
  | star =>
    simp only [compileStep] at h
    split at h <;> (cases h; simp)
  | dstar =>
    simp only [compileStep] at h
    split at h
    · cases h; simp
    · cases h
      refine ⟨fun hm => Or.inl hm, fun hb => ?_⟩
      rcases mem_putPart hb with hb | hb
      · exact Or.inl hb
      · cases hb
  | dstarSlash =>
    simp only [compileStep] at h
    split at h
    · cases h; simp
    · cases h
      refine ⟨fun hm => Or.inl hm, fun hb => ?_⟩
      rcases mem_putPart hb with hb | hb
      · exact Or.inl hb
      · cases hb
  | named k =>
    simp only [compileStep] at h
    split at h
    · cases h
    · split at h
      · cases h
        refine ⟨fun hm => Or.inl hm, fun hb => ?_⟩
        rcases List.mem_append.mp hb with hb | hb
        · exact Or.inl hb
        · simp at hb; exact Or.inr (by rw [hb])
      · split at h
        · cases h
        · cases h
          refine ⟨fun hm => ?_, fun hb => ?_⟩
          · rcases List.mem_cons.mp hm with hm | hm
            · exact Or.inr (by rw [hm])
            · exact Or.inl hm
          · rcases List.mem_append.mp hb with hb | hb
            · exact Or.inl hb
            · simp at hb

theorem compileLoop_trace {subs : Subs} {toks : List Tok} {st st' : CState}
    (h : compileLoop subs toks st = .ok st') (m : Str) :
    (m ∈ st'.enc → m ∈ st.enc ∨ Tok.named m ∈ toks) ∧
    (Item.bref m ∈ st'.parts → Item.bref m ∈ st.parts ∨ Tok.named m ∈ toks) := by
  induction toks generalizing st with
  | nil => simp only [compileLoop] at h; cases h; exact ⟨Or.inl, Or.inl⟩
  | cons tok rest ih =>
    simp only [compileLoop] at h
    split at h
    · cases h
    · next st1 h1 =>
      have a := ih h
      have b := compileStep_trace h1 m
      constructor
      · intro hm
        rcases a.1 hm with hm | hm
        · rcases b.1 hm with hm | hm
          · exact Or.inl hm
          · exact Or.inr (by rw [hm]; exact List.mem_cons_self)
        · exact Or.inr (List.mem_cons_of_mem _ hm)
      · intro hm
        rcases a.2 hm with hm | hm
        · rcases b.2 hm with hm | hm
          · exact Or.inl hm
          · exact Or.inr (by rw [hm]; exact List.mem_cons_self)
        · exact Or.inr (List.mem_cons_of_mem _ hm)

theorem map_anon_id {n : Str} {l : List Item} {enc : List Str} (hi : GInv l enc) (hn : n ∉ enc) :
    l.map (anon n) = l := by
  have : ∀ x ∈ l, anon n x = x := by
    intro x hx
    cases x with
    | atom a => rfl
    | bref m => rfl
    | group m b =>
      have hm : m ∈ groupNames l := by
        simp only [groupNames, List.mem_filterMap]
        exact ⟨_, hx, rfl⟩
      have : m ≠ n := by rintro rfl; exact hn (hi.2 m hm)
      exact anon_group_ne this b
  calc l.map (anon n) = l.map id := List.map_congr_left this
    _ = l := List.map_id l

theorem bref_mem_enclosedPass {m : Str} {b : Bool} {l : List Item} (h : Item.bref m ∈ enclosedPass b l) :
    Item.bref m ∈ l := by
  induction l generalizing b with
  | nil => simp [enclosedPass] at h
  | cons x t ih =>
    cases t with
    | nil => simpa [enclosedPass] using h
    | cons y rest =>
      simp only [enclosedPass] at h
      rcases List.mem_cons.mp h with h | h
      · have : x = Item.bref m := by
          split at h
          · cases x with
            | atom a => cases a <;> simp [enclosedFix] at h
            | bref k => simp only [enclosedFix] at h; exact h.symm
            | group k bd => simp only [enclosedFix] at h; split at h <;> cases h
          · exact h.symm
        rw [this]; exact List.mem_cons_self
      · exact List.mem_cons_of_mem _ (ih h)

theorem bref_mem_trailingPass {m : Str} {l : List Item} (h : Item.bref m ∈ trailingPass l) :
    Item.bref m ∈ l := by
  cases hr : l.reverse with
  | nil =>
    have : l = [] := by simpa using hr
    subst this; exact h
  | cons last rp =>
    have hl : l = rp.reverse ++ [last] := List.reverse_eq_cons_iff.mp hr
    generalize rp.reverse = prevs at hl
    subst hl
    rw [trailingPass_concat] at h
    cases last with
    | atom a =>
      cases a with
      | star cs =>
        cases cs with
        | notSlash =>
          simp only at h
          rcases List.mem_append.mp h with h | h
          · exact List.mem_append_left _ h
          · simp at h
        | _ => exact h
      | _ => exact h
    | bref k => exact h
    | group k bd =>
      simp only at h
      split at h
      · rcases List.mem_append.mp h with h | h
        · exact List.mem_append_left _ h
        · simp at h
      · exact h

theorem compileSub_star : compileSub [42] = .ok [.star .notSlash] := by rfl


/-- Compiling with `${*n}` (fresh, no substitution, not next to another `*`-like token) gives the
expression compiled with `*`, up to the group around that one wildcard. -/
theorem compileToks_anon (subs : Subs) (tp tq : List Tok) (n : Str)
    (hn : n ≠ []) (hsub : subs.getD n = [42]) (hp : Tok.named n ∉ tp) (hq : Tok.named n ∉ tq)
    (hl1 : tp.getLast? ≠ some .star) (hl2 : tp.getLast? ≠ some .dstar)
    (hright : ∀ t, tq.head? = some t → starLike t = false) :
    (∃ R, compileToks (tp ++ .named n :: tq) subs = .ok R ∧
        compileToks (tp ++ .star :: tq) subs = .ok (R.map (anon n)) ∧ ∀ m, Item.bref m ∈ R → m ≠ n) ∨
    (∃ e, compileToks (tp ++ .named n :: tq) subs = .error e ∧
        compileToks (tp ++ .star :: tq) subs = .error e) := by
  unfold compileToks
  rw [compileLoop_append, compileLoop_append]
  cases hP : compileLoop subs tp ⟨[], none, []⟩ with
  | error e => exact Or.inr ⟨e, rfl, rfl⟩
  | ok P =>
    simp only
    have hginv : GInv P.parts P.enc := compileLoop_ginv hP ⟨by simp [groupNames], by simp [groupNames]⟩
    have htr := compileLoop_trace hP
    have hnenc : n ∉ P.enc := by
      intro h
      rcases (htr n).1 h with h | h
      · simp at h
      · exact hp h
    have hPlast : P.last ≠ some .star ∧ P.last ≠ some .dstar := by
      rcases compileLoop_last hP with ⟨_, rfl⟩ | ⟨t, ht, hl⟩
      · exact ⟨by simp, by simp⟩
      · rw [hl, ← ht]; exact ⟨hl1, hl2⟩
    -- the two first steps
    have hstar : compileStep subs P .star =
        .ok { P with parts := P.parts ++ [.atom (.star .notSlash)], last := some .star } := by
      simp [compileStep, hPlast.1, hPlast.2]
    have hnamed : compileStep subs P (.named n) =
        .ok { parts := P.parts ++ [.group n [.star .notSlash]], last := some (.named n), enc := n :: P.enc } := by
      simp [compileStep, hn, hnenc, hsub, compileSub_star]
    simp only [compileLoop, hstar, hnamed]
    have hrel : StRel n { P with parts := P.parts ++ [.atom (.star .notSlash)], last := some .star }
        { parts := P.parts ++ [.group n [.star .notSlash]], last := some (.named n), enc := n :: P.enc } := by
      constructor
      · simp [map_anon_id hginv hnenc, anon]
      · intro m hm
        simp only [List.contains_cons]
        have : (m == n) = false := by simpa using hm
        rw [this, Bool.false_or]
    rcases loop_sim subs n tq hq _ _ hrel (Or.inr hright) with ⟨T, T', h1, h2, hparts⟩ | ⟨e, h1, h2⟩
    · left
      refine ⟨_, by rw [h2], ?_, ?_⟩
      · rw [h1]; simp only; rw [hparts, enclosedPass_anon, trailingPass_anon]
      · intro m hm
        have hm1 := bref_mem_enclosedPass (bref_mem_trailingPass hm)
        rcases (compileLoop_trace h2 m).2 hm1 with hb1 | hb1
        · have hb2 : Item.bref m ∈ P.parts ++ [Item.group n [Atom.star CSet.notSlash]] := hb1
          rcases List.mem_append.mp hb2 with hb3 | hb3
          · rcases (htr m).2 hb3 with hb4 | hb4
            · simp at hb4
            · intro hmn; rw [hmn] at hb4; exact hp hb4
          · simp at hb3
        · intro hmn; rw [hmn] at hb1; exact hq hb1
    · right
      exact ⟨e, by rw [h2], by rw [h1]⟩

/-! #### Forgetting a group that nothing refers to does not change what is accepted -/

theorem matchAtoms_isSome_iff {α : Type} (as : List Atom) (k : Str → Option α) (inp : Str) :
    (matchAtoms as k inp).isSome = true ↔
      ∃ u v, inp = u ++ v ∧ AtomsLang as u ∧ (k v).isSome = true := by
  constructor
  · intro h
    obtain ⟨e, he⟩ := Option.isSome_iff_exists.mp h
    obtain ⟨u, v, h1, h2, h3⟩ := matchAtoms_sound as k inp e he
    exact ⟨u, v, h1, h2, by rw [h3]; rfl⟩
  · rintro ⟨u, v, rfl, h2, h3⟩
    exact matchAtoms_complete as k u v h2 h3

theorem matchAtoms_isSome_congr {α β : Type} (as : List Atom) (k : Str → Option α) (k' : Str → Option β)
    (inp : Str) (h : ∀ r, (k r).isSome = (k' r).isSome) :
    (matchAtoms as k inp).isSome = (matchAtoms as k' inp).isSome := by
  rw [Bool.eq_iff_iff, matchAtoms_isSome_iff, matchAtoms_isSome_iff]
  constructor
  · rintro ⟨u, v, h1, h2, h3⟩; exact ⟨u, v, h1, h2, by rw [← h]; exact h3⟩
  · rintro ⟨u, v, h1, h2, h3⟩; exact ⟨u, v, h1, h2, by rw [h]; exact h3⟩

def AgreeExcept (n : Str) (e e' : Env) : Prop := ∀ m, m ≠ n → e.get m = e'.get m

theorem agreeExcept_cons {n : Str} {e e' : Env} (h : AgreeExcept n e e') (m v : Str) :
    AgreeExcept n ((m, v) :: e) ((m, v) :: e') := by
  intro k hk
  rw [env_get_cons, env_get_cons, h k hk]

theorem agreeExcept_cons_right {n : Str} {e e' : Env} (h : AgreeExcept n e e') (v : Str) :
    AgreeExcept n e ((n, v) :: e') := by
  intro k hk
  rw [env_get_cons, if_neg (fun e => hk e.symm), h k hk]

theorem matchItems_anon (n : Str) (l : List Item) (hb : ∀ m, Item.bref m ∈ l → m ≠ n) (e e' : Env)
    (h : AgreeExcept n e e') (inp : Str) :
    (matchItems (l.map (anon n)) e inp).isSome = (matchItems l e' inp).isSome := by
  induction l generalizing e e' inp with
  | nil => simp only [List.map_nil, matchItems]; split <;> rfl
  | cons x rest ih =>
    have hb' : ∀ m, Item.bref m ∈ rest → m ≠ n := fun m hm => hb m (List.mem_cons_of_mem _ hm)
    cases x with
    | atom a =>
      simp only [List.map_cons, anon_atom, matchItems]
      exact matchAtoms_isSome_congr _ _ _ _ (fun r => ih hb' e e' h r)
    | bref m =>
      have hm : m ≠ n := hb m List.mem_cons_self
      simp only [List.map_cons, anon_bref, matchItems]
      rw [h m hm]
      split
      · split
        · exact ih hb' e e' h _
        · rfl
      · rfl
    | group m b =>
      by_cases h1 : m = n ∧ b = [.star .notSlash]
      · obtain ⟨rfl, rfl⟩ := h1
        have ea : anon m (.group m [.star .notSlash]) = .atom (.star .notSlash) := by simp [anon]
        simp only [List.map_cons, ea, matchItems]
        exact matchAtoms_isSome_congr _ _ _ _ (fun r => ih hb' e _ (agreeExcept_cons_right h _) r)
      · by_cases h2 : m = n ∧ b = [.plus .notSlash]
        · obtain ⟨rfl, rfl⟩ := h2
          have ea : anon m (.group m [.plus .notSlash]) = .atom (.plus .notSlash) := by simp [anon]
          simp only [List.map_cons, ea, matchItems]
          exact matchAtoms_isSome_congr _ _ _ _ (fun r => ih hb' e _ (agreeExcept_cons_right h _) r)
        · have ea : anon n (.group m b) = .group m b := by simp [anon, h1, h2]
          simp only [List.map_cons, ea, matchItems]
          exact matchAtoms_isSome_congr _ _ _ _ (fun r => ih hb' _ _ (agreeExcept_cons h m _) r)

theorem accepts_anon (n : Str) (l : List Item) (hb : ∀ m, Item.bref m ∈ l → m ≠ n) (s : Str) :
    accepts (l.map (anon n)) s = accepts l s := by
  unfold accepts fullmatch
  exact matchItems_anon n l hb [] [] (fun _ _ => rfl) s


/-- Everything `NamedGlob.glob` hands to `extend` exists in the tree. -/
theorem globPaths_exist (t : Tree) (g : Str) (q : Str) (h : q ∈ globPaths t g) : q ∈ treePaths t := by
  simp only [globPaths, List.mem_filterMap] at h
  obtain ⟨x, _, hx⟩ := h
  unfold recordPath at hx
  split at hx
  · next hd =>
    cases hx
    exact render_mem_treePaths ((isDirQ_iff t x.1).mp hd).2
  · next hd =>
    split at hx
    · next hc =>
      cases hx
      simp only [Bool.and_eq_true, Bool.not_eq_true'] at hc
      obtain ⟨hne, hm | hm⟩ := (existsQ_iff t x.1).mp hc.2
      · exact absurd ((isDirQ_iff t x.1).mpr ⟨hne, hm⟩) hd
      · have : x = (x.1, false) := by rw [← hc.1]
        rw [this]; exact render_mem_treePaths hm
    · cases hx

end StepupModel.P.NGlob
