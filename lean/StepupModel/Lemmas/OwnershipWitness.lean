import StepupModel.Lemmas.Ownership
import StepupModel.Lemmas.OwnershipProducts
/-!
# C08 ownership: the side condition of a recycling `define` is needed (F21, kernel-checked)

`treesDisjoint_after_every_history` / `treeOwnsBeneath_after_every_history` exclude one thing that the director
does: a `define` that recycles a detached step (`try_recycle`) whose product subtree conflicts with what was
declared while it was detached (`DefineOK`, `RecycleClean`).  Three histories made only of requests the director
issues; for each: the state the model reaches (a literal, compared with the model's own run of the history by the
`#guard` lines, which are evaluation checks and not theorems), (O1) and (O4) hold in it, ONE `define` is accepted,
and (O4) resp. (O1) fails afterwards; the guard refuses exactly that request.  The same histories replay on the
implementation with the same answers and the same database (`harness/witness/ownership_*.txt`,
`harness/kreplay.py`; the oracle on the real database: `harness/witness/ownership_oracle.py`).  All three are
instances of the known finding F21 (`ownership-file-under-static:tree-reattached-by-recycle`,
`ownership-file-under-static:file-reattached-by-recycle`, `ownership-nested-static-trees:tree-reattached-by-recycle`).

The common prefix: `define root "./plan.py" (need PLAN, safe)`; `pop` (plan RUNNING).
-/
namespace StepupModel.K.Own

def wCfg : KConfig := {}
def wPlan : Key := stepKey "./plan.py"

def wPre : List (KConfig × Req) := [
  (wCfg, .define rootKey { cmd := "./plan.py", need := .plan, safe := true }),
  (wCfg, .pop (some wPlan))]

/-- The answer of one request on a literal state: accepted, and the predicate fails afterwards. -/
def breaks (Q : KState → Prop) [DecidablePred Q] (r : M (KState × String)) : Bool :=
  match r with
  | .ok s' => !decide (Q s'.1)
  | .error _ => false

theorem breaks_spec {Q : KState → Prop} [DecidablePred Q] {r : M (KState × String)} (h : breaks Q r = true) :
    ∃ s', r = .ok s' ∧ ¬ Q s'.1 := by
  cases r with
  | error e => cases h
  | ok s' =>
    refine ⟨s', rfl, fun hq => ?_⟩
    simp only [breaks, decide_eq_true hq] at h
    cases h


/-! ## Evaluating `define` on a literal state

`String.splitOn` (in `stepLabel`) is defined by well-founded recursion and does not reduce in `decide`; the label
of the step is computed by unfolding its equation, and the recycling branch of `define_step` is exposed as the
operation `recycleStep`, which `decide +kernel` evaluates. -/

theorem split_S : "S".splitOn "  # wd=" = ["S"] := by
  rw [String.splitOn.eq_1]
  have h0 : ("  # wd=" == "") = false := by decide +kernel
  rw [h0]
  simp only [Bool.false_eq_true, if_false]
  rw [String.splitOnAux.eq_1]
  have h1 : String.Pos.Raw.atEnd "S" 0 = false := by decide +kernel
  rw [h1]
  simp only [Bool.false_eq_true, if_false]
  have h2 : (String.Pos.Raw.get "S" 0 == String.Pos.Raw.get "  # wd=" 0) = false := by decide +kernel
  rw [h2]
  simp only [Bool.false_eq_true, if_false]
  rw [String.splitOnAux.eq_1]
  have h3 : String.Pos.Raw.atEnd "S" (String.Pos.Raw.next "S" ((0 : String.Pos.Raw).unoffsetBy 0)) = true := by
    decide +kernel
  rw [h3]
  simp only [if_true]
  decide +kernel

theorem stepLabel_S : stepLabel "S" "." = some "S" := by
  unfold stepLabel
  rw [split_S]
  decide +kernel

/-- The declaration of the witnesses: `define plan "S"` with no paths. -/
def wDecl : StepDecl := { cmd := "S" }

theorem normDecl_wDecl : normDecl wDecl = wDecl := by
  simp [normDecl, wDecl, normPaths, sortStrs, dedupSorted]

/-- The guards of `define_step` pass on a state without glob registrations whose root has created `./plan.py`. -/
theorem defineGuard_S (s : KState) (hg : s.attachedGlobs = []) : s.defineGuard wCfg wPlan wDecl = .ok (stepKey "S") := by
  unfold KState.defineGuard
  simp [wDecl, stepLabel_S, wPlan, rootKey, stepKey, KConfig.forbiddenTarget, KState.raiseIfGlobMatch, hg,
    bind, Except.bind, pure, Except.pure, wCfg]

/-- The recycling branch of `define_step`. -/
theorem defineStep_recycle {s : KState} {n : Node} (hg : s.attachedGlobs = []) (hf : s.find? (stepKey "S") = some n)
    (hd : n.detached = true) (hc : s.canRecycle (stepKey "S") wDecl = true) :
    s.exec wCfg (.define wPlan wDecl) =
      (s.recycleStep (stepKey "S") wPlan wDecl n >>= fun s1 =>
        pure (s1, StepupModel.Proto.hexList (s1.unconfirmedTreeInputs (stepKey "S")))) := by
  have hnd := normDecl_wDecl
  unfold normDecl at hnd
  simp only [KState.exec, KState.defineStep]
  rw [hnd, defineGuard_S s hg]
  simp only [bind, Except.bind, hf, hd, hc, and_self, if_true]
  cases s.recycleStep (stepKey "S") wPlan wDecl n <;> rfl

/-- The answer of the operation on a literal state: accepted, and the predicate fails afterwards. -/
def breaksM (Q : KState → Prop) [DecidablePred Q] (r : M KState) : Bool :=
  match r with
  | .ok s' => !decide (Q s')
  | .error _ => false

theorem define_breaks {Q : KState → Prop} [DecidablePred Q] {s : KState} {n : Node} (hg : s.attachedGlobs = [])
    (hf : s.find? (stepKey "S") = some n) (hd : n.detached = true) (hc : s.canRecycle (stepKey "S") wDecl = true)
    (h : breaksM Q (s.recycleStep (stepKey "S") wPlan wDecl n) = true) :
    ∃ s', s.exec wCfg (.define wPlan wDecl) = .ok s' ∧ ¬ Q s'.1 := by
  rw [defineStep_recycle hg hf hd hc]
  cases hr : s.recycleStep (stepKey "S") wPlan wDecl n with
  | error e => rw [hr] at h; cases h
  | ok s1 =>
    rw [hr] at h
    refine ⟨(s1, _), rfl, fun hq => ?_⟩
    simp only [breaksM, decide_eq_true hq] at h
    cases h

/-- The guard of the histories refuses a `define plan "S"` that is not clean. -/
theorem guard_refuses {s : KState} {n : Node} (hf : s.find? (stepKey "S") = some n) (hd : n.detached = true)
    (hc : s.canRecycle (stepKey "S") wDecl = true) (ha : s.isDetached wPlan = false)
    (h : ¬ RecycleClean s (stepKey "S")) : ¬ ReqOKO s (.define wPlan wDecl) := by
  intro hr
  exact h (hr "S" stepLabel_S n hf hd (by rw [normDecl_wDecl]; exact hc) ha)

/-! ## 1. A recycled static tree comes back over a file declared in the meantime -/

/-- `define plan "S"`; `pop S`; `tree S "d"` (S registers the static tree `d/`); `reset_for_rerun plan` (the plan
runs again: S and its tree are detached); `amend plan out=[d/g]` (accepted: no attached tree above `d/g`). -/
def wHist1 : List (KConfig × Req) := wPre ++ [
  (wCfg, .define wPlan { cmd := "S" }),
  (wCfg, .pop (some (stepKey "S"))),
  (wCfg, .tree (stepKey "S") "d"),
  (wCfg, .resetRerun wPlan),
  (wCfg, .amend wPlan [] [] ["d/g"] [] [])]

/-- The row of the detached, still RUNNING step S in the three witness states. -/
def wRowS : Node :=
  { key := { kind := .step, label := "S" }, detached := true, sstate := .running, safe := true, checkSafe := true,
    safeNH := true, checkAfter := true, ready := true, checkReady := false }

def wState1 : KState :=
  { nodes := [
      { key := { kind := .root, label := "" }, creator := some { kind := .root, label := "" } },
      { key := { kind := .step, label := "./plan.py" }, creator := some { kind := .root, label := "" }, sstate := .running,
        need := .plan, safe := true, safeNH := true, impliedNeed := .plan, checkAfter := true, ready := true,
        checkReady := false },
      { key := { kind := .step, label := "S" }, detached := true, sstate := .running, safe := true, checkSafe := true,
        safeNH := true, checkAfter := true, ready := true, checkReady := false },
      { key := { kind := .st, label := "d/" }, creator := some { kind := .step, label := "S" }, detached := true },
      { key := { kind := .file, label := "d/g" }, creator := some { kind := .step, label := "./plan.py" },
        fstate := .planned }],
    deps := [{ src := { kind := .step, label := "./plan.py" }, snk := { kind := .file, label := "d/g" }, dyn := true }] }

#guard reprStr wState1 == reprStr (KState.init.run wHist1)

/-- **F21, tree over file**: the plan defines S again, identically: `try_recycle` re-attaches S with its tree `d/`,
and the attached output `d/g` of the plan lies under the attached static tree `d/` that does not own it
(`witness/ownership_tree_recycled.txt`). -/
theorem recycled_tree_over_file_breaks_O4 : TreesDisjoint wState1 ∧ TreeOwnsBeneath wState1 ∧
    ∃ s', wState1.exec wCfg (.define wPlan wDecl) = .ok s' ∧ ¬ TreeOwnsBeneath s'.1 :=
  ⟨by decide, by decide, define_breaks (n := wRowS) (by decide) (by rfl) rfl (by decide +kernel) (by decide +kernel)⟩

/-- The guard refuses that request. -/
theorem guard_refuses_1 : ¬ ReqOKO wState1 (.define wPlan wDecl) :=
  guard_refuses (n := wRowS) (by rfl) rfl (by decide +kernel) (by decide) (by decide +kernel)

/-! ## 2. A recycled static tree comes back beside a tree nested in it -/

/-- As before, but the plan registers the static tree `d/e/` while `d/` is detached. -/
def wHist2 : List (KConfig × Req) := wPre ++ [
  (wCfg, .define wPlan { cmd := "S" }),
  (wCfg, .pop (some (stepKey "S"))),
  (wCfg, .tree (stepKey "S") "d"),
  (wCfg, .resetRerun wPlan),
  (wCfg, .tree wPlan "d/e")]

def wState2 : KState :=
  { nodes := [
      { key := { kind := .root, label := "" }, creator := some { kind := .root, label := "" } },
      { key := { kind := .step, label := "./plan.py" }, creator := some { kind := .root, label := "" }, sstate := .running,
        need := .plan, safe := true, safeNH := true, impliedNeed := .plan, ready := true, checkReady := false },
      { key := { kind := .step, label := "S" }, detached := true, sstate := .running, safe := true, checkSafe := true,
        safeNH := true, checkAfter := true, ready := true, checkReady := false },
      { key := { kind := .st, label := "d/" }, creator := some { kind := .step, label := "S" }, detached := true },
      { key := { kind := .st, label := "d/e/" }, creator := some { kind := .step, label := "./plan.py" } }],
    deps := [] }

#guard reprStr wState2 == reprStr (KState.init.run wHist2)

/-- **F21, nested trees**: after the recycling `define` the attached static tree `d/` contains the attached static
tree `d/e/` (`witness/ownership_nested_trees.txt`). -/
theorem recycled_tree_nested_breaks_O1 : TreesDisjoint wState2 ∧ TreeOwnsBeneath wState2 ∧
    ∃ s', wState2.exec wCfg (.define wPlan wDecl) = .ok s' ∧ ¬ TreesDisjoint s'.1 :=
  ⟨by decide, by decide, define_breaks (n := wRowS) (by decide) (by rfl) rfl (by decide +kernel) (by decide +kernel)⟩

theorem guard_refuses_2 : ¬ ReqOKO wState2 (.define wPlan wDecl) :=
  guard_refuses (n := wRowS) (by rfl) rfl (by decide +kernel) (by decide) (by decide +kernel)

/-! ## 3. A recycled step brings its output back under a tree registered in the meantime -/

/-- `define plan "T"`, `define plan "S"`, both popped; `tree T "d"`; `reset_for_rerun plan` (S, T and the tree are
detached); `amend S out=[d/o]` (the process of the detached step S is still running; accepted: no attached tree
above `d/o`); `define plan "T"` (T and its tree are recycled; clean: `d/o` is detached). -/
def wHist3 : List (KConfig × Req) := wPre ++ [
  (wCfg, .define wPlan { cmd := "T" }),
  (wCfg, .define wPlan { cmd := "S" }),
  (wCfg, .pop (some (stepKey "T"))),
  (wCfg, .pop (some (stepKey "S"))),
  (wCfg, .tree (stepKey "T") "d"),
  (wCfg, .resetRerun wPlan),
  (wCfg, .amend (stepKey "S") [] [] ["d/o"] [] []),
  (wCfg, .define wPlan { cmd := "T" })]

def wState3 : KState :=
  { nodes := [
      { key := { kind := .root, label := "" }, creator := some { kind := .root, label := "" } },
      { key := { kind := .step, label := "./plan.py" }, creator := some { kind := .root, label := "" }, sstate := .running,
        need := .plan, safe := true, safeNH := true, impliedNeed := .plan, ready := true, checkReady := false },
      { key := { kind := .step, label := "T" }, creator := some { kind := .step, label := "./plan.py" }, sstate := .running,
        safe := true, checkSafe := true, safeNH := true, checkAfter := true, ready := true, checkReady := false },
      { key := { kind := .step, label := "S" }, detached := true, sstate := .running, safe := true, checkSafe := true,
        safeNH := true, checkAfter := true, ready := true, checkReady := false },
      { key := { kind := .st, label := "d/" }, creator := some { kind := .step, label := "T" } },
      { key := { kind := .file, label := "d/o" }, creator := some { kind := .step, label := "S" }, detached := true,
        fstate := .planned }],
    deps := [{ src := { kind := .step, label := "S" }, snk := { kind := .file, label := "d/o" }, dyn := true }] }

#guard reprStr wState3 == reprStr (KState.init.run wHist3)

/-- **F21, file under tree**: the recycling `define` of S re-attaches its output `d/o` under the attached static
tree `d/` of T (`witness/ownership_file_recycled.txt`). -/
theorem recycled_file_under_tree_breaks_O4 : TreesDisjoint wState3 ∧ TreeOwnsBeneath wState3 ∧
    ∃ s', wState3.exec wCfg (.define wPlan wDecl) = .ok s' ∧ ¬ TreeOwnsBeneath s'.1 :=
  ⟨by decide +kernel, by decide +kernel, define_breaks (n := wRowS) (by decide) (by rfl) rfl (by decide +kernel) (by decide +kernel)⟩

theorem guard_refuses_3 : ¬ ReqOKO wState3 (.define wPlan wDecl) :=
  guard_refuses (n := wRowS) (by rfl) rfl (by decide +kernel) (by decide) (by decide +kernel)

/-- The guard does not refuse recycling as such: the `define` that recycled T with its tree (the last request of
`wHist3`) was clean. -/
def wState3a : KState :=
  { nodes := [
      { key := { kind := .root, label := "" }, creator := some { kind := .root, label := "" } },
      { key := { kind := .step, label := "./plan.py" }, creator := some { kind := .root, label := "" }, sstate := .running,
        need := .plan, safe := true, safeNH := true, impliedNeed := .plan, ready := true, checkReady := false },
      { key := { kind := .step, label := "T" }, detached := true, sstate := .running,
        safe := true, checkSafe := true, safeNH := true, checkAfter := true, ready := true, checkReady := false },
      { key := { kind := .step, label := "S" }, detached := true, sstate := .running, safe := true, checkSafe := true,
        safeNH := true, checkAfter := true, ready := true, checkReady := false },
      { key := { kind := .st, label := "d/" }, creator := some { kind := .step, label := "T" }, detached := true },
      { key := { kind := .file, label := "d/o" }, creator := some { kind := .step, label := "S" }, detached := true,
        fstate := .planned }],
    deps := [{ src := { kind := .step, label := "S" }, snk := { kind := .file, label := "d/o" }, dyn := true }] }

theorem guard_accepts_clean_recycle : RecycleClean wState3a (stepKey "T") := by decide +kernel


/-! ## 4. Declarations in the name of a static tree (requests of the model only)

The model's `static`, `declare_static` and `amend` take any node as the declarer; `_declare_file` skips the
owning-tree check when the declarer is a tree.  The director resolves the declarer of these requests as the step
whose process sent them, and the harness protocol resolves it as a step (or the root), so these are requests of the
model only; they are why `ReqOKO` has its three other clauses. -/

/-- `tree plan "a"`, `tree plan "b"`: two attached static trees of the plan. -/
def wHist4 : List (KConfig × Req) := wPre ++ [
  (wCfg, .tree wPlan "a"),
  (wCfg, .tree wPlan "b")]

def wState4 : KState :=
  { nodes := [
      { key := { kind := .root, label := "" }, creator := some { kind := .root, label := "" } },
      { key := { kind := .step, label := "./plan.py" }, creator := some { kind := .root, label := "" }, sstate := .running,
        need := .plan, safe := true, checkSafe := true, safeNH := true, impliedNeed := .plan, ready := true,
        checkReady := false },
      { key := { kind := .st, label := "a/" }, creator := some { kind := .step, label := "./plan.py" } },
      { key := { kind := .st, label := "b/" }, creator := some { kind := .step, label := "./plan.py" } }],
    deps := [] }

#guard reprStr wState4 == reprStr (KState.init.run wHist4)

/-- `static` in the name of the tree `a/` for a path under the tree `b/`: accepted, and `b/x` lies under `b/` but is
owned by `a/`. -/
theorem static_by_tree_breaks_O4 : TreesDisjoint wState4 ∧ TreeOwnsBeneath wState4 ∧
    ¬ ReqOKO wState4 (.static (treeKey "a/") ["b/x"]) ∧
    ∃ s', wState4.exec wCfg (.static (treeKey "a/") ["b/x"]) = .ok s' ∧ ¬ TreeOwnsBeneath s'.1 :=
  ⟨by decide +kernel, by decide +kernel, by unfold ReqOKO; decide +kernel, breaks_spec (by decide +kernel)⟩

theorem declStatic_by_tree_breaks_O4 : ¬ ReqOKO wState4 (.declStatic (treeKey "a/") [] ["b/x"] []) ∧
    ∃ s', wState4.exec wCfg (.declStatic (treeKey "a/") [] ["b/x"] []) = .ok s' ∧ ¬ TreeOwnsBeneath s'.1 :=
  ⟨by unfold ReqOKO; decide +kernel, breaks_spec (by decide +kernel)⟩

/-- `amend` addressed to the tree `a/`: accepted, the PLANNED output `b/x` is created by a static tree (O5 fails:
`ProductByStep`) and lies under `b/` (O4 fails). -/
theorem amend_of_tree_breaks_O4_O5 : ProductByStep wState4 ∧
    ¬ ReqOKO wState4 (.amend (treeKey "a/") [] [] ["b/x"] [] []) ∧
    (∃ s', wState4.exec wCfg (.amend (treeKey "a/") [] [] ["b/x"] [] []) = .ok s' ∧ ¬ TreeOwnsBeneath s'.1) ∧
    (∃ s', wState4.exec wCfg (.amend (treeKey "a/") [] [] ["b/x"] [] []) = .ok s' ∧ ¬ ProductByStep s'.1) :=
  ⟨by decide +kernel, by unfold ReqOKO; decide +kernel, breaks_spec (by decide +kernel), breaks_spec (by decide +kernel)⟩

#print axioms recycled_tree_over_file_breaks_O4
#print axioms recycled_tree_nested_breaks_O1
#print axioms recycled_file_under_tree_breaks_O4
#print axioms guard_refuses_1
#print axioms guard_refuses_2
#print axioms guard_refuses_3
#print axioms static_by_tree_breaks_O4
#print axioms declStatic_by_tree_breaks_O4
#print axioms amend_of_tree_breaks_O4_O5

end StepupModel.K.Own
