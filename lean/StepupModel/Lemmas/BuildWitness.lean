import StepupModel.Lemmas.BuildWake
import StepupModel.Lemmas.BuildKernel
import StepupModel.Lemmas.BuildFlight
/-!
# One build phase (`B/Build.lean`): concrete runs

* Non-vacuity of every theorem of `Lemmas/Build*.lean`: small runs in which a job is started, finishes
  and is retired, checked by the kernel (`decide +kernel`; the database states are written out because
  `define_step` goes through string functions that do not reduce).
* `promoted_hash_job_delays_dispatch`: the statement "a parked loop with a free slot has no eligible step"
  is FALSE without the proviso of `no_lost_wakeup`.  Witness: a *promoted* hash job (`amend` of a running
  step, `Builder.run_promoted_hash_jobs`) confirms a static file while the loop is parked; the step waiting
  for that file becomes eligible and nothing sets `wake_job_loop`.  Replayed on the real
  `Builder`/`HashQueue`/`Scheduler`/`Workflow`/`DirectorHandler`: `harness/witness/build_promoted_hash_wakeup.py`.
-/
namespace StepupModel.B.Build.Witness
open StepupModel.K StepupModel.K.Resources StepupModel.B StepupModel.B.Build StepupModel.B.JobLoop

def kA : Key := stepKey "A"
def kB : Key := stepKey "B"
def kC : Key := stepKey "C"
def fF : Key := fileKey "f"

/-- One step `A`, ready to run. -/
def k1 : KState :=
  { nodes := [ { key := rootKey, creator := some rootKey },
               { key := kA, creator := some rootKey, safe := true, safeNH := true, ready := true, checkReady := false } ] }

/-- `A` and `C` ready to run; `B`, created by `A`, waits for the static file `f`, which is UNCONFIRMED. -/
def k0 : KState :=
  { nodes := [ { key := rootKey, creator := some rootKey },
               { key := kA, creator := some rootKey, safe := true, safeNH := true, ready := true, checkReady := false },
               { key := kC, creator := some rootKey, safe := true, safeNH := true, ready := true, checkReady := false },
               { key := fF, creator := some kA, fstate := .unconfirmed },
               { key := kB, creator := some kA, checkSafe := true } ],
    deps := [ { src := fF, snk := kB } ] }

def isJob : M (KState × Dispatch) → Bool
  | .ok (_, .job _ _ _) => true
  | _ => false

def isNothing : M (KState × Dispatch) → Bool
  | .ok (_, .none) => true
  | _ => false

theorem isJob_spec {r : M (KState × Dispatch)} (h : isJob r = true) :
    ∃ k' key chk run, r = .ok (k', .job key chk run) := by
  match r, h with
  | .ok (k', .job key chk run), _ => exact ⟨k', key, chk, run, rfl⟩

theorem isNothing_spec {r : M (KState × Dispatch)} (h : isNothing r = true) : ∃ k', r = .ok (k', .none) := by
  match r, h with
  | .ok (k', .none), _ => exact ⟨k', rfl⟩

set_option maxRecDepth 100000

/-! ## A whole phase with one job -/

/-- start; the loop dispatches `A`; it parks; `A` completes successfully; the loop retires the job, asks
again, gets nothing and returns. -/
def phase1 : List Build.Ev :=
  [.start, .pass (some kA), .pass none, .finish 1 [.completed kA (some 5) false], .pass none]

theorem phase1_legal : ∀ e ∈ phase1, e.legal := by
  intro e he
  simp only [phase1, List.mem_cons, List.mem_nil_iff, or_false] at he
  rcases he with rfl | rfl | rfl | rfl | rfl
  · trivial
  · trivial
  · trivial
  · intro r hr
    simp only [List.mem_cons, List.mem_nil_iff, or_false] at hr
    subst hr; trivial
  · trivial

/-- Non-vacuity of `run_jobLimit`, `run_ids`, `jobs_in_flight`, `run_kernelLink`: while the job runs it is
in `running_tasks`, in `Scheduler.jobs`, and its step is RUNNING in the database. -/
example :
    (run k1 {} 1 (phase1.take 2)).jl.running = [.step 1] ∧
    (run k1 {} 1 (phase1.take 2)).jobs = [(1, kA, false)] ∧
    ((run k1 {} 1 (phase1.take 2)).k.nodes.filter fun n => runs n).map (·.key) = [kA] ∧
    (∀ n ∈ k1.nodes, runs n = false) := by decide +kernel

/-- ... and after the whole phase the job was retired once, `Scheduler.jobs` is empty, the step SUCCEEDED. -/
example :
    (run k1 {} 1 phase1).jl.status = .returned ∧ (run k1 {} 1 phase1).jl.retired = [1] ∧
    (run k1 {} 1 phase1).jobs = [] ∧ (run k1 {} 1 phase1).assigned = [(1, kA, false)] ∧
    ((run k1 {} 1 phase1).k.nodes.filter fun n => n.sstate = .succeeded).map (·.key) = [kA] := by decide +kernel

/-- Non-vacuity of `run_start_is_dispatch`: the second event starts step job 1. -/
example : (run k1 {} 1 ([.start] ++ [.pass (some kA)])).jl.started = (run k1 {} 1 [.start]).jl.started ++ [.step 1] := by
  decide +kernel

/-- Non-vacuity of `run_return_is_quiescent`: the fifth event ends the phase, the scheduler is not draining. -/
example : (run k1 {} 1 (phase1.take 4)).jl.status ≠ .returned ∧
    (run k1 {} 1 (phase1.take 4 ++ [.pass none])).jl.status = .returned ∧
    (run k1 {} 1 (phase1.take 4)).draining = false := by decide +kernel

/-- ... and the phase could NOT end one pass earlier: with `A` eligible the pass `pass none` is not enabled
(the kernel does not answer "nothing"), the state is unchanged. -/
example : (run k1 {} 1 [.start, .pass none]).jl.status = .waiting ∧ (run k1 {} 1 [.start, .pass none]).jl.polls = 0 := by
  decide +kernel

/-! ## A parked loop with a free slot -/

/-- Two slots, one job: the loop parks with a free slot; two events that neither wake it nor touch the
database follow. -/
def parked1 : List Build.Ev := [.start, .pass (some kA), .pass none, .start, .hashFin 9 none]

theorem parked1_proviso : ProvisoAlong (init k1 {} 2) parked1 := by
  refine provisoAlong_of_nonBenignOK parked1 _ (by intro h; simp [init] at h) ?_
  simp only [parked1, NonBenignOK]
  exact ⟨fun _ => .inl trivial, fun _ => .inl trivial, fun _ => .inl trivial, fun _ => .inl trivial,
    fun _ => .inl (.inr rfl), trivial⟩

/-- Non-vacuity of `no_lost_wakeup` and `parked_loop_has_a_running_task`: the hypotheses hold, the loop is
parked, a slot is free, the scheduler is not draining. -/
example : (run k1 {} 2 parked1).parked = true ∧ (run k1 {} 2 parked1).jl.running.length < 2 ∧
    (run k1 {} 2 parked1).draining = false ∧ (run k1 {} 2 parked1).jl.running = [.step 1] := by decide +kernel

example : NoEligible (run k1 {} 2 parked1).k {} :=
  (no_lost_wakeup k1 {} 2 parked1 parked1_proviso (by decide +kernel)).2 (by decide +kernel) (by decide +kernel)

/-! ## The proviso is needed: a promoted hash job -/

/-- Two slots.  `A` and `C` run; the hash job of `f` is queued (no slot is free: it is not started); `A`
calls `amend`, whose promoted runner claims the queued job; `C` ends, the loop retires it, drops the claimed
job from the queue, asks the kernel twice (nothing: `B` waits for `f`) and parks with a free slot; then the
promoted runner confirms `f`. -/
def delayed : List Build.Ev :=
  [.start, .pass (some kA), .pass (some kC), .pass none, .submit 0, .pass none, .promote 0,
   .finish 2 [.completed kC (some 9) false], .pass none, .pass none,
   .hashFin 1 (some (.hashes [("f", some 7)] .confirmed))]

/-- The last event of `delayed`: the promoted runner applies its result and ends. -/
def lastEv : Build.Ev := .hashFin 1 (some (.hashes [("f", some 7)] .confirmed))

/-- The state before the last event, and after it. -/
def s10 : Sys := run k0 {} 2 (delayed.take 10)
def s11 : Sys := run k0 {} 2 delayed

theorem s11_eq : s11 = step s10 lastEv := rfl
theorem s10_eq : s10 = run k0 {} 2 (delayed.take 10) := rfl
theorem s11_run : s11 = run k0 {} 2 delayed := rfl

attribute [irreducible] s10 s11

/-- **Counterexample to "no lost wake-up" without the proviso** (kernel-checked).  After `delayed` (state
`s11`) the loop is parked, the wake event is clear, a slot is free, the scheduler is not draining, every
event was legal (`delayed_legal`), and yet step `B` is eligible on refreshed metadata.  Before the last event
(state `s10`) no step was eligible; the last event (the end of a promoted hash job, the one kind of hash-job
end that is not `Benign`) makes `B` eligible and does not set the wake event.  The loop stays parked until
the next wake-up (at the latest the end of job 1, which is still running: `end_of_running_job_unparks`). -/
theorem promoted_hash_job_delays_dispatch :
    s11.parked = true ∧ s11.jl.wake = false ∧ s11.jl.running.length < 2 ∧ s11.draining = false ∧
    s11.jl.running = [.step 1] ∧
    ¬ NoEligible s11.k {} ∧ NoEligible s10.k {} ∧ ¬ WakesOrKeeps s10 lastEv ∧ ¬ Benign s10 lastEv := by
  have hB : isJob (s11.k.popNext {} (some kB)) = true := by decide +kernel
  have hN : isNothing (s10.k.popNext {} none) = true := by decide +kernel
  have hw : (applyEv s10 lastEv).jl.wake = false := by decide +kernel
  have hben : s10.jl.running.contains (.hash 1) = false := by decide +kernel
  have h5 : s11.parked = true ∧ s11.jl.wake = false ∧ s11.jl.running.length < 2 ∧ s11.draining = false ∧
      s11.jl.running = [.step 1] := by decide +kernel
  have hcfg : s10.cfg = {} := by rw [s10_eq]; exact run_cfg _ _ _ _
  have hk : (applyEv s10 lastEv).k = s11.k := by rw [s11_eq]; exact (unpark_frame _).1.symm
  obtain ⟨k', key, chk, rj, hpop⟩ := isJob_spec hB
  obtain ⟨k'', hnone⟩ := isNothing_spec hN
  have hne : ¬ NoEligible s11.k {} := not_noEligible_of_job hpop
  have hbefore : NoEligible s10.k {} := (popNext_none_spec hnone).2.2.2.2.1
  refine ⟨h5.1, h5.2.1, h5.2.2.1, h5.2.2.2.1, h5.2.2.2.2, hne, hbefore, ?_, ?_⟩
  · intro hwk
    unfold WakesOrKeeps at hwk
    rw [hcfg, hk, hw] at hwk
    rcases hwk hbefore with h | h
    · exact hne h
    · cases h
  · intro hb
    rcases hb with hb | hb
    · rw [hben] at hb; cases hb
    · cases hb

/-- The counterexample is a state of the composed system. -/
theorem s11_reachable : s11 = run k0 {} 2 delayed := s11_run

theorem delayed_legal : ∀ e ∈ delayed, e.legal := by
  intro e he
  simp only [delayed, List.mem_cons, List.mem_nil_iff, or_false] at he
  rcases he with rfl | rfl | rfl | rfl | rfl | rfl | rfl | rfl | rfl | rfl | rfl
  all_goals first
    | trivial
    | (intro r hr; simp only [List.mem_cons, List.mem_nil_iff, or_false] at hr; subst hr; trivial)

/-- What does hold in that state (instances of `run_parkedBusy`, `end_of_running_job_unparks`): a task is
running, and its end, whatever its final transaction, takes the loop out of `wait()`; the next pass asks
the kernel and dispatches `B`. -/
example : (step s11 (.finish 1 [.completed kA (some 3) false])).parked = false ∧
    (step (step s11 (.finish 1 [.completed kA (some 3) false])) (.pass (some kB))).jl.running =
      [.step 3] := by decide +kernel

/-! ## The final transaction settles the step -/

/-- The state in which job 1 of `phase1` finishes. -/
def p3 : Sys := step (step (step (init k1 {} 1) .start) (.pass (some kA))) (.pass none)

theorem p3_eq : p3 = step (step (step (init k1 {} 1) .start) (.pass (some kA))) (.pass none) := rfl

attribute [irreducible] p3

/-- Non-vacuity of `run_inFlightLink`: the hypotheses hold for `phase1` (its final transaction is
`mark_completed` of the step of the job and is accepted). -/
theorem phase1_finishOK : FinishOKAlong (init k1 {} 1) phase1 := by
  simp only [phase1, FinishOKAlong, FinishOK, and_true, true_and]
  rw [← p3_eq]
  have hs : (txn p3.k p3.cfg ([] ++ [.completed kA (some 5) false])).isSome = true := by decide +kernel
  have ha : p3.assigned = [(1, kA, false)] := by decide +kernel
  obtain ⟨k', hk'⟩ := Option.isSome_iff_exists.1 hs
  exact finishOK_of_settling p3 1 [] _ k' hk' (fun a hmem _ => by
    rw [ha] at hmem
    simp only [List.mem_cons, List.mem_nil_iff, or_false] at hmem
    subst hmem; rfl)

example : InFlightLink (run k1 {} 1 phase1) :=
  run_inFlightLink k1 {} 1 phase1 (by decide +kernel) phase1_legal phase1_finishOK

end StepupModel.B.Build.Witness
