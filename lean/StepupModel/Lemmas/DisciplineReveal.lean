import StepupModel.Lemmas.DisciplineDebt
/-!
# The flag discipline: rows that become visible

`Reveal X s s'`: the rows of the keys in `X` are hidden in `s` (detached or absent: the discipline of
no other step reads them) and may be anything in `s'`; every other row changes softly; dependency
rows may disappear, but only rows that end in `X`.  This is what `Node.reattach`, the recycling branch
of `Trellis.create` and the creation of a node do to a state.  `wd_reveal`: the debt grows by `X` and
by the sources of `X` only.  In particular the steps two hops upstream of a step that becomes
attached are **not** in the debt: the new consumer is (it counts as flagged), which is why
`Step.reattach` need not flag upstream (`RECURSIVE_CHECK_AFTER_SOURCES` is for `detach` only).
-/
namespace StepupModel.K.Discipline
open StepupModel.K.MetaAfter StepupModel.Lemmas
set_option linter.unusedSimpArgs false
set_option linter.unusedVariables false

theorem all₂_append {α : Type} {R : α → α → Prop} :
    ∀ {a a' b b' : List α}, All₂ R a a' → All₂ R b b' → All₂ R (a ++ b) (a' ++ b')
  | _, _, _, _, .nil, h => h
  | _, _, _, _, .cons h t, h' => .cons h (all₂_append t h')

theorem all₂_flatMap {α β : Type} {R : β → β → Prop} (f g : α → List β) :
    ∀ (l : List α), (∀ x ∈ l, All₂ R (f x) (g x)) → All₂ R (l.flatMap f) (l.flatMap g)
  | [], _ => .nil
  | x :: l, h => by
    simp only [List.flatMap_cons]
    exact all₂_append (h x List.mem_cons_self) (all₂_flatMap f g l fun y hy => h y (List.mem_cons_of_mem _ hy))

theorem filterMap_filter_ite {α β : Type} (q : α → Bool) (h : α → Option β) :
    ∀ (l : List α), (l.filter q).filterMap h = l.filterMap fun x => if q x then h x else none
  | [] => rfl
  | x :: l => by
    simp only [List.filter_cons, List.filterMap_cons]
    cases hq : q x with
    | true => simp only [if_true, List.filterMap_cons, filterMap_filter_ite q h l]
    | false => simp only [Bool.false_eq_true, if_false, filterMap_filter_ite q h l]

/-- The rows of `X` become visible; `rem` selects the dependency rows that disappear. -/
structure Reveal (X : Key → Prop) (rem : Dep → Bool) (s s' : KState) : Prop where
  deps : s'.deps = s.deps.filter fun d => !rem d
  remX : ∀ d ∈ s.deps, rem d = true → X d.snk
  find : ∀ c, ¬ X c → OptRel SoftRow (s.find? c) (s'.find? c)
  mem : ∀ n' ∈ s'.nodes, ¬ X n'.key → ∃ n ∈ s.nodes, SoftRow n n'
  hidden : ∀ c, X c → ∀ n, s.find? c = some n → n.detached = true

/-- The debt of a revelation: the revealed keys and their sources. -/
def Revealed (X : Key → Prop) (deps : List Dep) (k : Key) : Prop := X k ∨ ∃ x, X x ∧ Edge deps k x

theorem consumerSel_hidden {s : KState} {c : Key} (h : ∀ n, s.find? c = some n → n.detached = true) :
    (match s.find? c with
      | some m => if m.key.kind = Kind.step ∧ (!m.detached) = true then some m else none
      | none => none) = none := by
  cases hf : s.find? c with
  | none => rfl
  | some m =>
    have : ¬ (m.key.kind = Kind.step ∧ (!m.detached) = true) := by
      intro hh
      rw [h m hf] at hh
      exact absurd hh.2 (by decide)
    simp only [if_neg this]

/-- **Rows that become visible** add themselves and their sources to the debt, nothing else. -/
theorem wd_reveal {F X : Key → Prop} {rem : Dep → Bool} {s s' : KState} {cfg : KConfig} (h : Reveal X rem s s') (hc : WD F s cfg) :
    WD (fun k => F k ∨ Revealed X s.deps k) s' cfg := by
  refine wd_transfer (fun k hk => .inl hk) ?_ hc
  intro n' hn' h1 h2 h3 h4
  have hnX : ¬ X n'.key := fun hx => h4 (.inr (.inl hx))
  obtain ⟨n, hn, hk, hd, _, hmono, htr⟩ := h.mem n' hn' hnX
  have hflag0 : n.checkAfter = false := by
    cases hx : n.checkAfter with
    | false => rfl
    | true => rw [hmono hx] at h3; cases h3
  have hsame : n'.need = n.need ∧ n'.impliedNeed = n.impliedNeed ∧ n'.tail = n.tail := by
    rcases htr with hf | hh
    · rw [h3] at hf; cases hf
    · exact hh
  -- no edge from this key into `X`
  have hnoX : ∀ c, Edge s.deps n'.key c → ¬ X c := fun c he hx => h4 (.inr (.inr ⟨c, hx, he⟩))
  have hs1 : s'.sinksOf n'.key = s.sinksOf n'.key := by
    have := sinksOf_filter (s := s) (p := rem) (k := n'.key) (by
      intro d hdm hr he
      exact hnoX d.snk ⟨d, hdm, he, rfl⟩ (h.remX d hdm hr))
    unfold KState.sinksOf at this ⊢
    rw [h.deps]; exact this
  refine ⟨n, hn, hk.symm, hd ▸ h2, hflag0, hsame.1.symm, hsame.2.1.symm, hsame.2.2.symm, ?_, ?_⟩
  · -- regular outputs: the sinks are outside `X`, their rows change softly
    unfold KState.regularOutputs
    rw [hs1]
    apply filterMap_congr'
    intro c hc
    have := h.find c (hnoX c (mem_sinksOf.1 hc))
    revert this
    cases s.find? c <;> cases s'.find? c <;> intro this
    · rfl
    · exact this.elim
    · exact this.elim
    · rename_i m m'
      have hv := SoftRow.volatile this
      obtain ⟨hk', hd', _, _, _⟩ := this
      simp only [hk', hd', lookupRegularOutput_eq]
      have : decide (m'.fstate ≠ .volatile) = decide (m.fstate ≠ .volatile) := by
        by_cases hx : m.fstate = .volatile
        · simp [hx, hv.2 hx]
        · have : ¬ m'.fstate = .volatile := fun hy => hx (hv.1 hy)
          simp [hx, this]
      rw [this]
  · -- consumers
    by_cases hex : ∃ m' ∈ s'.consumerSteps n'.key, m'.checkAfter = true ∨ (F m'.key ∨ Revealed X s.deps m'.key)
    · exact .inl hex
    · right
      have hno : ∀ m' ∈ s'.consumerSteps n'.key, m'.checkAfter = false ∧ ¬ F m'.key ∧ ¬ X m'.key := by
        intro m' hm'
        refine ⟨?_, fun hx => hex ⟨m', hm', .inr (.inl hx)⟩, fun hx => hex ⟨m', hm', .inr (.inr (.inl hx))⟩⟩
        cases hx : m'.checkAfter with
        | false => rfl
        | true => exact absurd ⟨m', hm', .inl hx⟩ hex
      -- the two consumer lists are related row by row
      have hrel : All₂ SoftRow (s.consumerSteps n'.key) (s'.consumerSteps n'.key) := by
        have e1 : s.consumerSteps n'.key = (s.sinksOf n'.key).flatMap fun f =>
            (s.deps.filter fun d => decide (d.src = f)).filterMap fun d =>
              match s.find? d.snk with
              | some m => if m.key.kind = Kind.step ∧ (!m.detached) = true then some m else none
              | none => none := by
          unfold KState.consumerSteps
          rw [filterMap_flatMap']
          apply flatMap_congr'
          intro f _
          unfold KState.sinksOf
          rw [List.filterMap_map]; rfl
        have e2 : s'.consumerSteps n'.key = (s.sinksOf n'.key).flatMap fun f =>
            (s.deps.filter fun d => decide (d.src = f)).filterMap fun d =>
              if (!rem d) = true then
                (match s'.find? d.snk with
                 | some m => if m.key.kind = Kind.step ∧ (!m.detached) = true then some m else none
                 | none => none)
              else none := by
          unfold KState.consumerSteps
          rw [hs1, filterMap_flatMap']
          apply flatMap_congr'
          intro f _
          unfold KState.sinksOf
          rw [List.filterMap_map, h.deps, List.filter_filter]
          have hcomm : (s.deps.filter fun d => (decide (d.src = f) && !rem d)) =
              (s.deps.filter fun d => decide (d.src = f)).filter fun d => !rem d := by
            rw [List.filter_filter]
            apply List.filter_congr
            intro d _
            exact Bool.and_comm _ _
          rw [hcomm, filterMap_filter_ite]; rfl
        rw [e1, e2]
        apply all₂_flatMap
        intro f hf
        apply forall₂_filterMap
        intro d hdm
        have hdm' := (List.mem_filter.1 hdm).1
        have hsf : d.src = f := by simpa using (List.mem_filter.1 hdm).2
        by_cases hx : X d.snk
        · -- hidden before; afterwards either removed or (by `hno`) not counted
          rw [consumerSel_hidden (h.hidden d.snk hx)]
          cases hr : rem d with
          | true => simp only [Bool.not_true, Bool.false_eq_true, if_false]; trivial
          | false =>
            simp only [Bool.not_false, if_true]
            cases hf' : s'.find? d.snk with
            | none => trivial
            | some m' =>
              simp only
              by_cases hcm : m'.key.kind = Kind.step ∧ (!m'.detached) = true
              · exfalso
                have hmem : m' ∈ s'.consumerSteps n'.key := by
                  refine mem_consumerSteps.2 ⟨f, ?_, d.snk, ?_, hf', hcm.1, by simpa using hcm.2⟩
                  · rw [hs1]; exact hf
                  · unfold KState.sinksOf
                    rw [h.deps]
                    refine List.mem_map.2 ⟨d, List.mem_filter.2 ⟨List.mem_filter.2 ⟨hdm', by simp [hr]⟩, by simp [hsf]⟩, rfl⟩
                exact (hno m' hmem).2.2 (by rw [find_key hf']; exact hx)
              · simp only [if_neg hcm]; trivial
        · have hr : rem d = false := by
            cases hr : rem d with
            | false => rfl
            | true => exact absurd (h.remX d hdm' hr) hx
          simp only [hr, Bool.not_false, if_true]
          have := h.find d.snk hx
          revert this
          cases s.find? d.snk <;> cases s'.find? d.snk <;> intro this
          · trivial
          · exact this.elim
          · exact this.elim
          · rename_i m m'
            obtain ⟨hk', hd', _⟩ := id this
            simp only [hk', hd']
            by_cases hcm : m.key.kind = Kind.step ∧ (!m.detached) = true
            · simp only [hcm, and_self, if_true]; exact this
            · simp only [hcm, if_false]; trivial
      refine ⟨?_, fun m hm => ?_⟩
      · unfold consumerPairs
        exact pairs_of_rows hrel fun m' hm' => (hno m' hm').1
      · obtain ⟨m', hm', hr⟩ := forall₂_mem_left hrel m hm
        refine ⟨?_, fun hx => (hno m' hm').2.1 (hr.1 ▸ hx)⟩
        cases hx : m.checkAfter with
        | false => rfl
        | true =>
          have := (hno m' hm').1
          rw [hr.2.2.2.1 hx] at this; cases this

end StepupModel.K.Discipline
