import StepupModel.Lemmas.ReadyDisciplineBase
import StepupModel.Lemmas.MetaSafe
import StepupModel.Lemmas.MetaAfter
/-!
# The flag discipline of `_update_meta_ready` over requests and histories

The scheduler caches per step the column `_ready` ("no input of the step is unavailable") and
recomputes it only for the steps flagged `_check_ready` (`KState.updateMetaReady`); the dispatch
decision (`SELECT_NEXT_STEP`, `KState.eligible`) reads the cache.  `CacheInvReady s`
(`Lemmas/ReadyDisciplineBase.lean`): **every step, attached or not, whose flag is down has
`_ready = computeReady`**, the definition evaluated on the graph.  It ranges over all steps: the
triggers flag sinks whatever their `detached` flag, and nothing weaker is needed.

Main results (`RI s` = one row per key ∧ `CacheInvReady s`; no side condition on the requests, the
configuration may change from request to request):

* `stableR_ri` (Base): every primitive write with its triggers keeps `RI`;
  `exec_readyDiscipline` / `step_readyDiscipline` / `run_readyDiscipline` /
  `reachable_readyDiscipline`: every request, accepted or rejected, and every history keeps it.
* `reachable_updateMetaReady_exact`, `updateMeta_ready_exact`, `reachable_updateMeta_ready_exact`:
  after every history `_update_meta_ready` (hence `_update_meta`) leaves every step unflagged with
  `_ready` equal to the definition on the graph.
* `dispatched_step_has_no_unavailable_input`, `reachable_dispatch_no_unavailable_input`: a step that
  `pop_next_job` dispatches has no unavailable input in the database (stated on the graph: on the state
  the request found, on the state with refreshed metadata, and on the state it leaves), spelled out by
  `noUnavailableInput_spec`.
* `file_state_trigger_needed`, `detached_trigger_needed`, `dependency_trigger_needed`,
  `dynamic_trigger_needed`: the invariant is not vacuous: each of the four kinds of hard write,
  performed without its trigger, breaks it on a small state.
* `cacheInvReadyB` / `cacheInvReadyB_iff`: the executable form.

Per model function (every verdict is "preserved"; no counterexample exists, so none is filed):

| function | verdict | theorem |
|---|---|---|
| any rewrite of columns other than `key`, `fstate`, `detached`, `_ready`, `_check_ready` (`setHash`, `deleteHash`, `hold`, `release`, `setStepExtras`, `amendEnv`, `registerNglob`, `handOver`, creator column of `setCreator`, `flagChecksWithProducts`, `flagCheckAfterSources`, `flagDynamicSuppliers`, `applyAfterUpdates`, `reconcileTarget(s)`, `reconcileTargetDirs`, `updateMetaSafe`, `updateMetaAfter`) | preserved | `cache_ri`, `stableR_ri.*_preserves` |
| `flagReadySinks`, `flagDepEndpoints` | preserved | `flagReadySinks_cir`, `flagDepEndpoints_cir` |
| `setDetachedRow`, `setDetachedRec`, `setCreator` | preserved | `setDetachedRow_ri`, `stableR_ri.setDetachedRec`, `stableR_ri.setCreator_preserves` |
| `fileRowWrite`/`writeFile`, `setFileState` | preserved | `writeFile_ri` |
| `stepRowWrite`/`writeStepState`, `setStepState`, `initStepRow` | preserved | `stepWrite_ri`, `stepInit_ri` |
| `insertDep`, `addSourceChecked`, `insertNewEdges` | preserved | `insertDep_ri` |
| `deleteDeps`, `dropDynamicInputs`, `dropDynamicSink` | preserved | `deleteDeps_ri`, `stableR_ri.dropDynamicInputs` |
| `setDynamic`, `markDynamic` | preserved | `setDynamic_ri`, `stableR_ri.markDynamic` |
| `appendNode` (+ `writeInitialFile` for a fresh file), `initRow`, `initFileRow`, `create`, `recycleCore` | preserved (`create` for a file key with a file initialiser: `KindOK`, true at every call site) | `appendNode_ri`, `freshFile_ri`, `stableR_ri.create_preserves` |
| `markStepPending`, `markFileOutdated`, `markConsumersPending`, `pendCreator`, `handleUpdated`, `handleDeleted`, `updateFileHashes` | preserved | `stableR_ri.updateFileHashes_preserves` etc. |
| `detach`, `detachCore`, `detachFlags`, `reattach`, `reattachCore`, `lostProduct`, `afterLostProduct`, `detachProducts`, `detachCreatedSteps`, `detachProductsWhere` | preserved | `stableR_ri.detach_preserves`, `stableR_ri.reattach_preserves` |
| `declareFile`, `declareAll`, `declareStaticFiles`, `registerStaticTree`, `registerTrees`, `declareStaticRequest`, `resolveSupply`, `supplyFiles`, `declareProducts`, `createStep`, `recycleStep`, `afterRecycle`, `defineStep`, `amendProducts`, `amendStep`, `registerNglobs` | preserved | `stableR_ri.defineStep_preserves`, `stableR_ri.amendStep_preserves`, ... |
| `resetForRerun`, `outdateBuilt`, `outdateBuiltProducts`, `rebuildOutdatedProducts`, `completeFailure`, `completeSuccess`, `markCompleted` | preserved | `stableR_ri.markCompleted_preserves` |
| `revertOutput`, `revertStep`, `revertOptional`, `resetInterrupted`, `rescanEnvVars`, `checkConsistency` | preserved | `stableR_ri.revertOptional_preserves` etc. |
| `beforeDelete`, `deletePass` (row removal), `deleteDetachedBase`, `deleteDetached` | preserved (a deleted row has no outgoing edge: `cands_no_out`) | `removeNode_ri`, `stableR_ri.deleteDetached_preserves` |
| `updateMetaReady`, `updateMeta`, `popNext` | preserved, and establish the exact form | `updateMetaReady_all`, `updateMeta_ready_exact` |
| `KState.exec`, `step`, `run` | preserved | `exec_readyDiscipline`, `step_readyDiscipline`, `run_readyDiscipline` |
-/
namespace StepupModel.K.ReadyDisc
open StepupModel.K StepupModel.Lemmas StepupModel.Generated
set_option linter.unusedSimpArgs false
set_option linter.unusedVariables false

/-! ## Requests and histories -/

/-- **Every accepted request keeps the flag discipline of `_ready`** (no side condition). -/
theorem exec_readyDiscipline (cfg : KConfig) (r : Req) (s : KState) (res : KState × String) (hp : RI s)
    (h : s.exec cfg r = .ok res) : RI res.1 := exec_stableR stableR_ri cfg r s res hp h

/-- One transaction, accepted or rejected and rolled back. -/
theorem step_readyDiscipline (cfg : KConfig) (r : Req) (s : KState) (hp : RI s) : RI (s.step cfg r) :=
  step_stableR stableR_ri cfg r s hp

/-- Every history, each request under the configuration of its moment. -/
theorem run_readyDiscipline (h : List (KConfig × Req)) (s : KState) (hp : RI s) : RI (s.run h) :=
  run_stableR stableR_ri h s hp

/-- **The flag discipline of `_ready` holds after every history of requests.** -/
theorem reachable_readyDiscipline (h : List (KConfig × Req)) : RI (KState.init.run h) :=
  reachable_stableR stableR_ri ri_init h

theorem reachable_cacheInvReady (h : List (KConfig × Req)) : CacheInvReady (KState.init.run h) :=
  (reachable_readyDiscipline h).2

/-- The form the driver samples. -/
theorem reachable_cacheInvReadyB (h : List (KConfig × Req)) : cacheInvReadyB (KState.init.run h) = true :=
  (cacheInvReadyB_iff _).2 (reachable_cacheInvReady h)

/-! ## `_update_meta_ready` and `_update_meta` are exact -/

/-- Every step is unflagged and carries the definition of `_ready` on the graph. -/
def ReadyExact (s : KState) : Prop :=
  ∀ n ∈ s.nodes, n.key.kind = .step → n.checkReady = false ∧ n.ready = s.computeReady n.key

/-- Two states with the same edges and the same source rows as far as readiness reads them. -/
def SameGraph (s s' : KState) : Prop :=
  s'.deps = s.deps ∧ ∀ q, (s'.find? q).map view = (s.find? q).map view

theorem SameGraph.refl (s : KState) : SameGraph s s := ⟨rfl, fun _ => rfl⟩

theorem SameGraph.trans {a b c : KState} (h1 : SameGraph a b) (h2 : SameGraph b c) : SameGraph a c :=
  ⟨h2.1.trans h1.1, fun q => (h2.2 q).trans (h1.2 q)⟩

theorem SameGraph.inputBlocks {s s' : KState} (h : SameGraph s s') (d : Dep) : s'.inputBlocks d = s.inputBlocks d :=
  inputBlocks_congr (h.2 d.src)

theorem SameGraph.computeReady {s s' : KState} (h : SameGraph s s') (t : Key) : s'.computeReady t = s.computeReady t :=
  computeReady_of_views h.1 h.2 t

/-- States whose rows agree up to a projection that forgets cache columns only. -/
theorem sameGraph_of_erase {s s' : KState} (e : Node → Node) (hk : ∀ n, (e n).key = n.key)
    (hv : ∀ n, view (e n) = view n) (hd : s'.deps = s.deps) (hn : s'.nodes.map e = s.nodes.map e) :
    SameGraph s s' := by
  refine ⟨hd, fun q => ?_⟩
  have key : ∀ l : List Node, (l.find? (·.key = q)).map view = ((l.map e).find? (·.key = q)).map view := by
    intro l
    rw [find?_map_key l e (fun n _ => hk n) q, Option.map_map]
    congr 1
    funext n
    exact (hv n).symm
  unfold KState.find?
  rw [key s'.nodes, key s.nodes, hn]

theorem updateMetaSafe_sameGraph {s s' : KState} (h : s.updateMetaSafe = .ok s') : SameGraph s s' := by
  obtain ⟨hd, _, hn⟩ := MetaSafe.updateMetaSafe_frame h
  exact sameGraph_of_erase MetaSafe.eraseSafe (fun _ => rfl) (fun _ => rfl) hd hn

theorem updateMetaAfter_sameGraph {s s' : KState} {cfg : KConfig} (h : s.updateMetaAfter cfg = .ok s') :
    SameGraph s s' := by
  obtain ⟨hd, _, hn⟩ := MetaAfter.updateMetaAfter_frame s s' cfg h
  exact sameGraph_of_erase MetaAfter.eraseAfter (fun _ => rfl) (fun _ => rfl) hd hn

theorem updateMetaReady_sameGraph (s : KState) : SameGraph s s.updateMetaReady := by
  refine ⟨rfl, fun q => ?_⟩
  refine views_map_eq (s := s) (s' := s.updateMetaReady) _ (modifyWhere_nodes s _ _) (fun m _ => ?_) q (fun m _ _ => ?_)
  · split <;> rfl
  · unfold view; split <;> rfl

/-- The three passes of `_update_meta`, taken apart. -/
theorem updateMeta_parts {s s' : KState} {cfg : KConfig} (h : s.updateMeta cfg = .ok s') :
    ∃ s1 s2, s.updateMetaSafe = .ok s1 ∧ s1.updateMetaAfter cfg = .ok s2 ∧ s' = s2.updateMetaReady := by
  unfold KState.updateMeta at h
  simp only [bind, Except.bind] at h
  cases h1 : s.updateMetaSafe with
  | error e => simp [h1] at h
  | ok s1 =>
    simp only [h1] at h
    cases h2 : s1.updateMetaAfter cfg with
    | error e => simp [h2] at h
    | ok s2 =>
      simp only [h2, pure, Except.pure, Except.ok.injEq] at h
      exact ⟨s1, s2, rfl, h2, h.symm⟩

/-- `_update_meta` writes cache columns only: the graph that readiness is defined on is untouched. -/
theorem updateMeta_sameGraph {s s' : KState} {cfg : KConfig} (h : s.updateMeta cfg = .ok s') : SameGraph s s' := by
  obtain ⟨s1, s2, h1, h2, rfl⟩ := updateMeta_parts h
  exact ((updateMetaSafe_sameGraph h1).trans (updateMetaAfter_sameGraph h2)).trans (updateMetaReady_sameGraph s2)

/-- On a state that obeys the discipline, `_update_meta_ready` is exact. -/
theorem updateMetaReady_exact {s : KState} (hc : CacheInvReady s) : ReadyExact s.updateMetaReady :=
  updateMetaReady_all hc

/-- **After every history, `_update_meta_ready` leaves every step unflagged with `_ready` equal to the
definition**, evaluated on the new state or, equivalently, on the state it was run on. -/
theorem reachable_updateMetaReady_exact (h : List (KConfig × Req)) :
    ∀ n ∈ (KState.init.run h).updateMetaReady.nodes, n.key.kind = .step →
      n.checkReady = false ∧ n.ready = (KState.init.run h).updateMetaReady.computeReady n.key ∧
        n.ready = (KState.init.run h).computeReady n.key := by
  intro n hn hk
  obtain ⟨h1, h2⟩ := updateMetaReady_exact (reachable_cacheInvReady h) n hn hk
  exact ⟨h1, h2, h2.trans ((updateMetaReady_sameGraph _).computeReady n.key)⟩

/-- On a state that obeys the discipline, `_update_meta` keeps it and is exact for `_ready`. -/
theorem updateMeta_ready_exact {s s' : KState} {cfg : KConfig} (hp : RI s) (h : s.updateMeta cfg = .ok s') :
    RI s' ∧ ReadyExact s' := by
  obtain ⟨s1, s2, h1, h2, rfl⟩ := updateMeta_parts h
  have hp1 : RI s1 := stableR_ri.updateMetaSafe_preserves s s1 hp h1
  have hp2 : RI s2 := stableR_ri.updateMetaAfter_preserves cfg s1 s2 hp1 h2
  exact ⟨updateMetaReady_ri s2 hp2, updateMetaReady_exact hp2.2⟩

/-- **After every history, `_update_meta` (if it terminates) leaves every step with
`_ready = computeReady`**, on the refreshed state and on the state before the refresh. -/
theorem reachable_updateMeta_ready_exact (h : List (KConfig × Req)) (cfg : KConfig) (s' : KState)
    (hu : (KState.init.run h).updateMeta cfg = .ok s') :
    ∀ n ∈ s'.nodes, n.key.kind = .step →
      n.checkReady = false ∧ n.ready = s'.computeReady n.key ∧ n.ready = (KState.init.run h).computeReady n.key := by
  intro n hn hk
  obtain ⟨h1, h2⟩ := (updateMeta_ready_exact (reachable_readyDiscipline h) hu).2 n hn hk
  exact ⟨h1, h2, h2.trans ((updateMeta_sameGraph hu).computeReady n.key)⟩

/-! ## Dispatch -/

/-- No edge into `k` has an unavailable source, read off the graph (not the cache). -/
def NoUnavailableInput (s : KState) (k : Key) : Prop := ∀ d ∈ s.deps, d.snk = k → s.inputBlocks d = false

theorem computeReady_true_iff (s : KState) (k : Key) : s.computeReady k = true ↔ NoUnavailableInput s k := by
  unfold KState.computeReady NoUnavailableInput
  rw [Bool.not_eq_true', List.any_eq_false]
  constructor
  · intro h d hd hk
    have := h d hd
    simp only [hk, decide_true, Bool.true_and] at this
    cases hb : s.inputBlocks d with
    | false => rfl
    | true => exact absurd hb this
  · intro h d hd
    by_cases hk : d.snk = k
    · simp [hk, h d hd hk]
    · simp [hk]

theorem SameGraph.noUnavailableInput {s s' : KState} (h : SameGraph s s') (k : Key) :
    NoUnavailableInput s' k ↔ NoUnavailableInput s k := by
  rw [← computeReady_true_iff, ← computeReady_true_iff, h.computeReady]

/-- `UNAVAILABLE_INPUT_WHERE` (the regenerated truth table) read backwards. -/
theorem lookupUnavailable_false {st : FileState} {dyn detached : Bool} (h : lookupUnavailable st dyn detached = false) :
    st ≠ .volatile ∧ (dyn = false → detached = false ∧ (st = .built ∨ st = .confirmed)) ∧
      (dyn = true → ¬ (detached = false ∧ (st = .planned ∨ st = .outdated))) := by
  revert h
  cases st <;> cases dyn <;> cases detached <;> decide

/-- What "no unavailable input" says of each input file that has a row: it is not volatile; an
initial (declared) input is attached and BUILT or CONFIRMED; an amended input is not an attached
PLANNED or OUTDATED file. -/
theorem noUnavailableInput_spec {s : KState} {k : Key} (h : NoUnavailableInput s k) :
    ∀ d ∈ s.deps, d.snk = k → ∀ f, s.find? d.src = some f → f.key.kind = .file →
      f.fstate ≠ .volatile ∧ (d.dyn = false → f.detached = false ∧ (f.fstate = .built ∨ f.fstate = .confirmed)) ∧
        (d.dyn = true → ¬ (f.detached = false ∧ (f.fstate = .planned ∨ f.fstate = .outdated))) := by
  intro d hd hk f hf hkind
  have hb := h d hd hk
  unfold KState.inputBlocks at hb
  rw [hf] at hb
  simp only [hkind, decide_true, Bool.true_and] at hb
  exact lookupUnavailable_false hb

/-- The step-only part of `STEP_DISPATCH_WHERE` (the regenerated table) accepts PENDING ready steps only. -/
theorem dispatchRows_ready (st : StepState) (a b c d : Bool) (need : Need) (r : Bool)
    (h : dispatchRows.contains (st, a, b, c, d, need, r) = true) : st = .pending ∧ r = true := by
  have key : dispatchRows.contains (st, a, b, c, d, need, r) =
      (decide (st = .pending) && (a || (b && c)) && !d && decide (need ≠ .optional) && r) := by
    cases st <;> cases a <;> cases b <;> cases c <;> cases d <;> cases need <;> cases r <;> rfl
  rw [key] at h
  simp only [Bool.and_eq_true, decide_eq_true_eq] at h
  exact ⟨h.1.1.1.1, h.2⟩

/-- A step accepted by the model of `SELECT_NEXT_STEP` is an attached PENDING step whose cached
`_ready` is up. -/
theorem eligible_ready {s : KState} {cfg : KConfig} {n : Node} (h : s.eligible cfg n = true) :
    n.key.kind = .step ∧ n.sstate = .pending ∧ n.detached = false ∧ n.ready = true := by
  unfold KState.eligible at h
  simp only [Bool.and_eq_true, decide_eq_true_eq, Bool.not_eq_true'] at h
  obtain ⟨⟨⟨⟨hk, hrow⟩, _⟩, hdet⟩, _⟩ := h
  obtain ⟨h1, h2⟩ := dispatchRows_ready _ _ _ _ _ _ _ hrow
  exact ⟨hk, h1, hdet, h2⟩

/-- What a successful dispatch of `popNext` consists of. -/
theorem popNext_job {s s' : KState} {cfg : KConfig} {choice : Option Key} {k : Key} {chk run : Bool}
    (h : s.popNext cfg choice = .ok (s', .job k chk run)) :
    ∃ su n, s.updateMeta cfg = .ok su ∧ n ∈ su.nodes ∧ n.key = k ∧ su.eligible cfg n = true ∧
      su.setStepState k (if n.hasHash = true then StepState.checking else StepState.running) = .ok s' := by
  unfold KState.popNext at h
  cases hu : s.updateMeta cfg with
  | error e => simp [hu, bind, Except.bind] at h
  | ok su =>
    simp only [hu, bind, Except.bind] at h
    cases choice with
    | none =>
      simp only at h
      split at h
      · simp only [pure, Except.pure, Except.ok.injEq, Prod.mk.injEq] at h
        cases h.2
      · cases h
    | some k0 =>
      simp only at h
      cases hf : (su.nodes.filter (su.eligible cfg)).find? (·.key = k0) with
      | none => simp [hf] at h
      | some n =>
        simp only [hf] at h
        have hmem := List.mem_of_find?_eq_some hf
        have hkey : n.key = k0 := by simpa using List.find?_some hf
        rw [List.mem_filter] at hmem
        split at h
        · cases h
        · split at h
          · cases h
          · cases hj : su.deriveJob k0 with
            | error e => simp [hj] at h
            | ok run0 =>
              simp only [hj] at h
              cases hs : su.setStepState k0 (if n.hasHash = true then StepState.checking else StepState.running) with
              | error e => simp [hs] at h
              | ok s2 =>
                simp only [hs, pure, Except.pure, Except.ok.injEq, Prod.mk.injEq, Dispatch.job.injEq] at h
                obtain ⟨rfl, rfl, _, _⟩ := h
                exact ⟨su, n, rfl, hmem.1, hkey, hmem.2, hs⟩

/-- A write of the `step` table leaves the graph that readiness reads alone. -/
theorem setStepState_sameGraph {s s' : KState} {k : Key} {st : StepState} {d : Bool} (hk : KeysNodup s)
    (h : s.setStepState k st d = .ok s') : SameGraph s s' := by
  unfold KState.setStepState KState.writeStepState at h
  cases hf : s.find? k with
  | none => simp [hf, pure, Except.pure] at h; subst h; exact SameGraph.refl s
  | some n =>
    simp only [hf, bind, Except.bind] at h
    cases hw : stepRowWrite n st (some d) with
    | error e => simp [hw] at h
    | ok n' =>
      simp only [hw, pure, Except.pure, Except.ok.injEq] at h
      subst h
      have hnr := stepRowWrite_spec hw
      refine ⟨rfl, fun q => ?_⟩
      refine views_map_eq (s := s) _ (modify_nodes s k _) (fun m hm => ?_) q (fun m hm _ => ?_)
      · split
        · rename_i hmk; rw [hnr.1, find_key hf, hmk]
        · rfl
      · split
        · rename_i hmk
          have : m = n := eq_of_key hk hm (find?_mem s k n hf).1 (hmk.trans (find_key hf).symm)
          subst this
          unfold view
          rw [hnr.2.1, hnr.2.2.1]
        · rfl

/-- **A step that `pop_next_job` dispatches has no unavailable input in the database at the moment of
dispatch**, on a state that obeys the flag discipline: on the state the request found (`s`), on the
state with refreshed metadata in which the choice is made, and on the state the request leaves. -/
theorem dispatched_step_has_no_unavailable_input {s s' : KState} {cfg : KConfig} {choice : Option Key} {k : Key}
    {chk run : Bool} (hp : RI s) (h : s.popNext cfg choice = .ok (s', .job k chk run)) :
    NoUnavailableInput s k ∧ NoUnavailableInput s' k ∧
      ∃ su, s.updateMeta cfg = .ok su ∧ NoUnavailableInput su k ∧
        ∃ n ∈ su.nodes, n.key = k ∧ n.key.kind = .step ∧ n.sstate = .pending ∧ n.detached = false := by
  obtain ⟨su, n, hu, hn, hkey, hel, hs⟩ := popNext_job h
  obtain ⟨hri, hex⟩ := updateMeta_ready_exact hp hu
  obtain ⟨hkind, hpend, hdet, hready⟩ := eligible_ready hel
  have hcr : su.computeReady k = true := by
    rw [← hkey, ← (hex n hn hkind).2]; exact hready
  have hsu : NoUnavailableInput su k := (computeReady_true_iff su k).1 hcr
  refine ⟨((updateMeta_sameGraph hu).noUnavailableInput k).1 hsu,
    ((setStepState_sameGraph hri.1 hs).noUnavailableInput k).2 hsu, su, hu, hsu, n, hn, hkey, hkind, hpend, hdet⟩

/-- **After every history**: whatever `pop_next_job` dispatches next has no unavailable input. -/
theorem reachable_dispatch_no_unavailable_input (h : List (KConfig × Req)) (cfg : KConfig) (choice : Option Key)
    (s' : KState) (k : Key) (chk run : Bool)
    (hd : (KState.init.run h).popNext cfg choice = .ok (s', .job k chk run)) :
    NoUnavailableInput (KState.init.run h) k ∧ NoUnavailableInput s' k :=
  let r := dispatched_step_has_no_unavailable_input (reachable_readyDiscipline h) hd
  ⟨r.1, r.2.1⟩

/-- The same as one more request of a history: the state after a history that ends with an accepted
`pop` which dispatched `k`. -/
theorem reachable_pop_no_unavailable_input (h : List (KConfig × Req)) (cfg : KConfig) (choice : Option Key)
    (res : KState × String) (k : Key) (chk run : Bool)
    (hd : (KState.init.run h).popNext cfg choice = .ok (res.1, .job k chk run)) :
    KState.init.run (h ++ [(cfg, Req.pop choice)]) = res.1 ∧ NoUnavailableInput res.1 k := by
  refine ⟨?_, (reachable_dispatch_no_unavailable_input h cfg choice res.1 k chk run hd).2⟩
  unfold KState.run
  rw [List.foldl_append]
  simp only [List.foldl_cons, List.foldl_nil]
  unfold KState.step KState.exec
  show (match ((KState.init.run h).popNext cfg choice >>= fun r => pure (r.1, dispatchOut r.2) : M (KState × String)) with
    | .ok (s', _) => s' | .error _ => KState.init.run h) = res.1
  rw [hd]
  rfl

/-! ## The invariant is not vacuous: every trigger is needed -/

/-- A small state that obeys the discipline: step `A`, unflagged and cached ready, reads the attached BUILT
file `f` and (as an amended input) the attached MISSING file `g`; the MISSING file `m` is not an input. -/
def wState : KState :=
  { nodes := [
      { key := rootKey, creator := some rootKey },
      { key := fileKey "f", creator := some rootKey, fstate := .built, fhash := some 1 },
      { key := fileKey "g", creator := some rootKey, fstate := .missing },
      { key := fileKey "m", creator := some rootKey, fstate := .missing },
      { key := stepKey "A", creator := some rootKey, ready := true, checkReady := false }],
    deps := [{ src := fileKey "f", snk := stepKey "A" }, { src := fileKey "g", snk := stepKey "A", dyn := true }] }

/-- The hypotheses of the theorems above are satisfiable by a state with an unflagged step that has inputs. -/
theorem wState_ri : RI wState :=
  ⟨(keysNodup_iff _).2 (by decide), (cacheInvReadyB_iff _).1 (by decide)⟩

example : NoUnavailableInput wState (stepKey "A") := (computeReady_true_iff _ _).1 (by decide)

theorem not_cir_of_B {s : KState} (h : cacheInvReadyB s = false) : ¬ CacheInvReady s := by
  intro hc
  rw [(cacheInvReadyB_iff s).2 hc] at h
  cases h

/-- `step_file_check_ready_upd` is needed: the bare `UPDATE file SET state` breaks the discipline, the
same write followed by the trigger (`KState.writeFile`) keeps it. -/
theorem file_state_trigger_needed :
    ¬ CacheInvReady (wState.modify (fileKey "f") fun n => { n with fstate := .outdated }) ∧
      ∃ s', wState.setFileState (fileKey "f") .outdated = .ok s' ∧ CacheInvReady s' := by
  refine ⟨not_cir_of_B (by decide), ?_⟩
  cases h : wState.setFileState (fileKey "f") .outdated with
  | error e =>
    have : (match wState.setFileState (fileKey "f") .outdated with | .ok _ => true | .error _ => false) = true := by
      decide
    rw [h] at this; cases this
  | ok s' => exact ⟨s', rfl, (writeFile_ri _ _ _ wState s' wState_ri h).2⟩

/-- `step_node_check_ready_detached` is needed. -/
theorem detached_trigger_needed :
    ¬ CacheInvReady (wState.modify (fileKey "f") fun n => { n with detached := true }) ∧
      CacheInvReady (wState.setDetachedRow (fileKey "f") true) :=
  ⟨not_cir_of_B (by decide), (setDetachedRow_ri wState _ _ wState_ri).2⟩

/-- The `_check_ready` part of `step_dependency_check_after_ins` is needed. -/
theorem dependency_trigger_needed :
    ¬ CacheInvReady { wState with deps := wState.deps ++ [({ src := fileKey "m", snk := stepKey "A" } : Dep)] } ∧
      ∃ s', wState.insertDep (fileKey "m") (stepKey "A") = .ok s' ∧ CacheInvReady s' := by
  refine ⟨not_cir_of_B (by decide), ?_⟩
  cases h : wState.insertDep (fileKey "m") (stepKey "A") with
  | error e =>
    have : (match wState.insertDep (fileKey "m") (stepKey "A") with | .ok _ => true | .error _ => false) = true := by
      decide
    rw [h] at this; cases this
  | ok s' => exact ⟨s', rfl, (insertDep_ri _ _ wState s' wState_ri h).2⟩

/-- `dynamic_dep_check_ready_*` is needed: a MISSING amended input does not block, the same edge as
an initial input does. -/
theorem dynamic_trigger_needed :
    ¬ CacheInvReady { wState with deps := wState.deps.map fun (d : Dep) =>
        if (d.src = fileKey "g" ∧ d.snk = stepKey "A") then ({ d with dyn := false } : Dep) else d } ∧
      CacheInvReady (wState.setDynamic (fileKey "g") (stepKey "A") false) :=
  ⟨not_cir_of_B (by decide), (setDynamic_ri wState _ _ _ wState_ri).2⟩

end StepupModel.K.ReadyDisc
